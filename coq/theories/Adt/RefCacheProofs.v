(* ReferenceCache refines "assign Symbol.referent directly": abstraction function abs,
   invariant Inv, one lemma pair per public operation. *)
From Coq Require Import List Bool Arith Lia Permutation.
From GR Require Import Base.Result Adt.RefCache.
Import ListNotations.

(* ---- basics ---- *)
Lemma mem_In x l : mem x l = true <-> In x l.
Proof.
  unfold mem. rewrite existsb_exists. split.
  - intros (y & Hy & E). apply Nat.eqb_eq in E. subst. exact Hy.
  - intros H. exists x. split; [exact H|apply Nat.eqb_refl].
Qed.
Lemma mem_false x l : mem x l = false <-> ~ In x l.
Proof. rewrite <- mem_In. destruct (mem x l); split; congruence. Qed.

Lemma remove_nat_In x y l : In y (remove_nat x l) <-> In y l /\ y <> x.
Proof.
  induction l as [|z t IH]; cbn [remove_nat In]; [tauto|].
  destruct (Nat.eqb x z) eqn:E.
  - apply Nat.eqb_eq in E. subst. rewrite IH. split; [tauto|]. intros [[->|H] Hn]; [congruence|tauto].
  - apply Nat.eqb_neq in E. cbn [In]. rewrite IH. split.
    + intros [->|[H Hn]]; [split; [tauto|congruence]|tauto].
    + intros [[->|H] Hn]; tauto.
Qed.
Lemma remove_nat_NoDup x l : NoDup l -> NoDup (remove_nat x l).
Proof.
  induction 1 as [|z t Hz Hn IH]; cbn [remove_nat]; [constructor|].
  destruct (Nat.eqb x z); [exact IH|]. constructor; [|exact IH]. rewrite remove_nat_In. tauto.
Qed.

Lemma NoDup_app_iff {A} (l l' : list A) :
  NoDup (l ++ l') <-> NoDup l /\ NoDup l' /\ (forall x, In x l -> ~ In x l').
Proof.
  induction l as [|y l IH]; cbn [app].
  - split; [intros H; repeat split; [constructor|exact H|intros x []]|tauto].
  - split.
    + intros H. inversion H as [|? ? Hy Hn]; subst. apply IH in Hn as (H1 & H2 & H3).
      repeat split; [constructor; [intros Hc; apply Hy, in_or_app; tauto|exact H1]|exact H2|].
      intros x [->|Hx]; [intros Hc; apply Hy, in_or_app; tauto|apply H3; exact Hx].
    + intros (H1 & H2 & H3). inversion H1 as [|? ? Hy Hn]; subst. constructor.
      * intros Hc. apply in_app_or in Hc as [Hc|Hc]; [tauto|]. apply (H3 y); [left; reflexivity|exact Hc].
      * apply IH. repeat split; [exact Hn|exact H2|]. intros x Hx. apply H3. right. exact Hx.
Qed.

(* structural induction on trees *)
Lemma tree_ind' (P : tree -> Prop) :
  (forall ss ks, Forall P ks -> P (T ss ks)) -> forall t, P t.
Proof.
  intros H. fix IH 1. intros [ss ks]. apply H.
  induction ks as [|k t IHks]; constructor; [apply IH|exact IHks].
Qed.

(* ---- the abstraction ---- *)
Definition pair_syms (p : tree * tree) : list nat := tsyms (fst p) ++ tsyms (snd p).
Definition fsyms (r : list (nat * (tree * tree))) : list nat := flat_map (fun kv => pair_syms (snd kv)) r.

Definition abs (c : rc) (s : nat) : option nat * bool :=
  match forest_find s (refs c) with
  | Some (b, side) => (Some b, side)
  | None => sym_get s (stab c)
  end.

Definition Inv (c : rc) : Prop :=
  NoDup (fsyms (refs c)) /\ NoDup (map fst (refs c)) /\ NoDup (map fst (stab c)) /\
  (forall s, In s (fsyms (refs c)) -> In s (map fst (stab c)) /\ fst (sym_get s (stab c)) = None).

(* ---- symbol table ---- *)
Lemma sym_get_set s v st x : In s (map fst st) ->
  sym_get x (sym_set s v st) = if Nat.eqb s x then v else sym_get x st.
Proof.
  induction st as [|[k v'] t IH]; cbn [map fst In sym_set sym_get]; [tauto|].
  intros Hin. destruct (Nat.eqb k s) eqn:E.
  - apply Nat.eqb_eq in E. subst k. cbn [sym_get]. destruct (Nat.eqb s x); reflexivity.
  - cbn [sym_get]. destruct Hin as [->|Hin]; [rewrite Nat.eqb_refl in E; discriminate|].
    rewrite (IH Hin). destruct (Nat.eqb k x) eqn:E2; [|reflexivity].
    apply Nat.eqb_eq in E2. subst k. rewrite Nat.eqb_sym, E. reflexivity.
Qed.
Lemma sym_get_set_out s v st x : ~ In s (map fst st) -> sym_get x (sym_set s v st) = sym_get x st.
Proof.
  induction st as [|[k v'] t IH]; cbn [map fst In sym_set sym_get]; [reflexivity|].
  intros Hin. destruct (Nat.eqb k s) eqn:E.
  - apply Nat.eqb_eq in E. subst. tauto.
  - cbn [sym_get]. rewrite IH by tauto. reflexivity.
Qed.
Lemma sym_set_keys s v st : map fst (sym_set s v st) = map fst st.
Proof.
  induction st as [|[k v'] t IH]; cbn [sym_set map fst]; [reflexivity|].
  destruct (Nat.eqb k s); cbn [map fst]; [reflexivity|]. rewrite IH. reflexivity.
Qed.

(* ---- forest lookup ---- *)
Lemma forest_find_none s r : forest_find s r = None <-> ~ In s (fsyms r).
Proof.
  induction r as [|[b [st en]] t IH]; cbn [forest_find fsyms flat_map]; [tauto|].
  unfold pair_syms at 1. cbn [fst snd]. rewrite !in_app_iff.
  destruct (mem s (tsyms st)) eqn:E1; [apply mem_In in E1; split; [discriminate|tauto]|].
  destruct (mem s (tsyms en)) eqn:E2; [apply mem_In in E2; split; [discriminate|tauto]|].
  apply mem_false in E1, E2. rewrite IH. fold (fsyms t). tauto.
Qed.

Lemma forest_find_some s r b side : NoDup (map fst r) -> NoDup (fsyms r) ->
  forest_find s r = Some (b, side) <->
  exists st en, refs_get b r = Some (st, en) /\ In s (tsyms (if side then en else st)).
Proof.
  induction r as [|[b0 [st0 en0]] t IH]; intros Hk Hn; cbn [forest_find refs_get].
  - split; [discriminate|intros (? & ? & H & _); discriminate].
  - cbn [map fst] in Hk. inversion Hk as [|? ? Hb0 Hk']; subst.
    cbn [fsyms flat_map] in Hn. fold (fsyms t) in Hn. unfold pair_syms in Hn at 1. cbn [fst snd] in Hn.
    apply NoDup_app_iff in Hn as (Hn0 & Hnt & Hdisj).
    apply NoDup_app_iff in Hn0 as (_ & _ & Hse).
    destruct (mem s (tsyms st0)) eqn:E1.
    { apply mem_In in E1. split.
      - intros H. injection H as <- <-. exists st0, en0. rewrite Nat.eqb_refl. auto.
      - intros (st & en & Hg & Hin). destruct (Nat.eqb b0 b) eqn:Eb.
        + apply Nat.eqb_eq in Eb. subst. injection Hg as <- <-. destruct side; [exfalso; eapply Hse; eassumption|reflexivity].
        + exfalso. apply (Hdisj s); [apply in_or_app; tauto|].
          clear - Hg Hin. induction t as [|[k [a c]] t IH]; cbn [refs_get] in Hg; [discriminate|].
          cbn [fsyms flat_map]. unfold pair_syms at 1. cbn [fst snd]. destruct (Nat.eqb k b).
          * injection Hg as <- <-. apply in_or_app. left. apply in_or_app. destruct side; tauto.
          * apply in_or_app. right. apply IH. exact Hg. }
    destruct (mem s (tsyms en0)) eqn:E2.
    { apply mem_In in E2. apply mem_false in E1. split.
      - intros H. injection H as <- <-. exists st0, en0. rewrite Nat.eqb_refl. auto.
      - intros (st & en & Hg & Hin). destruct (Nat.eqb b0 b) eqn:Eb.
        + apply Nat.eqb_eq in Eb. subst. injection Hg as <- <-. destruct side; [reflexivity|tauto].
        + exfalso. apply (Hdisj s); [apply in_or_app; tauto|].
          clear - Hg Hin. induction t as [|[k [a c]] t IH]; cbn [refs_get] in Hg; [discriminate|].
          cbn [fsyms flat_map]. unfold pair_syms at 1. cbn [fst snd]. destruct (Nat.eqb k b).
          * injection Hg as <- <-. apply in_or_app. left. apply in_or_app. destruct side; tauto.
          * apply in_or_app. right. apply IH. exact Hg. }
    apply mem_false in E1, E2. rewrite (IH Hk' Hnt). split.
    + intros (st & en & Hg & Hin). exists st, en. split; [|exact Hin].
      destruct (Nat.eqb b0 b) eqn:Eb; [|exact Hg]. apply Nat.eqb_eq in Eb. subst.
      exfalso. apply Hb0. clear - Hg. induction t as [|[k v] t IH]; cbn [refs_get] in Hg; [discriminate|].
      cbn [map fst]. destruct (Nat.eqb k b) eqn:E; [apply Nat.eqb_eq in E; left; exact E|right; apply IH; exact Hg].
    + intros (st & en & Hg & Hin). destruct (Nat.eqb b0 b) eqn:Eb.
      * injection Hg as <- <-. destruct side; tauto.
      * exists st, en. auto.
Qed.

(* ---- set_referent ---- *)
Lemma tree_remove_syms s t : forall x, In x (tsyms (tree_remove s t)) <-> In x (tsyms t) /\ x <> s.
Proof.
  induction t as [ss ks IH] using tree_ind'. intros x. cbn [tree_remove tsyms]. rewrite !in_app_iff, remove_nat_In.
  assert (Hk : In x (flat_map tsyms (map (tree_remove s) ks)) <-> In x (flat_map tsyms ks) /\ x <> s).
  { induction IH as [|k ks Hk Hks IHks]; cbn [map flat_map]; [tauto|]. rewrite !in_app_iff, Hk, IHks. tauto. }
  rewrite Hk. tauto.
Qed.

(* ---- association-list facts for _references ---- *)
Lemma refs_get_set b p r b' :
  refs_get b' (refs_set b p r) = if Nat.eqb b b' then Some p else refs_get b' r.
Proof.
  induction r as [|[k v] t IH]; cbn [refs_set refs_get].
  - destruct (Nat.eqb b b'); reflexivity.
  - destruct (Nat.eqb k b) eqn:E; cbn [refs_get].
    + apply Nat.eqb_eq in E. subst. destruct (Nat.eqb b b'); reflexivity.
    + rewrite IH. destruct (Nat.eqb k b') eqn:E2; [|reflexivity].
      apply Nat.eqb_eq in E2. subst. rewrite Nat.eqb_sym, E. reflexivity.
Qed.

Lemma refs_get_del b r b' : NoDup (map fst r) ->
  refs_get b' (refs_del b r) = if Nat.eqb b b' then None else refs_get b' r.
Proof.
  induction r as [|[k v] t IH]; intros Hn; cbn [refs_del refs_get].
  - destruct (Nat.eqb b b'); reflexivity.
  - cbn [map fst] in Hn. inversion Hn as [|? ? Hk Hn']; subst.
    destruct (Nat.eqb k b) eqn:E.
    + apply Nat.eqb_eq in E. subst. destruct (Nat.eqb b b') eqn:E2; [|reflexivity].
      apply Nat.eqb_eq in E2. subst.
      clear - Hk. induction t as [|[k v] t IH]; cbn [refs_get]; [reflexivity|].
      cbn [map fst In] in Hk. destruct (Nat.eqb k b') eqn:E; [apply Nat.eqb_eq in E; tauto|apply IH; tauto].
    + cbn [refs_get]. rewrite (IH Hn'). destruct (Nat.eqb k b') eqn:E2; [|reflexivity].
      apply Nat.eqb_eq in E2. subst. rewrite Nat.eqb_sym, E. reflexivity.
Qed.

Lemma refs_del_keys b r x : In x (map fst (refs_del b r)) -> In x (map fst r).
Proof.
  induction r as [|[k v] t IH]; cbn [refs_del map fst In]; [tauto|].
  destruct (Nat.eqb k b); cbn [map fst In]; tauto.
Qed.
Lemma refs_del_NoDup b r : NoDup (map fst r) -> NoDup (map fst (refs_del b r)).
Proof.
  induction r as [|[k v] t IH]; intros Hn; cbn [refs_del map fst] in *; [constructor|].
  inversion Hn; subst. destruct (Nat.eqb k b); [assumption|]. cbn [map fst]. constructor; [|auto].
  intros Hc. apply refs_del_keys in Hc. tauto.
Qed.
Lemma refs_del_not_in b r : NoDup (map fst r) -> ~ In b (map fst (refs_del b r)).
Proof.
  induction r as [|[k v] t IH]; intros Hn; cbn [refs_del map fst] in *; [tauto|].
  inversion Hn; subst. destruct (Nat.eqb k b) eqn:E.
  - apply Nat.eqb_eq in E. subst. assumption.
  - cbn [map fst In]. apply Nat.eqb_neq in E. intros [Hc|Hc]; [congruence|]. apply IH; assumption.
Qed.
Lemma refs_set_keys b p r x : In x (map fst (refs_set b p r)) <-> x = b \/ In x (map fst r).
Proof.
  induction r as [|[k v] t IH]; cbn [refs_set map fst In]; [intuition|].
  destruct (Nat.eqb k b) eqn:E; cbn [map fst In].
  - apply Nat.eqb_eq in E. subst. intuition.
  - rewrite IH. intuition.
Qed.
Lemma refs_set_NoDup b p r : NoDup (map fst r) -> NoDup (map fst (refs_set b p r)).
Proof.
  induction r as [|[k v] t IH]; intros Hn; cbn [refs_set map fst] in *; [repeat constructor; tauto|].
  inversion Hn; subst. destruct (Nat.eqb k b) eqn:E; cbn [map fst].
  - constructor; assumption.
  - constructor; [|auto]. rewrite refs_set_keys. apply Nat.eqb_neq in E. intros [Hc|Hc]; [congruence|tauto].
Qed.
Lemma refs_get_in b r p : refs_get b r = Some p -> In b (map fst r).
Proof.
  induction r as [|[k v] t IH]; cbn [refs_get map fst In]; [discriminate|].
  destruct (Nat.eqb k b) eqn:E; [apply Nat.eqb_eq in E; tauto|intros H; right; auto].
Qed.
Lemma refs_get_none b r : refs_get b r = None <-> ~ In b (map fst r).
Proof.
  induction r as [|[k v] t IH]; cbn [refs_get map fst In]; [tauto|].
  destruct (Nat.eqb k b) eqn:E.
  - apply Nat.eqb_eq in E. split; [discriminate|tauto].
  - apply Nat.eqb_neq in E. rewrite IH. tauto.
Qed.

(* the symbols of the forest, split around one block (up to order) *)
Lemma fsyms_split b r p : refs_get b r = Some p ->
  Permutation (fsyms r) (pair_syms p ++ fsyms (refs_del b r)).
Proof.
  induction r as [|[k v] t IH]; cbn [refs_get refs_del]; [discriminate|].
  destruct (Nat.eqb k b) eqn:E.
  - intros H. injection H as <-. reflexivity.
  - intros H. cbn [fsyms flat_map snd]. fold (fsyms t). fold (fsyms (refs_del b t)).
    rewrite (IH H). rewrite !app_assoc. apply Permutation_app_tail. apply Permutation_app_comm.
Qed.
Lemma fsyms_set b p r :
  Permutation (fsyms (refs_set b p r)) (pair_syms p ++ fsyms (refs_del b r)).
Proof.
  induction r as [|[k v] t IH]; cbn [refs_set refs_del].
  - cbn. rewrite app_nil_r. reflexivity.
  - destruct (Nat.eqb k b) eqn:E.
    + reflexivity.
    + cbn [fsyms flat_map snd]. fold (fsyms (refs_set b p t)). fold (fsyms (refs_del b t)).
      rewrite IH. rewrite !app_assoc. apply Permutation_app_tail. apply Permutation_app_comm.
Qed.
Lemma fsyms_del_incl b r x : In x (fsyms (refs_del b r)) -> In x (fsyms r).
Proof.
  induction r as [|[k v] t IH]; cbn [refs_del fsyms flat_map]; [tauto|].
  fold (fsyms t). destruct (Nat.eqb k b).
  - intros H. apply in_or_app. right. exact H.
  - cbn [fsyms flat_map]. fold (fsyms (refs_del b t)). rewrite !in_app_iff. tauto.
Qed.
Lemma fsyms_del_NoDup b r : NoDup (fsyms r) -> NoDup (fsyms (refs_del b r)).
Proof.
  induction r as [|[k v] t IH]; cbn [refs_del fsyms flat_map]; [tauto|].
  fold (fsyms t). intros Hn. apply NoDup_app_iff in Hn as (H1 & H2 & H3).
  destruct (Nat.eqb k b); [assumption|].
  cbn [fsyms flat_map]. fold (fsyms (refs_del b t)). apply NoDup_app_iff. repeat split; auto.
  intros x Hx Hc. apply (H3 x Hx). eapply fsyms_del_incl. eassumption.
Qed.

(* membership in the forest, relationally *)
Definition holds (r : list (nat * (tree * tree))) (s b : nat) (side : bool) : Prop :=
  exists st en, refs_get b r = Some (st, en) /\ In s (tsyms (if side then en else st)).

Lemma in_fsyms_holds r s : NoDup (map fst r) -> (In s (fsyms r) <-> exists b side, holds r s b side).
Proof.
  induction r as [|[k [st en]] t IH]; intros Hn; cbn [fsyms flat_map].
  - split; [intros []|intros (b & side & st & en & H & _); discriminate].
  - cbn [map fst] in Hn. inversion Hn as [|? ? Hk Hn']; subst.
    fold (fsyms t). unfold pair_syms at 1. cbn [fst snd]. rewrite !in_app_iff, (IH Hn'). split.
    + intros [[H|H]|(b & side & st' & en' & Hg & Hin)].
      * exists k, false, st, en. cbn [refs_get]. rewrite Nat.eqb_refl. auto.
      * exists k, true, st, en. cbn [refs_get]. rewrite Nat.eqb_refl. auto.
      * exists b, side, st', en'. cbn [refs_get]. destruct (Nat.eqb k b) eqn:E; [|auto].
        apply Nat.eqb_eq in E. subst. exfalso. apply Hk. eapply refs_get_in. eassumption.
    + intros (b & side & st' & en' & Hg & Hin). cbn [refs_get] in Hg. destruct (Nat.eqb k b) eqn:E.
      * injection Hg as <- <-. left. destruct side; tauto.
      * right. exists b, side, st', en'. auto.
Qed.

(* abs is determined by `holds` *)
Lemma abs_holds c s b side : Inv c -> holds (refs c) s b side -> abs c s = (Some b, side).
Proof.
  intros (H1 & H2 & _) Hh. unfold abs.
  destruct Hh as (st & en & Hg & Hin).
  rewrite (proj2 (forest_find_some s (refs c) b side H2 H1)); [reflexivity|]. exists st, en. auto.
Qed.
Lemma abs_direct c s : Inv c -> ~ In s (fsyms (refs c)) -> abs c s = sym_get s (stab c).
Proof. intros _ Hn. unfold abs. rewrite (proj2 (forest_find_none s (refs c)) Hn). reflexivity. Qed.

(* ---- removing one symbol from a tree / the forest ---- *)
Lemma remove_nat_app x l l' : remove_nat x (l ++ l') = remove_nat x l ++ remove_nat x l'.
Proof.
  induction l as [|y t IH]; cbn [app remove_nat]; [reflexivity|].
  destruct (Nat.eqb x y); [exact IH|]. cbn [app]. rewrite IH. reflexivity.
Qed.
Lemma remove_nat_notin x l : ~ In x l -> remove_nat x l = l.
Proof.
  induction l as [|y t IH]; cbn [remove_nat In]; [reflexivity|]. intros H.
  destruct (Nat.eqb x y) eqn:E; [apply Nat.eqb_eq in E; subst; tauto|]. rewrite IH by tauto. reflexivity.
Qed.
Lemma tree_remove_tsyms s t : tsyms (tree_remove s t) = remove_nat s (tsyms t).
Proof.
  induction t as [ss ks IH] using tree_ind'. cbn [tree_remove tsyms]. rewrite remove_nat_app. f_equal.
  induction IH as [|k ks Hk Hks IHks]; cbn [map flat_map]; [reflexivity|].
  rewrite remove_nat_app, Hk, IHks. reflexivity.
Qed.

Definition remove_all (s : nat) (r : list (nat * (tree * tree))) :=
  map (fun kv => (fst kv, (tree_remove s (fst (snd kv)), tree_remove s (snd (snd kv))))) r.

Lemma remove_all_fsyms s r : fsyms (remove_all s r) = remove_nat s (fsyms r).
Proof.
  induction r as [|[k [st en]] t IH]; cbn [remove_all map fsyms flat_map]; [reflexivity|].
  fold (remove_all s t). fold (fsyms (remove_all s t)). fold (fsyms t).
  unfold pair_syms. cbn [fst snd]. rewrite !remove_nat_app, !tree_remove_tsyms, IH. reflexivity.
Qed.
Lemma remove_all_keys s r : map fst (remove_all s r) = map fst r.
Proof. unfold remove_all. rewrite map_map. reflexivity. Qed.
Lemma remove_all_get s r b :
  refs_get b (remove_all s r) = match refs_get b r with
                                | Some (st, en) => Some (tree_remove s st, tree_remove s en)
                                | None => None
                                end.
Proof.
  induction r as [|[k [st en]] t IH]; cbn [remove_all map refs_get fst snd]; [reflexivity|].
  destruct (Nat.eqb k b); [reflexivity|exact IH].
Qed.

Lemma in_forest_In s r : in_forest s r = true <-> In s (fsyms r).
Proof.
  unfold in_forest. rewrite existsb_exists. unfold fsyms. rewrite in_flat_map. split.
  - intros ([k [st en]] & Hin & H). exists (k, (st, en)). split; [exact Hin|].
    cbn [fst snd] in H. apply orb_true_iff in H. unfold pair_syms. cbn [fst snd]. rewrite in_app_iff, <- !mem_In. exact H.
  - intros ([k [st en]] & Hin & H). exists (k, (st, en)). split; [exact Hin|].
    cbn [fst snd]. apply orb_true_iff. unfold pair_syms in H. cbn [fst snd] in H. rewrite in_app_iff, <- !mem_In in H. exact H.
Qed.

(* set_referent: afterwards the symbol denotes what was assigned, every other symbol is unchanged *)
Theorem set_referent_spec : forall c s r e,
  Inv c -> In s (map fst (stab c)) ->
  Inv (set_referent c s r e) /\
  forall x, abs (set_referent c s r e) x = if Nat.eqb s x then (r, e) else abs c x.
Proof.
  intros c s r e HI Hs. pose proof HI as (H1 & H2 & H3 & H4).
  assert (Hrefs : refs (set_referent c s r e) = remove_all s (refs c) \/
                  (refs (set_referent c s r e) = refs c /\ ~ In s (fsyms (refs c)))).
  { unfold set_referent. cbn [refs]. destruct (in_forest s (refs c)) eqn:E; [left; reflexivity|].
    right. split; [reflexivity|]. rewrite <- in_forest_In. congruence. }
  assert (Hf : fsyms (refs (set_referent c s r e)) = remove_nat s (fsyms (refs c))).
  { destruct Hrefs as [->|[-> Hn]]; [apply remove_all_fsyms|symmetry; apply remove_nat_notin; exact Hn]. }
  assert (Hk : map fst (refs (set_referent c s r e)) = map fst (refs c)).
  { destruct Hrefs as [->|[-> _]]; [apply remove_all_keys|reflexivity]. }
  assert (Hst : stab (set_referent c s r e) = sym_set s (r, e) (stab c)) by reflexivity.
  assert (HI' : Inv (set_referent c s r e)).
  { unfold Inv. rewrite Hf, Hk, Hst, sym_set_keys.
    split; [apply remove_nat_NoDup; exact H1|]. split; [exact H2|]. split; [exact H3|].
    intros x Hx. apply remove_nat_In in Hx as [Hx Hne]. split; [apply H4; exact Hx|].
    rewrite sym_get_set by exact Hs.
    destruct (Nat.eqb s x) eqn:E; [apply Nat.eqb_eq in E; congruence|]. apply H4. exact Hx. }
  split; [exact HI'|]. intros x.
  destruct (Nat.eqb s x) eqn:E.
  - apply Nat.eqb_eq in E. subst x. rewrite abs_direct; [|exact HI'|].
    + rewrite Hst, sym_get_set by exact Hs. rewrite Nat.eqb_refl. reflexivity.
    + rewrite Hf, remove_nat_In. tauto.
  - apply Nat.eqb_neq in E.
    destruct (in_dec Nat.eq_dec x (fsyms (refs c))) as [Hin|Hout].
    + apply (in_fsyms_holds _ _ H2) in Hin as (b & side & Hh).
      rewrite (abs_holds c x b side HI Hh). apply abs_holds; [exact HI'|].
      destruct Hh as (st & en & Hg & Hx). destruct Hrefs as [Hr|[Hr _]]; rewrite Hr.
      * exists (tree_remove s st), (tree_remove s en). rewrite remove_all_get, Hg. split; [reflexivity|].
        destruct side; rewrite tree_remove_tsyms, remove_nat_In; split; auto.
      * exists st, en. auto.
    + rewrite (abs_direct c x HI Hout), abs_direct; [|exact HI'|].
      * rewrite Hst, sym_get_set by exact Hs. destruct (Nat.eqb s x) eqn:E2; [apply Nat.eqb_eq in E2; congruence|reflexivity].
      * rewrite Hf, remove_nat_In. tauto.
Qed.

(* ---- the walk with path compression removes exactly the looked-up symbol ---- *)
Lemma is_empty_tsyms t : is_empty t = true -> tsyms t = [].
Proof. destruct t as [[|? ?] [|? ?]]; cbn; congruence. Qed.

Lemma walk_spec : forall t s,
  (In s (tsyms t) -> NoDup (tsyms t) ->
     exists t' ups, walk t s = Some (t', ups) /\
                    Permutation (tsyms t' ++ flat_map tsyms ups) (remove_nat s (tsyms t))) /\
  (~ In s (tsyms t) -> walk t s = None).
Proof.
  induction t as [ss ks IH] using tree_ind'. intros s. cbn [walk tsyms].
  destruct (mem s ss) eqn:Em.
  - apply mem_In in Em. split; [|intros Hn; exfalso; apply Hn, in_or_app; tauto].
    intros _ Hnd. eexists. eexists. split; [reflexivity|]. cbn [tsyms flat_map]. rewrite app_nil_r.
    rewrite remove_nat_app. apply NoDup_app_iff in Hnd as (_ & _ & Hd).
    rewrite (remove_nat_notin s (flat_map tsyms ks)); [reflexivity|]. apply Hd. exact Em.
  - apply mem_false in Em.
    (* the children *)
    assert (Hkids :
      (In s (flat_map tsyms ks) -> NoDup (flat_map tsyms ks) ->
         exists rest k' ups, walk_kids (fun k => walk k s) ks = Some (rest, k', ups) /\
           Permutation (flat_map tsyms rest ++ tsyms k' ++ flat_map tsyms ups) (remove_nat s (flat_map tsyms ks))) /\
      (~ In s (flat_map tsyms ks) -> walk_kids (fun k => walk k s) ks = None)).
    { induction IH as [|k ks Hk Hks IHks]; cbn [walk_kids flat_map].
      - split; [intros []|reflexivity].
      - destruct (Hk s) as [Hk1 Hk2]. destruct IHks as [I1 I2]. split.
        + intros Hin Hnd. apply NoDup_app_iff in Hnd as (Hn1 & Hn2 & Hd).
          destruct (in_dec Nat.eq_dec s (tsyms k)) as [Hs|Hs].
          * destruct (Hk1 Hs Hn1) as (k' & ups & Hw & Hp). rewrite Hw.
            exists ks, k', ups. split; [reflexivity|]. rewrite remove_nat_app.
            rewrite (remove_nat_notin s (flat_map tsyms ks)) by (apply Hd; exact Hs).
            rewrite <- Hp. apply Permutation_app_comm.
          * rewrite (Hk2 Hs). apply in_app_or in Hin as [Hin|Hin]; [tauto|].
            destruct (I1 Hin Hn2) as (rest & k' & ups & Hw & Hp). rewrite Hw.
            exists (k :: rest), k', ups. split; [reflexivity|]. cbn [flat_map]. rewrite remove_nat_app.
            rewrite (remove_nat_notin s (tsyms k)) by exact Hs. rewrite <- app_assoc. apply Permutation_app_head. exact Hp.
        + intros Hn. rewrite (Hk2 ltac:(intros Hc; apply Hn, in_or_app; tauto)).
          rewrite (I2 ltac:(intros Hc; apply Hn, in_or_app; tauto)). reflexivity. }
    destruct Hkids as [K1 K2]. split.
    + intros Hin Hnd. apply in_app_or in Hin as [Hin|Hin]; [tauto|].
      apply NoDup_app_iff in Hnd as (Hn1 & Hn2 & Hd).
      destruct (K1 Hin Hn2) as (rest & k' & ups & Hw & Hp). rewrite Hw.
      eexists. eexists. split; [reflexivity|]. cbn [tsyms]. rewrite remove_nat_app.
      rewrite (remove_nat_notin s ss) by exact Em. rewrite <- app_assoc. apply Permutation_app_head.
      rewrite <- Hp. rewrite flat_map_app, <- app_assoc. apply Permutation_app_head.
      destruct (is_empty k') eqn:Ee.
      * rewrite (is_empty_tsyms _ Ee). cbn. rewrite app_nil_r. reflexivity.
      * cbn [flat_map]. rewrite app_nil_r. apply Permutation_app_comm.
    + intros Hn. rewrite (K2 ltac:(intros Hc; apply Hn, in_or_app; tauto)). reflexivity.
Qed.

Lemma walk_root_spec : forall t s, In s (tsyms t) -> NoDup (tsyms t) ->
  exists t', walk_root t s = Some t' /\ Permutation (tsyms t') (remove_nat s (tsyms t)).
Proof.
  intros t s Hin Hnd. destruct (proj1 (walk_spec t s) Hin Hnd) as ([ss ks] & ups & Hw & Hp).
  unfold walk_root. rewrite Hw. eexists. split; [reflexivity|].
  rewrite <- Hp. cbn [tsyms]. rewrite flat_map_app, app_assoc. reflexivity.
Qed.

Lemma pair_nodup b r p : refs_get b r = Some p -> NoDup (fsyms r) ->
  NoDup (pair_syms p) /\ NoDup (fsyms (refs_del b r)) /\
  (forall x, In x (pair_syms p) -> ~ In x (fsyms (refs_del b r))).
Proof.
  intros Hg Hn. pose proof (Permutation_NoDup (fsyms_split b r p Hg) Hn) as H.
  apply NoDup_app_iff in H. exact H.
Qed.

Lemma holds_set_other r b p x b0 side : b0 <> b ->
  (holds (refs_set b p r) x b0 side <-> holds r x b0 side).
Proof.
  intros Hne. unfold holds. rewrite refs_get_set.
  destruct (Nat.eqb b b0) eqn:E; [apply Nat.eqb_eq in E; congruence|]. tauto.
Qed.

(* get_referent: returns what direct assignment would hold; nothing observable changes *)
Theorem get_referent_spec : forall c s,
  Inv c -> In s (map fst (stab c)) ->
  exists c', get_referent c s = Ok (fst (abs c s), c') /\ Inv c' /\ forall x, abs c' x = abs c x.
Proof.
  intros c s HI Hs. pose proof HI as (H1 & H2 & H3 & H4). unfold get_referent, abs at 1.
  destruct (forest_find s (refs c)) as [[b side]|] eqn:Hf.
  2:{ exists c. split; [reflexivity|]. split; [exact HI|reflexivity]. }
  apply (forest_find_some s (refs c) b side H2 H1) in Hf as (st & en & Hg & Hin).
  rewrite Hg.
  destruct (pair_nodup b (refs c) (st, en) Hg H1) as (Hp1 & Hp2 & Hp3).
  unfold pair_syms in Hp1. cbn [fst snd] in Hp1. apply NoDup_app_iff in Hp1 as (Hns & Hne & Hse).
  assert (Hnt : NoDup (tsyms (if side then en else st))) by (destruct side; assumption).
  destruct (walk_root_spec _ s Hin Hnt) as (t' & Hw & Hperm). rewrite Hw.
  set (pair := if side then (st, t') else (t', en)).
  set (c' := mk_rc (refs_set b pair (refs c)) (sym_set s (Some b, side) (stab c))).
  exists c'. split; [reflexivity|].
  (* the symbols of the new pair *)
  assert (Hpair : forall x, In x (pair_syms pair) <-> In x (pair_syms (st, en)) /\ x <> s).
  { intros x. unfold pair, pair_syms. destruct side; cbn [fst snd]; rewrite !in_app_iff.
    - rewrite (Permutation_in' (eq_refl x) Hperm), remove_nat_In. split; [|tauto].
      intros [Hx|[Hx Hn]]; [|tauto]. split; [tauto|]. intros ->. eapply Hse; eassumption.
    - rewrite (Permutation_in' (eq_refl x) Hperm), remove_nat_In. split; [|tauto].
      intros [[Hx Hn]|Hx]; [tauto|]. split; [tauto|]. intros ->. eapply Hse; eassumption. }
  assert (Hpn : NoDup (pair_syms pair)).
  { unfold pair, pair_syms. destruct side; cbn [fst snd]; apply NoDup_app_iff; repeat split; auto.
    - eapply Permutation_NoDup; [symmetry; exact Hperm|]. apply remove_nat_NoDup. exact Hne.
    - intros x Hx Hx'. apply (Permutation_in _ Hperm) in Hx'. apply remove_nat_In in Hx' as [Hx' _]. eapply Hse; eassumption.
    - eapply Permutation_NoDup; [symmetry; exact Hperm|]. apply remove_nat_NoDup. exact Hns.
    - intros x Hx Hx'. apply (Permutation_in _ Hperm) in Hx. apply remove_nat_In in Hx as [Hx _]. eapply Hse; eassumption. }
  assert (Hfs : forall x, In x (fsyms (refs c')) <-> In x (fsyms (refs c)) /\ x <> s).
  { intros x. cbn [refs c']. rewrite (Permutation_in' (eq_refl x) (fsyms_set b pair (refs c))).
    rewrite (Permutation_in' (eq_refl x) (fsyms_split b (refs c) (st, en) Hg)).
    rewrite !in_app_iff, Hpair. split; [|tauto].
    intros [H|H]; [tauto|]. split; [tauto|]. intros ->. apply (Hp3 s); [|exact H].
    unfold pair_syms. cbn [fst snd]. apply in_or_app. destruct side; tauto. }
  assert (HI' : Inv c').
  { unfold Inv. cbn [refs stab c']. rewrite sym_set_keys.
    split.
    { eapply Permutation_NoDup; [symmetry; apply fsyms_set|]. apply NoDup_app_iff. repeat split; auto.
      intros x Hx. apply Hpair in Hx as [Hx _]. apply Hp3. exact Hx. }
    split; [apply refs_set_NoDup; exact H2|]. split; [exact H3|].
    intros x Hx. apply Hfs in Hx as [Hx Hn]. split; [apply H4; exact Hx|].
    rewrite sym_get_set by exact Hs. destruct (Nat.eqb s x) eqn:E; [apply Nat.eqb_eq in E; congruence|]. apply H4. exact Hx. }
  split; [exact HI'|]. intros x.
  destruct (Nat.eq_dec x s) as [->|Hne'].
  - rewrite abs_direct; [|exact HI'|rewrite Hfs; tauto].
    cbn [stab c']. rewrite sym_get_set by exact Hs. rewrite Nat.eqb_refl.
    symmetry. apply abs_holds; [exact HI|]. exists st, en. auto.
  - destruct (in_dec Nat.eq_dec x (fsyms (refs c))) as [Hx|Hx].
    + apply (in_fsyms_holds _ _ H2) in Hx as (b0 & side0 & Hh).
      rewrite (abs_holds c x b0 side0 HI Hh). apply abs_holds; [exact HI'|]. cbn [refs c'].
      destruct (Nat.eq_dec b0 b) as [->|Hb].
      * destruct Hh as (st1 & en1 & Hg1 & Hx1). rewrite Hg in Hg1. injection Hg1 as <- <-.
        exists (fst pair), (snd pair). rewrite refs_get_set, Nat.eqb_refl. split; [destruct pair; reflexivity|].
        unfold pair. destruct side, side0; cbn [fst snd]; try exact Hx1;
          apply (Permutation_in _ (Permutation_sym Hperm)), remove_nat_In; auto.
      * apply holds_set_other; assumption.
    + rewrite (abs_direct c x HI Hx), abs_direct; [|exact HI'|rewrite Hfs; tauto].
      cbn [stab c']. rewrite sym_get_set by exact Hs.
      destruct (Nat.eqb s x) eqn:E; [apply Nat.eqb_eq in E; congruence|reflexivity].
Qed.

(* ---- block.references ---- *)
Lemma block_refs_In b st x : NoDup (map fst st) ->
  (In x (block_refs b st) <-> In x (map fst st) /\ fst (sym_get x st) = Some b).
Proof.
  unfold block_refs. induction st as [|[k [r e]] t IH]; intros Hn; cbn [filter map fst snd In sym_get].
  - tauto.
  - cbn [map fst] in Hn. inversion Hn as [|? ? Hk Hn']; subst.
    assert (Hx : forall y, In y (map fst t) -> Nat.eqb k y = false).
    { intros y Hy. apply Nat.eqb_neq. intros ->. tauto. }
    destruct r as [b'|]; [destruct (Nat.eqb b' b) eqn:E|].
    + apply Nat.eqb_eq in E. subst. cbn [map fst In]. rewrite (IH Hn'). split.
      * intros [->|[H1 H2]]; [rewrite Nat.eqb_refl; auto|]. rewrite (Hx _ H1). auto.
      * intros [[->|H1] H2]; [auto|]. rewrite (Hx _ H1) in H2. auto.
    + apply Nat.eqb_neq in E. rewrite (IH Hn'). split.
      * intros [H1 H2]. rewrite (Hx _ H1). auto.
      * intros [[->|H1] H2]; [rewrite Nat.eqb_refl in H2; cbn in H2; congruence|]. rewrite (Hx _ H1) in H2. auto.
    + rewrite (IH Hn'). split.
      * intros [H1 H2]. rewrite (Hx _ H1). auto.
      * intros [[->|H1] H2]; [rewrite Nat.eqb_refl in H2; cbn in H2; congruence|]. rewrite (Hx _ H1) in H2. auto.
Qed.
Lemma block_refs_NoDup b st : NoDup (map fst st) -> NoDup (block_refs b st).
Proof.
  unfold block_refs. induction st as [|[k [r e]] t IH]; intros Hn; cbn [filter map fst snd]; [constructor|].
  cbn [map fst] in Hn. inversion Hn as [|? ? Hk Hn']; subst.
  destruct (match r with Some b' => Nat.eqb b' b | None => false end); [|auto].
  cbn [map fst]. constructor; [|auto]. intros Hc. apply Hk.
  apply in_map_iff in Hc as ([k' v'] & <- & Hf). apply filter_In in Hf as [Hf _]. apply in_map_iff. exists (k', v'). auto.
Qed.

(* ---- _make_direct_refs ---- *)
Lemma make_direct_keys b e t tab : map fst (make_direct b e t tab) = map fst tab.
Proof.
  unfold make_direct. generalize (tsyms t). intros l. revert tab.
  induction l as [|s l IH]; intros tab; cbn [fold_left]; [reflexivity|]. rewrite IH, sym_set_keys. reflexivity.
Qed.
Lemma make_direct_get b e t tab x : (forall s, In s (tsyms t) -> In s (map fst tab)) ->
  sym_get x (make_direct b e t tab) = if mem x (tsyms t) then (Some b, e) else sym_get x tab.
Proof.
  unfold make_direct. generalize (tsyms t). intros l. revert tab.
  induction l as [|s l IH]; intros tab Hk; cbn [fold_left]; [reflexivity|].
  rewrite IH by (intros s' Hs'; rewrite sym_set_keys; apply Hk; right; exact Hs').
  unfold mem. cbn [existsb]. fold (mem x l).
  destruct (mem x l) eqn:E; [rewrite orb_true_r; reflexivity|]. rewrite orb_false_r.
  rewrite sym_get_set by (apply Hk; left; reflexivity). rewrite Nat.eqb_sym. reflexivity.
Qed.

(* get_references: exactly the symbols that denote the block, which all become direct *)
Theorem get_references_spec : forall c b,
  Inv c ->
  let '(l, c') := get_references c b in
  (forall x, In x l <-> In x (map fst (stab c)) /\ fst (abs c x) = Some b) /\
  Inv c' /\ (forall x, abs c' x = abs c x) /\ refs_get b (refs c') = None.
Proof.
  intros c b HI. pose proof HI as (H1 & H2 & H3 & H4). unfold get_references.
  destruct (refs_get b (refs c)) as [[st en]|] eqn:Hg.
  - destruct (pair_nodup b (refs c) (st, en) Hg H1) as (Hp1 & Hp2 & Hp3).
    unfold pair_syms in Hp1, Hp3. cbn [fst snd] in Hp1, Hp3. apply NoDup_app_iff in Hp1 as (Hns & Hne & Hse).
    assert (Hin_st : forall s, In s (tsyms st) -> In s (fsyms (refs c))).
    { intros s Hs. apply (Permutation_in _ (Permutation_sym (fsyms_split b (refs c) (st, en) Hg))).
      apply in_or_app. left. apply in_or_app. tauto. }
    assert (Hin_en : forall s, In s (tsyms en) -> In s (fsyms (refs c))).
    { intros s Hs. apply (Permutation_in _ (Permutation_sym (fsyms_split b (refs c) (st, en) Hg))).
      apply in_or_app. left. apply in_or_app. tauto. }
    set (tab1 := make_direct b false st (stab c)).
    set (tab2 := make_direct b true en tab1).
    assert (Hk1 : forall s, In s (tsyms st) -> In s (map fst (stab c))) by (intros s Hs; apply H4, Hin_st, Hs).
    assert (Hk2 : forall s, In s (tsyms en) -> In s (map fst tab1)).
    { intros s Hs. unfold tab1. rewrite make_direct_keys. apply H4, Hin_en, Hs. }
    assert (Htab2 : forall x, sym_get x tab2 = if mem x (tsyms en) then (Some b, true)
                                        else if mem x (tsyms st) then (Some b, false) else sym_get x (stab c)).
    { intros x. unfold tab2. rewrite make_direct_get by exact Hk2. unfold tab1. rewrite make_direct_get by exact Hk1. reflexivity. }
    set (c' := mk_rc (refs_del b (refs c)) tab2).
    assert (HI' : Inv c').
    { unfold Inv. cbn [refs stab c']. unfold tab2, tab1. rewrite !make_direct_keys.
      split; [exact Hp2|]. split; [apply refs_del_NoDup; exact H2|]. split; [exact H3|].
      intros x Hx. pose proof (fsyms_del_incl _ _ _ Hx) as Hx'. split; [apply H4; exact Hx'|].
      fold tab1. fold tab2. rewrite Htab2.
      destruct (mem x (tsyms en)) eqn:E1; [apply mem_In in E1; exfalso; apply (Hp3 x); [apply in_or_app; tauto|exact Hx]|].
      destruct (mem x (tsyms st)) eqn:E2; [apply mem_In in E2; exfalso; apply (Hp3 x); [apply in_or_app; tauto|exact Hx]|].
      apply H4. exact Hx'. }
    assert (Habs : forall x, abs c' x = abs c x).
    { intros x.
      destruct (in_dec Nat.eq_dec x (tsyms st)) as [Hs|Hs].
      { rewrite (abs_holds c x b false HI) by (exists st, en; auto).
        rewrite abs_direct; [|exact HI'|cbn [refs c']; apply Hp3, in_or_app; tauto].
        cbn [stab c']. rewrite Htab2. apply mem_In in Hs as Hm. rewrite Hm.
        destruct (mem x (tsyms en)) eqn:E1; [apply mem_In in E1; exfalso; eapply Hse; eassumption|reflexivity]. }
      destruct (in_dec Nat.eq_dec x (tsyms en)) as [He|He].
      { rewrite (abs_holds c x b true HI) by (exists st, en; auto).
        rewrite abs_direct; [|exact HI'|cbn [refs c']; apply Hp3, in_or_app; tauto].
        cbn [stab c']. rewrite Htab2. apply mem_In in He as Hm. rewrite Hm. reflexivity. }
      assert (Ht : sym_get x tab2 = sym_get x (stab c)).
      { rewrite Htab2. apply mem_false in Hs, He. rewrite Hs, He. reflexivity. }
      destruct (in_dec Nat.eq_dec x (fsyms (refs c))) as [Hx|Hx].
      - apply (in_fsyms_holds _ _ H2) in Hx as (b0 & side0 & Hh).
        rewrite (abs_holds c x b0 side0 HI Hh). apply abs_holds; [exact HI'|]. cbn [refs c'].
        destruct Hh as (st1 & en1 & Hg1 & Hx1).
        destruct (Nat.eq_dec b0 b) as [->|Hb].
        + rewrite Hg in Hg1. injection Hg1 as <- <-. destruct side0; tauto.
        + exists st1, en1. rewrite refs_get_del by exact H2.
          destruct (Nat.eqb b b0) eqn:E; [apply Nat.eqb_eq in E; congruence|auto].
      - rewrite (abs_direct c x HI Hx), abs_direct; [|exact HI'|].
        + exact Ht.
        + cbn [refs c']. intros Hc. apply Hx. eapply fsyms_del_incl. exact Hc. }
    split; [|split; [exact HI'|split; [exact Habs|]]].
    + intros x. rewrite !in_app_iff, (block_refs_In b (stab c) x H3). split.
      * intros [[Hk Hd]|[Hs|He]].
        -- split; [exact Hk|]. rewrite abs_direct; [exact Hd|exact HI|].
           intros Hc. apply H4 in Hc as [_ Hc]. congruence.
        -- split; [apply Hk1; exact Hs|]. rewrite (abs_holds c x b false HI); [reflexivity|exists st, en; auto].
        -- split; [apply H4, Hin_en, He|]. rewrite (abs_holds c x b true HI); [reflexivity|exists st, en; auto].
      * intros [Hk Ha].
        destruct (in_dec Nat.eq_dec x (fsyms (refs c))) as [Hx|Hx].
        -- apply (in_fsyms_holds _ _ H2) in Hx as (b0 & side0 & Hh).
           rewrite (abs_holds c x b0 side0 HI Hh) in Ha. injection Ha as ->.
           destruct Hh as (st1 & en1 & Hg1 & Hx1). rewrite Hg in Hg1. injection Hg1 as <- <-.
           right. destruct side0; tauto.
        -- rewrite (abs_direct c x HI Hx) in Ha. left. auto.
    + cbn [refs c']. rewrite refs_get_del by exact H2. rewrite Nat.eqb_refl. reflexivity.
  - split; [|split; [exact HI|split; [reflexivity|exact Hg]]].
    intros x. rewrite (block_refs_In b (stab c) x H3). split.
    + intros [Hk Hd]. split; [exact Hk|]. rewrite abs_direct; [exact Hd|exact HI|].
      intros Hc. apply H4 in Hc as [_ Hc]. congruence.
    + intros [Hk Ha].
      destruct (in_dec Nat.eq_dec x (fsyms (refs c))) as [Hx|Hx].
      * apply (in_fsyms_holds _ _ H2) in Hx as (b0 & side0 & Hh).
        rewrite (abs_holds c x b0 side0 HI Hh) in Ha. injection Ha as ->.
        destruct Hh as (st1 & en1 & Hg1 & _). congruence.
      * rewrite (abs_direct c x HI Hx) in Ha. auto.
Qed.

(* ---- apply(): every reference becomes direct, nothing observable changes ---- *)
Definition apply_step (tab : symtab) (kv : nat * (tree * tree)) : symtab :=
  let '(b, (st, en)) := kv in make_direct b true en (make_direct b false st tab).

Lemma apply_fold_keys r tab : map fst (fold_left apply_step r tab) = map fst tab.
Proof.
  revert tab. induction r as [|[b [st en]] t IH]; intros tab; cbn [fold_left]; [reflexivity|].
  rewrite IH. unfold apply_step. rewrite !make_direct_keys. reflexivity.
Qed.

Lemma apply_fold_get : forall r tab x,
  NoDup (fsyms r) -> (forall s, In s (fsyms r) -> In s (map fst tab)) ->
  sym_get x (fold_left apply_step r tab) =
    match forest_find x r with Some (b, side) => (Some b, side) | None => sym_get x tab end.
Proof.
  induction r as [|[b [st en]] t IH]; intros tab x Hn Hk; cbn [fold_left forest_find]; [reflexivity|].
  cbn [fsyms flat_map] in Hn, Hk. fold (fsyms t) in Hn, Hk. unfold pair_syms in Hn, Hk. cbn [fst snd] in Hn, Hk.
  apply NoDup_app_iff in Hn as (Hn0 & Hnt & Hd). apply NoDup_app_iff in Hn0 as (Hns & Hne & Hse).
  assert (Hk1 : forall s, In s (tsyms st) -> In s (map fst tab)).
  { intros s Hs. apply Hk. apply in_or_app. left. apply in_or_app. tauto. }
  assert (Hk2 : forall s, In s (tsyms en) -> In s (map fst (make_direct b false st tab))).
  { intros s Hs. rewrite make_direct_keys. apply Hk. apply in_or_app. left. apply in_or_app. tauto. }
  rewrite IH; [|exact Hnt|].
  2:{ intros s Hs. unfold apply_step. rewrite !make_direct_keys. apply Hk. apply in_or_app. tauto. }
  unfold apply_step. rewrite make_direct_get by exact Hk2. rewrite make_direct_get by exact Hk1.
  destruct (mem x (tsyms st)) eqn:E1.
  - apply mem_In in E1.
    assert (Hf : forest_find x t = None) by (apply forest_find_none, Hd, in_or_app; tauto). rewrite Hf.
    destruct (mem x (tsyms en)) eqn:E2; [apply mem_In in E2; exfalso; eapply Hse; eassumption|reflexivity].
  - destruct (mem x (tsyms en)) eqn:E2.
    + apply mem_In in E2.
      assert (Hf : forest_find x t = None) by (apply forest_find_none, Hd, in_or_app; tauto). rewrite Hf. reflexivity.
    + reflexivity.
Qed.

Theorem apply_spec : forall c, Inv c ->
  refs (apply c) = [] /\ Inv (apply c) /\
  (forall x, sym_get x (stab (apply c)) = abs c x) /\ (forall x, abs (apply c) x = abs c x).
Proof.
  intros c HI. pose proof HI as (H1 & H2 & H3 & H4).
  assert (Hst : stab (apply c) = fold_left apply_step (refs c) (stab c)).
  { unfold apply. cbn [stab]. f_equal. }
  assert (Hget : forall x, sym_get x (stab (apply c)) = abs c x).
  { intros x. rewrite Hst. unfold abs. apply apply_fold_get; [exact H1|]. intros s Hs. apply H4. exact Hs. }
  split; [reflexivity|]. split; [|split; [exact Hget|]].
  - unfold Inv. rewrite Hst, apply_fold_keys. cbn [refs apply fsyms flat_map map].
    split; [constructor|]. split; [constructor|]. split; [exact H3|]. intros s [].
  - intros x. unfold abs at 1. cbn [refs apply forest_find]. apply Hget.
Qed.

(* ---- retarget_references ---- *)
Lemma rt_fold : forall l st en tab st' en' tab',
  NoDup l -> (forall s, In s l -> In s (map fst tab)) ->
  fold_left rt_step l (st, en, tab) = (st', en', tab') ->
  Permutation (tsyms st' ++ tsyms en') (l ++ tsyms st ++ tsyms en) /\
  map fst tab' = map fst tab /\
  (forall x, sym_get x tab' = if mem x l then (None, snd (sym_get x tab)) else sym_get x tab).
Proof.
  induction l as [|s l IH]; intros st en tab st' en' tab' Hn Hk Hf; cbn [fold_left] in Hf.
  - injection Hf as <- <- <-. repeat split; reflexivity.
  - inversion Hn as [|? ? Hs Hn']; subst.
    assert (Hks : In s (map fst tab)) by (apply Hk; left; reflexivity).
    unfold rt_step at 2 in Hf. destruct (snd (sym_get s tab)) eqn:Ee.
    + destruct (IH _ _ _ _ _ _ Hn' ltac:(intros s' Hs'; rewrite sym_set_keys; apply Hk; right; exact Hs') Hf) as (P & K & G).
      split; [|split].
      * rewrite P. destruct en as [ss ks]. cbn [add_sym tsyms app].
        rewrite <- Permutation_middle. rewrite <- Permutation_middle. reflexivity.
      * rewrite K, sym_set_keys. reflexivity.
      * intros x. rewrite G. unfold mem. cbn [existsb]. fold (mem x l). rewrite sym_get_set by exact Hks.
        destruct (Nat.eqb x s) eqn:E.
        -- apply Nat.eqb_eq in E. subst x. rewrite Nat.eqb_refl. cbn [orb snd].
           destruct (mem s l) eqn:Em; [apply mem_In in Em; tauto|]. rewrite Ee. reflexivity.
        -- rewrite Nat.eqb_sym, E. cbn [orb]. reflexivity.
    + destruct (IH _ _ _ _ _ _ Hn' ltac:(intros s' Hs'; rewrite sym_set_keys; apply Hk; right; exact Hs') Hf) as (P & K & G).
      split; [|split].
      * rewrite P. destruct st as [ss ks]. cbn [add_sym tsyms app].
        rewrite <- Permutation_middle. reflexivity.
      * rewrite K, sym_set_keys. reflexivity.
      * intros x. rewrite G. unfold mem. cbn [existsb]. fold (mem x l). rewrite sym_get_set by exact Hks.
        destruct (Nat.eqb x s) eqn:E.
        -- apply Nat.eqb_eq in E. subst x. rewrite Nat.eqb_refl. cbn [orb snd].
           destruct (mem s l) eqn:Em; [apply mem_In in Em; tauto|]. rewrite Ee. reflexivity.
        -- rewrite Nat.eqb_sym, E. cbn [orb]. reflexivity.
Qed.

Lemma refs_del_none b r : refs_get b r = None -> refs_del b r = r.
Proof.
  induction r as [|[k v] t IH]; cbn [refs_get refs_del]; [reflexivity|].
  destruct (Nat.eqb k b); [discriminate|]. intros H. rewrite (IH H). reflexivity.
Qed.
Lemma refs_get_app r r' b : refs_get b (r ++ r') = match refs_get b r with Some p => Some p | None => refs_get b r' end.
Proof.
  induction r as [|[k v] t IH]; cbn [app refs_get]; [reflexivity|]. destruct (Nat.eqb k b); [reflexivity|exact IH].
Qed.
Lemma fsyms_app r r' : fsyms (r ++ r') = fsyms r ++ fsyms r'.
Proof. unfold fsyms. apply flat_map_app. Qed.
Lemma tsyms_add_kids new t : tsyms (add_kids new t) = tsyms t ++ flat_map tsyms new.
Proof. destruct t as [ss ks]. cbn [add_kids tsyms]. rewrite flat_map_app, app_assoc. reflexivity. Qed.

Lemma perm_swap3 {A} (a b c : list A) : Permutation (a ++ b ++ c) (b ++ a ++ c).
Proof. rewrite !app_assoc. apply Permutation_app_tail. apply Permutation_app_comm. Qed.

Lemma retarget_go_spec : forall c b t e,
  Inv c ->
  exists c', retarget_go c b t e (block_refs b (stab c)) (refs_get b (refs c)) = Ok c' /\ Inv c' /\
    forall x, In x (map fst (stab c)) ->
      (fst (abs c x) = Some b -> abs c' x = (Some t, e)) /\
      (fst (abs c x) <> Some b -> abs c' x = abs c x).
Proof.
  intros c b t e HI. pose proof HI as (H1 & H2 & H3 & H4).
  set (direct := block_refs b (stab c)).
  assert (Hdir : forall s, In s direct <-> In s (map fst (stab c)) /\ fst (sym_get s (stab c)) = Some b)
    by (intros s; apply block_refs_In; exact H3).
  assert (Hdn : NoDup direct) by (apply block_refs_NoDup; exact H3).
  assert (Hdf : forall s, In s direct -> ~ In s (fsyms (refs c))).
  { intros s Hs Hc. apply Hdir in Hs as [_ Hs]. apply H4 in Hc as [_ Hc]. congruence. }
  unfold retarget_go.
  assert (Hex : existsb (fun s => in_forest s (refs c)) direct = false).
  { apply not_true_is_false. intros Hc. apply existsb_exists in Hc as (s & Hs & Hc).
    apply in_forest_In in Hc. eapply Hdf; eassumption. }
  rewrite Hex.
  set (p0 := match refs_get b (refs c) with Some p => p | None => (empty_tree, empty_tree) end).
  assert (Hp0 : Permutation (fsyms (refs c)) (pair_syms p0 ++ fsyms (refs_del b (refs c)))).
  { unfold p0. destruct (refs_get b (refs c)) as [p|] eqn:Hg; [apply fsyms_split; exact Hg|].
    rewrite (refs_del_none _ _ Hg). reflexivity. }
  destruct p0 as [st0 en0] eqn:Ep0.
  set (r1 := refs_del b (refs c)) in *.
  assert (Hr1k : NoDup (map fst r1)) by (apply refs_del_NoDup; exact H2).
  assert (Hr1b : refs_get b r1 = None).
  { unfold r1. rewrite refs_get_del by exact H2. rewrite Nat.eqb_refl. reflexivity. }
  assert (Hr1g : forall b0, b0 <> b -> refs_get b0 r1 = refs_get b0 (refs c)).
  { intros b0 Hb0. unfold r1. rewrite refs_get_del by exact H2.
    destruct (Nat.eqb b b0) eqn:E; [apply Nat.eqb_eq in E; congruence|reflexivity]. }
  destruct (fold_left rt_step direct (st0, en0, stab c)) as [[st1 en1] stab1] eqn:Hfold.
  destruct (rt_fold _ _ _ _ _ _ _ Hdn ltac:(intros s Hs; exact (proj1 (proj1 (Hdir s) Hs))) Hfold) as (Pf & Kf & Gf).
  set (r2 := match refs_get t r1 with Some _ => r1 | None => r1 ++ [(t, (empty_tree, empty_tree))] end).
  assert (Hr2k : NoDup (map fst r2)).
  { unfold r2. destruct (refs_get t r1) eqn:Hg; [exact Hr1k|].
    rewrite map_app. cbn [map fst]. apply NoDup_app_iff. repeat split; [exact Hr1k|repeat constructor; intros []|].
    intros x Hx [<-|[]]. apply refs_get_none in Hg. tauto. }
  assert (Hr2f : fsyms r2 = fsyms r1).
  { unfold r2. destruct (refs_get t r1); [reflexivity|]. rewrite fsyms_app. cbn. apply app_nil_r. }
  assert (Hr2t : exists ts te, refs_get t r2 = Some (ts, te) /\
                               (forall b0, b0 <> t -> refs_get b0 r2 = refs_get b0 r1) /\
                               (refs_get t r1 = Some (ts, te) \/ (refs_get t r1 = None /\ ts = empty_tree /\ te = empty_tree))).
  { unfold r2. destruct (refs_get t r1) as [[ts te]|] eqn:Hg.
    - exists ts, te. auto.
    - exists empty_tree, empty_tree. rewrite refs_get_app, Hg. cbn [refs_get]. rewrite Nat.eqb_refl.
      split; [reflexivity|]. split; [|auto]. intros b0 Hb0. rewrite refs_get_app. destruct (refs_get b0 r1); [reflexivity|].
      cbn [refs_get]. destruct (Nat.eqb t b0) eqn:E; [apply Nat.eqb_eq in E; congruence|reflexivity]. }
  destruct Hr2t as (ts & te & Hgt & Hgo & Hts). fold r2. rewrite Hgt.
  set (pair := if e then (ts, add_kids [st1; en1] te) else (add_kids [st1; en1] ts, te)).
  set (c' := mk_rc (refs_set t pair r2) stab1).
  exists c'. split; [reflexivity|].
  (* symbols of the new pair: the old ones of t plus everything that pointed at b *)
  assert (Hnew : Permutation (tsyms st1 ++ tsyms en1) (direct ++ pair_syms (st0, en0))) by exact Pf.
  assert (Hpair : Permutation (pair_syms pair) (pair_syms (ts, te) ++ tsyms st1 ++ tsyms en1)).
  { unfold pair, pair_syms. destruct e; cbn [fst snd]; rewrite tsyms_add_kids; cbn [flat_map]; rewrite app_nil_r.
    - rewrite app_assoc. reflexivity.
    - rewrite <- !app_assoc. apply Permutation_app_head.
      transitivity ((tsyms st1 ++ tsyms en1) ++ tsyms te); [rewrite app_assoc; reflexivity|apply Permutation_app_comm]. }
  assert (Hall : Permutation (fsyms (refs c')) (direct ++ fsyms (refs c))).
  { cbn [refs c'].
    transitivity (pair_syms pair ++ fsyms (refs_del t r2)); [apply fsyms_set|].
    transitivity ((pair_syms (ts, te) ++ tsyms st1 ++ tsyms en1) ++ fsyms (refs_del t r2));
      [apply Permutation_app_tail; exact Hpair|].
    transitivity ((tsyms st1 ++ tsyms en1) ++ (pair_syms (ts, te) ++ fsyms (refs_del t r2))).
    { generalize (tsyms st1 ++ tsyms en1). intros N. rewrite <- app_assoc. apply perm_swap3. }
    transitivity ((tsyms st1 ++ tsyms en1) ++ fsyms r2);
      [apply Permutation_app_head; symmetry; apply fsyms_split; exact Hgt|].
    rewrite Hr2f.
    transitivity ((direct ++ pair_syms (st0, en0)) ++ fsyms r1); [apply Permutation_app_tail; exact Hnew|].
    rewrite <- app_assoc. apply Permutation_app_head. symmetry. exact Hp0. }
  assert (HI' : Inv c').
  { unfold Inv. cbn [stab c']. rewrite Kf. split.
    { eapply Permutation_NoDup; [symmetry; exact Hall|]. apply NoDup_app_iff. auto. }
    split; [cbn [refs c']; apply refs_set_NoDup; exact Hr2k|]. split; [exact H3|].
    intros x Hx. apply (Permutation_in _ Hall) in Hx. apply in_app_or in Hx as [Hx|Hx].
    - split; [apply Hdir; exact Hx|]. rewrite Gf. apply mem_In in Hx. rewrite Hx. reflexivity.
    - split; [apply H4; exact Hx|]. rewrite Gf. destruct (mem x direct) eqn:E; [reflexivity|]. apply H4. exact Hx. }
  split; [exact HI'|].
  (* what is under (t, e) afterwards *)
  assert (Hunder : forall x, In x (tsyms st1 ++ tsyms en1) -> abs c' x = (Some t, e)).
  { intros x Hx. apply abs_holds; [exact HI'|]. cbn [refs c']. exists (fst pair), (snd pair).
    rewrite refs_get_set, Nat.eqb_refl. split; [destruct pair; reflexivity|].
    unfold pair. destruct e; cbn [fst snd]; rewrite tsyms_add_kids; cbn [flat_map]; rewrite app_nil_r;
      apply in_or_app; right; exact Hx. }
  intros x Hxk. split.
  - intros Ha. apply Hunder. apply (Permutation_in _ (Permutation_sym Hnew)). apply in_or_app.
    destruct (in_dec Nat.eq_dec x (fsyms (refs c))) as [Hx|Hx].
    + apply (in_fsyms_holds _ _ H2) in Hx as (b0 & side0 & Hh).
      rewrite (abs_holds c x b0 side0 HI Hh) in Ha. injection Ha as ->.
      destruct Hh as (sta & ena & Hg & Hin). right.
      assert (Hp : (st0, en0) = (sta, ena)).
      { assert (Hq : match refs_get b (refs c) with Some p => p | None => (empty_tree, empty_tree) end = (st0, en0)) by exact Ep0.
        rewrite Hg in Hq. congruence. }
      injection Hp as -> ->. unfold pair_syms. cbn [fst snd]. apply in_or_app. destruct side0; tauto.
    + rewrite (abs_direct c x HI Hx) in Ha. left. apply Hdir. auto.
  - intros Ha.
    destruct (in_dec Nat.eq_dec x (fsyms (refs c))) as [Hx|Hx].
    + apply (in_fsyms_holds _ _ H2) in Hx as (b0 & side0 & Hh).
      rewrite (abs_holds c x b0 side0 HI Hh) in Ha |- *.
      assert (Hb0 : b0 <> b) by (intros ->; apply Ha; reflexivity).
      apply abs_holds; [exact HI'|]. cbn [refs c'].
      destruct Hh as (sta & ena & Hg & Hin). rewrite <- (Hr1g b0 Hb0) in Hg.
      destruct (Nat.eq_dec b0 t) as [->|Hbt].
      * destruct Hts as [Hts|(Hts & _ & _)]; [|congruence]. rewrite Hts in Hg. injection Hg as <- <-.
        exists (fst pair), (snd pair). rewrite refs_get_set, Nat.eqb_refl. split; [destruct pair; reflexivity|].
        unfold pair. destruct e, side0; cbn [fst snd]; try exact Hin;
          rewrite tsyms_add_kids; apply in_or_app; left; exact Hin.
      * exists sta, ena. rewrite refs_get_set.
        destruct (Nat.eqb t b0) eqn:E; [apply Nat.eqb_eq in E; congruence|].
        rewrite (Hgo b0 Hbt). auto.
    + assert (Hnd : ~ In x direct).
      { intros Hc. apply Hdir in Hc as [_ Hc]. apply Ha. rewrite (abs_direct c x HI Hx). exact Hc. }
      rewrite (abs_direct c x HI Hx). rewrite abs_direct; [|exact HI'|].
      * cbn [stab c']. rewrite Gf. apply mem_false in Hnd. rewrite Hnd. reflexivity.
      * intros Hc. apply (Permutation_in _ Hall) in Hc. apply in_app_or in Hc. tauto.
Qed.

(* retarget_references: every symbol that denoted `block` now denotes (to_block, at_end);
   all others are unchanged; a missing target is refused only when something refers to block *)
Theorem retarget_spec : forall c b t e,
  Inv c ->
  exists c', retarget c b (Some t) e = Ok c' /\ Inv c' /\
    forall x, In x (map fst (stab c)) ->
      (fst (abs c x) = Some b -> abs c' x = (Some t, e)) /\
      (fst (abs c x) <> Some b -> abs c' x = abs c x).
Proof.
  intros c b t e HI. unfold retarget.
  destruct (block_refs b (stab c)) as [|d ds] eqn:Hd.
  - destruct (refs_get b (refs c)) as [p|] eqn:Hg.
    + rewrite <- Hd, <- Hg. apply retarget_go_spec. exact HI.
    + exists c. split; [reflexivity|]. split; [exact HI|]. intros x Hx. split; [|reflexivity].
      intros Ha. exfalso. pose proof HI as (H1 & H2 & H3 & H4).
      destruct (in_dec Nat.eq_dec x (fsyms (refs c))) as [Hf|Hf].
      * apply (in_fsyms_holds _ _ H2) in Hf as (b0 & side0 & Hh).
        rewrite (abs_holds c x b0 side0 HI Hh) in Ha. injection Ha as ->.
        destruct Hh as (? & ? & Hg' & _). congruence.
      * rewrite (abs_direct c x HI Hf) in Ha.
        assert (Hin : In x (block_refs b (stab c))) by (apply block_refs_In; auto).
        rewrite Hd in Hin. destruct Hin.
  - rewrite <- Hd. destruct (refs_get b (refs c)) eqn:Hg; rewrite <- Hg; apply retarget_go_spec; exact HI.
Qed.

Theorem retarget_none_spec : forall c b e, Inv c ->
  (retarget c b None e = Ok c /\ forall x, In x (map fst (stab c)) -> fst (abs c x) <> Some b)
  \/ retarget c b None e = Err AssertErr.
Proof.
  intros c b e HI. unfold retarget.
  destruct (block_refs b (stab c)) as [|d ds] eqn:Hd; [|right; destruct (refs_get b (refs c)); reflexivity].
  destruct (refs_get b (refs c)) as [p|] eqn:Hg; [right; reflexivity|]. left. split; [reflexivity|].
  intros x Hx Ha. pose proof HI as (H1 & H2 & H3 & H4).
  destruct (in_dec Nat.eq_dec x (fsyms (refs c))) as [Hf|Hf].
  - apply (in_fsyms_holds _ _ H2) in Hf as (b0 & side0 & Hh).
    rewrite (abs_holds c x b0 side0 HI Hh) in Ha. injection Ha as ->.
    destruct Hh as (? & ? & Hg' & _). congruence.
  - rewrite (abs_direct c x HI Hf) in Ha.
    assert (Hin : In x (block_refs b (stab c))) by (apply block_refs_In; auto).
    rewrite Hd in Hin. destruct Hin.
Qed.

(* a fresh cache over any symbol table satisfies the invariant *)
Lemma Inv_init : forall tab, NoDup (map fst tab) -> Inv (mk_rc [] tab).
Proof.
  intros tab Hn. unfold Inv. cbn [refs stab fsyms flat_map map].
  split; [constructor|]. split; [constructor|]. split; [exact Hn|]. intros s [].
Qed.
