(* Hand model of _modify/cache.py ReferenceCache.
   The two RefNode trees per block are structural trees (the code keeps the invariant that
   the roots are exactly the pairs stored in _references and never attaches a root below
   itself, so pointer cycles cannot arise; `children`/`parent` are the two directions of the
   same edge).  _referents is membership in the forest.  Sets are duplicate-free lists.
   Blocks and symbols are natural-number identities.  No proofs here. *)
From Coq Require Import List Bool Arith.
From GR Require Import Base.Result.
Import ListNotations.

Inductive tree := T (syms : list nat) (kids : list tree).

Definition mem (x : nat) (l : list nat) : bool := existsb (Nat.eqb x) l.
Fixpoint remove_nat (x : nat) (l : list nat) : list nat :=
  match l with [] => [] | y :: t => if Nat.eqb x y then remove_nat x t else y :: remove_nat x t end.

(* all symbols held in a tree *)
Fixpoint tsyms (t : tree) : list nat :=
  match t with T ss ks => ss ++ flat_map tsyms ks end.

Definition is_empty (t : tree) : bool :=
  match t with T [] [] => true | _ => false end.

Definition empty_tree := T [] [].

(* a symbol of the module: Symbol.referent (direct) and Symbol.at_end *)
Definition symtab := list (nat * (option nat * bool)).

Fixpoint sym_get (s : nat) (st : symtab) : option nat * bool :=
  match st with
  | [] => (None, false)
  | (k, v) :: t => if Nat.eqb k s then v else sym_get s t
  end.
Fixpoint sym_set (s : nat) (v : option nat * bool) (st : symtab) : symtab :=
  match st with
  | [] => []      (* symbols outside the module are not representable *)
  | (k, v') :: t => if Nat.eqb k s then (k, v) :: t else (k, v') :: sym_set s v t
  end.

Record rc := mk_rc {
  refs : list (nat * (tree * tree));      (* _references: block -> (start tree, end tree) *)
  stab : symtab
}.

Fixpoint refs_get (b : nat) (r : list (nat * (tree * tree))) : option (tree * tree) :=
  match r with [] => None | (k, v) :: t => if Nat.eqb k b then Some v else refs_get b t end.
Fixpoint refs_del (b : nat) (r : list (nat * (tree * tree))) : list (nat * (tree * tree)) :=
  match r with [] => [] | (k, v) :: t => if Nat.eqb k b then t else (k, v) :: refs_del b t end.
Fixpoint refs_set (b : nat) (v : tree * tree) (r : list (nat * (tree * tree))) : list (nat * (tree * tree)) :=
  match r with
  | [] => [(b, v)]
  | (k, v') :: t => if Nat.eqb k b then (k, v) :: t else (k, v') :: refs_set b v t
  end.

(* block.references: symbols whose direct referent is the block *)
Definition block_refs (b : nat) (st : symtab) : list nat :=
  map fst (filter (fun kv => match fst (snd kv) with Some b' => Nat.eqb b' b | None => false end) st).

(* symbol in self._referents *)
Definition in_forest (s : nat) (r : list (nat * (tree * tree))) : bool :=
  existsb (fun kv => mem s (tsyms (fst (snd kv))) || mem s (tsyms (snd (snd kv)))) r.

(* which (block, at_end) a forest symbol denotes *)
Fixpoint forest_find (s : nat) (r : list (nat * (tree * tree))) : option (nat * bool) :=
  match r with
  | [] => None
  | (b, (st, en)) :: t =>
      if mem s (tsyms st) then Some (b, false)
      else if mem s (tsyms en) then Some (b, true)
      else forest_find s t
  end.

Definition add_sym (s : nat) (t : tree) : tree := match t with T ss ks => T (s :: ss) ks end.
Definition add_kids (new : list tree) (t : tree) : tree := match t with T ss ks => T ss (ks ++ new) end.

(* ---- retarget_references(block, to_block, at_end) ---- *)
(* a direct reference becomes indirect: the symbol joins the start or the end tree of its block *)
Definition rt_step (acc : tree * tree * symtab) (s : nat) : tree * tree * symtab :=
  let '(st, en, tab) := acc in
  if snd (sym_get s tab) then (st, add_sym s en, sym_set s (None, true) tab)
  else (add_sym s st, en, sym_set s (None, false) tab).

Definition retarget_go (c : rc) (b t : nat) (at_end : bool) (direct : list nat) (have : option (tree * tree))
  : result rc :=
  if existsb (fun s => in_forest s (refs c)) direct then Err AssertErr
      (* "symbol has both direct and indirect references" *)
  else
  let '(st0, en0) := match have with Some p => p | None => (empty_tree, empty_tree) end in
  let r1 := refs_del b (refs c) in
  let '(st1, en1, stab1) := fold_left rt_step direct (st0, en0, stab c) in
  let r2 := match refs_get t r1 with
            | Some _ => r1
            | None => r1 ++ [(t, (empty_tree, empty_tree))]
            end in
  match refs_get t r2 with
  | None => Err KeyErr
  | Some (ts, te) =>
      let pair := if at_end then (ts, add_kids [st1; en1] te) else (add_kids [st1; en1] ts, te) in
      Ok (mk_rc (refs_set t pair r2) stab1)
  end.

Definition retarget (c : rc) (b : nat) (to_block : option nat) (at_end : bool) : result rc :=
  let direct := block_refs b (stab c) in
  match direct, refs_get b (refs c) with
  | [], None => Ok c                                   (* nothing to retarget *)
  | _, have =>
      match to_block with
      | None => Err AssertErr                           (* assert to_block *)
      | Some t => retarget_go c b t at_end direct have
      end
  end.

(* ---- _make_direct_refs on one tree: every symbol gets (referent, at_end) ---- *)
Definition make_direct (b : nat) (at_end : bool) (t : tree) (tab : symtab) : symtab :=
  fold_left (fun tab s => sym_set s (Some b, at_end) tab) (tsyms t) tab.

(* ---- get_references(block), consumed to the end ---- *)
Definition get_references (c : rc) (b : nat) : list nat * rc :=
  let direct := block_refs b (stab c) in
  match refs_get b (refs c) with
  | None => (direct, c)
  | Some (st, en) =>
      (direct ++ tsyms st ++ tsyms en,
       mk_rc (refs_del b (refs c)) (make_direct b true en (make_direct b false st (stab c))))
  end.

(* ---- apply() ---- *)
Definition apply (c : rc) : rc :=
  mk_rc [] (fold_left (fun tab kv => let '(b, (st, en)) := kv in
                                     make_direct b true en (make_direct b false st tab))
                      (refs c) (stab c)).

(* removing a symbol from the node that holds it (ref.symbols.remove) *)
Fixpoint tree_remove (s : nat) (t : tree) : tree :=
  match t with T ss ks => T (remove_nat s ss) (map (tree_remove s) ks) end.

(* ---- set_referent(symbol, referent, at_end) ---- *)
Definition set_referent (c : rc) (s : nat) (r : option nat) (at_end : bool) : rc :=
  let refs' := if in_forest s (refs c)
               then map (fun kv => (fst kv, (tree_remove s (fst (snd kv)), tree_remove s (snd (snd kv))))) (refs c)
               else refs c in
  mk_rc refs' (sym_set s (r, at_end) (stab c)).

(* ---- get_referent(symbol): the walk to the root with path compression ----
   walk t s, for a non-root node t on the path: (t after the step, the node to hand to t's parent).
   Each node on the path loses its path child; the path child, if not empty, is re-attached
   to its grandparent ("move closer"), otherwise dropped ("remove nodes without children"). *)
Section WalkKids.
  Variable f : tree -> option (tree * list tree).
  (* find the child on the path: (the other children, the child after its step, what it hands up) *)
  Fixpoint walk_kids (l : list tree) : option (list tree * tree * list tree) :=
    match l with
    | [] => None
    | k :: l' =>
        match f k with
        | Some (k', ups) => Some (l', k', ups)
        | None => match walk_kids l' with
                  | Some (rest, k', ups) => Some (k :: rest, k', ups)
                  | None => None
                  end
        end
    end.
End WalkKids.

Fixpoint walk (t : tree) (s : nat) : option (tree * list tree) :=
  match t with
  | T ss ks =>
      if mem s ss then Some (T (remove_nat s ss) ks, [])
      else
        match walk_kids (fun k => walk k s) ks with
        | None => None
        | Some (rest, k', ups) => Some (T ss (rest ++ ups), if is_empty k' then [] else [k'])
        end
  end.

(* the root keeps a non-empty path child (its grandparent is the block) *)
Definition walk_root (t : tree) (s : nat) : option tree :=
  match walk t s with
  | None => None
  | Some (T ss ks, ups) => Some (T ss (ks ++ ups))
  end.

Definition get_referent (c : rc) (s : nat) : result (option nat * rc) :=
  match forest_find s (refs c) with
  | None => Ok (fst (sym_get s (stab c)), c)
  | Some (b, side) =>
      match refs_get b (refs c) with
      | None => Err KeyErr
      | Some (st, en) =>
          match walk_root (if side then en else st) s with
          | None => Err KeyErr
          | Some t' =>
              let pair := if side then (st, t') else (t', en) in
              Ok (Some b, mk_rc (refs_set b pair (refs c)) (sym_set s (Some b, side) (stab c)))
          end
      end
  end.

(* ---- get_references(block) abandoned by its caller ----
   get_references is a generator: any(...) / all(...) over it (remove.py, join.py) stop at the first decisive symbol and the
   generator is closed where it stands.  What has happened by then: every symbol that was yielded is a direct reference (the
   indirect ones were taken out of their node, out of _referents, and assigned), nothing else was touched, and the entry of the
   block stays in _references.  Which symbols come first depends on set iteration order, so the model takes the yielded symbols
   as an argument (any list of references of the block, in any order); None = the list names something that is not a reference
   of the block (the generator cannot have yielded it). *)
Definition yield_one (b : nat) (oc : option rc) (s : nat) : option rc :=
  match oc with
  | None => None
  | Some c =>
      match forest_find s (refs c) with
      | Some (b', side) => if Nat.eqb b' b then Some (set_referent c s (Some b) side) else None
      | None =>
          match fst (sym_get s (stab c)) with
          | Some b' => if Nat.eqb b' b then Some c else None
          | None => None
          end
      end
  end.

Definition get_references_abandoned (c : rc) (b : nat) (yielded : list nat) : option rc :=
  fold_left (yield_one b) yielded (Some c).
