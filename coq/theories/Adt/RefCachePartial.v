(* A get_references generator that its caller abandons (any / all stopping early) leaves the cache consistent: the yielded
   symbols are references of the block, every symbol denotes what it denoted, the invariant holds, no entry of _references
   appears or disappears.  Conversely every list of references of the block can be what was yielded. *)
From Coq Require Import List Bool Arith Lia Permutation.
From GR Require Import Base.Result Adt.RefCache Adt.RefCacheProofs.
Import ListNotations.

Lemma set_referent_ref_keys c s r e : map fst (refs (set_referent c s r e)) = map fst (refs c).
Proof.
  unfold set_referent. cbn [refs]. destruct (in_forest s (refs c)); [|reflexivity].
  rewrite map_map. apply map_ext. intros kv. reflexivity.
Qed.

Lemma set_referent_tab_keys c s r e : map fst (stab (set_referent c s r e)) = map fst (stab c).
Proof. unfold set_referent. cbn [stab]. apply sym_set_keys. Qed.

Lemma abs_of_find c s b side : forest_find s (refs c) = Some (b, side) -> abs c s = (Some b, side).
Proof. intros H. unfold abs. rewrite H. reflexivity. Qed.

Lemma abs_of_nofind c s : forest_find s (refs c) = None -> abs c s = sym_get s (stab c).
Proof. intros H. unfold abs. rewrite H. reflexivity. Qed.

Definition same_view (c c' : rc) : Prop :=
  Inv c' /\ (forall x, abs c' x = abs c x) /\ map fst (refs c') = map fst (refs c) /\ map fst (stab c') = map fst (stab c).

Lemma same_view_refl c : Inv c -> same_view c c.
Proof. intros H. split; [exact H|]. split; [reflexivity|]. split; reflexivity. Qed.

Lemma same_view_trans c1 c2 c3 : same_view c1 c2 -> same_view c2 c3 -> same_view c1 c3.
Proof.
  intros (I2 & A2 & R2 & S2) (I3 & A3 & R3 & S3). split; [exact I3|]. split; [|split].
  - intros x. rewrite A3. apply A2.
  - rewrite R3. exact R2.
  - rewrite S3. exact S2.
Qed.

Lemma yield_one_spec c b s c' :
  Inv c -> In s (map fst (stab c)) -> yield_one b (Some c) s = Some c' ->
  same_view c c' /\ fst (abs c s) = Some b.
Proof.
  intros HI Hs. unfold yield_one.
  destruct (forest_find s (refs c)) as [[b' side]|] eqn:Hf.
  - destruct (Nat.eqb b' b) eqn:Hb; [|discriminate]. apply Nat.eqb_eq in Hb. subst b'.
    intros H. injection H as <-.
    pose proof (abs_of_find c s b side Hf) as Ha.
    destruct (set_referent_spec c s (Some b) side HI Hs) as (HI' & Habs).
    split; [|rewrite Ha; reflexivity].
    split; [exact HI'|]. split; [|split; [apply set_referent_ref_keys | apply set_referent_tab_keys]].
    intros x. rewrite Habs. destruct (Nat.eqb s x) eqn:E; [|reflexivity].
    apply Nat.eqb_eq in E. subst x. symmetry. exact Ha.
  - destruct (fst (sym_get s (stab c))) as [b'|] eqn:Hg; [|discriminate].
    destruct (Nat.eqb b' b) eqn:Hb; [|discriminate]. apply Nat.eqb_eq in Hb. subst b'.
    intros H. injection H as <-. split; [apply same_view_refl; exact HI|].
    rewrite (abs_of_nofind c s Hf). exact Hg.
Qed.

Lemma fold_yield_none b l : fold_left (yield_one b) l None = None.
Proof. induction l as [|s l IH]; [reflexivity|exact IH]. Qed.

Theorem get_references_abandoned_spec : forall l c b c',
  Inv c -> (forall s, In s l -> In s (map fst (stab c))) ->
  get_references_abandoned c b l = Some c' ->
  same_view c c' /\ (forall s, In s l -> fst (abs c s) = Some b).
Proof.
  unfold get_references_abandoned.
  induction l as [|s l IH]; intros c b c' HI Hl H.
  - cbn [fold_left] in H. injection H as <-. split; [apply same_view_refl; exact HI|]. intros s [].
  - cbn [fold_left] in H.
    destruct (yield_one b (Some c) s) as [c1|] eqn:H1; [|rewrite fold_yield_none in H; discriminate].
    destruct (yield_one_spec c b s c1 HI (Hl s (or_introl eq_refl)) H1) as (V1 & Hs).
    pose proof V1 as (I1 & A1 & R1 & S1).
    destruct (IH c1 b c' I1) as (V2 & Hrest); [| exact H |].
    + intros x Hx. rewrite S1. apply Hl. right. exact Hx.
    + split; [exact (same_view_trans _ _ _ V1 V2)|].
      intros x [<-|Hx]; [exact Hs|]. rewrite <- A1. apply Hrest. exact Hx.
Qed.

(* ... and any list of references of the block is a possible prefix of the generator *)
Theorem get_references_abandoned_total : forall l c b,
  Inv c -> (forall s, In s l -> In s (map fst (stab c)) /\ fst (abs c s) = Some b) ->
  exists c', get_references_abandoned c b l = Some c'.
Proof.
  unfold get_references_abandoned.
  induction l as [|s l IH]; intros c b HI Hl.
  - exists c. reflexivity.
  - cbn [fold_left]. destruct (Hl s (or_introl eq_refl)) as (Hs & Ha).
    assert (exists c1, yield_one b (Some c) s = Some c1) as (c1 & H1).
    { unfold yield_one. unfold abs in Ha. destruct (forest_find s (refs c)) as [[b' side]|] eqn:Hf.
      - cbn [fst] in Ha. injection Ha as ->. rewrite Nat.eqb_refl. eexists. reflexivity.
      - rewrite Ha. rewrite Nat.eqb_refl. eexists. reflexivity. }
    rewrite H1. destruct (yield_one_spec c b s c1 HI Hs H1) as ((I1 & A1 & R1 & S1) & _).
    apply IH; [exact I1|]. intros x Hx. rewrite S1, A1. apply Hl. right. exact Hx.
Qed.

(* whatever an abandoned generator did, a later complete get_references yields exactly the references the block had *)
Theorem abandoned_then_complete l c b c' :
  Inv c -> (forall s, In s l -> In s (map fst (stab c))) ->
  get_references_abandoned c b l = Some c' ->
  forall x, In x (fst (get_references c' b)) <-> In x (map fst (stab c)) /\ fst (abs c x) = Some b.
Proof.
  intros HI Hl H x. destruct (get_references_abandoned_spec l c b c' HI Hl H) as ((I' & A' & _ & S') & _).
  pose proof (get_references_spec c' b I') as G. destruct (get_references c' b) as [l2 c2]. destruct G as (G & _).
  cbn [fst]. rewrite G, S', A'. reflexivity.
Qed.
