(* Hand model of _adt/block_ordering.py + linked_list.py: every block owns one LinkedListNode,
   so a node is identified with its block; prev/next are optional block ids.  No proofs here. *)
From Coq Require Import List Bool Arith.
From GR Require Import Base.Result.
Import ListNotations.

Definition links := (option nat * option nat)%type.     (* (prev, next) *)
Definition order := list (nat * links).

Fixpoint o_get (b : nat) (o : order) : option links :=
  match o with [] => None | (k, v) :: t => if Nat.eqb k b then Some v else o_get b t end.
Fixpoint o_set (b : nat) (v : links) (o : order) : order :=
  match o with [] => [(b, v)] | (k, v') :: t => if Nat.eqb k b then (k, v) :: t else (k, v') :: o_set b v t end.
Fixpoint o_del (b : nat) (o : order) : order :=
  match o with [] => [] | (k, v') :: t => if Nat.eqb k b then t else (k, v') :: o_del b t end.

Definition set_prev (b : nat) (p : option nat) (o : order) : order :=
  match o_get b o with Some (_, n) => o_set b (p, n) o | None => o end.
Definition set_next (b : nat) (n : option nat) (o : order) : order :=
  match o_get b o with Some (p, _) => o_set b (p, n) o | None => o end.

Definition adjacent_blocks (o : order) (b : nat) : result (option nat * option nat) :=
  match o_get b o with Some l => Ok l | None => Err KeyErr end.

(* LinkedListNode.unlink, then the dict entry is gone *)
Definition remove_block (o : order) (b : nat) : result order :=
  match o_get b o with
  | None => Err KeyErr
  | Some (p, n) =>
      let o1 := match p with Some pb => set_next pb n o | None => o end in
      let o2 := match n with Some nb => set_prev nb p o1 | None => o1 end in
      Ok (o_del b o2)
  end.

(* self.insert_node_after(node) with a fresh node for block nb *)
Definition insert_node_after (o : order) (self nb : nat) : order :=
  match o_get self o with
  | None => o
  | Some (sp, sn) =>
      let o1 := match sn with Some x => set_prev x (Some nb) o | None => o end in
      let o2 := o_set nb (Some self, sn) o1 in
      o_set self (sp, Some nb) o2
  end.

Fixpoint insert_loop (o : order) (prev : option nat) (blocks : list nat) : order :=
  match blocks with
  | [] => o
  | b :: t =>
      let o' := match prev with
                | Some p => insert_node_after (o_set b (None, None) o) p b
                | None => o_set b (None, None) o
                end in
      insert_loop o' (Some b) t
  end.

Definition primitive_insert (o : order) (after : option nat) (blocks : list nat) : result order :=
  if existsb (fun b => match o_get b o with Some _ => true | None => false end) blocks then Err ValueErr
  else match after with
       | Some a => match o_get a o with
                   | None => Err KeyErr
                   | Some _ => Ok (insert_loop o (Some a) blocks)
                   end
       | None => Ok (insert_loop o None blocks)
       end.

Definition add_detached_blocks (o : order) (blocks : list nat) := primitive_insert o None blocks.
Definition insert_blocks_after (o : order) (a : nat) (blocks : list nat) := primitive_insert o (Some a) blocks.
