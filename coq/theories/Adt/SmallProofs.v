(* OffsetMapping = dictionary of dictionaries; IdentitySet = set of identities. *)
From Coq Require Import List Bool Arith ZArith Lia.
From GR Require Import Base.Result Adt.OffsetMap Adt.IdSet.
Import ListNotations.

(* ---- inner dictionaries ---- *)
Lemma in_get_set d v m d' : in_get d' (in_set d v m) = if Z.eqb d d' then Some v else in_get d' m.
Proof.
  induction m as [|[k v0] t IH]; cbn [in_set in_get].
  - destruct (Z.eqb d d'); reflexivity.
  - destruct (Z.eqb k d) eqn:E; cbn [in_get].
    + apply Z.eqb_eq in E. subst. destruct (Z.eqb d d'); reflexivity.
    + rewrite IH. destruct (Z.eqb k d') eqn:E2; [|reflexivity].
      apply Z.eqb_eq in E2. subst. rewrite Z.eqb_sym, E. reflexivity.
Qed.
Lemma in_keys_get d m : in_get d m = None <-> ~ In d (map fst m).
Proof.
  induction m as [|[k v0] t IH]; cbn [in_get map fst In]; [tauto|].
  destruct (Z.eqb k d) eqn:E; [apply Z.eqb_eq in E; split; [discriminate|tauto]|].
  apply Z.eqb_neq in E. rewrite IH. tauto.
Qed.
Lemma in_get_del d m d' : NoDup (map fst m) ->
  in_get d' (in_del d m) = if Z.eqb d d' then None else in_get d' m.
Proof.
  induction m as [|[k v0] t IH]; intros Hn; cbn [in_del in_get].
  - destruct (Z.eqb d d'); reflexivity.
  - cbn [map fst] in Hn. inversion Hn as [|? ? Hk Hn']; subst.
    destruct (Z.eqb k d) eqn:E.
    + apply Z.eqb_eq in E. subst. destruct (Z.eqb d d') eqn:E2; [|reflexivity].
      apply Z.eqb_eq in E2. subst. apply in_keys_get. exact Hk.
    + cbn [in_get]. rewrite (IH Hn'). destruct (Z.eqb k d') eqn:E2; [|reflexivity].
      apply Z.eqb_eq in E2. subst. rewrite Z.eqb_sym, E. reflexivity.
Qed.

(* ---- outer dictionary ---- *)
Lemma om_get_set e v m e' : om_get e' (om_set e v m) = if Nat.eqb e e' then Some v else om_get e' m.
Proof.
  induction m as [|[k v0] t IH]; cbn [om_set om_get].
  - destruct (Nat.eqb e e'); reflexivity.
  - destruct (Nat.eqb k e) eqn:E; cbn [om_get].
    + apply Nat.eqb_eq in E. subst. destruct (Nat.eqb e e'); reflexivity.
    + rewrite IH. destruct (Nat.eqb k e') eqn:E2; [|reflexivity].
      apply Nat.eqb_eq in E2. subst. rewrite Nat.eqb_sym, E. reflexivity.
Qed.
Lemma om_keys_get e m : om_get e m = None <-> ~ In e (map fst m).
Proof.
  induction m as [|[k v0] t IH]; cbn [om_get map fst In]; [tauto|].
  destruct (Nat.eqb k e) eqn:E; [apply Nat.eqb_eq in E; split; [discriminate|tauto]|].
  apply Nat.eqb_neq in E. rewrite IH. tauto.
Qed.
Lemma om_get_del e m e' : NoDup (map fst m) ->
  om_get e' (om_del e m) = if Nat.eqb e e' then None else om_get e' m.
Proof.
  induction m as [|[k v0] t IH]; intros Hn; cbn [om_del om_get].
  - destruct (Nat.eqb e e'); reflexivity.
  - cbn [map fst] in Hn. inversion Hn as [|? ? Hk Hn']; subst.
    destruct (Nat.eqb k e) eqn:E.
    + apply Nat.eqb_eq in E. subst. destruct (Nat.eqb e e') eqn:E2; [|reflexivity].
      apply Nat.eqb_eq in E2. subst. apply om_keys_get. exact Hk.
    + cbn [om_get]. rewrite (IH Hn'). destruct (Nat.eqb k e') eqn:E2; [|reflexivity].
      apply Nat.eqb_eq in E2. subst. rewrite Nat.eqb_sym, E. reflexivity.
Qed.

(* the abstract reading: element -> optional (displacement -> optional value) *)
Definition dd (m : omap) (e : nat) (d : Z) : option Z :=
  match om_get e m with Some i => in_get d i | None => None end.

Theorem getitem_off_is_dict : forall m e d,
  getitem_off m e d = match dd m e d with Some v => Ok v | None => Err KeyErr end.
Proof. intros. unfold getitem_off, dd. destruct (om_get e m); [destruct (in_get d i)|]; reflexivity. Qed.

Theorem setitem_off_is_dict : forall m e d v e' d',
  dd (setitem_off m e d v) e' d' = if Nat.eqb e e' && Z.eqb d d' then Some v else dd m e' d'.
Proof.
  intros. unfold setitem_off, dd. rewrite om_get_set. destruct (Nat.eqb e e') eqn:E; cbn [andb].
  - apply Nat.eqb_eq in E. subst. rewrite in_get_set. destruct (Z.eqb d d'); [reflexivity|].
    destruct (om_get e' m); reflexivity.
  - reflexivity.
Qed.

Theorem setitem_elem_is_dict : forall m e i e' d',
  dd (setitem_elem m e i) e' d' = if Nat.eqb e e' then in_get d' i else dd m e' d'.
Proof. intros. unfold setitem_elem, dd. rewrite om_get_set. destruct (Nat.eqb e e'); reflexivity. Qed.

Definition om_wf (m : omap) : Prop := NoDup (map fst m) /\ Forall (fun kv => NoDup (map fst (snd kv))) m.

Lemma om_wf_inner m e i : om_wf m -> om_get e m = Some i -> NoDup (map fst i).
Proof.
  intros [_ H]. induction m as [|[k v] t IH]; cbn [om_get]; [discriminate|].
  inversion H; subst. destruct (Nat.eqb k e); [intros E; injection E as <-; assumption|apply IH; assumption].
Qed.

Theorem delitem_off_is_dict : forall m e d m', om_wf m -> delitem_off m e d = Ok m' ->
  dd m e d <> None /\ forall e' d', dd m' e' d' = if Nat.eqb e e' && Z.eqb d d' then None else dd m e' d'.
Proof.
  intros m e d m' Hwf H. unfold delitem_off in H. destruct (om_get e m) as [i|] eqn:G; [|discriminate].
  destruct (in_get d i) eqn:G2; [|discriminate]. injection H as <-. split.
  - unfold dd. rewrite G, G2. discriminate.
  - intros e' d'. unfold dd. rewrite om_get_set. destruct (Nat.eqb e e') eqn:E; cbn [andb]; [|reflexivity].
    apply Nat.eqb_eq in E. subst. rewrite in_get_del by (eapply om_wf_inner; eassumption).
    rewrite G. reflexivity.
Qed.

Theorem delitem_off_missing : forall m e d, dd m e d = None -> delitem_off m e d = Err KeyErr.
Proof. intros m e d H. unfold delitem_off, dd in *. destruct (om_get e m); [rewrite H|]; reflexivity. Qed.

Theorem delitem_elem_is_dict : forall m e m', om_wf m -> delitem_elem m e = Ok m' ->
  forall e' d', dd m' e' d' = if Nat.eqb e e' then None else dd m e' d'.
Proof.
  intros m e m' [Hn _] H e' d'. unfold delitem_elem in H. destruct (om_get e m); [|discriminate].
  injection H as <-. unfold dd. rewrite om_get_del by exact Hn. destruct (Nat.eqb e e'); reflexivity.
Qed.

Theorem contains_is_dict : forall m e d,
  contains_off m e d = match dd m e d with Some _ => true | None => false end /\
  contains_elem m e = match om_get e m with Some _ => true | None => false end.
Proof. intros. unfold contains_off, contains_elem, dd. destruct (om_get e m); [destruct (in_get d i)|]; auto. Qed.

(* the flat view: len = number of yielded Offsets; every yielded Offset is present *)
Theorem flat_view : forall m,
  om_len m = length (om_iter m) /\
  (om_bool m = true <-> om_iter m <> []) /\
  forall e d, In (e, d) (om_iter m) -> exists i, In (e, i) m /\ In d (map fst i).
Proof.
  intros m. split; [|split].
  - unfold om_len, om_iter. induction m as [|[k i] t IH]; cbn; [reflexivity|].
    rewrite app_length, map_length, IH. reflexivity.
  - unfold om_bool, om_iter. induction m as [|[k i] t IH]; cbn [existsb flat_map snd fst].
    + split; [discriminate|congruence].
    + destruct i as [|x i]; cbn [map app orb].
      * exact IH.
      * split; [discriminate|reflexivity].
  - intros e d H. unfold om_iter in H. apply in_flat_map in H as ([k i] & H1 & H2). cbn [fst snd] in H2.
    apply in_map_iff in H2 as ([d0 v0] & E & H3). injection E as -> ->. exists i. split; [exact H1|].
    apply in_map_iff. exists (d, v0). auto.
Qed.

(* ---- IdentitySet ---- *)
Lemma ids_mem_In x s : ids_mem x s = true <-> In x s.
Proof.
  unfold ids_mem. rewrite existsb_exists. split.
  - intros (y & H & E). apply Nat.eqb_eq in E. subst. exact H.
  - intros H. exists x. split; [exact H|apply Nat.eqb_refl].
Qed.

Theorem idset_is_set : forall s x y,
  (In y (ids_add x s) <-> y = x \/ In y s) /\
  (In y (ids_discard x s) <-> In y s /\ y <> x) /\
  (NoDup s -> NoDup (ids_add x s) /\ NoDup (ids_discard x s)).
Proof.
  intros s x y. split; [|split].
  - unfold ids_add. destruct (ids_mem x s) eqn:E.
    + apply ids_mem_In in E. split; [tauto|intros [->|H]; assumption].
    + rewrite in_app_iff. cbn [In]. intuition.
  - unfold ids_discard. rewrite filter_In, negb_true_iff, Nat.eqb_neq. intuition.
  - intros Hn. split.
    + unfold ids_add. destruct (ids_mem x s) eqn:E; [exact Hn|].
      assert (~ In x s) by (rewrite <- ids_mem_In; congruence).
      clear E. induction Hn as [|z t Hz Hn IH]; cbn [app]; [repeat constructor; intros []|].
      constructor; [rewrite in_app_iff; cbn [In]; intros [Hc|[Hc|[]]]; [tauto|subst; apply H; left; reflexivity]|].
      apply IH. intros Hc. apply H. right. exact Hc.
    + unfold ids_discard. apply NoDup_filter. exact Hn.
Qed.

Theorem idset_remove : forall s x,
  (In x s -> ids_remove x s = Ok (ids_discard x s)) /\ (~ In x s -> ids_remove x s = Err KeyErr).
Proof.
  intros s x. unfold ids_remove. split; intros H.
  - apply ids_mem_In in H. rewrite H. reflexivity.
  - destruct (ids_mem x s) eqn:E; [apply ids_mem_In in E; contradiction|reflexivity].
Qed.

(* writing through the dictionary that m[e] hands out is writing to the mapping: the flat views (len, bool, iteration) see it *)
Theorem inner_setitem_is_dict : forall m e d v m', inner_setitem m e d v = Ok m' ->
  (forall e' d', dd m' e' d' = if andb (Nat.eqb e e') (Z.eqb d d') then Some v else dd m e' d') /\
  om_len m' = length (om_iter m') /\ (om_bool m' = true <-> om_iter m' <> []).
Proof.
  intros m e d v m' H. unfold inner_setitem in H. destruct (om_get e m); [|discriminate]. injection H as <-.
  split; [intros; apply setitem_off_is_dict|]. destruct (flat_view (setitem_off m e d v)) as (A & B & _). split; assumption.
Qed.

Theorem inner_setitem_missing : forall m e d v, om_get e m = None -> inner_setitem m e d v = Err KeyErr.
Proof. intros m e d v H. unfold inner_setitem. rewrite H. reflexivity. Qed.
