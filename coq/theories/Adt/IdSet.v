(* Hand model of _adt/identity_set.py: a dict keyed by id(value).  Objects are (identity, payload):
   two objects may have equal payloads and different identities.  No proofs here. *)
From Coq Require Import List Bool Arith.
From GR Require Import Base.Result.
Import ListNotations.

Definition idset := list nat.     (* identities, insertion order of first add *)
Definition ids_mem (x : nat) (s : idset) : bool := existsb (Nat.eqb x) s.
Definition ids_add (x : nat) (s : idset) : idset := if ids_mem x s then s else s ++ [x].
Definition ids_discard (x : nat) (s : idset) : idset := filter (fun y => negb (Nat.eqb x y)) s.
(* MutableSet.remove *)
Definition ids_remove (x : nat) (s : idset) : result idset := if ids_mem x s then Ok (ids_discard x s) else Err KeyErr.
Definition ids_len (s : idset) : nat := length s.
