(* ReturnEdgeCache = a scan of the CFG for return edges; the context manager always restores. *)
From Coq Require Import List Bool Arith Lia.
From GR Require Import Base.Result Adt.RetCache.
Import ListNotations.

Lemma node_eqb_eq a b : node_eqb a b = true <-> a = b.
Proof.
  destruct a, b; cbn; rewrite ?Nat.eqb_eq; split; try congruence; try discriminate.
Qed.
Lemma node_eqb_refl a : node_eqb a a = true.
Proof. apply node_eqb_eq. reflexivity. Qed.
Lemma label_eqb_eq a b : label_eqb a b = true <-> a = b.
Proof.
  destruct a as [[[t1 c1] d1]|], b as [[[t2 c2] d2]|]; cbn; try (split; congruence).
  rewrite !andb_true_iff, Nat.eqb_eq, !eqb_true_iff. split; [intros [[-> ->] ->]; reflexivity|intros H; injection H; auto].
Qed.
Lemma edge_eqb_eq a b : edge_eqb a b = true <-> a = b.
Proof.
  unfold edge_eqb. rewrite !andb_true_iff, !node_eqb_eq, label_eqb_eq.
  destruct a, b; cbn. split; [intros [[-> ->] ->]; reflexivity|intros H; injection H; auto].
Qed.
Lemma edge_eqb_refl a : edge_eqb a a = true.
Proof. apply edge_eqb_eq. reflexivity. Qed.

Lemma es_mem_In e s : es_mem e s = true <-> In e s.
Proof.
  unfold es_mem. rewrite existsb_exists. split.
  - intros (x & Hx & E). apply edge_eqb_eq in E. subst. exact Hx.
  - intros H. exists e. split; [exact H|apply edge_eqb_refl].
Qed.
Lemma es_add_In e s x : In x (es_add e s) <-> x = e \/ In x s.
Proof.
  unfold es_add. destruct (es_mem e s) eqn:E.
  - apply es_mem_In in E. split; [tauto|intros [->|H]; assumption].
  - rewrite in_app_iff. cbn [In]. intuition.
Qed.
Lemma es_discard_In e s x : In x (es_discard e s) <-> In x s /\ x <> e.
Proof.
  unfold es_discard. rewrite filter_In, negb_true_iff. split.
  - intros [H1 H2]. split; [exact H1|]. intros ->. rewrite edge_eqb_refl in H2. discriminate.
  - intros [H1 H2]. split; [exact H1|]. destruct (edge_eqb e x) eqn:E; [apply edge_eqb_eq in E; congruence|reflexivity].
Qed.

(* ---- the index as a finite map ---- *)
Definition ix_look (k : node) (i : index) : eset := match ix_get k i with Some s => s | None => [] end.

Lemma ix_get_set k v i k' : ix_get k' (ix_set k v i) = if node_eqb k k' then Some v else ix_get k' i.
Proof.
  induction i as [|[k0 v0] t IH]; cbn [ix_set ix_get].
  - destruct (node_eqb k k'); reflexivity.
  - destruct (node_eqb k0 k) eqn:E; cbn [ix_get].
    + apply node_eqb_eq in E. subst. destruct (node_eqb k k'); reflexivity.
    + rewrite IH. destruct (node_eqb k0 k') eqn:E2; [|reflexivity].
      apply node_eqb_eq in E2. subst.
      destruct (node_eqb k k') eqn:E3; [apply node_eqb_eq in E3; subst; rewrite node_eqb_refl in E; discriminate|reflexivity].
Qed.
Lemma ix_get_in k i s : ix_get k i = Some s -> In k (map fst i).
Proof.
  induction i as [|[k0 v0] t IH]; cbn [ix_get map fst In]; [discriminate|].
  destruct (node_eqb k0 k) eqn:E; [apply node_eqb_eq in E; tauto|intros H; right; auto].
Qed.
Lemma ix_get_del k i k' : NoDup (map fst i) ->
  ix_get k' (ix_del k i) = if node_eqb k k' then None else ix_get k' i.
Proof.
  induction i as [|[k0 v0] t IH]; intros Hn; cbn [ix_del ix_get].
  - destruct (node_eqb k k'); reflexivity.
  - cbn [map fst] in Hn. inversion Hn as [|? ? Hk Hn']; subst.
    destruct (node_eqb k0 k) eqn:E.
    + apply node_eqb_eq in E. subst. destruct (node_eqb k k') eqn:E2; [|reflexivity].
      apply node_eqb_eq in E2. subst. destruct (ix_get k' t) eqn:G; [exfalso; apply Hk; eapply ix_get_in; eassumption|reflexivity].
    + cbn [ix_get]. rewrite (IH Hn'). destruct (node_eqb k0 k') eqn:E2; [|reflexivity].
      apply node_eqb_eq in E2. subst.
      destruct (node_eqb k k') eqn:E3; [apply node_eqb_eq in E3; subst; rewrite node_eqb_refl in E; discriminate|reflexivity].
Qed.
Lemma ix_set_keys k v i x : In x (map fst (ix_set k v i)) <-> x = k \/ In x (map fst i).
Proof.
  induction i as [|[k0 v0] t IH]; cbn [ix_set map fst In]; [intuition|].
  destruct (node_eqb k0 k) eqn:E; cbn [map fst In].
  - apply node_eqb_eq in E. subst. intuition.
  - rewrite IH. intuition.
Qed.
Lemma ix_set_NoDup k v i : NoDup (map fst i) -> NoDup (map fst (ix_set k v i)).
Proof.
  induction i as [|[k0 v0] t IH]; intros Hn; cbn [ix_set map fst] in *; [repeat constructor; intros []|].
  inversion Hn; subst. destruct (node_eqb k0 k) eqn:E; cbn [map fst].
  - constructor; assumption.
  - constructor; [|auto]. rewrite ix_set_keys. intros [->|Hc]; [rewrite node_eqb_refl in E; discriminate|tauto].
Qed.
Lemma ix_del_keys k i x : In x (map fst (ix_del k i)) -> In x (map fst i).
Proof.
  induction i as [|[k0 v0] t IH]; cbn [ix_del map fst In]; [tauto|].
  destruct (node_eqb k0 k); cbn [map fst In]; tauto.
Qed.
Lemma ix_del_NoDup k i : NoDup (map fst i) -> NoDup (map fst (ix_del k i)).
Proof.
  induction i as [|[k0 v0] t IH]; intros Hn; cbn [ix_del map fst] in *; [constructor|].
  inversion Hn; subst. destruct (node_eqb k0 k); [assumption|]. cbn [map fst]. constructor; [|auto].
  intros Hc. apply ix_del_keys in Hc. tauto.
Qed.

(* an index built for predicate P over the edge set *)
Definition ix_ok (P : edge -> bool) (cfg : eset) (i : index) : Prop :=
  NoDup (map fst i) /\
  forall b, (forall e, In e (ix_look b i) <-> In e cfg /\ P e = true /\ src e = b) /\
            (ix_get b i = Some [] -> False).

Lemma ix_add_ok P cfg i e : ix_ok P cfg i -> P e = true ->
  ix_ok P (es_add e cfg) (ix_add (src e) e i).
Proof.
  intros [Hn H] HP. split; [apply ix_set_NoDup; exact Hn|]. intros b. unfold ix_add, ix_look. rewrite ix_get_set.
  destruct (node_eqb (src e) b) eqn:E.
  - apply node_eqb_eq in E. subst b. split.
    + intros x. rewrite !es_add_In. fold (ix_look (src e) i). rewrite (proj1 (H (src e)) x). split.
      * intros [->|(H1 & H2 & H3)]; auto.
      * intros ([->|H1] & H2 & H3); auto.
    + intros Hc. injection Hc as Hc. assert (In e (es_add e (ix_look (src e) i))) by (apply es_add_In; auto).
      unfold ix_look in H0. rewrite Hc in H0. destruct H0.
  - split.
    + intros x. fold (ix_look b i). rewrite (proj1 (H b) x), es_add_In. split.
      * intros (H1 & H2 & H3). auto.
      * intros ([->|H1] & H2 & H3); [rewrite H3, node_eqb_refl in E; discriminate|auto].
    + apply H.
Qed.

Lemma ix_add_other_ok P cfg i e : ix_ok P cfg i -> P e = false -> ix_ok P (es_add e cfg) i.
Proof.
  intros [Hn H] HP. split; [exact Hn|]. intros b. split; [|apply H].
  intros x. rewrite (proj1 (H b) x), es_add_In. split; [tauto|].
  intros ([->|H1] & H2 & H3); [congruence|auto].
Qed.

Lemma ix_discard_ok P cfg i e : ix_ok P cfg i -> P e = true ->
  ix_ok P (es_discard e cfg) (ix_discard (src e) e i).
Proof.
  intros [Hn H] HP. unfold ix_discard. fold (ix_look (src e) i).
  destruct (es_discard e (ix_look (src e) i)) as [|y ys] eqn:Ed.
  - split; [apply ix_del_NoDup; exact Hn|]. intros b. unfold ix_look. rewrite ix_get_del by exact Hn.
    destruct (node_eqb (src e) b) eqn:E.
    + apply node_eqb_eq in E. subst b. split; [|discriminate].
      intros x. cbn [In]. rewrite es_discard_In. split; [tauto|]. intros ((H1 & H2) & H3 & H4).
      assert (Hx : In x (es_discard e (ix_look (src e) i))) by (apply es_discard_In; split; [apply H; auto|exact H2]).
      rewrite Ed in Hx. destruct Hx.
    + split; [|apply H]. intros x. fold (ix_look b i). rewrite (proj1 (H b) x), es_discard_In. split; [|tauto].
      intros (H1 & H2 & H3). repeat split; auto. intros ->. rewrite H3, node_eqb_refl in E. discriminate.
  - rewrite <- Ed. split; [apply ix_set_NoDup; exact Hn|]. intros b. unfold ix_look. rewrite ix_get_set.
    destruct (node_eqb (src e) b) eqn:E.
    + apply node_eqb_eq in E. subst b. split.
      * intros x. rewrite !es_discard_In, (proj1 (H (src e)) x). tauto.
      * fold (ix_look (src e) i). rewrite Ed. discriminate.
    + split; [|apply H]. intros x. fold (ix_look b i). rewrite (proj1 (H b) x), es_discard_In. split; [|tauto].
      intros (H1 & H2 & H3). repeat split; auto. intros ->. rewrite H3, node_eqb_refl in E. discriminate.
Qed.

Lemma ix_discard_other_ok P cfg i e : ix_ok P cfg i -> P e = false -> ix_ok P (es_discard e cfg) i.
Proof.
  intros [Hn H] HP. split; [exact Hn|]. intros b. split; [|apply H].
  intros x. rewrite (proj1 (H b) x), es_discard_In. split; [|tauto].
  intros (H1 & H2 & H3). repeat split; auto. intros ->. congruence.
Qed.

Definition is_proxy_return (e : edge) : bool := is_return e && is_proxy (tgt e).
Definition RInv (c : rcache) : Prop :=
  ix_ok is_return (cfg c) (ret_ix c) /\ ix_ok is_proxy_return (cfg c) (proxy_ix c).

Lemma RInv_empty : RInv empty_rcache.
Proof.
  split; (split; [constructor|]; intros b; split; [intros e; cbn; tauto|cbn; discriminate]).
Qed.

Lemma rc_add_inv c e : RInv c -> RInv (rc_add c e).
Proof.
  intros [H1 H2]. unfold rc_add. destruct (is_return e) eqn:Er.
  - split; cbn [cfg ret_ix proxy_ix]; [apply ix_add_ok; assumption|].
    destruct (is_proxy (tgt e)) eqn:Ep.
    + apply ix_add_ok; [exact H2|]. unfold is_proxy_return. rewrite Er, Ep. reflexivity.
    + apply ix_add_other_ok; [exact H2|]. unfold is_proxy_return. rewrite Er, Ep. reflexivity.
  - split; cbn [cfg ret_ix proxy_ix]; [apply ix_add_other_ok; assumption|].
    apply ix_add_other_ok; [exact H2|]. unfold is_proxy_return. rewrite Er. reflexivity.
Qed.

Lemma rc_discard_inv c e : RInv c -> RInv (rc_discard c e).
Proof.
  intros [H1 H2]. unfold rc_discard. destruct (is_return e) eqn:Er.
  - split; cbn [cfg ret_ix proxy_ix]; [apply ix_discard_ok; assumption|].
    destruct (is_proxy (tgt e)) eqn:Ep.
    + apply ix_discard_ok; [exact H2|]. unfold is_proxy_return. rewrite Er, Ep. reflexivity.
    + apply ix_discard_other_ok; [exact H2|]. unfold is_proxy_return. rewrite Er, Ep. reflexivity.
  - split; cbn [cfg ret_ix proxy_ix]; [apply ix_discard_other_ok; assumption|].
    apply ix_discard_other_ok; [exact H2|]. unfold is_proxy_return. rewrite Er. reflexivity.
Qed.

Lemma rc_update_inv es : forall c, RInv c -> RInv (rc_update c es).
Proof. induction es as [|e t IH]; intros c H; cbn; [exact H|]. apply IH, rc_add_inv, H. Qed.

(* the operations of the cache, seen as a set of edges *)
Inductive rop := RAdd (e : edge) | RDiscard (e : edge) | RClear | RUpdate (es : list edge).
Definition rstep (c : rcache) (o : rop) : rcache :=
  match o with RAdd e => rc_add c e | RDiscard e => rc_discard c e | RClear => rc_clear c | RUpdate es => rc_update c es end.

Lemma rstep_inv c o : RInv c -> RInv (rstep c o).
Proof. destruct o; cbn; intros H; [apply rc_add_inv|apply rc_discard_inv|apply RInv_empty|apply rc_update_inv]; exact H. Qed.

Theorem reachable_inv : forall ops, RInv (fold_left rstep ops empty_rcache).
Proof.
  intros ops. assert (H : forall c, RInv c -> RInv (fold_left rstep ops c)).
  { induction ops as [|o t IH]; intros c Hc; cbn; [exact Hc|]. apply IH, rstep_inv, Hc. }
  apply H, RInv_empty.
Qed.

(* the three queries equal a scan of the edge set *)
Theorem queries_are_scans : forall c b, RInv c ->
  (forall e, In e (block_return_edges c b) <-> In e (cfg c) /\ is_return e = true /\ src e = b) /\
  (forall e, In e (block_proxy_return_edges c b) <->
             In e (cfg c) /\ is_return e = true /\ is_proxy (tgt e) = true /\ src e = b) /\
  (any_return_edges c b = true <-> exists e, In e (cfg c) /\ is_return e = true /\ src e = b).
Proof.
  intros c b [[Hn1 H1] [Hn2 H2]]. split; [|split].
  - intros e. apply (proj1 (H1 b) e).
  - intros e. unfold block_proxy_return_edges. fold (ix_look b (proxy_ix c)).
    rewrite (proj1 (H2 b) e). unfold is_proxy_return. rewrite andb_true_iff. tauto.
  - unfold any_return_edges. destruct (ix_get b (ret_ix c)) as [s|] eqn:G.
    + split; [intros _|reflexivity]. destruct s as [|e s]; [exfalso; eapply (proj2 (H1 b)); exact G|].
      exists e. apply (proj1 (H1 b) e). unfold ix_look. rewrite G. left. reflexivity.
    + split; [discriminate|]. intros (e & He). apply (proj1 (H1 b) e) in He. unfold ix_look in He. rewrite G in He. destruct He.
Qed.

(* the edge set itself behaves like a set *)
Lemma cfg_add c e x : In x (cfg (rc_add c e)) <-> x = e \/ In x (cfg c).
Proof. unfold rc_add. destruct (is_return e); cbn [cfg]; apply es_add_In. Qed.
Lemma cfg_discard c e x : In x (cfg (rc_discard c e)) <-> In x (cfg c) /\ x <> e.
Proof. unfold rc_discard. destruct (is_return e); cbn [cfg]; apply es_discard_In. Qed.
Lemma cfg_update es : forall c x, In x (cfg (rc_update c es)) <-> In x es \/ In x (cfg c).
Proof.
  induction es as [|e t IH]; intros c x; cbn [rc_update fold_left In]; [tauto|].
  fold (rc_update (rc_add c e) t). rewrite IH, cfg_add. intuition.
Qed.

(* ---- make_return_cache ---- *)
Lemma fold_es_add l : forall acc x, In x (fold_left (fun s e => es_add e s) l acc) <-> In x l \/ In x acc.
Proof.
  induction l as [|e t IH]; intros acc x; cbn [fold_left In]; [tauto|]. rewrite IH, es_add_In. intuition.
Qed.

Theorem exit_restores : forall old0 body,
  let '(c, st) := with_return_cache old0 body in
  ir_cfg c = PtrOld /\ (forall e, In e (old_cfg c) <-> In e (cfg (cache c))).
Proof.
  intros old0 body. unfold with_return_cache. destruct (run_body (enter old0) body) as [c raised].
  unfold leave. cbn [ir_cfg old_cfg cache]. split; [reflexivity|].
  intros e. rewrite fold_es_add. cbn [In]. tauto.
Qed.

Theorem enter_copies : forall old0 e, In e (cfg (cache (enter old0))) <-> In e old0.
Proof. intros old0 e. unfold enter. cbn [cache]. rewrite cfg_update. cbn. tauto. Qed.

Lemma same_set_spec a b : same_set a b = true <-> (forall e, In e a <-> In e b).
Proof.
  unfold same_set. rewrite andb_true_iff, !forallb_forall. split.
  - intros [H1 H2] e. split; intros H; [apply es_mem_In, H1, H|apply es_mem_In, H2, H].
  - intros H. split; intros e He; apply es_mem_In, H, He.
Qed.

(* the error is reported exactly when the body ended normally and either the original CFG object was
   modified or ir.cfg was replaced *)
Theorem exit_status_spec : forall old0 body,
  let '(c0, raised) := run_body (enter old0) body in
  let st := snd (with_return_cache old0 body) in
  (raised = true -> st = ExitBodyRaised) /\
  (raised = false ->
     (st = ExitCFGModified <-> (~ (forall e, In e (old_cfg c0) <-> In e old0) \/ ir_cfg c0 <> PtrCache)) /\
     (st = ExitOk <-> ((forall e, In e (old_cfg c0) <-> In e old0) /\ ir_cfg c0 = PtrCache))).
Proof.
  intros old0 body. unfold with_return_cache. destruct (run_body (enter old0) body) as [c0 raised].
  unfold leave. cbn [snd]. split.
  - intros ->. reflexivity.
  - intros ->. destruct (same_set (old_cfg c0) old0) eqn:Es; cbn [negb].
    + pose proof (proj1 (same_set_spec _ _) Es) as Hs.
      destruct (ir_cfg c0) eqn:Ei; split; split; intros H; try discriminate; try reflexivity.
      * right. discriminate.
      * destruct H as [_ H]. discriminate.
      * destruct H as [H|H]; [contradiction|congruence].
      * split; [exact Hs|reflexivity].
      * right. discriminate.
      * destruct H as [_ H]. discriminate.
    + assert (Hn : ~ (forall e, In e (old_cfg c0) <-> In e old0)).
      { intros Hc. apply (proj2 (same_set_spec _ _)) in Hc. congruence. }
      split; split; intros H; try discriminate; try reflexivity.
      * left. exact Hn.
      * destruct H as [H _]. contradiction.
Qed.
