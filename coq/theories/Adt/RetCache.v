(* Hand model of _modify/cache.py ReturnEdgeCache (a gtirb.CFG subclass with two indexes) and of
   the make_return_cache context manager.  Sets are duplicate-free lists.  No proofs here. *)
From Coq Require Import List Bool Arith.
From GR Require Import Base.Result.
Import ListNotations.

Inductive node := NB (n : nat) | NP (n : nat).        (* code block / proxy block *)
Definition node_eqb (a b : node) : bool :=
  match a, b with NB x, NB y | NP x, NP y => Nat.eqb x y | _, _ => false end.

(* edge label: None, or (type, conditional, direct); type 3 = Return in gtirb.Edge.Type
   (Branch=0 Call=1 Fallthrough=2 Return=3 Syscall=4 Sysret=5): the harness passes the enum value *)
Record edge := mk_edge { src : node; tgt : node; label : option (nat * bool * bool) }.
Definition RETURN_TYPE := 3.

Definition label_eqb (a b : option (nat * bool * bool)) : bool :=
  match a, b with
  | None, None => true
  | Some (t1, c1, d1), Some (t2, c2, d2) => Nat.eqb t1 t2 && Bool.eqb c1 c2 && Bool.eqb d1 d2
  | _, _ => false
  end.
Definition edge_eqb (a b : edge) : bool :=
  node_eqb (src a) (src b) && node_eqb (tgt a) (tgt b) && label_eqb (label a) (label b).

Definition is_return (e : edge) : bool :=
  match label e with Some (t, _, _) => Nat.eqb t RETURN_TYPE | None => false end.
Definition is_proxy (n : node) : bool := match n with NP _ => true | NB _ => false end.

Definition eset := list edge.
Definition es_mem (e : edge) (s : eset) : bool := existsb (edge_eqb e) s.
Definition es_add (e : edge) (s : eset) : eset := if es_mem e s then s else s ++ [e].
Definition es_discard (e : edge) (s : eset) : eset := filter (fun x => negb (edge_eqb e x)) s.

Definition index := list (node * eset).
Fixpoint ix_get (k : node) (i : index) : option eset :=
  match i with [] => None | (k', v) :: t => if node_eqb k' k then Some v else ix_get k t end.
Fixpoint ix_set (k : node) (v : eset) (i : index) : index :=
  match i with [] => [(k, v)] | (k', v') :: t => if node_eqb k' k then (k', v) :: t else (k', v') :: ix_set k v t end.
Fixpoint ix_del (k : node) (i : index) : index :=
  match i with [] => [] | (k', v') :: t => if node_eqb k' k then t else (k', v') :: ix_del k t end.

Record rcache := mk_rcache { cfg : eset; ret_ix : index; proxy_ix : index }.
Definition empty_rcache := mk_rcache [] [] [].

(* defaultdict(set)[key].add(value) *)
Definition ix_add (k : node) (e : edge) (i : index) : index :=
  ix_set k (es_add e (match ix_get k i with Some s => s | None => [] end)) i.
(* _dict_set_discard: setdict[key] (created if absent), discard, delete the entry when empty *)
Definition ix_discard (k : node) (e : edge) (i : index) : index :=
  let s := es_discard e (match ix_get k i with Some s => s | None => [] end) in
  match s with [] => ix_del k i | _ => ix_set k s i end.

Definition rc_add (c : rcache) (e : edge) : rcache :=
  let cfg' := es_add e (cfg c) in
  if is_return e then
    mk_rcache cfg' (ix_add (src e) e (ret_ix c))
              (if is_proxy (tgt e) then ix_add (src e) e (proxy_ix c) else proxy_ix c)
  else mk_rcache cfg' (ret_ix c) (proxy_ix c).

Definition rc_discard (c : rcache) (e : edge) : rcache :=
  let cfg' := es_discard e (cfg c) in
  if is_return e then
    mk_rcache cfg' (ix_discard (src e) e (ret_ix c))
              (if is_proxy (tgt e) then ix_discard (src e) e (proxy_ix c) else proxy_ix c)
  else mk_rcache cfg' (ret_ix c) (proxy_ix c).

Definition rc_clear (c : rcache) : rcache := empty_rcache.
Definition rc_update (c : rcache) (es : list edge) : rcache := fold_left rc_add es c.

Definition any_return_edges (c : rcache) (b : node) : bool :=
  match ix_get b (ret_ix c) with Some _ => true | None => false end.
Definition block_return_edges (c : rcache) (b : node) : eset :=
  match ix_get b (ret_ix c) with Some s => s | None => [] end.
Definition block_proxy_return_edges (c : rcache) (b : node) : eset :=
  match ix_get b (proxy_ix c) with Some s => s | None => [] end.

(* ---- make_return_cache(ir) when ir.cfg is a plain CFG ---- *)
Inductive cfg_ptr := PtrOld | PtrCache | PtrOther.
Record ctx := mk_ctx { old_cfg : eset; cache : rcache; ir_cfg : cfg_ptr }.

Inductive action :=
| ACacheAdd (e : edge) | ACacheDiscard (e : edge) | ACacheClear
| AOldAdd (e : edge) | AOldDiscard (e : edge)      (* somebody kept the original object and mutated it *)
| AReplaceIrCfg                                     (* ir.cfg = <another CFG> *)
| ARaise.                                           (* the body raises *)

Definition enter (old : eset) : ctx := mk_ctx old (rc_update empty_rcache old) PtrCache.

(* runs the body; true = it raised *)
Fixpoint run_body (c : ctx) (body : list action) : ctx * bool :=
  match body with
  | [] => (c, false)
  | a :: t =>
      match a with
      | ACacheAdd e => run_body (mk_ctx (old_cfg c) (rc_add (cache c) e) (ir_cfg c)) t
      | ACacheDiscard e => run_body (mk_ctx (old_cfg c) (rc_discard (cache c) e) (ir_cfg c)) t
      | ACacheClear => run_body (mk_ctx (old_cfg c) (rc_clear (cache c)) (ir_cfg c)) t
      | AOldAdd e => run_body (mk_ctx (es_add e (old_cfg c)) (cache c) (ir_cfg c)) t
      | AOldDiscard e => run_body (mk_ctx (es_discard e (old_cfg c)) (cache c) (ir_cfg c)) t
      | AReplaceIrCfg => run_body (mk_ctx (old_cfg c) (cache c) PtrOther) t
      | ARaise => (c, true)
      end
  end.

Definition same_set (a b : eset) : bool :=
  forallb (fun e => es_mem e b) a && forallb (fun e => es_mem e a) b.

Inductive exit_status := ExitOk | ExitBodyRaised | ExitCFGModified.

(* the part after `yield cache` and the finally block; the weak XOR hash is modelled as set equality
   (hypothesis: distinct edge sets have distinct hashes) *)
Definition leave (old0 : eset) (c : ctx) (raised : bool) : ctx * exit_status :=
  let status :=
    if raised then ExitBodyRaised
    else if negb (same_set (old_cfg c) old0) then ExitCFGModified
    else match ir_cfg c with PtrCache => ExitOk | _ => ExitCFGModified end in
  (* finally: old_cfg.clear(); old_cfg.update(cache); ir.cfg = old_cfg *)
  (mk_ctx (fold_left (fun s e => es_add e s) (cfg (cache c)) []) (cache c) PtrOld, status).

Definition with_return_cache (old0 : eset) (body : list action) : ctx * exit_status :=
  let '(c, raised) := run_body (enter old0) body in leave old0 c raised.
