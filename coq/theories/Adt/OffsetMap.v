(* Hand model of _adt/offset_mapping.py OffsetMapping (values are integers; elements are ids).
   _data: element -> inner dict (displacement -> value), both insertion-ordered.  No proofs here. *)
From Coq Require Import List Bool Arith ZArith.
From GR Require Import Base.Result.
Import ListNotations.

Definition inner := list (Z * Z).
Definition omap := list (nat * inner).

Fixpoint in_get (d : Z) (m : inner) : option Z :=
  match m with [] => None | (k, v) :: t => if Z.eqb k d then Some v else in_get d t end.
Fixpoint in_set (d v : Z) (m : inner) : inner :=
  match m with [] => [(d, v)] | (k, v') :: t => if Z.eqb k d then (k, v) :: t else (k, v') :: in_set d v t end.
Fixpoint in_del (d : Z) (m : inner) : inner :=
  match m with [] => [] | (k, v') :: t => if Z.eqb k d then t else (k, v') :: in_del d t end.

Fixpoint om_get (e : nat) (m : omap) : option inner :=
  match m with [] => None | (k, v) :: t => if Nat.eqb k e then Some v else om_get e t end.
Fixpoint om_set (e : nat) (v : inner) (m : omap) : omap :=
  match m with [] => [(e, v)] | (k, v') :: t => if Nat.eqb k e then (k, v) :: t else (k, v') :: om_set e v t end.
Fixpoint om_del (e : nat) (m : omap) : omap :=
  match m with [] => [] | (k, v') :: t => if Nat.eqb k e then t else (k, v') :: om_del e t end.

(* m[Offset(e, d)] *)
Definition getitem_off (m : omap) (e : nat) (d : Z) : result Z :=
  match om_get e m with
  | Some i => match in_get d i with Some v => Ok v | None => Err KeyErr end
  | None => Err KeyErr
  end.
(* m[e] *)
Definition getitem_elem (m : omap) (e : nat) : result inner :=
  match om_get e m with Some i => Ok i | None => Err KeyErr end.
(* m[Offset(e, d)] = v *)
Definition setitem_off (m : omap) (e : nat) (d v : Z) : omap :=
  om_set e (in_set d v (match om_get e m with Some i => i | None => [] end)) m.
(* m[e] = dict *)
Definition setitem_elem (m : omap) (e : nat) (i : inner) : omap := om_set e i m.
(* del m[Offset(e, d)] *)
Definition delitem_off (m : omap) (e : nat) (d : Z) : result omap :=
  match om_get e m with
  | Some i => match in_get d i with Some _ => Ok (om_set e (in_del d i) m) | None => Err KeyErr end
  | None => Err KeyErr
  end.
(* del m[e] *)
Definition delitem_elem (m : omap) (e : nat) : result omap :=
  match om_get e m with Some _ => Ok (om_del e m) | None => Err KeyErr end.
Definition contains_off (m : omap) (e : nat) (d : Z) : bool :=
  match om_get e m with Some i => match in_get d i with Some _ => true | None => false end | None => false end.
Definition contains_elem (m : omap) (e : nat) : bool :=
  match om_get e m with Some _ => true | None => false end.
Definition om_len (m : omap) : nat := fold_right (fun kv n => length (snd kv) + n) 0 m.
Definition om_bool (m : omap) : bool := existsb (fun kv => match snd kv with [] => false | _ => true end) m.
Definition om_iter (m : omap) : list (nat * Z) := flat_map (fun kv => map (fun dv => (fst kv, fst dv)) (snd kv)) m.
Definition node_keys (m : omap) : list nat := map fst m.
(* MutableMapping mixins: pop / setdefault on Offsets *)
Definition pop_off (m : omap) (e : nat) (d : Z) (default : option Z) : result (Z * omap) :=
  match getitem_off m e d with
  | Ok v => match delitem_off m e d with Ok m' => Ok (v, m') | Err x => Err x end
  | Err x => match default with Some v => Ok (v, m) | None => Err x end
  end.
Definition setdefault_off (m : omap) (e : nat) (d v : Z) : Z * omap :=
  match getitem_off m e d with
  | Ok v0 => (v0, m)
  | Err _ => (v, setitem_off m e d v)
  end.

(* m[e][d] = v  and  del m[e][d]: the dictionary m[e] hands out is the mapping's own (split.py / join.py write through it), so a
   write through it is a write to the mapping; an element that is not in the mapping has no dictionary to write through *)
Definition inner_setitem (m : omap) (e : nat) (d v : Z) : result omap :=
  match om_get e m with Some _ => Ok (setitem_off m e d v) | None => Err KeyErr end.
Definition inner_delitem (m : omap) (e : nat) (d : Z) : result omap := delitem_off m e d.
