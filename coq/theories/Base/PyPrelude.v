(* Small prelude the generated (translator) files rely on. *)
From Coq Require Import ZArith List Bool.
Import ListNotations.
Open Scope Z_scope.

(* Python `x in range(a, b)` with range(a,b) represented as the pair (a,b) *)
Definition in_range (r : Z * Z) (x : Z) : bool := (fst r <=? x) && (x <? snd r).
