(* Results with the error classes the Python code can raise. *)
From Coq Require Import ZArith List.
Import ListNotations.

Inductive err :=
| ValueErr        (* ValueError *)
| EOFErr          (* EOFError (leb128.decode_reader on a short stream) *)
| OverflowErr     (* OverflowError (int.to_bytes) *)
| TypeErr         (* TypeError *)
| AssertErr       (* AssertionError *)
| KeyErr          (* KeyError *)
| IndexErr        (* IndexError *)
| CFIStateErr     (* gtirb_rewriting.dwarf.cfi_eval.CFIStateError *)
| NotImplementedErr
| UsesRemainErr    (* gtirb_rewriting SymbolUsesRemainingError *)
| AmbiguousErr     (* gtirb_rewriting AmbiguousIRError *)
| MultiDefErr      (* assembler MultipleDefinitionsError *)
| UndefErr         (* assembler UndefSymbolError *)
| UnsupportedErr   (* assembler UnsupportedAssemblyError *)
| OutOfFuel.      (* model artefact: never produced under the theorems' hypotheses *)

Inductive result (A : Type) :=
| Ok  (a : A)
| Err (e : err).
Arguments Ok {A} a.
Arguments Err {A} e.

Definition bind {A B} (r : result A) (f : A -> result B) : result B :=
  match r with Ok a => f a | Err e => Err e end.

Notation "'do' x <- r ; k" := (bind r (fun x => k))
  (at level 200, x name, r at level 100, k at level 200, right associativity).
Notation "'do' ' p <- r ; k" := (bind r (fun ' p => k))
  (at level 200, p pattern, r at level 100, k at level 200, right associativity).

Definition is_ok {A} (r : result A) : bool :=
  match r with Ok _ => true | Err _ => false end.

Fixpoint mapM {A B} (f : A -> result B) (l : list A) : result (list B) :=
  match l with
  | [] => Ok []
  | x :: t => do y <- f x; do ys <- mapM f t; Ok (y :: ys)
  end.

(* enumeration of small naturals as Z; lifts a finite sweep to a forall *)
Definition zrange (n : nat) : list Z := map Z.of_nat (seq 0 n).

Lemma zrange_forall (P : Z -> bool) (n : nat) :
  forallb P (zrange n) = true ->
  forall b : Z, (0 <= b < Z.of_nat n)%Z -> P b = true.
Proof.
  intros H b Hb. rewrite forallb_forall in H. apply H.
  unfold zrange. apply in_map_iff. exists (Z.to_nat b). split.
  - apply Z2Nat.id. apply Hb.
  - apply in_seq. split; [apply Nat.le_0_l|].
    simpl. apply Nat2Z.inj_lt. rewrite Z2Nat.id; apply Hb.
Qed.
