(* Memory lemmas and the "frame layer" calculus: save/restore pairs nest. *)
From Coq Require Import ZArith List Bool Lia ZifyBool.
From GR Require Import Dwarf.Leb128 Dwarf.IntCodec Dwarf.IntCodecProofs Machine.Stack.
Import ListNotations.
Open Scope Z_scope.

Section Mem.
  Variable W : nat.
  Notation load := (load W).
  Notation store := (store W).
  Notation w := (Z.of_nat W).

  Lemma offsets_In i : In i (offsets W) <-> 0 <= i < w.
  Proof.
    unfold offsets. rewrite in_map_iff. split.
    - intros (n & <- & Hn). apply in_seq in Hn. lia.
    - intros Hi. exists (Z.to_nat i). split; [lia|]. apply in_seq. lia.
  Qed.

  Lemma load_ext m m' a : (forall x, a <= x < a + w -> m x = m' x) -> load m a = load m' a.
  Proof.
    intros H. unfold load. f_equal. apply map_ext_in. intros i Hi. apply offsets_In in Hi. apply H. lia.
  Qed.

  Lemma store_out m a v x : x < a \/ a + w <= x -> store m a v x = m x.
  Proof. intros H. unfold store. destruct ((a <=? x) && (x <? a + w)) eqn:E; [lia|reflexivity]. Qed.

  Lemma nth_le_bytes : forall n v k, (k < n)%nat -> nth k (le_bytes n v) 0 = (v / 256 ^ Z.of_nat k) mod 256.
  Proof.
    induction n as [|n IH]; intros v k Hk; [lia|]. cbn [le_bytes]. destruct k as [|k]; cbn [nth].
    - change (256 ^ Z.of_nat 0) with 1. rewrite Z.div_1_r. reflexivity.
    - rewrite IH by lia. rewrite pow256_S. rewrite Z.div_div by (pose proof (pow256_pos k); lia). reflexivity.
  Qed.

  Lemma map_nth_seq (l : list Z) : map (fun i => nth i l 0) (seq 0 (length l)) = l.
  Proof.
    induction l as [|x t IH]; cbn [length seq map nth]; [reflexivity|]. f_equal.
    rewrite <- seq_shift, map_map. exact IH.
  Qed.

  Lemma map_store_same m a v :
    map (fun i => store m a v (a + i)) (offsets W) = le_bytes W v.
  Proof.
    unfold offsets. rewrite map_map.
    transitivity (map (fun i => nth i (le_bytes W v) 0) (seq 0 W));
      [|rewrite <- (le_bytes_length W v) at 1; apply map_nth_seq].
    apply map_ext_in. intros k Hk. apply in_seq in Hk. unfold store.
    assert (E : (a <=? a + Z.of_nat k) && (a + Z.of_nat k <? a + w) = true) by lia. rewrite E.
    replace (a + Z.of_nat k - a) with (Z.of_nat k) by lia. rewrite Nat2Z.id. reflexivity.
  Qed.

  Lemma load_store_same m a v : load (store m a v) a = v mod 256 ^ w.
  Proof. unfold load. rewrite map_store_same. apply le_value_le_bytes. Qed.

  Lemma load_store_disj m a v a' : a' + w <= a \/ a + w <= a' -> load (store m a v) a' = load m a'.
  Proof. intros H. apply load_ext. intros x Hx. apply store_out. lia. Qed.
End Mem.

Section Layers.
  Variable W : nat.
  Hypothesis Wpos : (0 < W)%nat.
  Notation w := (Z.of_nat W).
  Notation step := (step W).
  Notation run := (run W).
  Notation load := (load W).
  Notation store := (store W).

  Lemma run_app l1 l2 s : run (l1 ++ l2) s = run l2 (run l1 s).
  Proof. unfold run. apply fold_left_app. Qed.

  (* words *)
  Definition word_ok (v : Z) : Prop := 0 <= v < 256 ^ w.
  Definition state_ok (s : state) : Prop :=
    (forall r, word_ok (regs s r)) /\ word_ok (flags s) /\ sp s < 256 ^ w.

  (* a well-behaved middle, for entry stack pointers >= lo: keeps the stack pointer and leaves
     everything at or above it alone *)
  Definition wb (lo : Z) (M : state -> state) : Prop :=
    forall s, state_ok s -> lo <= sp s ->
      sp (M s) = sp s /\ (forall a, sp s <= a -> mem (M s) a = mem s a) /\ state_ok (M s).
  Definition pres (lo : Z) (r : nat) (M : state -> state) : Prop :=
    forall s, state_ok s -> lo <= sp s -> regs (M s) r = regs s r.
  Definition presf (lo : Z) (M : state -> state) : Prop :=
    forall s, state_ok s -> lo <= sp s -> flags (M s) = flags s.

  Lemma wb_weaken lo lo' M : lo <= lo' -> wb lo M -> wb lo' M.
  Proof. intros H HM s Hs Hl. apply HM; [exact Hs|lia]. Qed.
  Lemma pres_weaken lo lo' r M : lo <= lo' -> pres lo r M -> pres lo' r M.
  Proof. intros H HM s Hs Hl. apply HM; [exact Hs|lia]. Qed.
  Lemma presf_weaken lo lo' M : lo <= lo' -> presf lo M -> presf lo' M.
  Proof. intros H HM s Hs Hl. apply HM; [exact Hs|lia]. Qed.

  Lemma word_mod v : word_ok v -> v mod 256 ^ w = v.
  Proof. intros H. apply Z.mod_small. exact H. Qed.

  Lemma set_reg_ok f r v : (forall x, word_ok (f x)) -> word_ok v -> forall x, word_ok (set_reg f r v x).
  Proof. intros Hf Hv x. unfold set_reg. destruct (Nat.eqb x r); auto. Qed.

  Definition layer (pro epi : list insn) (M : state -> state) : state -> state :=
    fun s => run epi (M (run pro s)).

  (* ---- generic: save a word v(s) in a fresh slot of k >= W bytes below sp, run M, read it back ---- *)
  Section Slot.
    Variable k : Z.
    Hypothesis Hk : w <= k.
    Variable M : state -> state.
    Variable lo : Z.
    Hypothesis HM : wb lo M.

    Lemma slot_main : forall s v, state_ok s -> lo + k <= sp s -> word_ok v ->
      let s1 := mk_state (regs s) (sp s - k) (flags s) (store (mem s) (sp s - k) v) in
      state_ok s1 /\ sp (M s1) = sp s - k /\ load (mem (M s1)) (sp s - k) = v /\
      (forall a, sp s <= a -> mem (M s1) a = mem s a) /\ state_ok (M s1).
    Proof.
      intros s v Hs Hl Hv s1.
      assert (Hs1 : state_ok s1).
      { destruct Hs as (A & B & C). split; [exact A|split; [exact B|cbn [sp s1]; lia]]. }
      destruct (HM s1 Hs1 ltac:(cbn [sp s1]; lia)) as (H1 & H2 & H3). cbn [sp mem s1] in H1, H2.
      split; [exact Hs1|]. split; [exact H1|]. split; [|split; [|exact H3]].
      - rewrite (load_ext W _ (store (mem s) (sp s - k) v)) by (intros x Hx; apply H2; lia).
        rewrite load_store_same. apply word_mod. exact Hv.
      - intros a Ha. rewrite H2 by lia. apply store_out. lia.
    Qed.
  End Slot.

  Lemma wle : w <= w. Proof. lia. Qed.

  Lemma layer_push lo r M : wb lo M ->
    wb (lo + w) (layer [Push r] [Pop r] M) /\ pres (lo + w) r (layer [Push r] [Pop r] M) /\
    (forall r', r' <> r -> pres lo r' M -> pres (lo + w) r' (layer [Push r] [Pop r] M)) /\
    (presf lo M -> presf (lo + w) (layer [Push r] [Pop r] M)).
  Proof.
    intros HM. unfold layer, Stack.run. cbn [fold_left Stack.step].
    pose proof (slot_main w wle M lo HM) as Hmain.
    split; [|split; [|split]].
    - intros s Hs Hl. destruct (Hmain s (regs s r) Hs Hl ltac:(apply Hs)) as (Hs1 & H1 & H2 & H3 & (H4 & H5 & H6)).
      split; [|split; [|split; [|split]]].
      + cbn [sp]. rewrite H1. lia.
      + intros a Ha. cbn [mem]. apply H3. exact Ha.
      + intros x. cbn [regs]. apply set_reg_ok; [exact H4|]. rewrite H1, H2. apply Hs.
      + cbn [flags]. exact H5.
      + cbn [sp]. rewrite H1. destruct Hs as (_ & _ & Hs). lia.
    - intros s Hs Hl. cbn [regs]. destruct (Hmain s (regs s r) Hs Hl ltac:(apply Hs)) as (_ & H1 & H2 & _).
      unfold set_reg. rewrite Nat.eqb_refl, H1. exact H2.
    - intros r' Hr' Hp s Hs Hl. cbn [regs]. unfold set_reg. destruct (Nat.eqb r' r) eqn:E; [apply Nat.eqb_eq in E; congruence|].
      destruct (Hmain s (regs s r) Hs Hl ltac:(apply Hs)) as (Hs1 & _). rewrite (Hp _ Hs1) by (cbn [sp]; lia). reflexivity.
    - intros Hp s Hs Hl. cbn [flags]. destruct (Hmain s (regs s r) Hs Hl ltac:(apply Hs)) as (Hs1 & _).
      rewrite (Hp _ Hs1) by (cbn [sp]; lia). reflexivity.
  Qed.

  Lemma layer_pushf lo M : wb lo M ->
    wb (lo + w) (layer [PushF] [PopF] M) /\ presf (lo + w) (layer [PushF] [PopF] M) /\
    (forall r', pres lo r' M -> pres (lo + w) r' (layer [PushF] [PopF] M)).
  Proof.
    intros HM. unfold layer, Stack.run. cbn [fold_left Stack.step].
    pose proof (slot_main w wle M lo HM) as Hmain.
    split; [|split].
    - intros s Hs Hl. destruct (Hmain s (flags s) Hs Hl ltac:(apply Hs)) as (Hs1 & H1 & H2 & H3 & (H4 & H5 & H6)).
      split; [|split; [|split; [|split]]].
      + cbn [sp]. rewrite H1. lia.
      + intros a Ha. cbn [mem]. apply H3. exact Ha.
      + cbn [regs]. exact H4.
      + cbn [flags]. rewrite H1, H2. apply Hs.
      + cbn [sp]. rewrite H1. destruct Hs as (_ & _ & Hs). lia.
    - intros s Hs Hl. cbn [flags]. destruct (Hmain s (flags s) Hs Hl ltac:(apply Hs)) as (_ & H1 & H2 & _). rewrite H1. exact H2.
    - intros r' Hp s Hs Hl. cbn [regs]. destruct (Hmain s (flags s) Hs Hl ltac:(apply Hs)) as (Hs1 & _).
      rewrite (Hp _ Hs1) by (cbn [sp]; lia). reflexivity.
  Qed.

  (* ---- layer: move the stack pointer down by d >= 0 and back (red-zone skip) ---- *)
  Lemma layer_lea lo d M : 0 <= d -> wb lo M ->
    wb (lo + d) (layer [LeaSp (- d)] [LeaSp d] M) /\
    (forall r, pres lo r M -> pres (lo + d) r (layer [LeaSp (- d)] [LeaSp d] M)) /\
    (presf lo M -> presf (lo + d) (layer [LeaSp (- d)] [LeaSp d] M)) /\
    (* nothing at or above sp - d is touched: the skipped zone stays intact *)
    (forall s, state_ok s -> lo + d <= sp s -> forall a, sp s - d <= a -> mem (layer [LeaSp (- d)] [LeaSp d] M s) a = mem s a).
  Proof.
    intros Hd HM. unfold layer, Stack.run. cbn [fold_left Stack.step].
    assert (Hmain : forall s, state_ok s -> lo + d <= sp s ->
      let s1 := mk_state (regs s) (sp s + - d) (flags s) (mem s) in
      state_ok s1 /\ sp (M s1) = sp s - d /\ (forall a, sp s - d <= a -> mem (M s1) a = mem s a) /\ state_ok (M s1)).
    { intros s Hs Hl s1.
      assert (Hs1 : state_ok s1).
      { destruct Hs as (A & B & C). split; [exact A|split; [exact B|cbn [sp s1]; lia]]. }
      destruct (HM s1 Hs1 ltac:(cbn [sp s1]; lia)) as (H1 & H2 & H3). cbn [sp mem s1] in H1, H2.
      split; [exact Hs1|]. split; [lia|]. split; [|exact H3]. intros a Ha. apply H2. lia. }
    split; [|split; [|split]].
    - intros s Hs Hl. destruct (Hmain s Hs Hl) as (Hs1 & H1 & H2 & (H3 & H4 & H5)). split; [|split; [|split; [|split]]].
      + cbn [sp]. lia.
      + intros a Ha. cbn [mem]. apply H2. lia.
      + cbn [regs]. exact H3.
      + cbn [flags]. exact H4.
      + cbn [sp]. destruct Hs as (_ & _ & Hs). lia.
    - intros r Hp s Hs Hl. cbn [regs]. destruct (Hmain s Hs Hl) as (Hs1 & _). rewrite (Hp _ Hs1) by (cbn [sp]; lia). reflexivity.
    - intros Hp s Hs Hl. cbn [flags]. destruct (Hmain s Hs Hl) as (Hs1 & _). rewrite (Hp _ Hs1) by (cbn [sp]; lia). reflexivity.
    - intros s Hs Hl a Ha. cbn [mem]. apply (Hmain s Hs Hl). exact Ha.
  Qed.

  (* ---- ARM64: 16-byte slots ---- *)
  Lemma layer_str lo r M : w <= 16 -> wb lo M ->
    wb (lo + 16) (layer [StrPre r] [LdrPost r] M) /\ pres (lo + 16) r (layer [StrPre r] [LdrPost r] M) /\
    (forall r', r' <> r -> pres lo r' M -> pres (lo + 16) r' (layer [StrPre r] [LdrPost r] M)) /\
    (presf lo M -> presf (lo + 16) (layer [StrPre r] [LdrPost r] M)).
  Proof.
    intros Hw HM. unfold layer, Stack.run. cbn [fold_left Stack.step].
    pose proof (slot_main 16 Hw M lo HM) as Hmain.
    split; [|split; [|split]].
    - intros s Hs Hl. destruct (Hmain s (regs s r) Hs Hl ltac:(apply Hs)) as (Hs1 & H1 & H2 & H3 & (H4 & H5 & H6)).
      split; [|split; [|split; [|split]]].
      + cbn [sp]. rewrite H1. lia.
      + intros a Ha. cbn [mem]. apply H3. exact Ha.
      + intros x. cbn [regs]. apply set_reg_ok; [exact H4|]. rewrite H1, H2. apply Hs.
      + cbn [flags]. exact H5.
      + cbn [sp]. rewrite H1. destruct Hs as (_ & _ & Hs). lia.
    - intros s Hs Hl. cbn [regs]. destruct (Hmain s (regs s r) Hs Hl ltac:(apply Hs)) as (_ & H1 & H2 & _).
      unfold set_reg. rewrite Nat.eqb_refl, H1. exact H2.
    - intros r' Hr' Hp s Hs Hl. cbn [regs]. unfold set_reg. destruct (Nat.eqb r' r) eqn:E; [apply Nat.eqb_eq in E; congruence|].
      destruct (Hmain s (regs s r) Hs Hl ltac:(apply Hs)) as (Hs1 & _). rewrite (Hp _ Hs1) by (cbn [sp]; lia). reflexivity.
    - intros Hp s Hs Hl. cbn [flags]. destruct (Hmain s (regs s r) Hs Hl ltac:(apply Hs)) as (Hs1 & _).
      rewrite (Hp _ Hs1) by (cbn [sp]; lia). reflexivity.
  Qed.

  Lemma layer_stp lo r1 r2 M : 2 * w <= 16 -> r1 <> r2 -> wb lo M ->
    let L := layer [StpPre r1 r2] [LdpPost r1 r2] M in
    wb (lo + 16) L /\ pres (lo + 16) r1 L /\ pres (lo + 16) r2 L /\
    (forall r', r' <> r1 -> r' <> r2 -> pres lo r' M -> pres (lo + 16) r' L) /\
    (presf lo M -> presf (lo + 16) L).
  Proof.
    intros Hw Hne HM L. unfold L, layer, Stack.run. cbn [fold_left Stack.step].
    assert (Hmain : forall s, state_ok s -> lo + 16 <= sp s ->
      let s1 := mk_state (regs s) (sp s - 16) (flags s)
                  (store (store (mem s) (sp s - 16) (regs s r1)) (sp s - 16 + w) (regs s r2)) in
      state_ok s1 /\ sp (M s1) = sp s - 16 /\ load (mem (M s1)) (sp s - 16) = regs s r1 /\
      load (mem (M s1)) (sp s - 16 + w) = regs s r2 /\
      (forall a, sp s <= a -> mem (M s1) a = mem s a) /\ state_ok (M s1)).
    { intros s Hs Hl s1.
      assert (Hs1 : state_ok s1).
      { destruct Hs as (A & B & C). split; [exact A|split; [exact B|cbn [sp s1]; lia]]. }
      destruct (HM s1 Hs1 ltac:(cbn [sp s1]; lia)) as (H1 & H2 & H3). cbn [sp mem s1] in H1, H2.
      split; [exact Hs1|]. split; [exact H1|]. split; [|split; [|split; [|exact H3]]].
      - rewrite (load_ext W _ (mem s1)) by (intros x Hx; apply H2; lia). cbn [mem s1].
        rewrite load_store_disj by lia. rewrite load_store_same. apply word_mod. apply Hs.
      - rewrite (load_ext W _ (mem s1)) by (intros x Hx; apply H2; lia). cbn [mem s1].
        rewrite load_store_same. apply word_mod. apply Hs.
      - intros a Ha. rewrite H2 by lia. rewrite !store_out by lia. reflexivity. }
    split; [|split; [|split; [|split]]].
    - intros s Hs Hl. destruct (Hmain s Hs Hl) as (Hs1 & H1 & H2 & H2' & H3 & (H4 & H5 & H6)).
      split; [|split; [|split; [|split]]].
      + cbn [sp]. rewrite H1. lia.
      + intros a Ha. cbn [mem]. apply H3. exact Ha.
      + intros x. cbn [regs]. apply set_reg_ok; [apply set_reg_ok; [exact H4|]|].
        * rewrite H1, H2. apply Hs.
        * rewrite H1, H2'. apply Hs.
      + cbn [flags]. exact H5.
      + cbn [sp]. rewrite H1. destruct Hs as (_ & _ & Hs). lia.
    - intros s Hs Hl. cbn [regs]. destruct (Hmain s Hs Hl) as (_ & H1 & H2 & _).
      unfold set_reg. destruct (Nat.eqb r1 r2) eqn:E; [apply Nat.eqb_eq in E; congruence|].
      rewrite Nat.eqb_refl, H1. exact H2.
    - intros s Hs Hl. cbn [regs]. destruct (Hmain s Hs Hl) as (_ & H1 & _ & H2 & _).
      unfold set_reg. rewrite Nat.eqb_refl, H1. exact H2.
    - intros r' Hr1 Hr2 Hp s Hs Hl. cbn [regs]. unfold set_reg.
      destruct (Nat.eqb r' r2) eqn:E2; [apply Nat.eqb_eq in E2; congruence|].
      destruct (Nat.eqb r' r1) eqn:E1; [apply Nat.eqb_eq in E1; congruence|].
      destruct (Hmain s Hs Hl) as (Hs1 & _). rewrite (Hp _ Hs1) by (cbn [sp]; lia). reflexivity.
    - intros Hp s Hs Hl. cbn [flags]. destruct (Hmain s Hs Hl) as (Hs1 & _).
      rewrite (Hp _ Hs1) by (cbn [sp]; lia). reflexivity.
  Qed.

  (* mrs fr, nzcv ; str fr, [sp,#-16]!   ...   ldr fr, [sp],#16 ; msr nzcv, fr *)
  Lemma layer_flags_a64 lo fr M : w <= 16 -> wb lo M ->
    let L := layer [Mrs fr; StrPre fr] [LdrPost fr; Msr fr] M in
    wb (lo + 16) L /\ presf (lo + 16) L /\
    (forall r', r' <> fr -> pres lo r' M -> pres (lo + 16) r' L).
  Proof.
    intros Hw HM L. unfold L, layer, Stack.run. cbn [fold_left Stack.step sp regs flags mem].
    assert (Hfr : forall f v, set_reg f fr v fr = v) by (intros; unfold set_reg; rewrite Nat.eqb_refl; reflexivity).
    assert (Hmain : forall s, state_ok s -> lo + 16 <= sp s ->
      let s1 := mk_state (set_reg (regs s) fr (flags s)) (sp s - 16) (flags s) (store (mem s) (sp s - 16) (flags s)) in
      state_ok s1 /\ sp (M s1) = sp s - 16 /\ load (mem (M s1)) (sp s - 16) = flags s /\
      (forall a, sp s <= a -> mem (M s1) a = mem s a) /\ state_ok (M s1)).
    { intros s Hs Hl s1.
      set (s0 := mk_state (set_reg (regs s) fr (flags s)) (sp s) (flags s) (mem s)).
      assert (Hs0 : state_ok s0).
      { destruct Hs as (A & B & C). split; [|split; [exact B|exact C]]. apply set_reg_ok; assumption. }
      apply (slot_main 16 Hw M lo HM s0 (flags s) Hs0 Hl). apply Hs. }
    split; [|split].
    - intros s Hs Hl. cbn [sp regs flags mem]. rewrite !Hfr. destruct (Hmain s Hs Hl) as (Hs1 & H1 & H2 & H3 & (H4 & H5 & H6)).
      split; [|split; [|split; [|split]]]; cbn [sp regs flags mem].
      + rewrite H1. lia.
      + intros a Ha. apply H3. exact Ha.
      + apply set_reg_ok; [exact H4|]. rewrite H1, H2. apply Hs.
      + rewrite H1, H2. apply Hs.
      + rewrite H1. destruct Hs as (_ & _ & Hs). lia.
    - intros s Hs Hl. cbn [sp regs flags mem]. rewrite !Hfr. destruct (Hmain s Hs Hl) as (_ & H1 & H2 & _). rewrite H1. exact H2.
    - intros r' Hr' Hp s Hs Hl. cbn [sp regs flags mem]. rewrite ?Hfr. unfold set_reg at 1. destruct (Nat.eqb r' fr) eqn:E; [apply Nat.eqb_eq in E; congruence|].
      destruct (Hmain s Hs Hl) as (Hs1 & _). rewrite (Hp _ Hs1) by (cbn [sp]; lia). cbn [regs]. unfold set_reg. rewrite E. reflexivity.
  Qed.

  (* ---- the x86 alignment snippet ---- *)
  Lemma land_m16 x : Z.land x (-16) = 16 * (x / 16).
  Proof.
    change (-16) with (Z.lnot (Z.ones 4)). rewrite <- Z.ldiff_land, Z.ldiff_ones_r by lia.
    rewrite Z.shiftr_div_pow2, Z.shiftl_mul_pow2 by lia. change (2 ^ 4) with 16. lia.
  Qed.

  Definition align_pro (rax : nat) : list insn := [Push rax; MovSpTo rax; LeaSp (-128); AndSp (-16); Push rax; Push rax].
  Definition align_epi (rax : nat) : list insn := [Pop rax; MovToSp rax; Pop rax].
  Definition align_room : Z := 3 * w + 143.     (* bytes of stack the snippet may use below the entry sp *)

  Definition after_align_pro (rax : nat) (s : state) : state :=
    let sp1 := sp s - w in
    let sp2 := Z.land (sp1 + -128) (-16) in
    let rg := set_reg (regs s) rax sp1 in
    let m1 := store (mem s) sp1 (regs s rax) in
    let m2 := store m1 (sp2 - w) (rg rax) in
    let m3 := store m2 (sp2 - w - w) (rg rax) in
    mk_state rg (sp2 - w - w) (flags s) m3.
  Lemma align_pro_run rax s : run (align_pro rax) s = after_align_pro rax s.
  Proof. reflexivity. Qed.
  Lemma align_epi_run rax t : run (align_epi rax) t =
    mk_state (set_reg (set_reg (regs t) rax (load (mem t) (sp t))) rax (load (mem t) (load (mem t) (sp t))))
             (load (mem t) (sp t) + w) (flags t) (mem t).
  Proof.
    unfold align_epi, Stack.run. cbn [fold_left Stack.step sp regs flags mem].
    assert (E : set_reg (regs t) rax (load (mem t) (sp t)) rax = load (mem t) (sp t))
      by (unfold set_reg; rewrite Nat.eqb_refl; reflexivity).
    rewrite !E. reflexivity.
  Qed.

  Lemma layer_align lo rax M : 0 <= lo -> wb lo M ->
    wb (lo + align_room) (layer (align_pro rax) (align_epi rax) M) /\
    pres (lo + align_room) rax (layer (align_pro rax) (align_epi rax) M) /\
    (forall r', r' <> rax -> pres lo r' M -> pres (lo + align_room) r' (layer (align_pro rax) (align_epi rax) M)) /\
    (presf lo M -> presf (lo + align_room) (layer (align_pro rax) (align_epi rax) M)) /\
    (* the middle runs with sp + 2W a multiple of 16, at least 128 bytes below the entry sp *)
    (forall s, (sp (run (align_pro rax) s) + 2 * w) mod 16 = 0 /\ sp (run (align_pro rax) s) <= sp s - 128 - 3 * w).
  Proof.
    intros Hlo HM. unfold align_room.
    assert (Hmain : forall s, state_ok s -> lo + (3 * w + 143) <= sp s ->
      let s6 := after_align_pro rax s in
      state_ok s6 /\ sp (M s6) = sp s6 /\
      load (mem (M s6)) (sp s6) = sp s - w /\ load (mem (M s6)) (sp s - w) = regs s rax /\
      (forall a, sp s <= a -> mem (M s6) a = mem s a) /\ state_ok (M s6) /\ lo <= sp s6).
    { intros s Hs Hl s6. unfold after_align_pro in s6.
      set (sp1 := sp s - w) in *. set (sp2 := Z.land (sp1 + -128) (-16)) in *.
      set (rg := set_reg (regs s) rax sp1) in *.
      assert (Hsp2 : sp2 = 16 * ((sp1 + -128) / 16)) by apply land_m16.
      assert (Hb : sp1 - 128 - 15 <= sp2 <= sp1 - 128) by lia.
      assert (Hrg : rg rax = sp1) by (unfold rg, set_reg; rewrite Nat.eqb_refl; reflexivity).
      assert (Hw1 : word_ok sp1). { destruct Hs as (_ & _ & Hs). unfold word_ok, sp1. lia. }
      assert (Hs6 : state_ok s6).
      { destruct Hs as (A & B & C). split; [|split; [exact B|cbn [sp s6]; lia]].
        intros x. cbn [regs s6]. apply set_reg_ok; [exact A|exact Hw1]. }
      destruct (HM s6 Hs6 ltac:(cbn [sp s6]; lia)) as (H1 & H2 & H3). cbn [sp mem s6] in H1, H2.
      split; [exact Hs6|]. split; [exact H1|]. cbn [sp s6].
      split; [|split; [|split; [|split; [exact H3|lia]]]].
      - rewrite (load_ext W _ (mem s6)) by (intros x Hx; apply H2; lia).
        cbn [mem s6]. rewrite load_store_same, Hrg. apply word_mod. exact Hw1.
      - rewrite (load_ext W _ (mem s6)) by (intros x Hx; apply H2; lia).
        cbn [mem s6]. rewrite !load_store_disj by lia. rewrite load_store_same. apply word_mod. apply Hs.
      - intros a Ha. rewrite H2 by lia. rewrite !store_out by lia. reflexivity. }
    unfold layer.
    split; [|split; [|split; [|split]]].
    - intros s Hs Hl. rewrite align_pro_run, align_epi_run.
      destruct (Hmain s Hs Hl) as (Hs6 & H1 & H2 & H3 & H4 & (H5 & H6 & H7) & _). cbn zeta in *.
      rewrite H1, H2, H3. cbn [sp mem regs flags]. split; [|split; [|split; [|split]]].
      + lia.
      + intros a Ha. apply H4. exact Ha.
      + intros x. apply set_reg_ok; [apply set_reg_ok; [exact H5|]|].
        * destruct Hs as (_ & _ & Hs). unfold word_ok. lia.
        * apply Hs.
      + exact H6.
      + cbn [sp]. destruct Hs as (_ & _ & Hs). lia.
    - intros s Hs Hl. rewrite align_pro_run, align_epi_run.
      destruct (Hmain s Hs Hl) as (_ & H1 & H2 & H3 & _). cbn zeta in *.
      rewrite H1, H2, H3. cbn [regs]. unfold set_reg at 1. rewrite Nat.eqb_refl. reflexivity.
    - intros r' Hr' Hp s Hs Hl. rewrite align_pro_run, align_epi_run.
      destruct (Hmain s Hs Hl) as (Hs6 & _ & _ & _ & _ & _ & Hlo'). cbn zeta in *. cbn [regs].
      unfold set_reg at 1 2. destruct (Nat.eqb r' rax) eqn:E; [apply Nat.eqb_eq in E; congruence|].
      rewrite (Hp _ Hs6 Hlo'). unfold after_align_pro. cbn [regs]. unfold set_reg. rewrite E. reflexivity.
    - intros Hp s Hs Hl. rewrite align_pro_run, align_epi_run.
      destruct (Hmain s Hs Hl) as (Hs6 & _ & _ & _ & _ & _ & Hlo'). cbn zeta in *. cbn [flags].
      rewrite (Hp _ Hs6 Hlo'). reflexivity.
    - intros s. rewrite align_pro_run. unfold after_align_pro. cbn [sp]. rewrite land_m16. split; lia.
  Qed.
End Layers.
