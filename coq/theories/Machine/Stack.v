(* A small stack machine covering exactly the instruction forms the ABI classes emit around a
   patch (x86 push/pop/pushf/popf/lea/mov/and on the stack pointer; ARM64 stp/ldp/str/ldr with
   pre/post-indexed sp and mrs/msr nzcv; MIPS addiu $sp / sw / lw).  Byte-addressed memory,
   little-endian W-byte words, registers hold words.  No proofs here. *)
From Coq Require Import ZArith List Bool.
From GR Require Import Dwarf.Leb128 Dwarf.IntCodec.
Import ListNotations.
Open Scope Z_scope.

Definition memory := Z -> Z.                 (* byte address -> byte *)

Record state := mk_state {
  regs : nat -> Z;        (* general purpose registers, by index in ABI.all_registers() *)
  sp : Z;
  flags : Z;
  mem : memory
}.

Inductive insn :=
(* x86 *)
| Push (r : nat) | Pop (r : nat) | PushF | PopF
| LeaSp (d : Z)                 (* lea d(%sp), %sp *)
| MovSpTo (r : nat)             (* mov %sp, %r *)
| MovToSp (r : nat)             (* mov %r, %sp *)
| AndSp (m : Z)                 (* and $m, %sp *)
(* ARM64 *)
| StpPre (r1 r2 : nat)          (* stp r1, r2, [sp, #-16]! *)
| LdpPost (r1 r2 : nat)         (* ldp r1, r2, [sp], #16 *)
| StrPre (r : nat)              (* str r, [sp, #-16]! *)
| LdrPost (r : nat)             (* ldr r, [sp], #16 *)
| Mrs (r : nat)                 (* mrs r, nzcv *)
| Msr (r : nat)                 (* msr nzcv, r *)
(* MIPS *)
| AddiuSp (d : Z)               (* addiu $sp, $sp, d *)
| Sw (r : nat) (off : Z)        (* sw $r, off($sp) *)
| Lw (r : nat) (off : Z).       (* lw $r, off($sp) *)

Section Machine.
  Variable W : nat.              (* word size in bytes *)

  Definition offsets : list Z := map Z.of_nat (seq 0 W).

  Definition load (m : memory) (a : Z) : Z := le_value (map (fun i => m (a + i)) offsets).

  Definition store (m : memory) (a v : Z) : memory :=
    fun x => if (a <=? x) && (x <? a + Z.of_nat W)
             then nth (Z.to_nat (x - a)) (le_bytes W v) 0
             else m x.

  Definition set_reg (f : nat -> Z) (r : nat) (v : Z) : nat -> Z :=
    fun x => if Nat.eqb x r then v else f x.

  Definition step (s : state) (i : insn) : state :=
    let w := Z.of_nat W in
    match i with
    | Push r => mk_state (regs s) (sp s - w) (flags s) (store (mem s) (sp s - w) (regs s r))
    | Pop r => mk_state (set_reg (regs s) r (load (mem s) (sp s))) (sp s + w) (flags s) (mem s)
    | PushF => mk_state (regs s) (sp s - w) (flags s) (store (mem s) (sp s - w) (flags s))
    | PopF => mk_state (regs s) (sp s + w) (load (mem s) (sp s)) (mem s)
    | LeaSp d => mk_state (regs s) (sp s + d) (flags s) (mem s)
    | MovSpTo r => mk_state (set_reg (regs s) r (sp s)) (sp s) (flags s) (mem s)
    | MovToSp r => mk_state (regs s) (regs s r) (flags s) (mem s)
    | AndSp m => mk_state (regs s) (Z.land (sp s) m) (flags s) (mem s)
    | StpPre r1 r2 =>
        let a := sp s - 16 in
        mk_state (regs s) a (flags s) (store (store (mem s) a (regs s r1)) (a + w) (regs s r2))
    | LdpPost r1 r2 =>
        mk_state (set_reg (set_reg (regs s) r1 (load (mem s) (sp s))) r2 (load (mem s) (sp s + w)))
                 (sp s + 16) (flags s) (mem s)
    | StrPre r => mk_state (regs s) (sp s - 16) (flags s) (store (mem s) (sp s - 16) (regs s r))
    | LdrPost r => mk_state (set_reg (regs s) r (load (mem s) (sp s))) (sp s + 16) (flags s) (mem s)
    | Mrs r => mk_state (set_reg (regs s) r (flags s)) (sp s) (flags s) (mem s)
    | Msr r => mk_state (regs s) (sp s) (regs s r) (mem s)
    | AddiuSp d => mk_state (regs s) (sp s + d) (flags s) (mem s)
    | Sw r off => mk_state (regs s) (sp s) (flags s) (store (mem s) (sp s + off) (regs s r))
    | Lw r off => mk_state (set_reg (regs s) r (load (mem s) (sp s + off))) (sp s) (flags s) (mem s)
    end.

  Definition run (l : list insn) (s : state) : state := fold_left step l s.

  (* the byte ranges an instruction writes / reads, for the red-zone and "reads only its own slots" clauses *)
  Definition writes (s : state) (i : insn) : list (Z * Z) :=
    let w := Z.of_nat W in
    match i with
    | Push _ | PushF => [(sp s - w, w)]
    | StpPre _ _ => [(sp s - 16, 2 * w)]
    | StrPre _ => [(sp s - 16, w)]
    | Sw _ off => [(sp s + off, w)]
    | _ => []
    end.
  Definition reads (s : state) (i : insn) : list (Z * Z) :=
    let w := Z.of_nat W in
    match i with
    | Pop _ | PopF | LdrPost _ => [(sp s, w)]
    | LdpPost _ _ => [(sp s, 2 * w)]
    | Lw _ off => [(sp s + off, w)]
    | _ => []
    end.
  Fixpoint trace (f : state -> insn -> list (Z * Z)) (l : list insn) (s : state) : list (Z * Z) :=
    match l with [] => [] | i :: t => f s i ++ trace f t (step s i) end.
End Machine.
