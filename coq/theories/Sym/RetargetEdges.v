(* _retarget_out_edges moves exactly the Branch / Call edges that leave the block and enter the old referent. *)
From Coq Require Import ZArith List Bool Arith Lia.
From GR Require Import Base.Result Sym.Delete Sym.Retarget.
Import ListNotations.

Lemma e3_eqb_eq : forall a b, e3_eqb a b = true <-> a = b.
Proof.
  intros [[s1 t1] y1] [[s2 t2] y2]. unfold e3_eqb. rewrite !andb_true_iff, !Nat.eqb_eq. split.
  - intros [[-> ->] ->]. reflexivity.
  - intros H. injection H as -> -> ->. tauto.
Qed.

Lemma In_e3_add : forall e l x, In x (e3_add e l) <-> x = e \/ In x l.
Proof.
  intros e l x. unfold e3_add. destruct (existsb (e3_eqb e) l) eqn:E.
  - split; [tauto|]. intros [->|H]; [|exact H]. apply existsb_exists in E as (y & Hy & Ey). apply e3_eqb_eq in Ey. subst y. exact Hy.
  - rewrite in_app_iff. cbn. split; [intros [H|[H|[]]]; [right; exact H|left; symmetry; exact H]|intros [->|H]; [right; left; reflexivity|left; exact H]].
Qed.

Lemma In_e3_discard : forall e l x, In x (e3_discard e l) <-> In x l /\ x <> e.
Proof.
  intros e l x. unfold e3_discard. rewrite filter_In. split; intros [H1 H2]; split; try exact H1.
  - intros ->. rewrite (proj2 (e3_eqb_eq e e) eq_refl) in H2. discriminate H2.
  - destruct (e3_eqb e x) eqn:E; [apply e3_eqb_eq in E; congruence|reflexivity].
Qed.

Section Edges.
  Variable syms : list (nat * sinfo).

  Definition bc (y : nat) : Prop := y = ET_BRANCH \/ y = ET_CALL.
  Definition moved (blk oldref : nat) (e : edge3) : Prop := exists y, bc y /\ e = (blk, oldref, y).

  Lemma cond_spec : forall blk oldref s t y,
    (Nat.eqb s blk && Nat.eqb t oldref && (Nat.eqb y ET_BRANCH || Nat.eqb y ET_CALL)) = true <-> moved blk oldref (s, t, y).
  Proof.
    intros blk oldref s t y. rewrite !andb_true_iff, orb_true_iff, !Nat.eqb_eq. unfold moved, bc. split.
    - intros [[-> ->] H]. exists y. tauto.
    - intros (y' & H & E). injection E as -> -> ->. tauto.
  Qed.

  Theorem retarget_out_edges_exact : forall old new blk edges edges' oldref newref,
    retarget_out_edges syms old new blk edges = Ok edges' ->
    s_ref (info syms old) = Some oldref -> s_ref (info syms new) = Some newref -> s_cfgnode (info syms new) = true ->
    forall x, In x edges' <->
      (In x edges /\ ~ moved blk oldref x) \/ (exists y, bc y /\ In (blk, oldref, y) edges /\ x = (blk, newref, y)).
  Proof.
    intros old new blk edges edges' oldref newref H Ho Hn Hc.
    unfold retarget_out_edges in H. rewrite Ho in H.
    match type of H with fold_left ?F ?L _ = _ => set (F0 := F) in H; set (snap := L) in H end.
    (* invariant over the processed part of the snapshot *)
    assert (G : forall l done es es', (forall a, In a l -> In a edges) ->
                (forall x, In x es <-> (In x edges /\ ~ (moved blk oldref x /\ In x done)) \/
                                       (exists y, bc y /\ In (blk, oldref, y) done /\ x = (blk, newref, y))) ->
                fold_left F0 l (Ok es) = Ok es' ->
                forall x, In x es' <-> (In x edges /\ ~ (moved blk oldref x /\ In x (done ++ l))) \/
                                        (exists y, bc y /\ In (blk, oldref, y) (done ++ l) /\ x = (blk, newref, y))).
    { induction l as [|a l IH]; intros done es es' Hl Inv Hf; cbn [fold_left] in Hf.
      - injection Hf as <-. rewrite app_nil_r. exact Inv.
      - destruct a as [[s0 t0] y0]. unfold F0 at 2 in Hf. cbn [bind] in Hf.
        destruct (Nat.eqb s0 blk && Nat.eqb t0 oldref && (Nat.eqb y0 ET_BRANCH || Nat.eqb y0 ET_CALL)) eqn:Ec.
        + rewrite Hc, Hn in Hf. cbn [negb] in Hf. apply cond_spec in Ec.
          assert (Eapp : done ++ ((s0, t0, y0) : edge3) :: l = (done ++ [((s0, t0, y0) : edge3)]) ++ l) by (rewrite <- app_assoc; reflexivity).
          intros x0; rewrite Eapp; revert x0; clear Eapp.
          apply (IH (done ++ [(s0, t0, y0)]) (e3_add (s0, newref, y0) (e3_discard (s0, t0, y0) es)) es' (fun a Ha => Hl a (or_intror Ha))); [|exact Hf].
          intros x. rewrite In_e3_add, In_e3_discard, Inv.
          destruct Ec as (y1 & Hy1 & E1). injection E1 as -> -> ->. split.
          * intros [->|[[[Hx Hnm]|(y & Hy & Hd & ->)] Hne]].
            -- right. exists y1. split; [exact Hy1|]. split; [apply in_or_app; right; left; reflexivity|reflexivity].
            -- left. split; [exact Hx|]. intros [Hm Hin]. apply in_app_or in Hin as [Hin|[Hin|[]]]; [apply Hnm; tauto|congruence].
            -- right. exists y. split; [exact Hy|]. split; [apply in_or_app; left; exact Hd|reflexivity].
          * intros [[Hx Hnm]|(y & Hy & Hd & ->)].
            -- right. split.
               ++ left. split; [exact Hx|]. intros [Hm Hin]. apply Hnm. split; [exact Hm|apply in_or_app; left; exact Hin].
               ++ intros ->. apply Hnm. split; [exists y1; tauto|apply in_or_app; right; left; reflexivity].
            -- apply in_app_or in Hd as [Hd|[Hd|[]]].
               ++ destruct (Nat.eq_dec newref oldref) as [En|En]; [destruct (Nat.eq_dec y y1) as [Ey|Ey]|].
                  ** left. subst. reflexivity.
                  ** right. split; [right; exists y; tauto|]. intros E. injection E as E. contradiction.
                  ** right. split; [right; exists y; tauto|]. intros E. injection E as E _. contradiction.
               ++ injection Hd as ->. left. reflexivity.
        + assert (Hnm : ~ moved blk oldref (s0, t0, y0)) by (intros Hm; apply cond_spec in Hm; rewrite Hm in Ec; discriminate Ec).
          assert (Eapp : done ++ ((s0, t0, y0) : edge3) :: l = (done ++ [((s0, t0, y0) : edge3)]) ++ l) by (rewrite <- app_assoc; reflexivity).
          intros x0; rewrite Eapp; revert x0; clear Eapp.
          apply (IH (done ++ [(s0, t0, y0)]) es es' (fun a Ha => Hl a (or_intror Ha))); [|exact Hf].
          intros x. rewrite Inv. split.
          * intros [[Hx Hn']|(y & Hy & Hd & ->)].
            -- left. split; [exact Hx|]. intros [Hm Hin]. apply in_app_or in Hin as [Hin|[Hin|[]]]; [apply Hn'; tauto|subst x; contradiction].
            -- right. exists y. split; [exact Hy|]. split; [apply in_or_app; left; exact Hd|reflexivity].
          * intros [[Hx Hn']|(y & Hy & Hd & ->)].
            -- left. split; [exact Hx|]. intros [Hm Hin]. apply Hn'. split; [exact Hm|apply in_or_app; left; exact Hin].
            -- apply in_app_or in Hd as [Hd|[Hd|[]]]; [right; exists y; tauto|]. exfalso. apply Hnm. rewrite Hd. exists y. tauto. }
    intros x. rewrite (G snap [] edges edges' (fun a Ha => proj1 (proj1 (filter_In _ _ _) Ha))); [|intros z; cbn; split; [intros Hz; left; tauto|intros [[Hz _]|(y & _ & [] & _)]; exact Hz]|exact H].
    cbn [app].
    assert (Hs : forall z, moved blk oldref z -> (In z snap <-> In z edges)).
    { intros z (y & _ & ->). unfold snap. rewrite filter_In. rewrite Nat.eqb_refl. tauto. }
    split.
    - intros [[Hx Hn']|(y & Hy & Hd & ->)].
      + left. split; [exact Hx|]. intros Hm. apply Hn'. split; [exact Hm|apply (Hs _ Hm); exact Hx].
      + right. exists y. split; [exact Hy|]. split; [|reflexivity]. apply (Hs (blk, oldref, y)); [exists y; tauto|exact Hd].
    - intros [[Hx Hnm]|(y & Hy & Hd & ->)].
      + left. split; [exact Hx|]. intros [Hm _]. contradiction.
      + right. exists y. split; [exact Hy|]. split; [|reflexivity]. apply (Hs (blk, oldref, y)); [exists y; tauto|exact Hd].
  Qed.
End Edges.
