(* Hand model of _modify/delete_symbols.py.  Symbols, intervals, function uuids and libraries are identities (nat).
   A table that is absent and a table that is empty behave alike (`if not table: return`).  No proofs here. *)
From Coq Require Import ZArith List Bool Arith.
From GR Require Import Base.Result.
Import ListNotations.
Open Scope Z_scope.

Definition mem (x : nat) (l : list nat) : bool := existsb (Nat.eqb x) l.
Definition zmem (x : Z) (l : list Z) : bool := existsb (Z.eqb x) l.

(* a CFI directive: kind (0 other, 1 .cfi_personality, 2 .cfi_lsda), arguments, symbol (None = NULL_UUID) *)
Record cfid := mk_cfid { c_kind : nat; c_args : list Z; c_sym : option nat }.
Definition DW_EH_PE_omit := 255.

Record dstate := mk_dstate {
  d_syms : list nat;                              (* module.symbols *)
  d_symex : list (nat * Z * list nat);            (* byte interval, offset, the symbols of the expression *)
  d_cfi : list (nat * list cfid);                 (* Offset key (an identity), directives *)
  d_elfinfo : list nat;                           (* keys of elfSymbolInfo *)
  d_tabidx : list nat;                            (* keys of elfSymbolTabIdxInfo *)
  d_vdefs : list (Z * Z);                         (* elfSymbolVersions: version id -> flags *)
  d_vreqs : list (nat * list Z);                  (* library -> version ids *)
  d_ventries : list (nat * Z);                    (* symbol -> version id *)
  d_fnames : list (nat * nat);                    (* function uuid -> name symbol *)
  d_peimp : list nat;
  d_peexp : list nat;
  d_fwd : list (nat * nat)                        (* symbolForwarding *)
}.

Definition VER_FLG_BASE := 1.

(* request: symbol -> force *)
Definition requested (req : list (nat * bool)) (s : nat) : option bool :=
  match find (fun r => Nat.eqb (fst r) s) req with Some r => Some (snd r) | None => None end.
Definition deleted (req : list (nat * bool)) (s : nat) : bool := match requested req s with Some _ => true | None => false end.

Definition upd_cfid (req : list (nat * bool)) (d : cfid) : cfid :=
  match c_sym d with
  | Some s => if deleted req s then
                (if Nat.eqb (c_kind d) 1 || Nat.eqb (c_kind d) 2 then mk_cfid (c_kind d) [DW_EH_PE_omit] None
                 else mk_cfid (c_kind d) (c_args d) None)
              else d
  | None => d
  end.

Definition delete_auxdata (req : list (nat * bool)) (s : dstate) : dstate :=
  let cfi' := map (fun kv => (fst kv, map (upd_cfid req) (snd kv))) (d_cfi s) in
  let elfinfo' := filter (fun x => negb (deleted req x)) (d_elfinfo s) in
  let tabidx' := filter (fun x => negb (deleted req x)) (d_tabidx s) in
  let entries' := filter (fun e => negb (deleted req (fst e))) (d_ventries s) in
  let keep := map snd entries' in
  let defs' := filter (fun d => zmem (fst d) keep || (snd d =? VER_FLG_BASE)) (d_vdefs s) in
  (* a library goes when deleting its unused versions leaves it empty *)
  let reqs' := flat_map (fun lv => let remaining := filter (fun v => zmem v keep) (snd lv) in
                                   let removed := filter (fun v => negb (zmem v keep)) (snd lv) in
                                   match removed, remaining with
                                   | _ :: _, [] => []
                                   | _, _ => [(fst lv, remaining)]
                                   end) (d_vreqs s) in
  let fnames' := filter (fun kv => negb (deleted req (snd kv))) (d_fnames s) in
  let peimp' := filter (fun x => negb (deleted req x)) (d_peimp s) in
  let peexp' := filter (fun x => negb (deleted req x)) (d_peexp s) in
  let fwd' := filter (fun kv => negb (deleted req (fst kv) || deleted req (snd kv))) (d_fwd s) in
  mk_dstate (d_syms s) (d_symex s) cfi' elfinfo' tabidx' defs' reqs' entries' fnames' peimp' peexp' fwd'.

(* _delete_symbolic_expressions: any use of a symbol deleted without force fails the call; forced uses go *)
Definition uses_unforced (req : list (nat * bool)) (e : nat * Z * list nat) : bool :=
  existsb (fun s => match requested req s with Some false => true | _ => false end) (snd e).
Definition uses_deleted (req : list (nat * bool)) (e : nat * Z * list nat) : bool := existsb (deleted req) (snd e).

Definition delete_symbols (req : list (nat * bool)) (s : dstate) : result dstate :=
  let s1 := delete_auxdata req s in
  if existsb (uses_unforced req) (d_symex s1) then Err UsesRemainErr
  else
    let symex' := filter (fun e => negb (uses_deleted req e)) (d_symex s1) in
    Ok (mk_dstate (filter (fun x => negb (deleted req x)) (d_syms s1)) symex' (d_cfi s1) (d_elfinfo s1) (d_tabidx s1)
                  (d_vdefs s1) (d_vreqs s1) (d_ventries s1) (d_fnames s1) (d_peimp s1) (d_peexp s1) (d_fwd s1)).
