From Coq Require Import ZArith List Bool Arith Lia.
From GR Require Import Base.Result Sym.Delete Sym.Retarget.
Import ListNotations.
Open Scope Z_scope.

Section Proofs.
  Variable syms : list (nat * sinfo).
  Variable rules : list rule.
  Variable rmap : list (nat * nat).

  (* one expression: the new symbol takes the old one's place, the addend stays, the attributes are converted by the single
     matching rule of the ABI (internal <-> external) or stay when no rule matches *)
  Theorem retarget_expr_spec old new e access e' :
    retarget_expr syms rules old new e access = Ok e' ->
    x_const e = true /\ x_const e' = true /\
    x_syms e' = map (fun s => if Nat.eqb s old then new else s) (x_syms e) /\
    x_addend e' = x_addend e /\
    let matching := filter (fun r => mem access (ru_access r) &&
                                     same_set (x_attrs e) (if s_defined (info syms old) then ru_int r else ru_ext r)) rules in
    match matching with
    | [] => x_attrs e' = x_attrs e
    | [r] => x_attrs e' = if s_defined (info syms new) then ru_int r else ru_ext r
    | _ => False
    end.
  Proof.
    unfold retarget_expr. intros H.
    set (matching := filter _ rules) in *.
    destruct matching as [|r [|r2 rest]]; cbn [bind] in H; try discriminate;
      destruct (x_const e) eqn:Ec; try discriminate; inversion H; subst; cbn; auto.
  Qed.

  (* an expression none of whose symbols is retargeted is left alone, and so are the edges *)
  Lemma retarget_site_untouched : forall sy x edges,
    lookup rmap sy = None -> retarget_site syms rules rmap (x, edges) sy = Ok (x, edges).
  Proof. intros sy x edges H. unfold retarget_site. rewrite H. reflexivity. Qed.

  Lemma sites_fold_untouched : forall l x edges,
    (forall sy, In sy l -> lookup rmap sy = None) ->
    fold_left (fun a sy => do a' <- a; retarget_site syms rules rmap a' sy) l (Ok (x, edges)) = Ok (x, edges).
  Proof.
    induction l as [|sy l IH]; intros x edges H; cbn [fold_left]; [reflexivity|].
    cbn [bind]. rewrite retarget_site_untouched by (apply H; left; reflexivity). apply IH. intros s Hs. apply H. right; exact Hs.
  Qed.

  (* CFI directives and symbolForwarding: every mention of an old symbol becomes the new one, nothing else changes *)
  Theorem retarget_tables s s' :
    retarget_symbol_uses syms rules rmap s = Ok s' ->
    r_cfi s' = map (fun kv => (fst kv, map (fun d => match snd d with
                                                      | Some a => match lookup rmap a with Some b => (fst d, Some b) | None => d end
                                                      | None => d
                                                      end) (snd kv))) (r_cfi s) /\
    r_fwd s' = map (fun kv => match lookup rmap (snd kv) with Some b => (fst kv, b) | None => kv end) (r_fwd s).
  Proof.
    unfold retarget_symbol_uses. intros H.
    destruct (fold_left _ (r_sites s) (Ok ([], r_edges s))) as [[sites' edges']|]; cbn [bind] in H; [|discriminate].
    inversion H; subst. cbn. auto.
  Qed.

  (* when no expression uses a retargeted symbol, expressions and edges are exactly what they were *)
  Theorem retarget_nothing_to_do s :
    (forall x, In x (r_sites s) -> forall sy, In sy (x_syms (xs_expr x)) -> lookup rmap sy = None) ->
    exists s', retarget_symbol_uses syms rules rmap s = Ok s' /\ r_sites s' = r_sites s /\ r_edges s' = r_edges s.
  Proof.
    intros H. unfold retarget_symbol_uses.
    assert (G : forall l done edges, (forall x, In x l -> forall sy, In sy (x_syms (xs_expr x)) -> lookup rmap sy = None) ->
                fold_left (fun acc x => do '(done, edges) <- acc;
                                        do '(x', edges') <- fold_left (fun a sy => do a' <- a; retarget_site syms rules rmap a' sy) (x_syms (xs_expr x)) (Ok (x, edges));
                                        Ok (done ++ [x'], edges')) l (Ok (done, edges)) = Ok (done ++ l, edges)).
    { induction l as [|x l IH]; intros done edges Hl; cbn [fold_left]; [rewrite app_nil_r; reflexivity|].
      cbn [bind]. rewrite sites_fold_untouched by (apply Hl; left; reflexivity). cbn [bind].
      rewrite IH by (intros y Hy; apply Hl; right; exact Hy). rewrite <- app_assoc. reflexivity. }
    rewrite (G (r_sites s) [] (r_edges s) H). cbn [bind app]. eexists. split; [reflexivity|]. cbn. auto.
  Qed.

  (* edges: only Branch / Call edges leaving the block of the retargeted operand and entering the old referent are moved,
     and they are moved to the new referent *)
  Theorem retarget_out_edges_spec old new blk edges edges' oldref newref :
    retarget_out_edges syms old new blk edges = Ok edges' ->
    s_ref (info syms old) = Some oldref -> s_ref (info syms new) = Some newref -> s_cfgnode (info syms new) = true ->
    forall e, In e edges' ->
      In e edges \/ (exists y, (y = ET_BRANCH \/ y = ET_CALL) /\ In (blk, oldref, y) edges /\ e = (blk, newref, y)).
  Proof.
    unfold retarget_out_edges. intros H Ho Hn Hc. rewrite Ho in H.
    match type of H with fold_left ?F ?L _ = _ => set (F0 := F) in H; set (l := L) in H end.
    assert (G : forall l0 acc es', (forall x, In x l0 -> In x edges) -> fold_left F0 l0 acc = Ok es' ->
                exists es, acc = Ok es /\
                  forall e, In e es' -> In e es \/ (exists y, (y = ET_BRANCH \/ y = ET_CALL) /\ In (blk, oldref, y) edges /\ e = (blk, newref, y))).
    { induction l0 as [|a l0 IH]; intros acc es' Hl Hf; cbn [fold_left] in Hf.
      - exists es'. split; [exact Hf|]. intros e He; left; exact He.
      - destruct (IH _ _ (fun x Hx => Hl x (or_intror Hx)) Hf) as (es1 & E1 & C1).
        unfold F0 in E1. destruct acc as [es|]; cbn [bind] in E1; [|discriminate]. exists es. split; [reflexivity|].
        destruct a as [[s0 t0] y0].
        destruct (Nat.eqb s0 blk && Nat.eqb t0 oldref && (Nat.eqb y0 ET_BRANCH || Nat.eqb y0 ET_CALL)) eqn:Ec.
        + rewrite Hc, Hn in E1. cbn [negb] in E1. inversion E1; subst es1; clear E1.
          apply andb_prop in Ec. destruct Ec as (Ec & Ey). apply andb_prop in Ec. destruct Ec as (Es & Et).
          apply Nat.eqb_eq in Es. apply Nat.eqb_eq in Et. subst s0 t0.
          intros e He. destruct (C1 e He) as [Hin|Hex]; [|right; exact Hex].
          unfold e3_add in Hin. destruct (existsb _ _) eqn:Eex.
          * left. unfold e3_discard in Hin. apply filter_In in Hin. tauto.
          * apply in_app_or in Hin. destruct Hin as [Hin|[<-|[]]].
            -- left. unfold e3_discard in Hin. apply filter_In in Hin. tauto.
            -- right. exists y0. split; [apply orb_prop in Ey; destruct Ey as [Ey|Ey]; apply Nat.eqb_eq in Ey; auto|].
               split; [apply Hl; left; reflexivity|reflexivity].
        + inversion E1; subst es1. exact C1. }
    destruct (G l (Ok edges) edges') as (es & Ees & Ces); [|exact H|].
    - intros x Hx. subst l. apply filter_In in Hx. tauto.
    - inversion Ees; subst es. exact Ces.
  Qed.
End Proofs.
