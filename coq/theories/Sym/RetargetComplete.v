(* Completeness of retarget_symbol_uses over all symbolic expressions of a module: every mention of a retargeted symbol is replaced
   (simultaneous substitution), at the same place, with the same addend. *)
From Coq Require Import ZArith List Bool Arith Lia.
From GR Require Import Base.Result Sym.Delete Sym.Retarget Sym.RetargetProofs.
Import ListNotations.
Open Scope Z_scope.

Section Complete.
  Variable syms : list (nat * sinfo).
  Variable rules : list rule.
  Variable rmap : list (nat * nat).

  Definition subst (s : nat) : nat := match lookup rmap s with Some n => n | None => s end.
  (* no new symbol is itself retargeted (RewritingContext hands over such maps unless the user builds a chain) *)
  Definition no_chain : Prop := forall a b, lookup rmap a = Some b -> lookup rmap b = None.

  Lemma subst_idem : no_chain -> forall s, subst (subst s) = subst s.
  Proof.
    intros NC s. unfold subst at 2 3. destruct (lookup rmap s) as [n|] eqn:E.
    - unfold subst. rewrite (NC _ _ E). reflexivity.
    - unfold subst. rewrite E. reflexivity.
  Qed.

  Lemma mem_In' : forall a l, In a l -> mem a l = true.
  Proof.
    intros a l H. unfold mem. apply existsb_exists. exists a. split; [exact H|apply Nat.eqb_refl].
  Qed.

  Definition same_place (x x' : xsite) : Prop :=
    xs_key x' = xs_key x /\ xs_nblocks x' = xs_nblocks x /\ xs_block x' = xs_block x /\ xs_block_cfg x' = xs_block_cfg x /\
    xs_access x' = xs_access x /\ x_addend (xs_expr x') = x_addend (xs_expr x).

  Lemma same_place_refl : forall x, same_place x x.
  Proof. intros x. unfold same_place. tauto. Qed.
  Lemma same_place_trans : forall x y z, same_place x y -> same_place y z -> same_place x z.
  Proof. unfold same_place. intros x y z H1 H2. intuition congruence. Qed.

  (* one symbol of one expression *)
  Lemma retarget_site_syms : forall x edges sy x' edges',
    retarget_site syms rules rmap (x, edges) sy = Ok (x', edges') ->
    x_syms (xs_expr x') = map (fun s => if Nat.eqb s sy then subst sy else s) (x_syms (xs_expr x)) /\ same_place x x'.
  Proof.
    intros x edges sy x' edges' H. unfold retarget_site in H. unfold subst.
    destruct (lookup rmap sy) as [new|] eqn:El.
    2: { injection H as <- <-. split; [|apply same_place_refl].
         rewrite <- (map_id (x_syms (xs_expr x))) at 1. apply map_ext. intros s. destruct (Nat.eqb s sy) eqn:E; [apply Nat.eqb_eq in E; congruence|reflexivity]. }
    destruct (s_ref (info syms new)); [|discriminate H].
    destruct (Nat.ltb 1 (xs_nblocks x)); [discriminate H|].
    destruct (retarget_expr syms rules sy new (xs_expr x) _) as [e'|err] eqn:Ee; cbn [bind] in H; [|discriminate H].
    pose proof (retarget_expr_spec syms rules sy new (xs_expr x) _ e' Ee) as (_ & _ & Hs & Ha & _).
    assert (G : forall es, Ok (mk_xsite (xs_key x) e' (xs_nblocks x) (xs_block x) (xs_block_cfg x) (xs_access x), es) = Ok (x', edges') ->
                x_syms (xs_expr x') = map (fun s => if Nat.eqb s sy then new else s) (x_syms (xs_expr x)) /\ same_place x x').
    { intros es E. injection E as <- <-. cbn. split; [exact Hs|]. unfold same_place. cbn. tauto. }
    destruct (_ && _ && _).
    - destruct (xs_block x) as [b|].
      + destruct (retarget_out_edges syms sy new b edges) as [es|err]; cbn [bind] in H; [|discriminate H]. exact (G _ H).
      + exact (G _ H).
    - exact (G _ H).
  Qed.

  (* all symbols of one expression, in the order the loop visits them *)
  Lemma inner_fold_syms : no_chain -> forall l x edges x' edges',
    fold_left (fun a sy => do a' <- a; retarget_site syms rules rmap a' sy) l (Ok (x, edges)) = Ok (x', edges') ->
    x_syms (xs_expr x') = map (fun s => if mem s l then subst s else s) (x_syms (xs_expr x)) /\ same_place x x'.
  Proof.
    intros NC. induction l as [|sy l IH]; intros x edges x' edges' H; cbn [fold_left] in H.
    - injection H as <- <-. split; [|apply same_place_refl]. cbn. symmetry. apply map_id.
    - cbn [bind] in H. destruct (retarget_site syms rules rmap (x, edges) sy) as [[x1 e1]|err] eqn:E1.
      2: { exfalso. clear -H. induction l as [|a l IHl]; cbn [fold_left bind] in H; [discriminate H|exact (IHl H)]. }
      destruct (retarget_site_syms _ _ _ _ _ E1) as [S1 P1]. destruct (IH _ _ _ _ H) as [S2 P2].
      split; [|exact (same_place_trans _ _ _ P1 P2)].
      rewrite S2, S1, map_map. apply map_ext. intros s. unfold mem. cbn [existsb].
      destruct (Nat.eqb s sy) eqn:Es.
      + apply Nat.eqb_eq in Es. subst s. cbn [orb]. fold (mem (subst sy) l). rewrite subst_idem by exact NC.
        destruct (mem (subst sy) l); reflexivity.
      + cbn [orb]. reflexivity.
  Qed.

  (* the whole module: expression by expression, the simultaneous substitution *)
  Theorem retarget_is_simultaneous_substitution : no_chain -> forall s s',
    retarget_symbol_uses syms rules rmap s = Ok s' ->
    Forall2 (fun x x' => x_syms (xs_expr x') = map subst (x_syms (xs_expr x)) /\ same_place x x') (r_sites s) (r_sites s').
  Proof.
    intros NC s s' H. unfold retarget_symbol_uses in H.
    match type of H with context [fold_left ?F (r_sites s) _] => set (F0 := F) in H end.
    assert (G : forall l done edges done' edges', fold_left F0 l (Ok (done, edges)) = Ok (done', edges') ->
                exists new, done' = done ++ new /\
                  Forall2 (fun x x' => x_syms (xs_expr x') = map subst (x_syms (xs_expr x)) /\ same_place x x') l new).
    { induction l as [|x l IH]; intros done edges done' edges' Hf; cbn [fold_left] in Hf.
      - injection Hf as <- <-. exists []. split; [symmetry; apply app_nil_r|constructor].
      - unfold F0 at 2 in Hf. cbn [bind] in Hf.
        destruct (fold_left _ (x_syms (xs_expr x)) (Ok (x, edges))) as [[x1 e1]|err] eqn:Ei; cbn [bind] in Hf.
        2: { exfalso. clear -Hf. induction l as [|a l IHl]; cbn [fold_left] in Hf; [discriminate Hf|]. apply IHl. exact Hf. }
        destruct (IH _ _ _ _ Hf) as (new & -> & F2).
        destruct (inner_fold_syms NC _ _ _ _ _ Ei) as [S P].
        exists (x1 :: new). split; [rewrite <- app_assoc; reflexivity|]. constructor; [|exact F2]. split; [|exact P].
        rewrite S. apply map_ext_in. intros a Ha. apply mem_In' in Ha. rewrite Ha. reflexivity. }
    destruct (fold_left F0 (r_sites s) (Ok ([], r_edges s))) as [[sites' edges']|err] eqn:Ef; cbn [bind] in H; [|discriminate H].
    injection H as <-. cbn [r_sites]. destruct (G _ _ _ _ _ Ef) as (new & -> & F2). exact F2.
  Qed.

  (* completeness: afterwards no expression mentions a retargeted symbol *)
  Corollary no_old_symbol_is_left : no_chain -> forall s s',
    retarget_symbol_uses syms rules rmap s = Ok s' ->
    forall x', In x' (r_sites s') -> forall sy, In sy (x_syms (xs_expr x')) -> lookup rmap sy = None.
  Proof.
    intros NC s s' H x' Hx sy Hsy.
    pose proof (retarget_is_simultaneous_substitution NC _ _ H) as F.
    assert (G : forall l l', Forall2 (fun x x' => x_syms (xs_expr x') = map subst (x_syms (xs_expr x)) /\ same_place x x') l l' ->
                In x' l' -> exists x, x_syms (xs_expr x') = map subst (x_syms (xs_expr x))).
    { induction 1 as [|a b l l' [Hab _] _ IH]; intros Hin; [destruct Hin|]. destruct Hin as [<-|Hin]; [exists a; exact Hab|exact (IH Hin)]. }
    destruct (G _ _ F Hx) as (x & E). rewrite E in Hsy. apply in_map_iff in Hsy as (s0 & <- & _).
    unfold subst. destruct (lookup rmap s0) as [n|] eqn:El; [exact (NC _ _ El)|exact El].
  Qed.

  (* the number and the places of the expressions do not change *)
  Corollary places_are_kept : no_chain -> forall s s',
    retarget_symbol_uses syms rules rmap s = Ok s' -> map xs_key (r_sites s') = map xs_key (r_sites s).
  Proof.
    intros NC s s' H. pose proof (retarget_is_simultaneous_substitution NC _ _ H) as F.
    induction F as [|a b l l' [_ P] _ IH]; [reflexivity|]. cbn [map]. rewrite IH. destruct P as [-> _]. reflexivity.
  Qed.
  (* chains (A -> B and B -> C in one map): a SymAddrConst names one symbol, and then every mention is replaced by the direct target
     of the symbol it named -- a use of A becomes B, a use of B becomes C *)
  Theorem retarget_with_chains : forall s s',
    (forall x, In x (r_sites s) -> (length (x_syms (xs_expr x)) <= 1)%nat) ->
    retarget_symbol_uses syms rules rmap s = Ok s' ->
    Forall2 (fun x x' => x_syms (xs_expr x') = map subst (x_syms (xs_expr x)) /\ same_place x x') (r_sites s) (r_sites s').
  Proof.
    intros s s' H1 H. unfold retarget_symbol_uses in H.
    match type of H with context [fold_left ?F (r_sites s) _] => set (F0 := F) in H end.
    assert (G : forall l done edges done' edges', (forall x, In x l -> (length (x_syms (xs_expr x)) <= 1)%nat) ->
                fold_left F0 l (Ok (done, edges)) = Ok (done', edges') ->
                exists new, done' = done ++ new /\
                  Forall2 (fun x x' => x_syms (xs_expr x') = map subst (x_syms (xs_expr x)) /\ same_place x x') l new).
    { induction l as [|x l IH]; intros done edges done' edges' Hl Hf; cbn [fold_left] in Hf.
      - injection Hf as <- <-. exists []. split; [symmetry; apply app_nil_r|constructor].
      - unfold F0 at 2 in Hf. cbn [bind] in Hf.
        destruct (fold_left _ (x_syms (xs_expr x)) (Ok (x, edges))) as [[x1 e1]|err] eqn:Ei; cbn [bind] in Hf.
        2: { exfalso. clear -Hf. induction l as [|a l IHl]; cbn [fold_left] in Hf; [discriminate Hf|]. apply IHl. exact Hf. }
        destruct (IH _ _ _ _ (fun y Hy => Hl y (or_intror Hy)) Hf) as (new & -> & F2).
        exists (x1 :: new). split; [rewrite <- app_assoc; reflexivity|]. constructor; [|exact F2].
        pose proof (Hl x (or_introl eq_refl)) as Hlen.
        destruct (x_syms (xs_expr x)) as [|sy [|sy2 rest]] eqn:Es; cbn [length] in Hlen; [| |lia].
        + cbn [fold_left] in Ei. injection Ei as <- <-. rewrite Es. split; [reflexivity|apply same_place_refl].
        + cbn [fold_left bind] in Ei. destruct (retarget_site_syms _ _ _ _ _ Ei) as [S P]. split; [|exact P].
          rewrite S, Es. cbn [map]. rewrite Nat.eqb_refl. reflexivity. }
    destruct (fold_left F0 (r_sites s) (Ok ([], r_edges s))) as [[sites' edges']|err] eqn:Ef; cbn [bind] in H; [|discriminate H].
    injection H as <-. cbn [r_sites]. destruct (G _ _ _ _ _ H1 Ef) as (new & -> & F2). exact F2.
  Qed.
End Complete.
