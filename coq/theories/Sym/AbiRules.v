(* Hand model of the attribute-conversion tables of abi.py (ABI._sym_expr_rules of every ABI class) and of the request layer
   RewritingContext.retarget_symbol_uses (rewriting.py).  Attributes are the values of gtirb.SymbolicExpression.Attribute.
   No proofs here. *)
From Coq Require Import ZArith List Bool Arith.
From GR Require Import Base.Result Sym.Delete Sym.Retarget.
Import ListNotations.

Definition A_GOT := 0%nat.
Definition A_PLT := 4%nat.
Definition A_PCREL := 6%nat.
Definition A_LO12 := 2007%nat.

(* the harness's numbering of gtirb.Module.ISA / FileFormat *)
Definition ISA_X64 := 0%nat.
Definition ISA_IA32 := 1%nat.
Definition ISA_ARM64 := 2%nat.
Definition ISA_MIPS32 := 3%nat.
Definition FMT_ELF := 0%nat.
Definition FMT_PE := 1%nat.

(* _X86_64_ELF._sym_expr_rules, _ARM64_ELF._sym_expr_rules; every other ABI: no rule.  pie = _is_elf_pie(format, binaryType) *)
Definition abi_rules (isa fmt : nat) (pie : bool) : list rule :=
  if Nat.eqb fmt FMT_ELF then
    if Nat.eqb isa ISA_X64 then
      if pie then [mk_rule [] [A_GOT; A_PCREL] [ACC_CODE]; mk_rule [] [A_PLT] [ACC_CF]]
      else [mk_rule [] [A_PLT] [ACC_CF; ACC_CODE]]
    else if Nat.eqb isa ISA_ARM64 then
      if pie then [mk_rule [A_LO12] [A_LO12; A_GOT] [ACC_CODE]; mk_rule [] [A_GOT] [ACC_CODE]]
      else []
    else []
  else [].

(* the rules that retarget_expr would consider for an operand *)
Definition matching_rules (rules : list rule) (access : nat) (attrs : list nat) (defined : bool) : list rule :=
  filter (fun r => mem access (ru_access r) && same_set attrs (if defined then ru_int r else ru_ext r)) rules.

(* RewritingContext.retarget_symbol_uses: the request is recorded or refused (ValueError) *)
Record reqsym := mk_reqsym { q_in_module : bool; q_has_referent : bool }.
Definition request_retarget (info : nat -> reqsym) (st : list (nat * nat)) (old new : nat) : result (list (nat * nat)) :=
  if negb (q_in_module (info old)) then Err ValueErr
  else if negb (q_in_module (info new)) then Err ValueErr
  else if existsb (fun kv => Nat.eqb (fst kv) old) st then Err ValueErr
  else if negb (q_has_referent (info new)) then Err ValueErr
  else Ok (st ++ [(old, new)]).

(* a sequence of requests; a refused request leaves the recorded ones as they are *)
Definition requests (info : nat -> reqsym) (rs : list (nat * nat)) : list (nat * nat) * list bool :=
  fold_left (fun acc r => let '(st, outs) := acc in
                          match request_retarget info st (fst r) (snd r) with
                          | Ok st' => (st', outs ++ [true])
                          | Err _ => (st, outs ++ [false])
                          end) rs ([], []).
