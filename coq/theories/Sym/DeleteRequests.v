(* Hand model of RewritingContext.delete_symbol (rewriting.py): repeated requests for one symbol are merged, an unforced request
   wins over forced ones.  Model and proofs (the model is three lines). *)
From Coq Require Import ZArith List Bool Arith Lia Sorting.Permutation.
From GR Require Import Base.Result Sym.Delete Sym.Retarget.
Import ListNotations.

Definition set_force (st : list (nat * bool)) (sym : nat) (f : bool) : list (nat * bool) :=
  map (fun kv => if Nat.eqb (fst kv) sym then (sym, f) else kv) st.

(* delete_symbol(symbol, force): ValueError for a symbol of another module; else setdefault + `opts.force = force and opts.force` *)
Definition request_delete (in_module : nat -> bool) (st : list (nat * bool)) (sym : nat) (force : bool) : result (list (nat * bool)) :=
  if negb (in_module sym) then Err ValueErr
  else match lookup st sym with
       | None => Ok (st ++ [(sym, force)])
       | Some f => Ok (set_force st sym (force && f))
       end.

Definition delete_requests (in_module : nat -> bool) (rs : list (nat * bool)) : list (nat * bool) * list bool :=
  fold_left (fun acc r => let '(st, outs) := acc in
                          match request_delete in_module st (fst r) (snd r) with
                          | Ok st' => (st', outs ++ [true])
                          | Err _ => (st, outs ++ [false])
                          end) rs ([], []).

(* ---- proofs ---- *)
Lemma lookup_app_none {V} (st : list (nat * V)) k v : lookup st k = None -> lookup (st ++ [(k, v)]) k = Some v.
Proof.
  unfold lookup. induction st as [|[k0 v0] t IH]; cbn [find app fst]; [rewrite Nat.eqb_refl; reflexivity|].
  destruct (Nat.eqb k0 k) eqn:E; [discriminate|]. exact IH.
Qed.
Lemma lookup_app_other {V} (st : list (nat * V)) k k' v : k' <> k -> lookup (st ++ [(k, v)]) k' = lookup st k'.
Proof.
  intros Hne. unfold lookup. induction st as [|[k0 v0] t IH]; cbn [find app fst].
  - destruct (Nat.eqb k k') eqn:E; [apply Nat.eqb_eq in E; congruence|reflexivity].
  - destruct (Nat.eqb k0 k'); [reflexivity|exact IH].
Qed.
Lemma lookup_set_force st k f k' : lookup (set_force st k f) k' = if Nat.eqb k' k then match lookup st k with Some _ => Some f | None => None end else lookup st k'.
Proof.
  unfold lookup, set_force. induction st as [|[k0 v0] t IH]; cbn [map find fst].
  - destruct (Nat.eqb k' k); reflexivity.
  - destruct (Nat.eqb_spec k0 k) as [E0|N0]; cbn [fst].
    + subst k0. destruct (Nat.eqb_spec k k') as [E1|N1].
      * subst k'. rewrite Nat.eqb_refl. reflexivity.
      * destruct (Nat.eqb_spec k' k) as [E2|N2]; [exfalso; congruence|]. rewrite IH.
        destruct (Nat.eqb_spec k' k) as [E3|_]; [exfalso; congruence|]. reflexivity.
    + destruct (Nat.eqb_spec k0 k') as [E1|N1].
      * subst k0. destruct (Nat.eqb_spec k' k) as [E3|_]; [exfalso; congruence|]. reflexivity.
      * rewrite IH. reflexivity.
Qed.

(* what is recorded for a symbol: nothing when it was never (validly) asked for, else the conjunction of the force flags of all its
   requests -- so the order of the requests does not matter *)
Definition asked (in_module : nat -> bool) (rs : list (nat * bool)) (sym : nat) : list bool :=
  map snd (filter (fun r => Nat.eqb (fst r) sym && in_module (fst r)) rs).

Theorem delete_requests_spec : forall in_module rs sym,
  lookup (fst (delete_requests in_module rs)) sym =
    match asked in_module rs sym with [] => None | fs => Some (forallb (fun b => b) fs) end.
Proof.
  intros in_module rs sym. unfold delete_requests.
  assert (G : forall rs st outs,
            lookup (fst (fold_left (fun acc r => let '(st, outs) := acc in
                          match request_delete in_module st (fst r) (snd r) with
                          | Ok st' => (st', outs ++ [true])
                          | Err _ => (st, outs ++ [false])
                          end) rs (st, outs))) sym =
            match lookup st sym, asked in_module rs sym with
            | None, [] => None
            | None, fs => Some (forallb (fun b => b) fs)
            | Some f, fs => Some (forallb (fun b => b) fs && f)
            end).
  { induction rs0 as [|[k f] t IH]; intros st outs; cbn [fold_left asked filter map].
    - cbn [fst]. destruct (lookup st sym); cbn; reflexivity.
    - cbn [fst snd]. unfold request_delete. destruct (in_module k) eqn:Em; cbn [negb].
      + destruct (lookup st k) as [f0|] eqn:El; rewrite IH; unfold asked; cbn [filter fst snd]; rewrite ?Em.
        * rewrite lookup_set_force. destruct (Nat.eqb_spec k sym) as [Ek|Nk].
          -- subst k. rewrite Nat.eqb_refl, El. cbn [andb map forallb snd].
             fold (asked in_module t sym). destruct (forallb (fun b => b) (asked in_module t sym)), f, f0; reflexivity.
          -- destruct (Nat.eqb_spec sym k) as [E|_]; [exfalso; congruence|]. cbn [andb]. reflexivity.
        * destruct (Nat.eqb_spec k sym) as [Ek|Nk].
          -- subst k. rewrite (lookup_app_none st sym f El), El. cbn [andb map forallb snd].
             fold (asked in_module t sym). destruct (forallb (fun b => b) (asked in_module t sym)), f; reflexivity.
          -- rewrite lookup_app_other by congruence. cbn [andb]. reflexivity.
      + rewrite IH. unfold asked. cbn [filter fst snd]. rewrite ?Em, ?andb_false_r. reflexivity. }
  rewrite G. cbn [lookup find]. unfold lookup. cbn [find]. reflexivity.
Qed.

Corollary delete_requests_order_independent : forall in_module rs rs' sym,
  Permutation rs rs' ->
  lookup (fst (delete_requests in_module rs)) sym = lookup (fst (delete_requests in_module rs')) sym.
Proof.
  intros in_module rs rs' sym P. rewrite !delete_requests_spec.
  assert (Hp : Permutation (asked in_module rs sym) (asked in_module rs' sym)).
  { unfold asked. apply Permutation_map. induction P; cbn [filter].
    - constructor.
    - destruct (_ && _); [constructor|]; exact IHP.
    - destruct (Nat.eqb (fst x) sym && in_module (fst x)), (Nat.eqb (fst y) sym && in_module (fst y)); try apply Permutation_refl. apply perm_swap.
    - eapply perm_trans; eauto. }
  assert (Hf : forallb (fun b => b) (asked in_module rs sym) = forallb (fun b => b) (asked in_module rs' sym)).
  { clear -Hp. induction Hp; cbn [forallb]; try congruence. destruct x, y; reflexivity. }
  destruct (asked in_module rs sym) as [|a l] eqn:E1, (asked in_module rs' sym) as [|a' l'] eqn:E2; try reflexivity.
  - apply Permutation_nil in Hp. discriminate Hp.
  - apply Permutation_sym, Permutation_nil in Hp. discriminate Hp.
  - rewrite Hf. reflexivity.
Qed.
