(* Hand model of _modify/retarget.py (retarget_symbol_uses).  Symbols, blocks, attributes are identities (nat).
   The access type of an expression (control flow / code reference / data) and the non-empty blocks lying over it are inputs.
   No proofs here. *)
From Coq Require Import ZArith List Bool Arith.
From GR Require Import Base.Result Sym.Delete.
Import ListNotations.
Open Scope Z_scope.

Definition ACC_CF := 0%nat.
Definition ACC_CODE := 1%nat.
Definition ACC_DATA := 2%nat.
Definition ET_BRANCH := 0%nat.
Definition ET_CALL := 1%nat.

Record sinfo := mk_sinfo { s_ref : option nat; s_defined : bool; s_cfgnode : bool }.
Record xexpr := mk_xexpr { x_const : bool; x_syms : list nat; x_addend : Z; x_attrs : list nat }.
Record xsite := mk_xsite {
  xs_key : nat * Z;                (* byte interval, offset *)
  xs_expr : xexpr;
  xs_nblocks : nat;                (* non-empty blocks lying over the expression *)
  xs_block : option nat;           (* the block, when there is exactly one *)
  xs_block_cfg : bool;             (* that block is a CfgNode *)
  xs_access : nat                  (* how the instruction uses the operand (when in a code block) *)
}.
Record rule := mk_rule { ru_int : list nat; ru_ext : list nat; ru_access : list nat }.
Definition edge3 := (nat * nat * nat)%type.          (* source block, target node, type *)
Record rstate := mk_rstate {
  r_sites : list xsite;
  r_cfi : list (nat * list (nat * option nat));      (* key, (directive tag, symbol) *)
  r_fwd : list (nat * nat);
  r_edges : list edge3
}.

Definition same_set (a b : list nat) : bool := forallb (fun x => mem x b) a && forallb (fun x => mem x a) b.
Definition lookup {V} (m : list (nat * V)) (k : nat) : option V :=
  match find (fun kv => Nat.eqb (fst kv) k) m with Some kv => Some (snd kv) | None => None end.

Definition e3_eqb (a b : edge3) : bool :=
  let '(s1, t1, y1) := a in let '(s2, t2, y2) := b in Nat.eqb s1 s2 && Nat.eqb t1 t2 && Nat.eqb y1 y2.
Definition e3_add (e : edge3) (l : list edge3) : list edge3 := if existsb (e3_eqb e) l then l else l ++ [e].
Definition e3_discard (e : edge3) (l : list edge3) : list edge3 := filter (fun x => negb (e3_eqb e x)) l.

Section Retarget.
  Variable syms : list (nat * sinfo).
  Variable rules : list rule.
  Variable rmap : list (nat * nat).                  (* old symbol -> new symbol *)

  Definition info (s : nat) : sinfo := match lookup syms s with Some i => i | None => mk_sinfo None false false end.

  (* _retarget_sym_expr *)
  Definition retarget_expr (old new : nat) (e : xexpr) (access : nat) : result xexpr :=
    let old_def := s_defined (info old) in
    let new_def := s_defined (info new) in
    let matching := filter (fun r => mem access (ru_access r) && same_set (x_attrs e) (if old_def then ru_int r else ru_ext r)) rules in
    do attrs <- match matching with
                | [] => Ok (x_attrs e)
                | [r] => Ok (if new_def then ru_int r else ru_ext r)
                | _ => Err ValueErr
                end;
    if x_const e then Ok (mk_xexpr true (map (fun s => if Nat.eqb s old then new else s) (x_syms e)) (x_addend e) attrs)
    else Err NotImplementedErr.

  (* _retarget_out_edges *)
  Definition retarget_out_edges (old new blk : nat) (edges : list edge3) : result (list edge3) :=
    match s_ref (info old) with
    | None => Ok edges            (* edge.target is None never holds *)
    | Some oldref =>
        fold_left (fun acc e =>
                     do es <- acc;
                     let '(s, t, y) := e in
                     if Nat.eqb s blk && Nat.eqb t oldref && (Nat.eqb y ET_BRANCH || Nat.eqb y ET_CALL) then
                       if negb (s_cfgnode (info new)) then Err AmbiguousErr
                       else match s_ref (info new) with
                            | Some newref => Ok (e3_add (s, newref, y) (e3_discard e es))
                            | None => Err AssertErr
                            end
                     else Ok es)
                  (filter (fun e => let '(s, _, _) := e in Nat.eqb s blk) edges) (Ok edges)
    end.

  (* one symbolic expression *)
  Definition retarget_site (acc : xsite * list edge3) (sym : nat) : result (xsite * list edge3) :=
    let '(x, edges) := acc in
    match lookup rmap sym with
    | None => Ok acc
    | Some new =>
        match s_ref (info new) with
        | None => Err AssertErr
        | Some _ =>
            if Nat.ltb 1 (xs_nblocks x) then Err AmbiguousErr
            else
              let access := if Nat.eqb (xs_nblocks x) 0 then ACC_DATA else xs_access x in
              do e' <- retarget_expr sym new (xs_expr x) access;
              let x' := mk_xsite (xs_key x) e' (xs_nblocks x) (xs_block x) (xs_block_cfg x) (xs_access x) in
              if Nat.eqb access ACC_CF && xs_block_cfg x && negb (Nat.eqb (xs_nblocks x) 0) then
                match xs_block x with
                | Some b => do es <- retarget_out_edges sym new b edges; Ok (x', es)
                | None => Ok (x', edges)
                end
              else Ok (x', edges)
        end
    end.

  Definition retarget_symbol_uses (s : rstate) : result rstate :=
    let cfi' := map (fun kv => (fst kv, map (fun d => match snd d with
                                                       | Some a => match lookup rmap a with Some b => (fst d, Some b) | None => d end
                                                       | None => d
                                                       end) (snd kv))) (r_cfi s) in
    let fwd' := map (fun kv => match lookup rmap (snd kv) with Some b => (fst kv, b) | None => kv end) (r_fwd s) in
    do '(sites', edges') <-
      fold_left (fun acc x =>
                   do '(done, edges) <- acc;
                   (* the symbols of the expression as it was before this loop *)
                   do '(x', edges') <- fold_left (fun a sy => do a' <- a; retarget_site a' sy) (x_syms (xs_expr x)) (Ok (x, edges));
                   Ok (done ++ [x'], edges'))
                (r_sites s) (Ok ([], r_edges s));
    Ok (mk_rstate sites' cfi' fwd' edges').
End Retarget.
