From Coq Require Import ZArith List Bool Arith Lia.
From GR Require Import Base.Result Sym.Delete Sym.Retarget Sym.AbiRules.
Import ListNotations.
Local Open Scope nat_scope.

Lemma mem_In : forall x l, mem x l = true <-> In x l.
Proof.
  intros x l. unfold mem. rewrite existsb_exists. split.
  - intros [y [Hy E]]. apply Nat.eqb_eq in E. subst. exact Hy.
  - intros H. exists x. split; [exact H|apply Nat.eqb_refl].
Qed.

Lemma same_set_spec : forall a b, same_set a b = true <-> (forall x, In x a <-> In x b).
Proof.
  intros a b. unfold same_set. rewrite andb_true_iff, !forallb_forall. split.
  - intros [H1 H2] x. split; intros H; [apply mem_In, H1, H|apply mem_In, H2, H].
  - intros H. split; intros x Hx; apply mem_In, H, Hx.
Qed.

Lemma same_set_common : forall a x y, same_set a x = true -> same_set a y = true -> same_set x y = true.
Proof.
  intros a x y H1 H2. rewrite same_set_spec in *. intros z. rewrite <- H1, <- H2. tauto.
Qed.

(* two rules cannot both be chosen for one operand when their access types are disjoint or their attribute sets differ on both sides *)
Definition separated (r1 r2 : rule) : bool :=
  forallb (fun a => negb (mem a (ru_access r2))) (ru_access r1) ||
  (negb (same_set (ru_int r1) (ru_int r2)) && negb (same_set (ru_ext r1) (ru_ext r2))).

Lemma separated_excludes : forall r1 r2 access attrs (d : bool), separated r1 r2 = true ->
  (mem access (ru_access r1) && same_set attrs (if d then ru_int r1 else ru_ext r1)) = true ->
  (mem access (ru_access r2) && same_set attrs (if d then ru_int r2 else ru_ext r2)) = true -> False.
Proof.
  intros r1 r2 access attrs d S H1 H2. apply andb_true_iff in H1 as [A1 S1]. apply andb_true_iff in H2 as [A2 S2].
  unfold separated in S. apply orb_true_iff in S as [S|S].
  - rewrite forallb_forall in S. apply mem_In in A1. specialize (S _ A1). rewrite A2 in S. discriminate S.
  - apply andb_true_iff in S as [Si Se]. pose proof (same_set_common _ _ _ S1 S2) as E.
    destruct d; [rewrite E in Si; discriminate Si|rewrite E in Se; discriminate Se].
Qed.

Lemma two_rules_unambiguous : forall r1 r2 access attrs (d : bool), separated r1 r2 = true ->
  length (matching_rules [r1; r2] access attrs d) <= 1.
Proof.
  intros r1 r2 access attrs d S. unfold matching_rules. cbn [filter].
  destruct (mem access (ru_access r1) && same_set attrs (if d then ru_int r1 else ru_ext r1)) eqn:E1;
    destruct (mem access (ru_access r2) && same_set attrs (if d then ru_int r2 else ru_ext r2)) eqn:E2; cbn [length]; try lia.
  exfalso. exact (separated_excludes _ _ _ _ _ S E1 E2).
Qed.

Lemma one_rule_unambiguous : forall r access attrs (d : bool), length (matching_rules [r] access attrs d) <= 1.
Proof. intros. unfold matching_rules. cbn [filter]. destruct (_ && _); cbn [length]; lia. Qed.

(* every ABI's table picks at most one rule for any operand, so `multiple rules matched` (ValueError) cannot happen *)
Theorem abi_rules_unambiguous : forall isa fmt pie access attrs d,
  length (matching_rules (abi_rules isa fmt pie) access attrs d) <= 1.
Proof.
  intros isa fmt pie access attrs d. unfold abi_rules.
  destruct (Nat.eqb fmt FMT_ELF); [|cbn; lia].
  destruct (Nat.eqb isa ISA_X64).
  - destruct pie; [apply two_rules_unambiguous; vm_compute; reflexivity|apply one_rule_unambiguous].
  - destruct (Nat.eqb isa ISA_ARM64); [|cbn; lia].
    destruct pie; [apply two_rules_unambiguous; vm_compute; reflexivity|cbn; lia].
Qed.

Theorem retarget_expr_with_abi_rules_is_never_ambiguous : forall syms isa fmt pie old new e access,
  retarget_expr syms (abi_rules isa fmt pie) old new e access <> Err ValueErr.
Proof.
  intros syms isa fmt pie old new e access. unfold retarget_expr.
  pose proof (abi_rules_unambiguous isa fmt pie access (x_attrs e) (s_defined (info syms old))) as L.
  unfold matching_rules in L.
  destruct (filter _ (abi_rules isa fmt pie)) as [|r [|r2 rest]]; cbn [length] in L; try lia;
    cbn [bind]; destruct (x_const e); discriminate.
Qed.

(* internal <-> external conversion can be undone: when rule r converts an operand, converting the result back (old and new symbol
   swapped) picks the same rule and restores the attribute set *)
Lemma same_set_refl : forall a, same_set a a = true.
Proof. intros a. apply same_set_spec. tauto. Qed.
Lemma same_set_sym : forall a b, same_set a b = true -> same_set b a = true.
Proof. intros a b H. rewrite same_set_spec in *. intros x. symmetry. apply H. Qed.

Theorem abi_rules_round_trip : forall isa fmt pie access attrs d r,
  matching_rules (abi_rules isa fmt pie) access attrs d = [r] ->
  matching_rules (abi_rules isa fmt pie) access (if negb d then ru_int r else ru_ext r) (negb d) = [r] /\ same_set (if d then ru_int r else ru_ext r) attrs = true.
Proof.
  intros isa fmt pie access attrs d r M.
  assert (Hin : In r (matching_rules (abi_rules isa fmt pie) access attrs d)) by (rewrite M; left; reflexivity).
  unfold matching_rules in Hin. apply filter_In in Hin as [Hr Hc]. apply andb_true_iff in Hc as [Ha Hs].
  split; [|apply same_set_sym, Hs].
  pose proof (abi_rules_unambiguous isa fmt pie access (if negb d then ru_int r else ru_ext r) (negb d)) as L.
  assert (Hin2 : In r (matching_rules (abi_rules isa fmt pie) access (if negb d then ru_int r else ru_ext r) (negb d))).
  { unfold matching_rules. apply filter_In. split; [exact Hr|]. rewrite Ha. cbn [andb]. apply same_set_refl. }
  destruct (matching_rules (abi_rules isa fmt pie) access (if negb d then ru_int r else ru_ext r) (negb d)) as [|r' [|r2 rest]].
  - destruct Hin2.
  - destruct Hin2 as [->|[]]. reflexivity.
  - cbn [length] in L. lia.
Qed.

(* ===== the request layer ===== *)
Lemma request_accepted_iff : forall info st old new,
  (exists st', request_retarget info st old new = Ok st') <->
  (q_in_module (info old) = true /\ q_in_module (info new) = true /\ ~ In old (map fst st) /\ q_has_referent (info new) = true).
Proof.
  intros info st old new. unfold request_retarget.
  assert (K : existsb (fun kv : nat * nat => Nat.eqb (fst kv) old) st = true <-> In old (map fst st)).
  { rewrite existsb_exists, in_map_iff. split; intros [kv [A B]]; exists kv.
    - apply Nat.eqb_eq in B. tauto.
    - split; [tauto|]. apply Nat.eqb_eq. tauto. }
  destruct (q_in_module (info old)); cbn [negb].
  2: { split; [intros [? H]; discriminate H|intros [H _]; discriminate H]. }
  destruct (q_in_module (info new)); cbn [negb].
  2: { split; [intros [? H]; discriminate H|intros [_ [H _]]; discriminate H]. }
  destruct (existsb _ st) eqn:E.
  { split; [intros [? H]; discriminate H|]. intros [_ [_ [H _]]]. exfalso. apply H, K. reflexivity. }
  destruct (q_has_referent (info new)); cbn [negb].
  2: { split; [intros [? H]; discriminate H|intros [_ [_ [_ H]]]; discriminate H]. }
  split; [|intros _; eexists; reflexivity]. intros _. repeat split; try reflexivity.
  intros H. apply K in H. discriminate H.
Qed.

Lemma request_accepted_appends : forall info st old new st', request_retarget info st old new = Ok st' -> st' = st ++ [(old, new)].
Proof.
  intros info st old new st'. unfold request_retarget.
  destruct (negb _); [discriminate|]. destruct (negb _); [discriminate|]. destruct (existsb _ _); [discriminate|].
  destruct (negb _); [discriminate|]. intros H. injection H as <-. reflexivity.
Qed.

(* what a context has recorded after any sequence of requests *)
Definition recorded_ok (info : nat -> reqsym) (st : list (nat * nat)) : Prop :=
  NoDup (map fst st) /\ forall old new, In (old, new) st -> q_in_module (info old) = true /\ q_in_module (info new) = true /\ q_has_referent (info new) = true.

Lemma recorded_ok_step : forall info st old new st', recorded_ok info st -> request_retarget info st old new = Ok st' -> recorded_ok info st'.
Proof.
  intros info st old new st' [ND A] R.
  pose proof (request_accepted_appends _ _ _ _ _ R) as ->.
  assert (Acc : exists s, request_retarget info st old new = Ok s) by (eexists; exact R).
  apply request_accepted_iff in Acc as [H1 [H2 [H3 H4]]].
  split.
  - rewrite map_app. cbn [map fst]. apply NoDup_rev in ND. rewrite <- (rev_involutive (map fst st ++ [old])). apply NoDup_rev.
    rewrite rev_app_distr. cbn [rev app]. constructor; [rewrite <- in_rev; exact H3|exact ND].
  - intros o n Hin. apply in_app_or in Hin as [Hin|[Hin|[]]]; [exact (A _ _ Hin)|]. injection Hin as <- <-. tauto.
Qed.

Theorem requests_recorded_ok : forall info rs, recorded_ok info (fst (requests info rs)) /\ length (snd (requests info rs)) = length rs.
Proof.
  intros info rs. unfold requests.
  assert (G : forall rs st outs, recorded_ok info st ->
            recorded_ok info (fst (fold_left (fun acc r => let '(st, outs) := acc in
                          match request_retarget info st (fst r) (snd r) with
                          | Ok st' => (st', outs ++ [true])
                          | Err _ => (st, outs ++ [false])
                          end) rs (st, outs))) /\           length (snd (fold_left (fun acc r => let '(st, outs) := acc in
                          match request_retarget info st (fst r) (snd r) with
                          | Ok st' => (st', outs ++ [true])
                          | Err _ => (st, outs ++ [false])
                          end) rs (st, outs))) = length outs + length rs).
  { induction rs0 as [|r rs0 IH]; intros st outs Hst; cbn [fold_left].
    - split; [exact Hst|cbn; lia].
    - destruct (request_retarget info st (fst r) (snd r)) as [st'|e] eqn:R.
      + destruct (IH st' (outs ++ [true]) (recorded_ok_step _ _ _ _ _ Hst R)) as [A B]. split; [exact A|].
        rewrite B, app_length. cbn. lia.
      + destruct (IH st (outs ++ [false]) Hst) as [A B]. split; [exact A|]. rewrite B, app_length. cbn. lia. }
  destruct (G rs [] []) as [A B].
  - split; [constructor|intros ? ? []].
  - split; [exact A|exact B].
Qed.
