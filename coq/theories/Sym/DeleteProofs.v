From Coq Require Import ZArith List Bool Arith Lia.
From GR Require Import Base.Result Sym.Delete.
Import ListNotations.
Open Scope Z_scope.

Lemma mem_In x l : mem x l = true <-> In x l.
Proof. unfold mem. rewrite existsb_exists. split; [intros (y & Hy & E); apply Nat.eqb_eq in E; subst; auto|intros H; exists x; split; [auto|apply Nat.eqb_refl]]. Qed.
Lemma zmem_In x l : zmem x l = true <-> In x l.
Proof. unfold zmem. rewrite existsb_exists. split; [intros (y & Hy & E); apply Z.eqb_eq in E; subst; auto|intros H; exists x; split; [auto|apply Z.eqb_refl]]. Qed.

Section Spec.
  Variable req : list (nat * bool).
  Variable s s' : dstate.
  Hypothesis Hok : delete_symbols req s = Ok s'.

  Let s1 := delete_auxdata req s.
  Lemma ok_shape :
    existsb (uses_unforced req) (d_symex s) = false /\
    s' = mk_dstate (filter (fun x => negb (deleted req x)) (d_syms s)) (filter (fun e => negb (uses_deleted req e)) (d_symex s))
                   (d_cfi s1) (d_elfinfo s1) (d_tabidx s1) (d_vdefs s1) (d_vreqs s1) (d_ventries s1) (d_fnames s1) (d_peimp s1) (d_peexp s1) (d_fwd s1).
  Proof.
    unfold delete_symbols in Hok. fold s1 in Hok. change (d_symex s1) with (d_symex s) in Hok. change (d_syms s1) with (d_syms s) in Hok.
    destruct (existsb (uses_unforced req) (d_symex s)); [discriminate|]. inversion Hok. auto.
  Qed.

  (* the symbol is gone, and only the requested symbols are *)
  Theorem symbols_after : forall x, In x (d_syms s') <-> In x (d_syms s) /\ deleted req x = false.
  Proof. destruct ok_shape as (_ & ->). cbn. intros x. rewrite filter_In, negb_true_iff. tauto. Qed.

  (* no table mentions a deleted symbol; every other entry is untouched *)
  Theorem keyed_tables_after :
    (forall x, In x (d_elfinfo s') <-> In x (d_elfinfo s) /\ deleted req x = false) /\
    (forall x, In x (d_tabidx s') <-> In x (d_tabidx s) /\ deleted req x = false) /\
    (forall e, In e (d_ventries s') <-> In e (d_ventries s) /\ deleted req (fst e) = false) /\
    (forall kv, In kv (d_fnames s') <-> In kv (d_fnames s) /\ deleted req (snd kv) = false) /\
    (forall kv, In kv (d_fwd s') <-> In kv (d_fwd s) /\ deleted req (fst kv) = false /\ deleted req (snd kv) = false).
  Proof.
    destruct ok_shape as (_ & ->). cbn. split; [|split; [|split; [|split]]]; intros x; rewrite filter_In, negb_true_iff; try tauto.
    rewrite orb_false_iff. tauto.
  Qed.

  (* the PE lists keep their order *)
  Theorem pe_lists_after :
    d_peimp s' = filter (fun x => negb (deleted req x)) (d_peimp s) /\ d_peexp s' = filter (fun x => negb (deleted req x)) (d_peexp s).
  Proof. destruct ok_shape as (_ & ->). cbn. auto. Qed.

  (* CFI directives: same keys, same directives, except that a deleted symbol becomes the null UUID (with DW_EH_PE_omit for
     personality / LSDA) *)
  Theorem cfi_after :
    map fst (d_cfi s') = map fst (d_cfi s) /\
    forall k ds, In (k, ds) (d_cfi s) -> In (k, map (upd_cfid req) ds) (d_cfi s').
  Proof.
    destruct ok_shape as (_ & ->). cbn. split; [rewrite map_map; reflexivity|].
    intros k ds H. apply in_map_iff. exists (k, ds). auto.
  Qed.
  Theorem cfid_after d :
    (forall x, c_sym (upd_cfid req d) = Some x -> deleted req x = false /\ upd_cfid req d = d) /\
    (forall x, c_sym d = Some x -> deleted req x = true ->
       c_sym (upd_cfid req d) = None /\ c_kind (upd_cfid req d) = c_kind d /\
       c_args (upd_cfid req d) = if Nat.eqb (c_kind d) 1 || Nat.eqb (c_kind d) 2 then [DW_EH_PE_omit] else c_args d) /\
    (c_sym d = None -> upd_cfid req d = d).
  Proof.
    unfold upd_cfid. destruct (c_sym d) as [y|] eqn:E.
    - destruct (deleted req y) eqn:D.
      + split; [|split].
        * intros x H. destruct (_ || _); cbn in H; discriminate.
        * intros x Hx _. destruct (_ || _); cbn; auto.
        * discriminate.
      + split; [|split].
        * intros x H. rewrite E in H. inversion H; subst. auto.
        * intros x Hx D'. inversion Hx; subst. congruence.
        * discriminate.
    - split; [|split]; [intros x H; rewrite E in H; discriminate|intros x H; discriminate|reflexivity].
  Qed.

  (* expressions: with success no expression used a symbol deleted without force; exactly the expressions using a deleted symbol go *)
  Theorem expressions_after :
    (forall e, In e (d_symex s) -> uses_unforced req e = false) /\
    (forall e, In e (d_symex s') <-> In e (d_symex s) /\ uses_deleted req e = false).
  Proof.
    destruct ok_shape as (Hno & ->). cbn. split.
    - intros e He. destruct (uses_unforced req e) eqn:E; [|reflexivity].
      assert (existsb (uses_unforced req) (d_symex s) = true) by (apply existsb_exists; exists e; auto). congruence.
    - intros e. rewrite filter_In, negb_true_iff. tauto.
  Qed.

  (* symbol versions: a definition stays iff some remaining symbol uses it or it is the base definition; a requirement keeps the
     versions still in use; a library goes exactly when that leaves it empty after something was removed *)
  Theorem version_defs_after :
    forall d, In d (d_vdefs s') <-> In d (d_vdefs s) /\ (In (fst d) (map snd (d_ventries s')) \/ snd d = VER_FLG_BASE).
  Proof.
    destruct ok_shape as (_ & ->). cbn. intros d. rewrite filter_In, orb_true_iff, zmem_In, Z.eqb_eq. tauto.
  Qed.
  Theorem version_reqs_after :
    forall lib vs, In (lib, vs) (d_vreqs s') <->
      exists vs0, In (lib, vs0) (d_vreqs s) /\ vs = filter (fun v => zmem v (map snd (d_ventries s'))) vs0 /\
                  (vs <> [] \/ filter (fun v => negb (zmem v (map snd (d_ventries s')))) vs0 = []).
  Proof.
    destruct ok_shape as (_ & ->). cbn [d_vreqs d_ventries]. unfold s1, delete_auxdata. cbn [d_vreqs d_ventries].
    set (keep := map snd (filter (fun e : nat * Z => negb (deleted req (fst e))) (d_ventries s))).
    intros lib vs. rewrite in_flat_map. split.
    - intros ((l0 & vs0) & Hin & Hx). cbn [fst snd] in Hx. exists vs0.
      destruct (filter (fun v => negb (zmem v keep)) vs0) as [|r rs] eqn:Er; destruct (filter (fun v => zmem v keep) vs0) as [|k ks] eqn:Ek; cbn [In] in Hx.
      + destruct Hx as [Hx|[]]. inversion Hx; subst. split; [exact Hin|]. split; [reflexivity|right; reflexivity].
      + destruct Hx as [Hx|[]]. inversion Hx; subst. split; [exact Hin|]. split; [reflexivity|right; reflexivity].
      + destruct Hx.
      + destruct Hx as [Hx|[]]. inversion Hx; subst. split; [exact Hin|]. split; [reflexivity|left; discriminate].
    - intros (vs0 & Hin & -> & Hc). exists (lib, vs0). split; [exact Hin|]. cbn [fst snd].
      destruct (filter (fun v => negb (zmem v keep)) vs0) as [|r rs] eqn:Er; destruct (filter (fun v => zmem v keep) vs0) as [|k ks] eqn:Ek; cbn [In]; auto.
      destruct Hc as [Hc|Hc]; [contradiction|discriminate].
  Qed.
End Spec.

(* the call fails exactly when an expression still uses a symbol that is deleted without force *)
Theorem fails_iff req s :
  delete_symbols req s = Err UsesRemainErr <-> exists e, In e (d_symex s) /\ uses_unforced req e = true.
Proof.
  unfold delete_symbols. change (d_symex (delete_auxdata req s)) with (d_symex s).
  destruct (existsb (uses_unforced req) (d_symex s)) eqn:E.
  - split; [intros _; apply existsb_exists in E; exact E|reflexivity].
  - split; [discriminate|]. intros (e & He & Hu). assert (existsb (uses_unforced req) (d_symex s) = true) by (apply existsb_exists; eauto). congruence.
Qed.
