(* C10: split_byte_interval groups overlapping blocks; blocks of different groups share no byte. *)
From Coq Require Import ZArith List Bool Arith Lia.
From GR Require Import Base.Result IR.State IU.Model IU.Proofs IU.RoundTrip.
Import ListNotations.
Open Scope Z_scope.

Definition gend (g : group) : Z := snd (fst g).
Definition b_end (b : iblk) : Z := ib_off b + ib_size b.

(* a group covers its blocks *)
Definition covers (g : group) : Prop := forall b, In b (gblocks g) -> gbegin g <= ib_off b /\ b_end b <= gend g.
(* groups in their final order: each ends where or before the next begins *)
Fixpoint separated (gs : list group) : Prop :=
  match gs with
  | g1 :: ((g2 :: _) as t) => gend g1 <= gbegin g2 /\ separated t
  | _ => True
  end.
(* the accumulator holds the groups latest first *)
Fixpoint separated_rev (acc : list group) : Prop :=
  match acc with
  | g2 :: ((g1 :: _) as t) => gend g1 <= gbegin g2 /\ separated_rev t
  | _ => True
  end.

Lemma separated_app_one : forall gs g, separated gs -> (match rev gs with l :: _ => gend l <= gbegin g | [] => True end) -> separated (gs ++ [g]).
Proof.
  induction gs as [|g1 t IH]; intros g S L; cbn [app]; [exact I|].
  destruct t as [|g2 t'].
  - cbn [app separated]. cbn [rev app] in L. split; [exact L|exact I].
  - cbn [separated] in S. destruct S as [S1 S2]. change ((g1 :: g2 :: t') ++ [g]) with (g1 :: (g2 :: t') ++ [g]).
    cbn [separated app]. split; [exact S1|]. apply IH; [exact S2|].
    cbn [rev] in L |- *. destruct (rev t' ++ [g2]) as [|l r] eqn:E; [destruct (rev t'); discriminate E|]. cbn [app] in L. exact L.
Qed.

Lemma separated_of_rev : forall acc, separated_rev acc -> separated (rev acc).
Proof.
  induction acc as [|g2 t IH]; intros S; cbn [rev]; [exact I|].
  destruct t as [|g1 t'].
  - cbn. exact I.
  - cbn [separated_rev] in S. destruct S as [S1 S2]. apply separated_app_one; [apply IH; exact S2|].
    rewrite rev_involutive. exact S1.
Qed.

Theorem group_blocks_invariant : forall bs acc lo,
  mono lo (map ib_off bs) -> (forall b, In b bs -> 0 <= ib_size b) ->
  Forall covers acc -> separated_rev acc ->
  (match acc with g :: _ => gbegin g <= lo | [] => True end) ->
  Forall covers (group_blocks bs acc) /\ separated (group_blocks bs acc).
Proof.
  induction bs as [|b t IH]; intros acc lo M Hsz C S L; cbn [group_blocks].
  - split; [apply Forall_rev; exact C|apply separated_of_rev; exact S].
  - cbn [map mono] in M. destruct M as [M1 M2].
    assert (Hb : 0 <= ib_size b) by (apply Hsz; left; reflexivity).
    assert (Hsz' : forall x, In x t -> 0 <= ib_size x) by (intros x Hx; apply Hsz; right; exact Hx).
    destruct acc as [|[[gb ge] gl] rest].
    + apply (IH _ (ib_off b) M2 Hsz').
      * constructor; [|constructor]. intros x [<-|[]]. unfold gbegin, gend, b_end. cbn. lia.
      * exact I.
      * unfold gbegin. cbn. lia.
    + destruct (ge <=? ib_off b) eqn:E.
      * apply Z.leb_le in E. apply (IH _ (ib_off b) M2 Hsz').
        -- constructor; [|exact C]. intros x [<-|[]]. unfold gbegin, gend, b_end. cbn. lia.
        -- cbn [separated_rev]. split; [unfold gend, gbegin; cbn; exact E|exact S].
        -- unfold gbegin. cbn. lia.
      * apply (IH _ (ib_off b) M2 Hsz').
        -- inversion C as [|? ? C1 C2]; subst. constructor; [|exact C2].
           intros x Hx. unfold gblocks in Hx. cbn [snd] in Hx. apply in_app_or in Hx as [Hx|[<-|[]]].
           ++ destruct (C1 x Hx) as [A B]. unfold gbegin, gend in *. cbn in *. split; [exact A|lia].
           ++ unfold gbegin, gend, b_end in *. cbn in *. lia.
        -- destruct rest as [|g1 r]; [exact I|]. cbn [separated_rev] in S |- *. destruct S as [S1 S2]. split; [exact S1|exact S2].
        -- unfold gbegin in *. cbn in *. lia.
Qed.

(* blocks that end up in different intervals share no byte: the earlier one ends where or before the later one starts *)
Theorem groups_share_no_byte : forall gs, Forall covers gs -> separated gs ->
  forall l1 g1 l2 g2 l3 b1 b2, gs = l1 ++ g1 :: l2 ++ g2 :: l3 -> In b1 (gblocks g1) -> In b2 (gblocks g2) ->
  (forall g, In g gs -> gbegin g <= gend g) -> b_end b1 <= ib_off b2.
Proof.
  intros gs C S l1 g1 l2 g2 l3 b1 b2 E H1 H2 Hne.
  rewrite Forall_forall in C.
  assert (In1 : In g1 gs) by (rewrite E; apply in_or_app; right; left; reflexivity).
  assert (In2 : In g2 gs) by (rewrite E; apply in_or_app; right; right; apply in_or_app; right; left; reflexivity).
  destruct (C g1 In1 b1 H1) as [_ A]. destruct (C g2 In2 b2 H2) as [B _].
  enough (gend g1 <= gbegin g2) by lia.
  clear C H1 H2 A B In1 In2 b1 b2. subst gs. revert S Hne. induction l1 as [|x l1 IH]; cbn [app]; intros S Hne.
  - revert g1 S Hne. induction l2 as [|y l2 IH2]; cbn [app]; intros g1 S Hne.
    + cbn [separated] in S. tauto.
    + cbn [separated] in S. destruct S as [S1 S2].
      assert (Hy : gbegin y <= gend y) by (apply Hne; right; left; reflexivity).
      specialize (IH2 y S2 (fun g Hg => Hne g (or_intror Hg))). lia.
  - apply IH; [|intros g Hg; apply Hne; right; exact Hg].
    destruct (l1 ++ g1 :: l2 ++ g2 :: l3) eqn:E'; [destruct l1; discriminate E'|]. cbn [separated] in S. tauto.
Qed.

(* for the blocks of an interval, sorted by offset: every group covers its blocks and the groups are separated *)
Theorem split_groups_are_disjoint : forall iv,
  mono 0 (map ib_off (iv_blocks iv)) -> (forall b, In b (iv_blocks iv) -> 0 <= ib_size b) ->
  Forall covers (group_blocks (iv_blocks iv) []) /\ separated (group_blocks (iv_blocks iv) []).
Proof. intros iv M Hsz. apply (group_blocks_invariant (iv_blocks iv) [] 0 M Hsz); [constructor|exact I|exact I]. Qed.
