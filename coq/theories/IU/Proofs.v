From Coq Require Import ZArith List Bool Arith Lia ZifyBool.
From GR Require Import Base.Result IR.State IU.Model.
Import ListNotations.
Open Scope Z_scope.

(* ---- padding reaches the boundary and never overshoots ---- *)
Theorem align_address_spec address boundary :
  0 < boundary ->
  align_address address boundary mod boundary = 0 /\ address <= align_address address boundary < address + boundary.
Proof.
  intros H. unfold align_address. split; [rewrite Z.mod_mul; lia|].
  pose proof (Z.div_mod (address + boundary - 1) boundary ltac:(lia)) as E.
  pose proof (Z.mod_pos_bound (address + boundary - 1) boundary H) as B.
  set (q := (address + boundary - 1) / boundary) in *. set (r := (address + boundary - 1) mod boundary) in *. nia.
Qed.
Theorem align_address_aligned address boundary : 0 < boundary -> address mod boundary = 0 -> align_address address boundary = address.
Proof.
  intros H Hm. unfold align_address.
  pose proof (Z.div_mod address boundary ltac:(lia)) as E. rewrite Hm in E.
  replace (address + boundary - 1) with ((address / boundary) * boundary + (boundary - 1)) by lia.
  rewrite Z.div_add_l by lia. rewrite (Z.div_small (boundary - 1) boundary) by lia. lia.
Qed.

(* ---- split_byte_interval: every block keeps its address and its bytes ---- *)
Theorem piece_keeps_addresses iv b nb last bl blk :
  In blk bl ->
  exists blk', In blk' (iv_blocks (piece iv b nb last bl)) /\ ib_id blk' = ib_id blk /\ ib_size blk' = ib_size blk /\
               iv_addr (piece iv b nb last bl) + ib_off blk' = iv_addr iv + ib_off blk.
Proof.
  intros H. exists (mk_iblk (ib_id blk) (ib_off blk - b) (ib_size blk) (ib_code blk)). cbn. split; [|split; [reflexivity|split; [reflexivity|lia]]].
  apply in_map_iff. exists blk. auto.
Qed.

Lemma skipn_skipn {A} (a b : nat) (l : list A) : skipn a (skipn b l) = skipn (a + b) l.
Proof.
  revert l. induction b as [|b IH]; intros l; [rewrite Nat.add_0_r; reflexivity|].
  destruct l as [|x l]; [rewrite !skipn_nil; reflexivity|]. rewrite Nat.add_succ_r. cbn [skipn]. apply IH.
Qed.

Lemma slice_slice (l : list Z) from to a n :
  0 <= from -> 0 <= a -> 0 <= n -> from + a + n <= to ->
  firstn (Z.to_nat n) (skipn (Z.to_nat a) (slice l from to)) = firstn (Z.to_nat n) (skipn (Z.to_nat (from + a)) l).
Proof.
  intros H1 H2 H3 H4. unfold slice.
  rewrite skipn_firstn_comm, skipn_skipn, firstn_firstn.
  replace (Z.to_nat a + Z.to_nat from)%nat with (Z.to_nat (from + a)) by lia.
  f_equal. lia.
Qed.
(* the bytes a block sees through its new interval are the bytes it saw before *)
Theorem piece_keeps_bytes iv b nb last bl blk :
  0 <= b -> b <= ib_off blk -> 0 <= ib_size blk -> ib_off blk + ib_size blk <= nb ->
  firstn (Z.to_nat (ib_size blk)) (skipn (Z.to_nat (ib_off blk - b)) (iv_contents (piece iv b nb last bl))) =
  firstn (Z.to_nat (ib_size blk)) (skipn (Z.to_nat (ib_off blk)) (iv_contents iv)).
Proof.
  intros H1 H2 H3 H4. cbn [piece iv_contents]. rewrite slice_slice by lia. replace (b + (ib_off blk - b)) with (ib_off blk) by lia. reflexivity.
Qed.

(* ---- the pieces recompose the bytes ---- *)
Lemma firstn_add {A} (x y : nat) (m : list A) : firstn (x + y) m = firstn x m ++ firstn y (skipn x m).
Proof.
  revert m. induction x as [|x IH]; intros m; [reflexivity|]. destruct m as [|h m]; [rewrite firstn_nil; destruct y; reflexivity|].
  cbn [Nat.add firstn skipn app]. rewrite IH. reflexivity.
Qed.
Lemma slice_app (l : list Z) a b c : 0 <= a -> a <= b -> b <= c -> slice l a b ++ slice l b c = slice l a c.
Proof.
  intros H1 H2 H3. unfold slice.
  replace (Z.to_nat (c - a)) with (Z.to_nat (b - a) + Z.to_nat (c - b))%nat by lia.
  rewrite firstn_add, skipn_skipn. replace (Z.to_nat (b - a) + Z.to_nat a)%nat with (Z.to_nat b) by lia. reflexivity.
Qed.
Theorem slice_whole (l : list Z) : slice l 0 (Z.of_nat (length l)) = l.
Proof. unfold slice. cbn [Z.to_nat skipn]. replace (Z.to_nat (Z.of_nat (length l) - 0)) with (length l) by lia. apply firstn_all. Qed.

(* cut points 0 = c0 <= c1 <= ... <= cn = length: the slices between consecutive cut points concatenate to the whole list *)
Fixpoint slices (l : list Z) (from : Z) (cuts : list Z) : list (list Z) :=
  match cuts with [] => [] | c :: t => slice l from c :: slices l c t end.
Fixpoint increasing (from : Z) (cuts : list Z) : Prop := match cuts with [] => True | c :: t => from <= c /\ increasing c t end.
Lemma last_default (l : list Z) x d d' : last (x :: l) d = last (x :: l) d'.
Proof. revert x. induction l as [|y l IH]; intros x; [reflexivity|]. cbn [last] in *. apply (IH y). Qed.
Lemma increasing_last : forall l c, increasing c l -> c <= last l c.
Proof.
  induction l as [|x l IH]; intros c H; cbn [last]; [lia|]. destruct H as (A & B).
  destruct l as [|y l']; [lia|]. rewrite (last_default l' y c x). specialize (IH x B). lia.
Qed.

Theorem slices_recompose : forall cuts l from,
  0 <= from -> increasing from cuts -> concat (slices l from cuts) = slice l from (last cuts from).
Proof.
  induction cuts as [|c t IH]; intros l from H0 Hi; cbn [slices concat last].
  - unfold slice. replace (Z.to_nat (from - from)) with 0%nat by lia. reflexivity.
  - destruct Hi as (H1 & H2). rewrite IH by (auto; lia).
    destruct t as [|c2 t2]; [cbn [last]; unfold slice at 2; replace (Z.to_nat (c - c)) with 0%nat by lia; cbn; apply app_nil_r|].
    pose proof (increasing_last _ _ H2) as Hle.
    rewrite slice_app by lia. rewrite (last_default t2 c2 c from). reflexivity.
Qed.

(* ===== insert_padding: what is appended ===== *)
Lemma concat_repeat_length : forall (nop : list Z) k, length (concat (repeat nop k)) = (k * length nop)%nat.
Proof. intros nop k. induction k as [|k IH]; cbn [repeat concat]; [reflexivity|]. rewrite app_length, IH. cbn. lia. Qed.

(* behind code: a whole number of nops; behind data (or nothing): zeros; in both cases exactly `size` bytes, and when the padding is
   refused (PaddingError) the nop does not fit evenly *)
Theorem padding_behind_code : forall nop st size b, nop <> [] -> 0 < size -> j_last st = Some b -> ib_code b = true ->
  (size mod Z.of_nat (length nop) <> 0 -> insert_padding nop st size = Err ValueErr) /\
  (size mod Z.of_nat (length nop) = 0 ->
   exists st', insert_padding nop st size = Ok st' /\
     iv_contents (j_dest st') = iv_contents (j_dest st) ++ concat (repeat nop (Z.to_nat (size / Z.of_nat (length nop)))) /\
     Z.of_nat (length (iv_contents (j_dest st'))) = Z.of_nat (length (iv_contents (j_dest st))) + size).
Proof.
  intros nop st size b Hn Hs Hl Hc. unfold insert_padding. rewrite Hl, Hc.
  assert (Hz : (size =? 0) = false) by (apply Z.eqb_neq; lia). rewrite Hz.
  assert (Hlen : 0 < Z.of_nat (length nop)) by (destruct nop; [contradiction|cbn [length]; lia]).
  split.
  - intros Hm. apply Z.eqb_neq in Hm. rewrite Hm. reflexivity.
  - intros Hm. pose proof Hm as Hm'. apply Z.eqb_eq in Hm'. rewrite Hm'. cbn [bind].
    destruct (0 <? Z.of_nat (length (iv_contents (j_dest st) ++ concat (repeat nop (Z.to_nat (size / Z.of_nat (length nop)))))) - (ib_off b + ib_size b));
      (eexists; split; [reflexivity|]; cbn [j_dest iv_contents]; split; [reflexivity|]);
      rewrite app_length, concat_repeat_length, Nat2Z.inj_add, Nat2Z.inj_mul, Z2Nat.id by (apply Z.div_pos; lia);
      apply Z.div_exact in Hm; lia.
Qed.

Theorem padding_behind_data : forall nop st size, 0 < size ->
  (match j_last st with Some b => ib_code b = false | None => True end) ->
  exists st', insert_padding nop st size = Ok st' /\
    iv_contents (j_dest st') = iv_contents (j_dest st) ++ repeat 0 (Z.to_nat size).
Proof.
  intros nop st size Hs Hl. unfold insert_padding.
  assert (Hz : (size =? 0) = false) by (apply Z.eqb_neq; lia). rewrite Hz.
  destruct (j_last st) as [b|]; [rewrite Hl|]; cbn [bind];
    match goal with |- context [if ?c then _ else _] => destruct c end; eexists; split; reflexivity.
Qed.

(* the bytes behind the last block are covered by a block of the last block's kind, up to the end of the contents *)
Theorem padding_is_covered : forall nop st size st' b, insert_padding nop st size = Ok st' -> size <> 0 -> j_last st = Some b ->
  ib_off b + ib_size b < Z.of_nat (length (iv_contents (j_dest st'))) ->
  exists p, In p (iv_blocks (j_dest st')) /\ ib_off p = ib_off b + ib_size b /\
            ib_off p + ib_size p = Z.of_nat (length (iv_contents (j_dest st'))) /\ ib_code p = ib_code b.
Proof.
  intros nop st size st' b E Hs Hl Hlt. unfold insert_padding in E.
  assert (Hz : (size =? 0) = false) by (apply Z.eqb_neq; lia). rewrite Hz, Hl in E.
  destruct (if ib_code b then _ else _) as [pad|e] eqn:Ep; cbn [bind] in E; [|discriminate E].
  destruct (0 <? Z.of_nat (length (iv_contents (j_dest st) ++ pad)) - (ib_off b + ib_size b)) eqn:Epos;
    injection E as <-; cbn [j_dest iv_contents iv_blocks] in *.
  - eexists. split; [apply in_or_app; right; left; reflexivity|]. cbn [ib_off ib_size ib_code]. repeat split; lia.
  - apply Z.ltb_ge in Epos. lia.
Qed.

Lemma abi_nops_are_whole_instructions : forall isa, abi_nop isa <> [] /\ (isa >= 2 -> length (abi_nop isa) = 4)%nat /\ (isa < 2 -> length (abi_nop isa) = 1)%nat.
Proof.
  intros isa. destruct isa as [|[|[|isa]]]; cbn; repeat split; try discriminate; try lia.
Qed.
