(* C10, model side: join_byte_intervals (split_byte_interval I) = I for a fully initialized interval without alignment entries. *)
From Coq Require Import ZArith List Bool Arith Lia ZifyBool.
From GR Require Import Base.Result IR.State IR.Annot IU.Model IU.Proofs.
Import ListNotations.
Open Scope Z_scope.

(* ---- displacement maps: what a map holds up to a cut ---- *)
Definition get_upto (c : Z) (all : bool) (md m : dmap Z) : Prop :=
  forall k, dget k md = if all || (k <? c) then dget k m else None.

Lemma dfilter_keys_nodup (p : Z -> bool) (m : dmap Z) : NoDup (map fst m) -> NoDup (map fst (dfilter p m)).
Proof.
  unfold dfilter. induction m as [|[k v] m IH]; cbn [filter map fst]; intros H; [constructor|].
  inversion H as [|? ? Hn Hd]; subst. destruct (p k); cbn [map fst]; [|apply IH, Hd].
  constructor; [|apply IH, Hd]. intros Hin. apply Hn. apply in_map_iff in Hin. destruct Hin as ([k2 v2] & E & Hin). cbn in E. subst k2.
  apply filter_In in Hin. apply in_map_iff. exists (k, v2). split; [reflexivity|apply Hin].
Qed.

Lemma dslice_keys_nodup (m : dmap Z) from to last d :
  NoDup (map fst m) -> NoDup (map fst (drekey (fun k => k + d) (dslice m from to last))).
Proof.
  intros H. unfold dslice. apply drekey_keys_nodup; [intros x y E; lia|]. apply drekey_keys_nodup; [intros x y E; lia|].
  apply dfilter_keys_nodup, H.
Qed.

Lemma dslice_step (m md : dmap Z) c c' last :
  NoDup (map fst m) -> get_upto c false md m -> c <= c' ->
  get_upto c' last (dupdate md (drekey (fun k => k + c) (dslice m c c' last))) m.
Proof.
  intros Hnd H Hle k. rewrite dget_dupdate by (apply dslice_keys_nodup, Hnd).
  rewrite dget_shift. unfold dslice. rewrite dget_minus. replace (k - c + c) with k by lia. rewrite dget_dfilter. rewrite (H k). cbn [orb].
  destruct last; cbn [orb]; destruct (c <=? k) eqn:A; destruct (k <? c') eqn:B; destruct (k <? c) eqn:D; cbn [andb orb]; try lia;
    destruct (dget k m); reflexivity.
Qed.

Lemma first_get_upto (m : dmap Z) nb : get_upto nb false (dfilter (fun k => k <? nb) m) m.
Proof. intros k. rewrite dget_dfilter. reflexivity. Qed.

(* ---- the padding steps vanish ---- *)
Lemma align_address_one a : align_address a 1 = a.
Proof. unfold align_address. rewrite Z.div_1_r. lia. Qed.
Lemma first_aligned_nil bs : first_aligned [] bs = None.
Proof.
  unfold first_aligned. assert (H : forall acc, fold_left (fun acc b => match aget (ib_id b) ([] : list (nat * Z)) with
     | None => acc | Some _ => match acc with Some a => if ib_off b <? ib_off a then Some b else acc | None => Some b end end) bs acc = acc).
  { induction bs as [|b bs IH]; intros acc; cbn [fold_left aget]; [reflexivity|apply IH]. }
  apply H.
Qed.
Lemma slice_length (l : list Z) a b : 0 <= a -> a <= b -> b <= Z.of_nat (length l) -> Z.of_nat (length (slice l a b)) = b - a.
Proof. intros H1 H2 H3. unfold slice. rewrite firstn_length, skipn_length. lia. Qed.

(* ---- one append ---- *)
Record jinv (iv : ival) (st : jstate) (c : Z) (all : bool) (bl : list iblk) : Prop := mk_jinv {
  ji_addr : iv_addr (j_dest st) = iv_addr iv;
  ji_size : iv_size (j_dest st) = c;
  ji_cont : iv_contents (j_dest st) = slice (iv_contents iv) 0 c;
  ji_blocks : iv_blocks (j_dest st) = bl;
  ji_symex : get_upto c all (iv_symex (j_dest st)) (iv_symex iv);
  ji_tabs : Forall2 (get_upto c all) (iv_tabs (j_dest st)) (iv_tabs iv);
  ji_jaddr : j_addr st = iv_addr iv + c
}.

Definition shift_back (c : Z) (bl : list iblk) : list iblk :=
  map (fun b => mk_iblk (ib_id b) (ib_off b + c) (ib_size b) (ib_code b)) (map (fun b => mk_iblk (ib_id b) (ib_off b - c) (ib_size b) (ib_code b)) bl).
Lemma shift_back_id c bl : shift_back c bl = bl.
Proof.
  unfold shift_back. rewrite map_map. rewrite <- (map_id bl) at 2. apply map_ext. intros [i o z cd]. cbn. f_equal. lia.
Qed.

Lemma tabs_step (tabs dtabs : list (dmap Z)) c c' last :
  Forall (fun m => NoDup (map fst m)) tabs -> Forall2 (get_upto c false) dtabs tabs -> c <= c' ->
  Forall2 (get_upto c' last)
    (map (fun tt => dupdate (fst tt) (drekey (fun k => k + c) (snd tt))) (combine dtabs (map (fun t => dslice t c c' last) tabs))) tabs.
Proof.
  intros Hnd H Hle. revert Hnd. induction H as [|md m dtabs tabs Hm Hrest IH]; intros Hnd; cbn [map combine]; [constructor|].
  inversion Hnd; subst. constructor; [cbn [fst snd]; apply dslice_step; assumption|apply IH; assumption].
Qed.

(* an alignment table whose requirements hold for the blocks in question: no padding is needed *)
Definition holds (iv : ival) (align : list (nat * Z)) (b : iblk) : Prop :=
  forall a, aget (ib_id b) align = Some a -> 0 < a /\ (iv_addr iv + ib_off b) mod a = 0.

Lemma first_aligned_spec align bs :
  match first_aligned align bs with
  | Some b => In b bs /\ exists a, aget (ib_id b) align = Some a
  | None => True
  end.
Proof.
  unfold first_aligned.
  assert (G : forall l acc, (match acc with Some b => In b bs /\ exists a, aget (ib_id b) align = Some a | None => True end) ->
              (forall x, In x l -> In x bs) ->
              match fold_left (fun acc b => match aget (ib_id b) align with
                                            | None => acc
                                            | Some _ => match acc with Some a => if ib_off b <? ib_off a then Some b else acc | None => Some b end
                                            end) l acc with
              | Some b => In b bs /\ exists a, aget (ib_id b) align = Some a
              | None => True
              end).
  { induction l as [|x l IH]; intros acc Ha Hl; cbn [fold_left]; [exact Ha|].
    apply IH; [|intros y Hy; apply Hl; right; exact Hy].
    destruct (aget (ib_id x) align) as [a|] eqn:Ex; [|exact Ha].
    destruct acc as [b0|]; [destruct (ib_off x <? ib_off b0); [|exact Ha]|]; (split; [apply Hl; left; reflexivity|exists a; exact Ex]). }
  apply G; [exact I|auto].
Qed.

Lemma append_piece nop align iv st c c' last bl gl :
  jinv iv st c false bl -> 0 <= c -> c <= c' -> c' <= iv_size iv -> Z.of_nat (length (iv_contents iv)) = iv_size iv ->
  NoDup (map fst (iv_symex iv)) -> Forall (fun m => NoDup (map fst m)) (iv_tabs iv) ->
  (forall b, In b gl -> holds iv align b) ->
  exists st', append_interval nop align st (piece iv c c' last gl) = Ok st' /\ jinv iv st' c' last (bl ++ gl).
Proof.
  intros [A1 A2 A3 A4 A5 A6 A7] H0 Hle Hsz Hlen Hn1 Hn2 Hal.
  assert (Hl : Z.of_nat (length (iv_contents (j_dest st))) = c) by (rewrite A3, slice_length by lia; lia).
  unfold append_interval.
  replace (iv_size (j_dest st) - Z.of_nat (length (iv_contents (j_dest st)))) with 0 by lia.
  cbn [insert_padding Z.eqb bind].
  cbn [piece iv_blocks].
  pose proof (first_aligned_spec align (map (fun b => mk_iblk (ib_id b) (ib_off b - c) (ib_size b) (ib_code b)) gl)) as F.
  destruct (first_aligned align (map (fun b => mk_iblk (ib_id b) (ib_off b - c) (ib_size b) (ib_code b)) gl)) as [b'|].
  - destruct F as (Hin & a & Ea). apply in_map_iff in Hin as (b0 & <- & Hb0). cbn [ib_id ib_off] in *. rewrite Ea.
    destruct (Hal b0 Hb0 a Ea) as (Hpos & Hmod).
    assert (Hz : align_address (j_addr st + (ib_off b0 - c)) a - (j_addr st + (ib_off b0 - c)) = 0).
    { rewrite align_address_aligned; [lia|exact Hpos|]. rewrite A7. replace (iv_addr iv + c + (ib_off b0 - c)) with (iv_addr iv + ib_off b0) by lia. exact Hmod. }
    rewrite Hz. cbn [insert_padding Z.eqb bind].
    eexists. split; [reflexivity|].
    constructor; cbn [j_dest iv_addr iv_size iv_contents iv_blocks iv_symex iv_tabs j_addr piece].
    + exact A1.
    + lia.
    + rewrite A3. apply slice_app; lia.
    + rewrite A4. f_equal. rewrite Hl. apply shift_back_id.
    + rewrite Hl. apply dslice_step; assumption.
    + rewrite Hl. apply tabs_step; assumption.
    + lia.
  - rewrite align_address_one.
    replace (j_addr st + 0 - (j_addr st + 0)) with 0 by lia. cbn [insert_padding Z.eqb bind].
    eexists. split; [reflexivity|].
    constructor; cbn [j_dest iv_addr iv_size iv_contents iv_blocks iv_symex iv_tabs j_addr piece].
    + exact A1.
    + lia.
    + rewrite A3. apply slice_app; lia.
    + rewrite A4. f_equal. rewrite Hl. apply shift_back_id.
    + rewrite Hl. apply dslice_step; assumption.
    + rewrite Hl. apply tabs_step; assumption.
    + lia.
Qed.

(* ---- all the pieces ---- *)
Definition gbegin (g : group) : Z := fst (fst g).
Definition gblocks (g : group) : list iblk := snd g.
(* the begins that follow c are non-decreasing and end inside the interval *)
Fixpoint chain (c : Z) (bs : list Z) (size : Z) : Prop :=
  match bs with [] => c <= size | nb :: t => c <= nb /\ chain nb t size end.
Lemma chain_le : forall bs c size, chain c bs size -> c <= size.
Proof. induction bs as [|nb t IH]; intros c size H; cbn in H; [exact H|]. destruct H as (A & B). specialize (IH _ _ B). lia. Qed.

Definition jstep nop align (acc : result jstate) (x : ival) : result jstate := do st <- acc; append_interval nop align st x.

Lemma join_pieces nop align iv :
  Z.of_nat (length (iv_contents iv)) = iv_size iv ->
  NoDup (map fst (iv_symex iv)) -> Forall (fun m => NoDup (map fst m)) (iv_tabs iv) ->
  forall t gb ge gl st bl,
  jinv iv st gb false bl -> 0 <= gb -> chain gb (map gbegin t) (iv_size iv) ->
  (forall b, In b (gl ++ concat (map gblocks t)) -> holds iv align b) ->
  exists st', fold_left (jstep nop align) (pieces iv ((gb, ge, gl) :: t)) (Ok st) = Ok st' /\
              jinv iv st' (iv_size iv) true (bl ++ concat (map gblocks ((gb, ge, gl) :: t))).
Proof.
  intros Hlen Hn1 Hn2. induction t as [|[[nb ne] nl] t IH]; intros gb ge gl st bl J H0 Hc Hal.
  - cbn [pieces fold_left jstep bind map gblocks snd concat]. cbn in Hc.
    destruct (append_piece nop align iv st gb (iv_size iv) true bl gl J H0 Hc ltac:(lia) Hlen Hn1 Hn2 (fun b Hb => Hal b (in_or_app _ _ _ (or_introl Hb)))) as (st' & E & J').
    exists st'. split; [exact E|]. rewrite app_nil_r. exact J'.
  - cbn [map gbegin fst chain] in Hc. destruct Hc as (Hle & Hc). pose proof (chain_le _ _ _ Hc) as Hnb.
    cbn [pieces]. rewrite Z.min_l by lia. cbn [fold_left jstep bind].
    destruct (append_piece nop align iv st gb nb false bl gl J H0 Hle Hnb Hlen Hn1 Hn2 (fun b Hb => Hal b (in_or_app _ _ _ (or_introl Hb)))) as (st1 & E & J1).
    rewrite E. destruct (IH nb ne nl st1 (bl ++ gl) J1 ltac:(lia) Hc) as (st' & E' & J').
    { intros b Hb. apply Hal. apply in_or_app. right. cbn [map gblocks snd concat]. exact Hb. }
    exists st'. split; [exact E'|]. cbn [map gblocks snd concat] in *. rewrite <- app_assoc in J'. exact J'.
Qed.

(* what "the same interval" means: lookups instead of list equality for the maps *)
Record same_ival (r iv : ival) (bl : list iblk) : Prop := mk_same {
  sm_addr : iv_addr r = iv_addr iv;
  sm_size : iv_size r = iv_size iv;
  sm_cont : iv_contents r = iv_contents iv;
  sm_blocks : iv_blocks r = bl;
  sm_symex : forall k, dget k (iv_symex r) = dget k (iv_symex iv);
  sm_tabs : Forall2 (fun a b => forall k, dget k a = dget k b) (iv_tabs r) (iv_tabs iv)
}.

Definition good_groups (gs : list group) (size : Z) : Prop :=
  match gs with
  | _ :: (nb, _, _) :: t => 0 <= nb /\ chain nb (map gbegin t) size
  | _ => True
  end.

Theorem join_split_round_trip nop align next iv :
  Z.of_nat (length (iv_contents iv)) = iv_size iv ->
  NoDup (map fst (iv_symex iv)) -> Forall (fun m => NoDup (map fst m)) (iv_tabs iv) ->
  good_groups (group_blocks (iv_blocks iv) []) (iv_size iv) ->
  (forall b, In b (concat (map gblocks (group_blocks (iv_blocks iv) []))) -> holds iv align b) ->
  exists r, join_byte_intervals nop align next (split_byte_interval iv) = Ok r /\
            same_ival r iv (match group_blocks (iv_blocks iv) [] with [] | [_] => iv_blocks iv | gs => concat (map gblocks gs) end).
Proof.
  intros Hlen Hn1 Hn2 Hg Hal. unfold split_byte_interval.
  destruct (group_blocks (iv_blocks iv) []) as [|[[g0b g0e] gl0] [|[[nb ne] nl] t]] eqn:Eg.
  - exists iv. split; [reflexivity|]. constructor; auto. clear. induction (iv_tabs iv); constructor; auto.
  - exists iv. split; [reflexivity|]. constructor; auto. clear. induction (iv_tabs iv); constructor; auto.
  - cbn [good_groups] in Hg. destruct Hg as (H0 & Hc). pose proof (chain_le _ _ _ Hc) as Hnb.
    rewrite Z.min_l by lia.
    set (first := mk_ival (iv_addr iv) nb (slice (iv_contents iv) 0 nb) gl0 (dfilter (fun k => k <? nb) (iv_symex iv))
                          (map (fun t0 => dfilter (fun k => k <? nb) t0) (iv_tabs iv))).
    set (st0 := mk_jstate first (iv_addr first + iv_size first) (last_block (iv_blocks first) None) next).
    assert (J0 : jinv iv st0 nb false gl0).
    { constructor; cbn; try reflexivity; [apply first_get_upto|].
      clear. induction (iv_tabs iv) as [|m l IH]; cbn [map]; constructor; [apply first_get_upto|exact IH]. }
    destruct (join_pieces nop align iv Hlen Hn1 Hn2 t nb ne nl st0 gl0 J0 H0 Hc) as (st' & E & J').
    { intros b Hb. apply Hal. cbn [map gblocks snd concat]. apply in_or_app. right. exact Hb. }
    assert (Hp : exists p ps, pieces iv ((nb, ne, nl) :: t) = p :: ps) by (destruct t as [|[[a b] c0] t']; cbn [pieces]; eauto).
    destruct Hp as (p & ps & Ep). rewrite Ep in *. 
    exists (j_dest st'). split.
    + unfold join_byte_intervals. unfold group in *. rewrite Ep. fold (jstep nop align). fold st0. rewrite E. reflexivity.
    + destruct J' as [A1 A2 A3 A4 A5 A6 A7]. constructor.
      * exact A1.
      * exact A2.
      * rewrite A3. rewrite <- Hlen. apply slice_whole.
      * rewrite A4. reflexivity.
      * intros k. rewrite (A5 k). reflexivity.
      * clear -A6. induction A6 as [|a b la lb Hab Hrest IH]; constructor; [intros k; rewrite (Hab k); reflexivity|exact IH].
Qed.

(* ---- the groups of sorted blocks ---- *)
Fixpoint mono (c : Z) (l : list Z) : Prop := match l with [] => True | x :: t => c <= x /\ mono x t end.
Lemma mono_weaken : forall l c c', c <= c' -> mono c' l -> mono c l.
Proof. destruct l as [|x t]; intros c c' H M; cbn in *; [exact I|]. destruct M as (A & B). split; [lia|exact B]. Qed.
Lemma chain_of_mono : forall l c size, mono c l -> c <= size -> Forall (fun x => x <= size) l -> chain c l size.
Proof.
  induction l as [|x t IH]; intros c size M H F; cbn in *; [exact H|]. destruct M as (A & B). inversion F; subst.
  split; [exact A|apply IH; assumption].
Qed.

Lemma group_blocks_concat : forall bs acc,
  concat (map gblocks (group_blocks bs acc)) = concat (map gblocks (rev acc)) ++ bs.
Proof.
  induction bs as [|b t IH]; intros acc; cbn [group_blocks]; [rewrite app_nil_r; reflexivity|].
  destruct acc as [|[[gb ge] gl] rest].
  - rewrite IH. reflexivity.
  - destruct (ge <=? ib_off b).
    + rewrite IH. cbn [rev]. rewrite !map_app, !concat_app. cbn [map gblocks snd concat]. rewrite app_nil_r, <- !app_assoc. reflexivity.
    + rewrite IH. cbn [rev]. rewrite !map_app, !concat_app. cbn [map gblocks snd concat]. rewrite !app_nil_r, <- !app_assoc. reflexivity.
Qed.

Lemma group_blocks_begins : forall bs hb he hl rest,
  mono hb (map ib_off bs) ->
  exists sub, map gbegin (group_blocks bs ((hb, he, hl) :: rest)) = map gbegin (rev ((hb, he, hl) :: rest)) ++ sub /\
              mono hb sub /\ (forall x, In x sub -> In x (map ib_off bs)).
Proof.
  induction bs as [|b t IH]; intros hb he hl rest M; cbn [group_blocks].
  - exists []. rewrite app_nil_r. split; [reflexivity|split; [exact I|intros x []]].
  - cbn [map mono] in M. destruct M as (A & B). destruct (he <=? ib_off b).
    + destruct (IH (ib_off b) (ib_off b + ib_size b) [b] ((hb, he, hl) :: rest) B) as (sub & E & M' & Hin).
      exists (ib_off b :: sub). split; [|split].
      * rewrite E. cbn [rev]. rewrite !map_app. cbn [map gbegin fst]. rewrite <- !app_assoc. reflexivity.
      * cbn. split; [exact A|exact M'].
      * intros x [<-|Hx]; [left; reflexivity|right; apply Hin, Hx].
    + destruct (IH hb (Z.max he (ib_off b + ib_size b)) (hl ++ [b]) rest (mono_weaken _ _ _ A B)) as (sub & E & M' & Hin).
      exists sub. split; [|split].
      * rewrite E. cbn [rev]. rewrite !map_app. reflexivity.
      * exact M'.
      * intros x Hx. right. apply Hin, Hx.
Qed.

Definition wf_blocks (iv : ival) : Prop :=
  mono 0 (map ib_off (iv_blocks iv)) /\ Forall (fun b => ib_off b <= iv_size iv) (iv_blocks iv).

Lemma groups_are_good iv : wf_blocks iv -> good_groups (group_blocks (iv_blocks iv) []) (iv_size iv).
Proof.
  intros (M & F). destruct (iv_blocks iv) as [|b t] eqn:Eb; [exact I|].
  cbn [group_blocks]. cbn [map mono] in M. destruct M as (A & B).
  destruct (group_blocks_begins t (ib_off b) (ib_off b + ib_size b) [b] [] B) as (sub & E & M' & Hin).
  destruct (group_blocks t [(ib_off b, ib_off b + ib_size b, [b])]) as [|g0 [|[[nb ne] nl] t']]; try exact I.
  cbn [good_groups]. cbn [rev app map gbegin fst] in E. injection E as E0 E1. subst sub.
  cbn [mono] in M'. destruct M' as (C & D).
  assert (Hall : forall x, In x (nb :: map gbegin t') -> x <= iv_size iv).
  { intros x Hx. specialize (Hin x Hx). apply in_map_iff in Hin. destruct Hin as (blk & <- & Hb).
    inversion F as [|? ? _ Ft]; subst. rewrite Forall_forall in Ft. apply Ft, Hb. }
  split; [lia|]. apply chain_of_mono; [exact D|apply Hall; left; reflexivity|].
  apply Forall_forall. intros x Hx. apply Hall. right. exact Hx.
Qed.

Lemma groups_concat iv : concat (map gblocks (group_blocks (iv_blocks iv) [])) = iv_blocks iv.
Proof. rewrite group_blocks_concat. reflexivity. Qed.

(* the round trip, for every fully initialized interval whose blocks are sorted and start inside it *)
Theorem join_split_is_identity nop align next iv :
  Z.of_nat (length (iv_contents iv)) = iv_size iv ->
  NoDup (map fst (iv_symex iv)) -> Forall (fun m => NoDup (map fst m)) (iv_tabs iv) ->
  wf_blocks iv ->
  (forall b, In b (iv_blocks iv) -> holds iv align b) ->
  exists r, join_byte_intervals nop align next (split_byte_interval iv) = Ok r /\ same_ival r iv (iv_blocks iv).
Proof.
  intros Hlen Hn1 Hn2 Hwf Hal.
  destruct (join_split_round_trip nop align next iv Hlen Hn1 Hn2 (groups_are_good iv Hwf)) as (r & E & S).
  { intros b Hb. apply Hal. rewrite <- (groups_concat iv). exact Hb. }
  exists r. split; [exact E|].
  pose proof (groups_concat iv) as Hc.
  destruct (group_blocks (iv_blocks iv) []) as [|g0 [|g1 t]]; try exact S.
  rewrite Hc in S. exact S.
Qed.

(* ---- prepare_for_rewriting around an empty rewrite: every interval of the module is split and joined again ---- *)
Definition noop_rewrite nop align next (ivs : list ival) : list (result ival) :=
  map (fun iv => join_byte_intervals nop align next (split_byte_interval iv)) ivs.

Theorem noop_rewrite_is_identity nop align next ivs :
  (forall iv, In iv ivs ->
     Z.of_nat (length (iv_contents iv)) = iv_size iv /\ NoDup (map fst (iv_symex iv)) /\ Forall (fun m => NoDup (map fst m)) (iv_tabs iv) /\
     wf_blocks iv /\ (forall b, In b (iv_blocks iv) -> holds iv align b)) ->
  Forall2 (fun iv r => exists j, r = Ok j /\ same_ival j iv (iv_blocks iv)) ivs (noop_rewrite nop align next ivs).
Proof.
  induction ivs as [|iv t IH]; intros H; cbn [noop_rewrite map]; [constructor|].
  constructor.
  - destruct (H iv (or_introl eq_refl)) as (A & B & C & D & E).
    destruct (join_split_is_identity nop align next iv A B C D E) as (r & Er & S). exists r. split; [exact Er|exact S].
  - apply IH. intros iv' Hin. apply H. right. exact Hin.
Qed.
