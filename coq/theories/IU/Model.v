(* Hand model of intervalutils.py: split_byte_interval / join_byte_intervals on one byte interval.
   Blocks are given sorted by offset (the code sorts them); contents are the initialized bytes (length <= size).
   No proofs here. *)
From Coq Require Import ZArith List Bool Arith.
From GR Require Import Base.Result IR.State.
Import ListNotations.
Open Scope Z_scope.

Record iblk := mk_iblk { ib_id : nat; ib_off : Z; ib_size : Z; ib_code : bool }.
Record ival := mk_ival {
  iv_addr : Z;
  iv_size : Z;
  iv_contents : list Z;
  iv_blocks : list iblk;
  iv_symex : dmap Z;                 (* offset -> expression identity *)
  iv_tabs : list (dmap Z)            (* interval-keyed entries of comments / padding / symbolicExpressionSizes *)
}.

(* ---- split_byte_interval ---- *)
(* groups of overlapping blocks: (begin, end, blocks) *)
Definition group := (Z * Z * list iblk)%type.
Fixpoint group_blocks (bs : list iblk) (acc : list group) : list group :=
  match bs with
  | [] => rev acc
  | b :: t =>
      let b_end := ib_off b + ib_size b in
      match acc with
      | (gb, ge, gl) :: rest =>
          if ge <=? ib_off b then group_blocks t ((ib_off b, b_end, [b]) :: acc)
          else group_blocks t ((gb, Z.max ge b_end, gl ++ [b]) :: rest)
      | [] => group_blocks t [(ib_off b, b_end, [b])]
      end
  end.

Definition slice (l : list Z) (from to : Z) : list Z := firstn (Z.to_nat (to - from)) (skipn (Z.to_nat from) l).
Definition dslice {V} (m : dmap V) (from to : Z) (last : bool) : dmap V :=
  drekey (fun k => k - from) (dfilter (fun k => (from <=? k) && (last || (k <? to))) m).

(* the interval of one group: everything from its begin to the next group's begin (to the end for the last group) *)
Definition piece (iv : ival) (begin next_begin : Z) (last : bool) (bl : list iblk) : ival :=
  mk_ival (iv_addr iv + begin) (Z.max (next_begin - begin) 0)
          (slice (iv_contents iv) begin next_begin)
          (map (fun b => mk_iblk (ib_id b) (ib_off b - begin) (ib_size b) (ib_code b)) bl)
          (dslice (iv_symex iv) begin next_begin last)
          (map (fun t => dslice t begin next_begin last) (iv_tabs iv)).

Fixpoint pieces (iv : ival) (gs : list group) : list ival :=
  match gs with
  | [] => []
  | (gb, _, gl) :: t =>
      match t with
      | [] => [piece iv gb (iv_size iv) true gl]
      | (nb, _, _) :: _ => piece iv gb (Z.min nb (iv_size iv)) false gl :: pieces iv t
      end
  end.

Definition split_byte_interval (iv : ival) : list ival :=
  match group_blocks (iv_blocks iv) [] with
  | [] => [iv]
  | [_] => [iv]
  | (_, _, gl) :: (((nb, _, _) :: _) as rest) =>
      (* the first group keeps the original interval, truncated at the second group's begin; it also keeps what lies in front of it *)
      let cut := Z.min nb (iv_size iv) in
      mk_ival (iv_addr iv) cut (slice (iv_contents iv) 0 cut) gl
              (dfilter (fun k => k <? nb) (iv_symex iv)) (map (fun t => dfilter (fun k => k <? nb) t) (iv_tabs iv))
      :: pieces iv rest
  end.

(* ---- join_byte_intervals ---- *)
Definition align_address (address alignment : Z) : Z := (address + alignment - 1) / alignment * alignment.   (* utils.align_address *)

(* state while appending: destination, current address, the last block (code?) *)
Record jstate := mk_jstate { j_dest : ival; j_addr : Z; j_last : option iblk; j_next_id : nat }.

(* insert_padding(size): nops behind code, zeros behind data; a block covers whatever the last block does not *)
(* nop: the bytes of one nop instruction (never empty: divmod by len(nop)) *)
Definition insert_padding (nop : list Z) (st : jstate) (size : Z) : result jstate :=
  if size =? 0 then Ok st
  else
    let d := j_dest st in
    let code := match j_last st with Some b => ib_code b | None => false end in
    let nop_len := Z.of_nat (List.length nop) in
    do pad <- (if code then (if (size mod nop_len =? 0) then Ok (concat (repeat nop (Z.to_nat (size / nop_len)))) else Err ValueErr (* PaddingError *))
               else Ok (repeat 0 (Z.to_nat size)));
    let contents' := iv_contents d ++ pad in
    let '(poff, psize) := match j_last st with
                          | Some b => (ib_off b + ib_size b, Z.of_nat (List.length contents') - (ib_off b + ib_size b))
                          | None => (0, Z.of_nat (List.length contents'))
                          end in
    let blocks' := if 0 <? psize then iv_blocks d ++ [mk_iblk (j_next_id st) poff psize code] else iv_blocks d in
    Ok (mk_jstate (mk_ival (iv_addr d) (iv_size d) contents' blocks' (iv_symex d) (iv_tabs d)) (j_addr st) (j_last st)
                  (if 0 <? psize then S (j_next_id st) else j_next_id st)).

Definition last_block (bs : list iblk) (default : option iblk) : option iblk :=
  match fold_left (fun acc b => match acc with
                                | Some a => if ib_off a <? ib_off b then Some b else acc      (* max by offset, first wins on ties *)
                                | None => Some b
                                end) bs None with
  | Some b => Some b
  | None => default
  end.

(* alignment: block id -> boundary; the interval itself: by its position in the list (model: none) *)
Definition first_aligned (align : list (nat * Z)) (bs : list iblk) : option iblk :=
  fold_left (fun acc b => match aget (ib_id b) align with
                          | None => acc
                          | Some _ => match acc with Some a => if ib_off b <? ib_off a then Some b else acc | None => Some b end
                          end) bs None.

Definition append_interval (nop : list Z) (align : list (nat * Z)) (st : jstate) (iv : ival) : result jstate :=
  (* fill in uninitialized bytes of the destination *)
  do st <- insert_padding nop st (iv_size (j_dest st) - Z.of_nat (List.length (iv_contents (j_dest st))));
  let '(offset, boundary) := match first_aligned align (iv_blocks iv) with
                             | Some b => (ib_off b, match aget (ib_id b) align with Some a => a | None => 1 end)
                             | None => (0, 1)
                             end in
  let size := align_address (j_addr st + offset) boundary - (j_addr st + offset) in
  do st <- insert_padding nop st size;
  let d := j_dest st in
  let d := mk_ival (iv_addr d) (iv_size d + size) (iv_contents d) (iv_blocks d) (iv_symex d) (iv_tabs d) in
  let delta := Z.of_nat (List.length (iv_contents d)) in
  (* the block object is moved into the destination: its offset is the new one when it is looked at again *)
  let last' := last_block (map (fun b => mk_iblk (ib_id b) (ib_off b + delta) (ib_size b) (ib_code b)) (iv_blocks iv)) (j_last st) in
  let d' := mk_ival (iv_addr d) (iv_size d + iv_size iv) (iv_contents d ++ iv_contents iv)
                    (iv_blocks d ++ map (fun b => mk_iblk (ib_id b) (ib_off b + delta) (ib_size b) (ib_code b)) (iv_blocks iv))
                    (dupdate (iv_symex d) (drekey (fun k => k + delta) (iv_symex iv)))
                    (map (fun tt => dupdate (fst tt) (drekey (fun k => k + delta) (snd tt))) (combine (iv_tabs d) (iv_tabs iv))) in
  Ok (mk_jstate d' (j_addr st + size + iv_size iv) last' (j_next_id st)).

Definition join_byte_intervals (nop : list Z) (align : list (nat * Z)) (next_id : nat) (ivs : list ival) : result ival :=
  match ivs with
  | [] => Err IndexErr
  | [d] => Ok d
  | d :: rest =>
      let st0 := mk_jstate d (iv_addr d + iv_size d) (last_block (iv_blocks d) None) next_id in
      do st <- fold_left (fun acc iv => do st <- acc; append_interval nop align st iv) rest (Ok st0);
      Ok (j_dest st)
  end.

(* ABI.nop() of abi.py, by ISA (harness numbering: 0 x64, 1 ia32, 2 arm64, 3 mips32): what join_byte_intervals pads with behind code
   when it is given no nop encoding *)
Definition abi_nop (isa : nat) : list Z :=
  match isa with
  | 0%nat | 1%nat => [144]
  | 2%nat => [31; 32; 3; 213]
  | _ => [0; 0; 0; 0]
  end.
