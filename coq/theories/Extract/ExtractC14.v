(* Extraction of the C14 model for the correspondence check.  ExtrOcamlBasic only;
   Z / positive / nat stay the extracted Coq datatypes; no Extract Constant. *)
From Coq Require Import Extraction ExtrOcamlBasic ZArith List String.
From GR Require Import Base.Result Dwarf.Leb128 Dwarf.IntCodec Dwarf.Types Gen.DwarfGen Dwarf.Codec Dwarf.ConstOp.
Extraction Language OCaml.
Extraction "c14_model.ml"
  encode_op decode_op construct_op encode_inst decode_inst construct_inst
  parse_cfi_instructions operands make_const_op expr_table cfi_table
  uleb_encode_py sleb_encode uleb_decode sleb_decode to_bytes from_bytes
  Z.add Z.mul Z.of_nat Z.to_nat.
