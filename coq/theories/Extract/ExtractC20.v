(* Extraction of the C20 container models.  ExtrOcamlBasic only; no Extract Constant. *)
From Coq Require Import Extraction ExtrOcamlBasic ZArith List String.
From GR Require Import Base.Result Adt.RefCache Adt.RetCache Adt.BlockOrder Adt.OffsetMap Adt.IdSet.
Extraction Language OCaml.
Extraction "c20_model.ml"
  retarget get_references get_references_abandoned apply set_referent get_referent sym_get mk_rc
  rc_add rc_discard rc_clear rc_update any_return_edges block_return_edges block_proxy_return_edges empty_rcache
  with_return_cache
  adjacent_blocks remove_block add_detached_blocks insert_blocks_after
  getitem_off getitem_elem setitem_off setitem_elem delitem_off delitem_elem contains_off contains_elem
  om_len om_bool om_iter node_keys pop_off setdefault_off inner_setitem inner_delitem
  ids_mem ids_add ids_discard ids_remove ids_len
  Z.add Z.of_nat String.eqb.
