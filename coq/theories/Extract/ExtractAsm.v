(* Extraction of the assembler streamer model. *)
From Coq Require Import Extraction ExtrOcamlBasic ZArith List String.
From GR Require Import Base.Result IR.State Asm.Model.
Extraction Language OCaml.
Extraction "asm_model.ml" assemble run finalize init mk_atarget mk_fixup Z.add Z.of_nat String.eqb.
