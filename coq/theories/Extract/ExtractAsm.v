(* Extraction of the assembler streamer model. *)
From Coq Require Import Extraction ExtrOcamlBasic ZArith List String.
From GR Require Import Base.Result IR.State Asm.Model Asm.TempPrefix Asm.CreateIR Asm.PatchIds.
Extraction Language OCaml.
Extraction "asm_model.ml" assemble run finalize init mk_atarget mk_fixup abi_temporary_label_prefix temporary_label mc_is_temporary symbol_name supported ir_sizes ir_alignment last_used_patch_id patch_suffix Z.add Z.of_nat String.eqb.
