(* Extraction of the symbol-level operations (delete_symbols, retarget_symbol_uses). *)
From Coq Require Import Extraction ExtrOcamlBasic ZArith List String.
From GR Require Import Base.Result Sym.Delete Sym.Retarget Sym.AbiRules Sym.DeleteRequests.
Extraction Language OCaml.
Extraction "sym_model.ml" delete_symbols mk_dstate mk_cfid retarget_symbol_uses mk_rstate mk_xsite mk_xexpr mk_rule mk_sinfo abi_rules requests mk_reqsym delete_requests Z.add Z.of_nat String.eqb.
