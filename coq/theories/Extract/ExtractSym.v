(* Extraction of the symbol-level operations (delete_symbols, retarget_symbol_uses). *)
From Coq Require Import Extraction ExtrOcamlBasic ZArith List String.
From GR Require Import Base.Result Sym.Delete.
Extraction Language OCaml.
Extraction "sym_model.ml" delete_symbols mk_dstate mk_cfid Z.add Z.of_nat String.eqb.
