(* Extraction of the C17 model (CallPatch code generation). *)
From Coq Require Import Extraction ExtrOcamlBasic ZArith List String.
From GR Require Import Base.Result Gen.CallsGen Calls.Model.
Extraction Language OCaml.
Extraction "c17_model.ml" call_x86 call_a64 a64_accepts align_address Z.add Z.of_nat String.eqb.
