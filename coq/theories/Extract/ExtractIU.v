(* Extraction of the intervalutils model. *)
From Coq Require Import Extraction ExtrOcamlBasic ZArith List String.
From GR Require Import Base.Result IR.State IU.Model.
Extraction Language OCaml.
Extraction "iu_model.ml" split_byte_interval join_byte_intervals abi_nop mk_iblk Z.add Z.of_nat String.eqb.
