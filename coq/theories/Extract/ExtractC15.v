(* Extraction of the C15 model (CFI evaluator).  ExtrOcamlBasic only; no Extract Constant. *)
From Coq Require Import Extraction ExtrOcamlBasic ZArith List String.
From GR Require Import Base.Result Dwarf.Types Gen.DwarfGen Dwarf.Codec CfiEval.Model.
Extraction Language OCaml.
Extraction "c15_model.ml" evaluate expr_table cfi_table Z.add Z.of_nat.
