(* Extraction of the C16 model (register allocation + prologue/epilogue builders). *)
From Coq Require Import Extraction ExtrOcamlBasic ZArith List String.
From GR Require Import Base.Result Machine.Stack Abi.Frames Gen.AbiGen.
Extraction Language OCaml.
Extraction "c16_model.ml" allocate frames_x64 frames_ia32 frames_arm64 frames_mips
  abi_x64_elf abi_x64_pe abi_ia32_pe abi_arm64_elf abi_mips32_elf Z.add Z.of_nat String.eqb.
