(* Extraction of the IR modify-layer model. *)
From Coq Require Import Extraction ExtrOcamlBasic ZArith List String.
From GR Require Import Base.Result Adt.RefCache Adt.RetCache IR.State IR.Modify IR.Edit IR.Resolve IR.Scopes IR.CfiTracker.
Extraction Language OCaml.
Extraction "ir_model.ml" apply_all finish mk_st mk_patch mk_blk mk_ival insert delete split_block join_blocks remove_block sort_mods no_overlap plan tracker in_procedure
  Z.add Z.of_nat String.eqb.
