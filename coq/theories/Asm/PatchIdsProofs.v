(* The point of numbering patches from last_used + 1: whatever a temporary label is called, the name it gets in this context is the
   name of no symbol the module already has. *)
From Coq Require Import String Ascii List Arith Lia Decimal DecimalString DecimalNat.
From GR Require Import Asm.PatchIds.
Import ListNotations.
Open Scope string_scope.

Lemma after_last_us_app a ds : forall cur, after_last_us (a ++ String "_" ds) cur = after_last_us ds (Some ds).
Proof.
  induction a as [|c a IH]; intros cur; cbn [append after_last_us].
  - reflexivity.
  - destruct (is_us c); apply IH.
Qed.

Lemma no_us_in_digits d : forall cur, after_last_us (NilEmpty.string_of_uint d) cur = cur.
Proof. induction d; intros cur; cbn [NilEmpty.string_of_uint after_last_us]; try reflexivity; apply IHd. Qed.

Lemma suffix_value_of_fresh label k : suffix_value (label ++ patch_suffix k) = Some k.
Proof.
  unfold suffix_value, patch_suffix. cbn [append]. rewrite after_last_us_app, no_us_in_digits.
  rewrite NilEmpty.usu. rewrite Unsigned.of_to. reflexivity.
Qed.

Lemma fold_max_ge names : forall m, m <= fold_left (fun m n => match suffix_value n with Some v => Nat.max m v | None => m end) names m.
Proof. induction names as [|n t IH]; intros m; cbn [fold_left]; [lia|]. destruct (suffix_value n); [etransitivity; [|apply IH]; lia|apply IH]. Qed.

Lemma last_used_bounds names : forall m n v, In n names -> suffix_value n = Some v ->
  v <= fold_left (fun m n => match suffix_value n with Some v => Nat.max m v | None => m end) names m.
Proof.
  induction names as [|x t IH]; intros m n v Hin Hv; [destruct Hin|]. cbn [fold_left]. destruct Hin as [->|Hin].
  - rewrite Hv. etransitivity; [|apply fold_max_ge]. lia.
  - eapply IH; eauto.
Qed.

Theorem fresh_suffix_names_no_existing_symbol names label k :
  last_used_patch_id names < k -> ~ In (label ++ patch_suffix k) names.
Proof.
  intros Hlt Hin. pose proof (last_used_bounds names 0 _ k Hin (suffix_value_of_fresh label k)) as H.
  unfold last_used_patch_id in Hlt. lia.
Qed.

(* two patches of one context never give one label the same name *)
Theorem suffixes_differ label j k : label ++ patch_suffix j = label ++ patch_suffix k -> j = k.
Proof.
  intros H. pose proof (suffix_value_of_fresh label j) as A. rewrite H, suffix_value_of_fresh in A. congruence.
Qed.

(* a later context over the same module starts above every number an earlier one has used: once a label of patch j is a symbol of
   the module, the last used id is at least j *)
Theorem later_contexts_start_above names label j :
  j <= last_used_patch_id (names ++ [append label (patch_suffix j)])%list.
Proof.
  unfold last_used_patch_id. eapply last_used_bounds; [apply in_or_app; right; left; reflexivity|apply suffix_value_of_fresh].
Qed.

Theorem contexts_do_not_collide names label1 label2 j k :
  let names' := (names ++ [append label1 (patch_suffix j)])%list in
  last_used_patch_id names' < k -> j < k /\ ~ In (label2 ++ patch_suffix k) names'.
Proof.
  intros names' H. split; [pose proof (later_contexts_start_above names label1 j); unfold names' in H; lia|].
  apply fresh_suffix_names_no_existing_symbol. exact H.
Qed.
