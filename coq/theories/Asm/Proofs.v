(* C12 / C13, model side: invariants of the assembler's streamer. *)
From Coq Require Import ZArith List Bool Arith Lia ZifyBool.
From GR Require Import Base.Result IR.State Asm.Model.
Import ListNotations.
Open Scope Z_scope.

(* ---- tiling: the blocks of a section are contiguous, start at 0 and end at the length of its data ---- *)
Fixpoint tiled_from (off : Z) (bs : list ablock) : option Z :=
  match bs with
  | [] => Some off
  | b :: t => if ab_off b =? off then tiled_from (off + ab_size b) t else None
  end.
Definition tiled (x : asect) : Prop := as_blocks x <> [] /\ tiled_from 0 (as_blocks x) = Some (as_len x).
Definition all_tiled (s : astate) : Prop := Forall tiled (a_sects s).

Lemma tiled_from_app : forall a off b,
  tiled_from off (a ++ b) = match tiled_from off a with Some e => tiled_from e b | None => None end.
Proof.
  induction a as [|x a IH]; intros off b; cbn [app tiled_from]; [reflexivity|]. destruct (ab_off x =? off); [apply IH|reflexivity].
Qed.
Lemma app_removelast_last' {A} (l : list A) (d : A) : l <> [] -> l = removelast l ++ [last l d].
Proof. apply app_removelast_last. Qed.
Lemma rev_head_last {A} (l : list A) b t : rev l = b :: t -> l = rev t ++ [b].
Proof. intros H. rewrite <- (rev_involutive l), H. reflexivity. Qed.

(* the last block ends where the data ends *)
Lemma tiled_last x b t : tiled x -> rev (as_blocks x) = b :: t ->
  tiled_from 0 (rev t) = Some (ab_off b) /\ ab_off b + ab_size b = as_len x.
Proof.
  intros (_ & H) Hr. rewrite (rev_head_last _ _ _ Hr), tiled_from_app in H.
  destruct (tiled_from 0 (rev t)) as [e|]; [|discriminate]. cbn [tiled_from] in H.
  destruct (ab_off b =? e) eqn:E; [|discriminate]. inversion H. split; [f_equal; lia|lia].
Qed.

(* state changes that leave the sections alone *)
Definition same_sects (s s' : astate) : Prop := a_sects s' = a_sects s /\ a_cur s' = a_cur s.
Lemma same_refl s : same_sects s s. Proof. split; reflexivity. Qed.
Lemma same_trans a b c : same_sects a b -> same_sects b c -> same_sects a c.
Proof. intros (A1 & A2) (B1 & B2). split; congruence. Qed.
Lemma same_fresh s : same_sects s (snd (fresh s)). Proof. split; reflexivity. Qed.
Lemma same_resolve t s n y s' : resolve_sym t s n = Ok (y, s') -> same_sects s s'.
Proof.
  unfold resolve_sym. destruct (lookup_sym t s n); [intros H; inversion H; apply same_refl|].
  destruct (negb (t_allow_undef t)); [discriminate|]. unfold fresh. cbn. intros H. inversion H. split; reflexivity.
Qed.
Lemma same_to_sx_plain t s e br r y s' : to_sx_plain t s e br = Ok (r, y, s') -> same_sects s s'.
Proof.
  unfold to_sx_plain. intros H.
  destruct e as [n v|c|a b|a b|fam k sub|]; try discriminate.
  - destruct (resolve_sym t s n) as [[y1 s1]|] eqn:E1; cbn [bind] in H; [|discriminate].
    destruct (ref_attrs t v y1 br); cbn [bind] in H; [|discriminate]. inversion H; subst. eapply same_resolve; eauto.
  - destruct a as [n v| | | | |]; try discriminate. destruct b as [|c| | | |]; try discriminate.
    destruct (resolve_sym t s n) as [[y1 s1]|] eqn:E1; cbn [bind] in H; [|discriminate].
    destruct (ref_attrs t v y1 br); cbn [bind] in H; [|discriminate]. inversion H; subst. eapply same_resolve; eauto.
  - destruct a as [n1 v1| | | | |]; try discriminate. destruct b as [n2 v2| | | | |]; try discriminate.
    destruct (resolve_sym t s n1) as [[y1 s1]|] eqn:E1; cbn [bind] in H; [|discriminate].
    destruct (negb (Nat.eqb v1 0)); [discriminate|].
    destruct (resolve_sym t s1 n2) as [[y2 s2]|] eqn:E2; cbn [bind] in H; [|discriminate].
    destruct (negb (Nat.eqb v2 0)); [discriminate|]. inversion H; subst.
    eapply same_trans; eapply same_resolve; eauto.
Qed.
Lemma same_to_sx t s e br r y s' : to_sx t s e br = Ok (r, y, s') -> same_sects s s'.
Proof.
  unfold to_sx. intros H.
  destruct e as [n v|c|a b|a b|fam k sub|]; try (eapply same_to_sx_plain; exact H).
  destruct (target_attrs fam k); [|discriminate].
  destruct (to_sx_plain t s sub br) as [[[r0 y0] s0]|] eqn:E; cbn [bind] in H; [|discriminate].
  inversion H; subst. eapply same_to_sx_plain; exact E.
Qed.

(* replacing a section by a tiled one keeps all sections tiled *)
Lemma put_sect_tiled s x : all_tiled s -> tiled x -> all_tiled (put_sect s x).
Proof.
  unfold all_tiled, put_sect. cbn. intros H Hx. induction H as [|y l Hy Hl IH]; cbn [map]; constructor; auto.
  destruct (Nat.eqb (as_name y) (as_name x)); auto.
Qed.
Lemma find_sect_tiled s n x : all_tiled s -> find_sect s n = Some x -> tiled x.
Proof. unfold all_tiled, find_sect. intros H E. apply find_some in E. destruct E as (E & _). rewrite Forall_forall in H. apply H, E. Qed.
Lemma cur_sect_tiled s x : all_tiled s -> cur_sect s = Ok x -> tiled x.
Proof.
  unfold cur_sect. intros H E. destruct (a_cur s); [|discriminate]. destruct (find_sect s n) eqn:F; [|discriminate]. inversion E; subst. eapply find_sect_tiled; eauto.
Qed.
Lemma all_tiled_same s s' : same_sects s s' -> all_tiled s -> all_tiled s'.
Proof. intros (A & _) H. unfold all_tiled. rewrite A. exact H. Qed.
Lemma cur_sect_same s s' : same_sects s s' -> cur_sect s' = cur_sect s.
Proof. intros (A & B). unfold cur_sect, find_sect. rewrite A, B. reflexivity. Qed.

Lemma cur_block_rev x b : cur_block x = Ok b -> exists t, rev (as_blocks x) = b :: t.
Proof. unfold cur_block. destruct (rev (as_blocks x)) as [|b' t]; [discriminate|]. intros H; inversion H; subst. eauto. Qed.
Lemma removelast_rev {A} (l : list A) b t : rev l = b :: t -> removelast l = rev t.
Proof. intros H. rewrite (rev_head_last _ _ _ H). apply removelast_last. Qed.

(* _append_data keeps the tiling *)
Lemma append_data_tiled s n s' : all_tiled s -> append_data s n = Ok s' -> all_tiled s' /\ a_cur s' = a_cur s.
Proof.
  unfold append_data. intros H E.
  destruct (cur_sect s) as [x|] eqn:Ex; cbn [bind] in E; [|discriminate].
  destruct (cur_block x) as [b|] eqn:Eb; cbn [bind] in E; [|discriminate]. inversion E; subst s'; clear E.
  pose proof (cur_sect_tiled _ _ H Ex) as Tx. destruct (cur_block_rev _ _ Eb) as (t & Hr).
  destruct (tiled_last _ _ _ Tx Hr) as (T1 & T2).
  split; [|reflexivity]. apply put_sect_tiled; [exact H|].
  unfold tiled. cbn [as_blocks as_len]. unfold set_last. rewrite (removelast_rev _ _ _ Hr).
  split; [destruct (rev t); discriminate|]. rewrite tiled_from_app, T1. cbn [tiled_from ab_off ab_size]. rewrite Z.eqb_refl. f_equal. lia.
Qed.

(* appending an empty block at the end keeps the tiling *)
Lemma append_block_tiled x nb b t : tiled x -> rev (as_blocks x) = b :: t ->
  tiled (mk_asect (as_name x) (as_exec x) (as_len x) (as_blocks x ++ [mk_ablock nb (ab_off b + ab_size b) 0 false]) (as_symex x) (as_sizes x) (as_align x)).
Proof.
  intros Tx Hr. destruct (tiled_last _ _ _ Tx Hr) as (T1 & T2). destruct Tx as (_ & Tf).
  unfold tiled. cbn [as_blocks as_len]. split; [destruct (as_blocks x); discriminate|].
  rewrite tiled_from_app, Tf. cbn [tiled_from ab_off ab_size]. replace (ab_off b + ab_size b =? as_len x) with true by lia. f_equal. lia.
Qed.

Lemma split_block_tiled s ft s' : all_tiled s -> split_block s ft = Ok s' -> all_tiled s' /\ a_cur s' = a_cur s.
Proof.
  unfold split_block. intros H E.
  destruct (cur_sect s) as [x|] eqn:Ex; cbn [bind] in E; [|discriminate].
  destruct (cur_block x) as [b|] eqn:Eb; cbn [bind] in E; [|discriminate].
  unfold fresh in E. cbn [fst snd] in E.
  match type of E with bind (cur_sect ?S) _ = _ => assert (Hs : same_sects s S) by (destruct ft; split; reflexivity) end.
  match type of E with bind (cur_sect ?S) _ = _ => set (s1 := S) in * end.
  rewrite (cur_sect_same _ _ Hs), Ex in E. cbn [bind] in E. inversion E; subst s'; clear E.
  destruct (cur_block_rev _ _ Eb) as (t & Hr). split.
  - apply put_sect_tiled; [eapply all_tiled_same; eauto|]. apply append_block_tiled with (t := t); [eapply cur_sect_tiled; eauto|exact Hr].
  - destruct Hs as (_ & Hc). cbn. exact Hc.
Qed.

Lemma add_symex_tiled s pos e sz s' : all_tiled s -> add_symex s pos e sz = Ok s' -> all_tiled s' /\ a_cur s' = a_cur s.
Proof.
  unfold add_symex. intros H E. destruct (cur_sect s) as [x|] eqn:Ex; cbn [bind] in E; [|discriminate]. inversion E; subst; clear E.
  split; [|reflexivity]. apply put_sect_tiled; [exact H|]. pose proof (cur_sect_tiled _ _ H Ex) as Tx. exact Tx.
Qed.

(* every event keeps every section tiled *)
Theorem step_tiled t sfx s e s' : all_tiled s -> step t sfx s e = Ok s' -> all_tiled s'.
Proof.
  intros H E. destruct e; cbn [step] in E.
  - inversion E; subst; exact H.
  - destruct (_ || _); [discriminate|]. unfold fresh in E. cbn in E. inversion E; subst. exact H.
  - destruct (find_sect s name) eqn:F; inversion E; subst; clear E; [exact H|].
    unfold all_tiled, fresh. cbn. apply Forall_app. split; [exact H|]. constructor; [|constructor]. split; [discriminate|reflexivity].
  - destruct (cur_sect s) as [x|] eqn:Ex; cbn [bind] in E; [|discriminate].
    destruct (cur_block x) as [b|] eqn:Eb; cbn [bind] in E; [|discriminate].
    destruct (find _ (a_syms s)) as [[k y]|]; [|discriminate]. destruct (sy_ref y) as [lb| | |]; try discriminate. inversion E; subst; clear E.
    destruct (cur_block_rev _ _ Eb) as (tl & Hr).
    apply put_sect_tiled; [exact H|]. apply append_block_tiled with (t := tl); [eapply cur_sect_tiled; eauto|exact Hr].
  - (* an instruction *)
    destruct (cur_sect s) as [x0|] eqn:Ex0; cbn [bind] in E; [|discriminate].
    match type of E with bind ?F _ = _ => destruct F as [s1|] eqn:Ef; cbn [bind] in E; [|discriminate] end.
    assert (H1 : all_tiled s1).
    { clear E. revert s1 Ef. generalize (as_len x0). intros base.
      assert (G : forall l acc s1, (forall a, acc = Ok a -> all_tiled a) ->
                  fold_left (fun acc f => do s0 <- acc; do '(e, ig, s2) <- to_sx t s0 (fixup_expr f len) ((call || branch) && negb indirect); add_symex s2 (base + fx_off f) e (fx_size f)) l acc = Ok s1 ->
                  all_tiled s1).
      { induction l as [|f l IH]; intros acc s1 Ha Hf; cbn [fold_left] in Hf; [apply Ha, Hf|].
        eapply IH; [|exact Hf]. intros a Ea.
        destruct acc as [a0|]; cbn [bind] in Ea; [|discriminate].
        destruct (to_sx t a0 (fixup_expr f len) ((call || branch) && negb indirect)) as [[[e0 y0] s2]|] eqn:Et; cbn [bind] in Ea; [|discriminate].
        pose proof (same_to_sx _ _ _ _ _ _ _ Et) as Hs. apply (add_symex_tiled _ _ _ _ _ (all_tiled_same _ _ Hs (Ha a0 eq_refl)) Ea). }
      intros s1 Ef. apply (G fx (Ok s) s1); [intros a Ea; inversion Ea; subst; exact H|exact Ef]. }
    destruct (append_data s1 len) as [s2|] eqn:Ea; cbn [bind] in E; [|discriminate].
    destruct (append_data_tiled _ _ _ H1 Ea) as (H2 & _).
    destruct (cur_sect s2) as [x|] eqn:Ex; cbn [bind] in E; [|discriminate].
    destruct (cur_block x) as [b|] eqn:Eb; cbn [bind] in E; [|discriminate].
    match type of E with context [if ret then _ else _] => idtac end.
    set (s3 := mk_astate (a_sects s2) (a_cur s2) (a_syms s2) (a_cfg s2) _ (a_types s2) (a_proxies s2) (a_next s2)) in E.
    assert (H3 : all_tiled s3) by exact H2.
    destruct ret.
    + unfold fresh in E. cbn [fst snd] in E. eapply split_block_tiled; [|exact E]. exact H3.
    + destruct (call || branch); [|inversion E; subst; exact H3].
      match type of E with bind ?F _ = _ => destruct F as [[[d tg] s4]|] eqn:Er; cbn [bind] in E; [|discriminate] end.
      assert (H4 : all_tiled s4).
      { destruct indirect.
        - unfold fresh in Er. cbn in Er. inversion Er; subst. exact H3.
        - destruct fx as [|f [|f2 fr]]; try discriminate.
          destruct (to_sx t s3 (fixup_expr f len) true) as [[[e0 y0] s5]|] eqn:Et; cbn [bind] in Er; [|discriminate].
          pose proof (same_to_sx _ _ _ _ _ _ _ Et) as Hs.
          destruct e0; [|discriminate]. destruct (negb (addend =? 0)); [discriminate|]. destruct (negb (is_cfgnode (sy_ref y0))); [discriminate|].
          inversion Er; subst. eapply all_tiled_same; eauto. }
      eapply split_block_tiled; [|exact E]. exact H4.
  - eapply append_data_tiled; eauto.
  - (* a string piece *)
    destruct (cur_sect s) as [x|] eqn:Ex; cbn [bind] in E; [|discriminate].
    destruct (cur_block x) as [b|] eqn:Eb; cbn [bind] in E; [|discriminate].
    match type of E with (if ?c then _ else _) = _ => destruct c eqn:Ec end.
    + destruct (rev (as_blocks x)) as [|cb [|pb rest]] eqn:Hr; try discriminate. inversion E; subst; clear E.
      apply put_sect_tiled; [exact H|]. pose proof (cur_sect_tiled _ _ H Ex) as Tx.
      assert (Hb : as_blocks x = rev rest ++ [pb; cb]).
      { rewrite <- (rev_involutive (as_blocks x)), Hr. cbn [rev]. rewrite <- app_assoc. reflexivity. }
      destruct Tx as (_ & Tf). rewrite Hb, tiled_from_app in Tf.
      unfold tiled. cbn [as_blocks as_len]. split; [destruct (rev rest); discriminate|].
      rewrite tiled_from_app. destruct (tiled_from 0 (rev rest)) as [e0|]; [|discriminate].
      cbn [tiled_from ab_off ab_size] in *. destruct (ab_off pb =? e0) eqn:E1; [|discriminate].
      destruct (ab_off cb =? e0 + ab_size pb) eqn:E2; [|discriminate]. inversion Tf.
      replace (ab_off cb + 1 =? e0 + (ab_size pb + 1)) with true by lia. f_equal. lia.
    + destruct (split_block s false) as [s1|] eqn:E1; cbn [bind] in E; [|discriminate].
      destruct (split_block_tiled _ _ _ H E1) as (H1 & _).
      destruct (append_data s1 len) as [s2|] eqn:E2; cbn [bind] in E; [|discriminate].
      destruct (append_data_tiled _ _ _ H1 E2) as (H2 & _).
      destruct (cur_sect s2) as [x2|]; cbn [bind] in E; [|discriminate]. destruct (cur_block x2) as [b2|]; cbn [bind] in E; [|discriminate].
      eapply split_block_tiled; [|exact E]. exact H2.
  - destruct (cur_sect s) as [x|] eqn:Ex; cbn [bind] in E; [|discriminate].
    destruct (to_sx t s e false) as [[[e0 y0] s1]|] eqn:Et; cbn [bind] in E; [|discriminate].
    pose proof (all_tiled_same _ _ (same_to_sx _ _ _ _ _ _ _ Et) H) as H1.
    destruct (add_symex s1 (as_len x) e0 size) as [s2|] eqn:Ea; cbn [bind] in E; [|discriminate].
    destruct (add_symex_tiled _ _ _ _ _ H1 Ea) as (H2 & _). eapply append_data_tiled; eauto.
  - destruct (split_block s false) as [s1|] eqn:E1; cbn [bind] in E; [|discriminate].
    destruct (split_block_tiled _ _ _ H E1) as (H1 & _).
    destruct (cur_sect s1) as [x|] eqn:Ex; cbn [bind] in E; [|discriminate].
    destruct (to_sx t s1 e false) as [[[e0 y0] s2]|] eqn:Et; cbn [bind] in E; [|discriminate].
    pose proof (all_tiled_same _ _ (same_to_sx _ _ _ _ _ _ _ Et) H1) as H2.
    destruct (add_symex s2 (as_len x) e0 1) as [s3|] eqn:Ea; cbn [bind] in E; [|discriminate].
    destruct (add_symex_tiled _ _ _ _ _ H2 Ea) as (H3 & _).
    destruct (append_data s3 1) as [s4|] eqn:E4; cbn [bind] in E; [|discriminate].
    destruct (append_data_tiled _ _ _ H3 E4) as (H4 & _).
    destruct (cur_sect s4) as [x4|]; cbn [bind] in E; [|discriminate]. destruct (cur_block x4) as [b4|]; cbn [bind] in E; [|discriminate].
    eapply split_block_tiled; [|exact E]. exact H4.
  - eapply append_data_tiled; eauto.
  - destruct (cur_sect s) as [x|] eqn:Ex; cbn [bind] in E; [|discriminate].
    destruct (cur_block x) as [b|] eqn:Eb; cbn [bind] in E; [|discriminate].
    match type of E with bind ?F _ = _ => destruct F as [s1|] eqn:E1; cbn [bind] in E; [|discriminate] end.
    assert (H1 : all_tiled s1) by (destruct (negb (ab_size b =? 0)); [eapply split_block_tiled; eauto|inversion E1; subst; exact H]).
    destruct (cur_sect s1) as [x1|] eqn:Ex1; cbn [bind] in E; [|discriminate]. destruct (cur_block x1) as [b1|]; cbn [bind] in E; [|discriminate].
    inversion E; subst. apply put_sect_tiled; [exact H1|]. exact (cur_sect_tiled _ _ H1 Ex1).
Qed.

Theorem run_tiled t : forall evs s s', all_tiled s -> run t evs s = Ok s' -> all_tiled s'.
Proof.
  unfold run. intros evs. 
  assert (G : forall l acc s', (forall a, acc = Ok a -> all_tiled a) -> fold_left (fun acc e => do s <- acc; step t false s e) l acc = Ok s' -> all_tiled s').
  { induction l as [|e l IH]; intros acc s' Ha Hf; cbn [fold_left] in Hf; [apply Ha, Hf|].
    eapply IH; [|exact Hf]. intros a Ea. destruct acc as [a0|]; cbn [bind] in Ea; [|discriminate]. eapply step_tiled; [apply Ha; reflexivity|exact Ea]. }
  intros s s' H E. apply (G evs (Ok s) s'); [intros a Ea; inversion Ea; subst; exact H|exact E].
Qed.
Theorem init_tiled : all_tiled init. Proof. constructor. Qed.

(* ---- finalize: the blocks that survive tile the data, and only the last one may be empty ---- *)
Fixpoint keep_mains (bs : list ablock) : list ablock :=
  match bs with
  | [] => []
  | b :: t => match t with
              | c :: _ => if ab_off c =? ab_off b then keep_mains t else b :: keep_mains t
              | [] => [b]
              end
  end.

Lemma remove_empty_go_blocks : forall bs s al extras, snd (remove_empty_go s al bs extras) = keep_mains bs.
Proof.
  induction bs as [|b t IH]; intros s al extras; cbn [remove_empty_go keep_mains]; [reflexivity|].
  destruct t as [|c t'].
  - cbn [remove_empty_go]. reflexivity.
  - destruct (ab_off c =? ab_off b); [apply IH|].
    match goal with |- context [remove_empty_go ?S ?A (c :: t') []] => pose proof (IH S A []) as H; destruct (remove_empty_go S A (c :: t') []) as [[s1 al1] out] end.
    cbn [snd] in *. rewrite H. reflexivity.
Qed.

Lemma keep_mains_tiled : forall bs off e, tiled_from off bs = Some e -> tiled_from off (keep_mains bs) = Some e.
Proof.
  induction bs as [|b t IH]; intros off e H; cbn [keep_mains]; [exact H|].
  cbn [tiled_from] in H. destruct (ab_off b =? off) eqn:Eb; [|discriminate].
  destruct t as [|c t']; [cbn [tiled_from]; rewrite Eb; exact H|].
  destruct (ab_off c =? ab_off b) eqn:Ec.
  - (* b is an empty extra: tiling forces its size to be 0 *)
    apply IH. cbn [tiled_from] in H. destruct (ab_off c =? off + ab_size b) eqn:E2; [|discriminate].
    cbn [tiled_from]. replace (ab_off c =? off) with true by lia. replace (off + ab_size b) with off in H by lia. exact H.
  - cbn [tiled_from]. rewrite Eb. apply IH. exact H.
Qed.

Definition only_last_empty (bs : list ablock) : Prop :=
  forall pre b post, bs = pre ++ b :: post -> post <> [] -> ab_size b <> 0.
(* the offset of the first surviving block is the offset of the first block *)
Lemma keep_mains_hd_off : forall bs off e d, tiled_from off bs = Some e -> bs <> [] -> ab_off (hd d (keep_mains bs)) = off /\ keep_mains bs <> [].
Proof.
  induction bs as [|b t IH]; intros off e d H Hne; [contradiction|].
  cbn [tiled_from] in H. destruct (ab_off b =? off) eqn:Eb; [|discriminate].
  cbn [keep_mains]. destruct t as [|c t']; [cbn; split; [lia|discriminate]|].
  destruct (ab_off c =? ab_off b) eqn:Ec.
  - cbn [tiled_from] in H. destruct (ab_off c =? off + ab_size b) eqn:E2; [|discriminate].
    apply (IH off e d); [|discriminate]. cbn [tiled_from]. replace (ab_off c =? off) with true by lia. replace (off + ab_size b) with off in H by lia. exact H.
  - cbn [hd]. split; [lia|discriminate].
Qed.

Lemma keep_mains_only_last_empty : forall bs off e, tiled_from off bs = Some e -> only_last_empty (keep_mains bs).
Proof.
  induction bs as [|b t IH]; intros off e H pre x post Heq Hpost; [destruct pre; discriminate|].
  cbn [tiled_from] in H. destruct (ab_off b =? off) eqn:Eb; [|discriminate].
  cbn [keep_mains] in Heq. destruct t as [|c t'].
  - destruct pre as [|p pre]; [inversion Heq; subst; contradiction|inversion Heq; destruct pre; discriminate].
  - destruct (ab_off c =? ab_off b) eqn:Ec.
    + eapply (IH (off + ab_size b) e H); eauto.
    + destruct pre as [|p pre].
      * inversion Heq; subst x post. cbn [tiled_from] in H. destruct (ab_off c =? off + ab_size b) eqn:E2; [|discriminate]. lia.
      * inversion Heq; subst p. eapply (IH (off + ab_size b) e H); eauto.
Qed.

Theorem remove_empty_blocks_spec s x :
  tiled x ->
  let x' := snd (remove_empty_blocks s x) in
  as_blocks x' = keep_mains (as_blocks x) /\ as_len x' = as_len x /\ tiled x' /\ only_last_empty (as_blocks x').
Proof.
  intros (Hne & Ht). unfold remove_empty_blocks.
  pose proof (remove_empty_go_blocks (as_blocks x) s (as_align x) []) as Hb.
  destruct (remove_empty_go s (as_align x) (as_blocks x) []) as [[s1 al1] out]. cbn [snd] in *. subst out.
  split; [reflexivity|]. split; [reflexivity|]. split.
  - split; [|cbn; apply keep_mains_tiled; exact Ht].
    cbn. destruct (as_blocks x) as [|b t] eqn:E; [contradiction|]. apply (keep_mains_hd_off (b :: t) 0 (as_len x) b Ht). discriminate.
  - cbn. eapply keep_mains_only_last_empty; eauto.
Qed.

(* ---- C13: which symbol a name binds to ---- *)
Theorem lookup_prefers_local_then_module t s name :
  lookup_sym t s name =
    match find (fun kv => Nat.eqb (fst kv) name) (a_syms s) with
    | Some kv => Some (snd kv)
    | None => match find (fun kv => Nat.eqb (fst kv) name) (t_module t) with
              | Some kv => Some (mk_asym (1000 + name) (snd kv) false)
              | None => None
              end
    end.
Proof. reflexivity. Qed.

Theorem defining_an_existing_name_is_an_error t sfx s name temp :
  (exists y, lookup_sym t s name = Some y) -> step t sfx s (EPre name temp) = Err MultiDefErr.
Proof.
  intros (y & H). unfold lookup_sym in H. cbn [step].
  destruct (find _ (a_syms s)); [reflexivity|]. destruct (find _ (t_module t)); [rewrite orb_true_r; reflexivity|discriminate].
Qed.

Theorem unknown_name_without_permission t s name :
  lookup_sym t s name = None -> t_allow_undef t = false -> resolve_sym t s name = Err UndefErr.
Proof. intros H Ha. unfold resolve_sym. rewrite H, Ha. reflexivity. Qed.

(* with permission: one fresh proxy-backed symbol, and the name is bound to it from then on *)
Theorem unknown_name_with_permission t s name :
  lookup_sym t s name = None -> t_allow_undef t = true ->
  exists y s', resolve_sym t s name = Ok (y, s') /\
    (exists p, sy_ref y = RProxy p /\ In p (a_proxies s') /\ ~ In p (a_proxies s) \/ In p (a_proxies s')) /\
    lookup_sym t s' name = Some y /\ resolve_sym t s' name = Ok (y, s') /\
    length (a_syms s') = S (length (a_syms s)).
Proof.
  intros H Ha. unfold resolve_sym. rewrite H, Ha. cbn [negb]. unfold fresh. cbn [fst snd].
  eexists; eexists. split; [reflexivity|].
  assert (Hl : find (fun kv : nat * asym => Nat.eqb (fst kv) name) (a_syms s) = None).
  { unfold lookup_sym in H. destruct (find _ (a_syms s)); [discriminate|reflexivity]. }
  assert (Hf : forall y, find (fun kv : nat * asym => Nat.eqb (fst kv) name) (a_syms s ++ [(name, y)]) = Some (name, y)).
  { intros y. induction (a_syms s) as [|kv l IH]; cbn [app find fst]; [rewrite Nat.eqb_refl; reflexivity|].
    cbn [find] in Hl. destruct (Nat.eqb (fst kv) name); [discriminate|]. apply IH, Hl. }
  split; [eexists; right; cbn; apply in_or_app; right; left; reflexivity|].
  split; [unfold lookup_sym; cbn [a_syms]; rewrite Hf; reflexivity|].
  split; [unfold lookup_sym; cbn [a_syms]; rewrite Hf; reflexivity|].
  cbn [a_syms]. rewrite app_length. cbn. lia.
Qed.

(* the streamer carries all of its state from one assemble() call to the next: a chunk boundary is not an event of its own *)
Theorem chunk_boundary_is_invisible t sfx s : step t sfx s EChunk = Ok s.
Proof. reflexivity. Qed.
Theorem run_app t evs1 evs2 s : run t (evs1 ++ evs2) s = (do s1 <- run t evs1 s; run t evs2 s1).
Proof.
  unfold run. rewrite fold_left_app.
  destruct (fold_left (fun acc e => do s0 <- acc; step t false s0 e) evs1 (Ok s)) as [s1|er]; cbn [bind]; [reflexivity|].
  induction evs2 as [|e l IH]; cbn [fold_left bind]; [reflexivity|exact IH].
Qed.

(* ---- a control transfer ends its block ---- *)
Lemma find_sect_put s x n : find_sect s n = Some x -> forall x', as_name x' = as_name x -> as_name x = n ->
  find_sect (put_sect s x') n = Some x'.
Proof.
  unfold find_sect, put_sect. cbn [a_sects]. intros H x' Hn Hx. induction (a_sects s) as [|y l IH]; cbn [find map] in *; [discriminate|].
  destruct (Nat.eqb (as_name y) n) eqn:E.
  - inversion H; subst y. rewrite Hn, Nat.eqb_refl. rewrite Hn, Hx. rewrite Hx in E. rewrite E. reflexivity.
  - destruct (Nat.eqb (as_name y) (as_name x')) eqn:E2.
    + apply Nat.eqb_eq in E2. rewrite Hn, Hx in E2. rewrite E2, Nat.eqb_refl in E. discriminate.
    + rewrite E. apply IH, H.
Qed.
Lemma cur_sect_name s x : cur_sect s = Ok x -> exists n, a_cur s = Some n /\ find_sect s n = Some x /\ as_name x = n.
Proof.
  unfold cur_sect. destruct (a_cur s) as [n|]; [|discriminate]. destruct (find_sect s n) as [y|] eqn:F; [|discriminate].
  intros H; inversion H; subst. exists n. split; [reflexivity|split; [exact F|]]. unfold find_sect in F. apply find_some in F. destruct F as (_ & F). apply Nat.eqb_eq in F. exact F.
Qed.

Lemma split_block_starts_a_fresh_block s ft s' :
  all_tiled s -> split_block s ft = Ok s' ->
  exists x' b', cur_sect s' = Ok x' /\ cur_block x' = Ok b' /\ ab_size b' = 0 /\ ab_off b' = as_len x' /\ ab_id b' = a_next s.
Proof.
  unfold split_block. intros H E.
  destruct (cur_sect s) as [x|] eqn:Ex; cbn [bind] in E; [|discriminate].
  destruct (cur_block x) as [b|] eqn:Eb; cbn [bind] in E; [|discriminate].
  unfold fresh in E. cbn [fst snd] in E.
  match type of E with bind (cur_sect ?S) _ = _ => assert (Hs : same_sects s S) by (destruct ft; split; reflexivity); set (s1 := S) in * end.
  rewrite (cur_sect_same _ _ Hs), Ex in E. cbn [bind] in E. inversion E; subst s'; clear E.
  destruct (cur_sect_name _ _ Ex) as (n & Hc & Hf & Hn).
  destruct (cur_block_rev _ _ Eb) as (tl & Hr). destruct (tiled_last _ _ _ (cur_sect_tiled _ _ H Ex) Hr) as (_ & Hend).
  eexists; eexists. split.
  - unfold cur_sect. cbn [a_cur put_sect]. destruct Hs as (Hs1 & Hs2). rewrite Hs2, Hc.
    rewrite (find_sect_put s1 x n); [reflexivity| |reflexivity|exact Hn]. unfold find_sect. rewrite Hs1. exact Hf.
  - split; [unfold cur_block; cbn [as_blocks]; rewrite rev_app_distr; reflexivity|]. cbn. repeat split; auto; lia.
Qed.

Theorem a_control_transfer_ends_its_block t sfx s len ret call branch cond indirect fx s' :
  all_tiled s -> step t sfx s (EInsn len ret call branch cond indirect fx) = Ok s' -> ret || call || branch = true ->
  exists x' b', cur_sect s' = Ok x' /\ cur_block x' = Ok b' /\ ab_size b' = 0 /\ ab_off b' = as_len x'.
Proof.
  intros H E Hk. cbn [step] in E.
  destruct (cur_sect s) as [x0|] eqn:Ex0; cbn [bind] in E; [|discriminate].
  match type of E with bind ?F _ = _ => destruct F as [s1|] eqn:Ef; cbn [bind] in E; [|discriminate] end.
  assert (H1 : all_tiled s1).
  { pose proof (step_tiled t sfx s (EInsn len false false false false false fx)) as G. clear G.
    clear E. revert s1 Ef. generalize (as_len x0). intros base.
    assert (G : forall l acc s1, (forall a, acc = Ok a -> all_tiled a) ->
                fold_left (fun acc f => do s0 <- acc; do '(e, ig, s2) <- to_sx t s0 (fixup_expr f len) ((call || branch) && negb indirect); add_symex s2 (base + fx_off f) e (fx_size f)) l acc = Ok s1 ->
                all_tiled s1).
    { induction l as [|f l IH]; intros acc s1 Ha Hf; cbn [fold_left] in Hf; [apply Ha, Hf|].
      eapply IH; [|exact Hf]. intros a Ea.
      destruct acc as [a0|]; cbn [bind] in Ea; [|discriminate].
      destruct (to_sx t a0 (fixup_expr f len) ((call || branch) && negb indirect)) as [[[e0 y0] s2]|] eqn:Et; cbn [bind] in Ea; [|discriminate].
      pose proof (same_to_sx _ _ _ _ _ _ _ Et) as Hs. apply (add_symex_tiled _ _ _ _ _ (all_tiled_same _ _ Hs (Ha a0 eq_refl)) Ea). }
    intros s1 Ef. apply (G fx (Ok s) s1); [intros a Ea; inversion Ea; subst; exact H|exact Ef]. }
  destruct (append_data s1 len) as [s2|] eqn:Ea; cbn [bind] in E; [|discriminate].
  destruct (append_data_tiled _ _ _ H1 Ea) as (H2 & _).
  destruct (cur_sect s2) as [x|] eqn:Ex; cbn [bind] in E; [|discriminate].
  destruct (cur_block x) as [b|] eqn:Eb; cbn [bind] in E; [|discriminate].
  set (s3 := mk_astate (a_sects s2) (a_cur s2) (a_syms s2) (a_cfg s2) _ (a_types s2) (a_proxies s2) (a_next s2)) in E.
  assert (H3 : all_tiled s3) by exact H2.
  destruct ret.
  - unfold fresh in E. cbn [fst snd] in E.
    match type of E with split_block ?S _ = _ => destruct (split_block_starts_a_fresh_block S false s' H3 E) as (x' & b' & A & B & C & D & _) end.
    exists x', b'. auto.
  - cbn [orb] in Hk. rewrite Hk in E.
    match type of E with bind ?F _ = _ => destruct F as [[[d tg] s4]|] eqn:Er; cbn [bind] in E; [|discriminate] end.
    assert (H4 : all_tiled s4).
    { destruct indirect.
      - unfold fresh in Er. cbn in Er. inversion Er; subst. exact H3.
      - destruct fx as [|f [|f2 fr]]; try discriminate.
        destruct (to_sx t s3 (fixup_expr f len) true) as [[[e0 y0] s5]|] eqn:Et; cbn [bind] in Er; [|discriminate].
        pose proof (same_to_sx _ _ _ _ _ _ _ Et) as Hs.
        destruct e0; [|discriminate]. destruct (negb (addend =? 0)); [discriminate|]. destruct (negb (is_cfgnode (sy_ref y0))); [discriminate|].
        inversion Er; subst. eapply all_tiled_same; eauto. }
    match type of E with split_block ?S _ = _ => destruct (split_block_starts_a_fresh_block S _ s' H4 E) as (x' & b' & A & B & C & D & _) end.
    exists x', b'. auto.
Qed.

(* ===== target-specific expression wrappers (AArch64 :got: / :lo12: / :got_lo12:, MIPS %got / %hi / %lo / %pcrel / %call16) ===== *)
Lemma to_sx_wrapper : forall t s fam k sub br r y s',
  to_sx t s (MTarget fam k sub) br = Ok (r, y, s') ->
  exists extra r0, target_attrs fam k = Some extra /\ to_sx_plain t s sub br = Ok (r0, y, s') /\ r = add_attrs extra r0.
Proof.
  intros t s fam k sub br r y s' H. cbn [to_sx] in H. destruct (target_attrs fam k) as [extra|]; [|discriminate H].
  destruct (to_sx_plain t s sub br) as [[[r0 y0] s0]|] eqn:E; cbn [bind] in H; [|discriminate H].
  injection H as <- <- <-. exists extra, r0. tauto.
Qed.

Lemma to_sx_unknown_wrapper : forall t s fam k sub br, target_attrs fam k = None -> to_sx t s (MTarget fam k sub) br = Err UnsupportedErr.
Proof. intros t s fam k sub br H. cbn [to_sx]. rewrite H. reflexivity. Qed.

Lemma nmem_In' : forall x l, nmem x l = true -> In x l.
Proof.
  intros x l H. unfold nmem in H. apply existsb_exists in H as (y & Hy & E). apply Nat.eqb_eq in E. subst. exact Hy.
Qed.

(* the wrapper only adds attributes: symbol and addend are those of the wrapped expression, every attribute of either side is there,
   and no attribute comes from anywhere else *)
Lemma add_attrs_spec : forall extra e,
  match e, add_attrs extra e with
  | SConst c y at_, SConst c' y' at' => c' = c /\ y' = y /\ (forall a, In a at' <-> In a extra \/ In a at_)
  | SAddr a b, SAddr a' b' => a' = a /\ b' = b
  | _, _ => False
  end.
Proof.
  intros extra [c y at_|a b]; cbn [add_attrs]; [|tauto]. split; [reflexivity|]. split; [reflexivity|].
  intros a. rewrite in_app_iff, filter_In. split.
  - intros [H|[H _]]; tauto.
  - intros [H|H]; [left; exact H|]. destruct (nmem a extra) eqn:E.
    + left. apply nmem_In'. exact E.
    + right. split; [exact H|cbn beta; try rewrite E; reflexivity].
Qed.

(* the PLT attribute is inferred (no @variant written) only for the operand of a direct transfer to a symbol without definition in a
   position-independent x86 ELF module *)
Lemma inferred_plt : forall t y b l, ref_attrs t 0 y b = Ok l ->
  (l = [PLT] /\ b = true /\ t_pie t = true /\ exists p, sy_ref y = RProxy p) \/ l = [].
Proof.
  intros t y b l H. unfold ref_attrs in H. cbn [Nat.eqb negb] in H.
  destruct (t_pie t); cbn [andb] in H; [|injection H as <-; right; reflexivity].
  destruct (sy_ref y) as [blk|p| |] eqn:Er; cbn [andb] in H; try (injection H as <-; right; reflexivity).
  destruct b; injection H as <-; [left; repeat split; exists p; reflexivity|right; reflexivity].
Qed.
