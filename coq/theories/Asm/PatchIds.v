(* Hand model of RewritingContext._last_used_patch_id and of the suffix a patch's temporary labels receive (rewriting.py): the context
   numbers its patches from last_used + 1 and appends "_<number>" to the temporary labels of a patch.  ASCII names only (Python's
   str.isdecimal / int also accept other Unicode decimal digits).  No proofs here. *)
From Coq Require Import String Ascii List Arith Decimal DecimalString.
Import ListNotations.
Open Scope string_scope.

Definition is_us (c : ascii) : bool := Ascii.eqb c "_".

(* name.rpartition("_"): the text behind the last "_", None when there is no "_" *)
Fixpoint after_last_us (s : string) (cur : option string) : option string :=
  match s with
  | EmptyString => cur
  | String c t => if is_us c then after_last_us t (Some t) else after_last_us t cur
  end.

(* suffix.isdecimal() and int(suffix); the empty suffix counts as 0, which changes nothing below *)
Definition suffix_value (name : string) : option nat :=
  match after_last_us name None with
  | Some suf => match NilEmpty.uint_of_string suf with Some d => Some (Nat.of_uint d) | None => None end
  | None => None
  end.

Definition last_used_patch_id (names : list string) : nat :=
  fold_left (fun m n => match suffix_value n with Some v => Nat.max m v | None => m end) names 0.

(* f"_{patch_id}" *)
Definition patch_suffix (k : nat) : string := "_" ++ NilEmpty.string_of_uint (Nat.to_uint k).
