(* C12, model side: the edges an instruction adds are the ones its kind demands, and nothing else touches the CFG. *)
From Coq Require Import ZArith List Bool Arith Lia ZifyBool.
From GR Require Import Base.Result IR.State Asm.Model Asm.Proofs.
Import ListNotations.
Open Scope Z_scope.

(* s' has the CFG of s, the identifier of its current block, its proxies, and has handed out no identifier twice *)
Definition cur_id (s : astate) : option nat :=
  match cur_sect s with Ok x => match cur_block x with Ok b => Some (ab_id b) | Err _ => None end | Err _ => None end.
Record kept (s s' : astate) : Prop := mk_kept {
  k_cfg : a_cfg s' = a_cfg s;
  k_next : (a_next s <= a_next s')%nat;
  k_cur : forall i, cur_id s = Some i -> cur_id s' = Some i;
  k_prox : forall p, In p (a_proxies s') -> In p (a_proxies s) \/ (a_next s <= p < a_next s')%nat
}.
Lemma kept_refl s : kept s s. Proof. constructor; auto. Qed.
Lemma kept_trans a b c : kept a b -> kept b c -> kept a c.
Proof.
  intros [A1 A2 A3 A4] [B1 B2 B3 B4]. constructor; [congruence|lia|auto|].
  intros p Hp. destruct (B4 p Hp) as [H|H]; [destruct (A4 p H) as [G|G]; [left; exact G|right; lia]|right; lia].
Qed.

Lemma cur_id_same s s' : same_sects s s' -> cur_id s' = cur_id s.
Proof. intros H. unfold cur_id. rewrite (cur_sect_same _ _ H). reflexivity. Qed.

Lemma kept_resolve t s n y s' : resolve_sym t s n = Ok (y, s') -> kept s s'.
Proof.
  intros H. pose proof (same_resolve _ _ _ _ _ H) as Hs. revert H. unfold resolve_sym.
  destruct (lookup_sym t s n); [intros H; inversion H; apply kept_refl|].
  destruct (negb (t_allow_undef t)); [discriminate|]. unfold fresh. cbn. intros H. inversion H; subst; clear H.
  constructor; cbn; [reflexivity|lia|intros i Hi; rewrite (cur_id_same _ _ Hs); exact Hi|].
  intros p Hp. apply in_app_or in Hp. destruct Hp as [Hp|[<-|[]]]; [left; exact Hp|right; lia].
Qed.
Lemma kept_to_sx_plain t s e br r y s' : to_sx_plain t s e br = Ok (r, y, s') -> kept s s'.
Proof.
  unfold to_sx_plain. intros H.
  destruct e as [n v|c|a b|a b|fam k sub|]; try discriminate.
  - destruct (resolve_sym t s n) as [[y1 s1]|] eqn:E1; cbn [bind] in H; [|discriminate].
    destruct (ref_attrs t v y1 br); cbn [bind] in H; [|discriminate]. inversion H; subst. eapply kept_resolve; eauto.
  - destruct a as [n v| | | | |]; try discriminate. destruct b as [|c| | | |]; try discriminate.
    destruct (resolve_sym t s n) as [[y1 s1]|] eqn:E1; cbn [bind] in H; [|discriminate].
    destruct (ref_attrs t v y1 br); cbn [bind] in H; [|discriminate]. inversion H; subst. eapply kept_resolve; eauto.
  - destruct a as [n1 v1| | | | |]; try discriminate. destruct b as [n2 v2| | | | |]; try discriminate.
    destruct (resolve_sym t s n1) as [[y1 s1]|] eqn:E1; cbn [bind] in H; [|discriminate].
    destruct (negb (Nat.eqb v1 0)); [discriminate|].
    destruct (resolve_sym t s1 n2) as [[y2 s2]|] eqn:E2; cbn [bind] in H; [|discriminate].
    destruct (negb (Nat.eqb v2 0)); [discriminate|]. inversion H; subst.
    eapply kept_trans; eapply kept_resolve; eauto.
Qed.
Lemma kept_to_sx t s e br r y s' : to_sx t s e br = Ok (r, y, s') -> kept s s'.
Proof.
  unfold to_sx. intros H.
  destruct e as [n v|c|a b|a b|fam k sub|]; try (eapply kept_to_sx_plain; exact H).
  destruct (target_attrs fam k); [|discriminate].
  destruct (to_sx_plain t s sub br) as [[[r0 y0] s0]|] eqn:E; cbn [bind] in H; [|discriminate].
  inversion H; subst. eapply kept_to_sx_plain; exact E.
Qed.

(* replacing the current section by one whose last block has the same identifier *)
Lemma cur_id_put s x x' i :
  cur_sect s = Ok x -> as_name x' = as_name x -> (exists b', cur_block x' = Ok b' /\ ab_id b' = i) -> cur_id (put_sect s x') = Some i.
Proof.
  intros Ex Hn (b' & Hb & Hi). destruct (cur_sect_name _ _ Ex) as (n & Hc & Hf & Hx).
  unfold cur_id, cur_sect. cbn [a_cur put_sect]. rewrite Hc.
  rewrite (find_sect_put s x n Hf x' Hn Hx). rewrite Hb, Hi. reflexivity.
Qed.

Lemma kept_append_data s n s' : append_data s n = Ok s' -> kept s s'.
Proof.
  unfold append_data. intros E.
  destruct (cur_sect s) as [x|] eqn:Ex; cbn [bind] in E; [|discriminate].
  destruct (cur_block x) as [b|] eqn:Eb; cbn [bind] in E; [|discriminate]. inversion E; subst s'; clear E.
  constructor; cbn; [reflexivity|lia| |auto].
  intros i Hi. unfold cur_id in Hi. rewrite Ex, Eb in Hi. inversion Hi; subst i.
  apply (cur_id_put s x); [exact Ex|reflexivity|]. eexists. split; [unfold cur_block, set_last; cbn [as_blocks]; rewrite rev_app_distr; cbn; reflexivity|reflexivity].
Qed.
Lemma kept_add_symex s pos e sz s' : add_symex s pos e sz = Ok s' -> kept s s'.
Proof.
  unfold add_symex. intros E. destruct (cur_sect s) as [x|] eqn:Ex; cbn [bind] in E; [|discriminate]. inversion E; subst; clear E.
  constructor; cbn; [reflexivity|lia| |auto].
  intros i Hi. unfold cur_id in Hi. rewrite Ex in Hi. destruct (cur_block x) as [b|] eqn:Eb; [|discriminate]. inversion Hi; subst i.
  apply (cur_id_put s x); [exact Ex|reflexivity|]. exists b. split; [exact Eb|reflexivity].
Qed.

(* _split_block: the optional fallthrough edge to the new block, which becomes current *)
Lemma split_block_edges s ft s' i :
  cur_id s = Some i -> split_block s ft = Ok s' ->
  a_cfg s' = (if ft then cfg_add (mk_aedge i (RBlock (a_next s)) ET_F false true) (a_cfg s) else a_cfg s) /\
  cur_id s' = Some (a_next s) /\ a_next s' = S (a_next s) /\ a_proxies s' = a_proxies s.
Proof.
  unfold split_block. intros Hi E. unfold cur_id in Hi.
  destruct (cur_sect s) as [x|] eqn:Ex; cbn [bind] in E; [|discriminate].
  destruct (cur_block x) as [b|] eqn:Eb; cbn [bind] in E; [|discriminate]. inversion Hi; subst i; clear Hi.
  unfold fresh in E. cbn [fst snd] in E.
  match type of E with bind (cur_sect ?S) _ = _ => assert (Hs : same_sects s S) by (destruct ft; split; reflexivity); set (s1 := S) in * end.
  rewrite (cur_sect_same _ _ Hs), Ex in E. cbn [bind] in E. inversion E; subst s'; clear E.
  split; [destruct ft; reflexivity|]. split; [|split; destruct ft; reflexivity].
  assert (Ex1 : cur_sect s1 = Ok x) by (rewrite (cur_sect_same _ _ Hs); exact Ex).
  apply (cur_id_put s1 x); [exact Ex1|reflexivity|]. eexists. split; [unfold cur_block; cbn [as_blocks]; rewrite rev_app_distr; cbn; reflexivity|reflexivity].
Qed.

(* the fixup loop of emit_instruction *)
Lemma kept_fixups t len br base : forall fx acc s1,
  forall s, (forall a, acc = Ok a -> kept s a) ->
  fold_left (fun acc f => do s0 <- acc; do '(e, ig, s2) <- to_sx t s0 (fixup_expr f len) br; add_symex s2 (base + fx_off f) e (fx_size f)) fx acc = Ok s1 ->
  kept s s1.
Proof.
  induction fx as [|f fx IH]; intros acc s1 s Ha Hf; cbn [fold_left] in Hf; [apply Ha, Hf|].
  eapply IH; [|exact Hf]. intros a Ea.
  destruct acc as [a0|]; cbn [bind] in Ea; [|discriminate].
  destruct (to_sx t a0 (fixup_expr f len) br) as [[[e0 y0] s2]|] eqn:Et; cbn [bind] in Ea; [|discriminate].
  eapply kept_trans; [apply Ha; reflexivity|]. eapply kept_trans; [eapply kept_to_sx; eauto|eapply kept_add_symex; eauto].
Qed.

(* ---- the edges of one instruction ---- *)
Definition insn_edge (src : nat) (tgt : aref) (call cond direct : bool) : aedge :=
  mk_aedge src tgt (if call then ET_C else ET_B) (if call then false else cond) direct.

Theorem insn_edges t sfx s len ret call branch cond indirect fx s' i :
  cur_id s = Some i -> step t sfx s (EInsn len ret call branch cond indirect fx) = Ok s' ->
  if ret then
    (* a return: one Return edge to a proxy created for it; no fallthrough *)
    exists p, (a_next s <= p)%nat /\ In p (a_proxies s') /\
              a_cfg s' = cfg_add (mk_aedge i (RProxy p) ET_R false true) (a_cfg s)
  else if call || branch then
    exists tgt direct nb,
      a_cfg s' = (if call || cond then cfg_add (mk_aedge i (RBlock nb) ET_F false true) else fun c => c)
                   (cfg_add (insn_edge i tgt call cond direct) (a_cfg s)) /\
      cur_id s' = Some nb /\ (a_next s <= nb)%nat /\
      (if indirect then direct = false /\ exists p, tgt = RProxy p /\ (a_next s <= p)%nat /\ In p (a_proxies s')
       else direct = true /\ is_cfgnode tgt = true /\
            exists f sa sb e y, fx = [f] /\ to_sx t sa (fixup_expr f len) true = Ok (e, y, sb) /\ tgt = sy_ref y)
  else a_cfg s' = a_cfg s /\ cur_id s' = Some i.
Proof.
  intros Hi E. cbn [step] in E.
  destruct (cur_sect s) as [x0|] eqn:Ex0; cbn [bind] in E; [|discriminate].
  match type of E with bind ?F _ = _ => destruct F as [s1|] eqn:Ef; cbn [bind] in E; [|discriminate] end.
  assert (K1 : kept s s1).
  { eapply (kept_fixups t len ((call || branch) && negb indirect) (as_len x0) fx (Ok s) s1); [|exact Ef]. intros a Ea; inversion Ea; apply kept_refl. }
  destruct (append_data s1 len) as [s2|] eqn:Ea; cbn [bind] in E; [|discriminate].
  pose proof (kept_trans _ _ _ K1 (kept_append_data _ _ _ Ea)) as K2.
  pose proof (k_cur _ _ K2 _ Hi) as Hi2. unfold cur_id in Hi2.
  destruct (cur_sect s2) as [x|] eqn:Ex; cbn [bind] in E; [|discriminate].
  destruct (cur_block x) as [b|] eqn:Eb; cbn [bind] in E; [|discriminate]. inversion Hi2 as [Hb]; clear Hi2.
  set (s3 := mk_astate (a_sects s2) (a_cur s2) (a_syms s2) (a_cfg s2) _ (a_types s2) (a_proxies s2) (a_next s2)) in E.
  assert (Hi3 : cur_id s3 = Some i) by (change (cur_id s2 = Some i); unfold cur_id; rewrite Ex, Eb, Hb; reflexivity).
  assert (K3 : a_cfg s3 = a_cfg s /\ (a_next s <= a_next s3)%nat) by (split; [exact (k_cfg _ _ K2)|exact (k_next _ _ K2)]).
  destruct K3 as (C3 & N3).
  destruct ret.
  - unfold fresh in E. cbn [fst snd] in E.
    match type of E with split_block ?S _ = _ => set (s4 := S) in E end.
    assert (Hi4 : cur_id s4 = Some i) by exact Hi3.
    destruct (split_block_edges s4 false s' i Hi4 E) as (A & B & C & D).
    exists (a_next s3). split; [exact N3|]. split; [rewrite D; cbn; apply in_or_app; right; left; reflexivity|].
    rewrite A. cbn [s4 a_cfg]. rewrite Hb. fold (a_cfg s3). rewrite C3. reflexivity.
  - destruct (call || branch) eqn:Hk.
    + match type of E with bind ?F _ = _ => destruct F as [[[d tg] s4]|] eqn:Er; cbn [bind] in E; [|discriminate] end.
      match type of E with split_block ?S _ = _ => set (s5 := S) in E end.
      assert (X : kept s3 s4 /\ (if indirect then d = false /\ exists p, tg = RProxy p /\ (a_next s <= p)%nat /\ In p (a_proxies s4)
                                 else d = true /\ is_cfgnode tg = true /\ exists f sa sb e y, fx = [f] /\ to_sx t sa (fixup_expr f len) true = Ok (e, y, sb) /\ tg = sy_ref y)).
      { destruct indirect.
        - unfold fresh in Er. cbn in Er. inversion Er; subst; clear Er. split.
          + constructor; cbn; [reflexivity|lia|intros j Hj; exact Hj|]. intros p Hp. apply in_app_or in Hp. destruct Hp as [Hp|[<-|[]]]; [left; exact Hp|right; lia].
          + split; [reflexivity|]. exists (a_next s2). split; [reflexivity|]. split; [exact N3|]. cbn. apply in_or_app; right; left; reflexivity.
        - destruct fx as [|f [|f2 fr]]; try discriminate.
          destruct (to_sx t s3 (fixup_expr f len) true) as [[[e0 y0] s6]|] eqn:Et; cbn [bind] in Er; [|discriminate].
          destruct e0 as [c sy at_|]; [|discriminate]. destruct (negb (c =? 0)); [discriminate|].
          destruct (is_cfgnode (sy_ref y0)) eqn:Hn; cbn [negb] in Er; [|discriminate].
          inversion Er; subst; clear Er. split; [eapply kept_to_sx; eauto|]. split; [reflexivity|]. split; [exact Hn|].
          exists f, s3, s4, (SConst c sy at_), y0. auto. }
      destruct X as (K4 & X).
      assert (Hi5 : cur_id s5 = Some i) by (change (cur_id s4 = Some i); exact (k_cur _ _ K4 _ Hi3)).
      destruct (split_block_edges s5 (call || cond) s' i Hi5 E) as (A & B & C & D).
      exists tg, d, (a_next s5). split.
      * rewrite A. unfold s5, with_cfg, insn_edge. cbn [a_cfg a_next]. rewrite (k_cfg _ _ K4), C3, Hb. destruct (call || cond); reflexivity.
      * split; [exact B|]. split; [pose proof (k_next _ _ K4); unfold s5, with_cfg; cbn [a_next]; lia|].
        destruct indirect.
        -- destruct X as (X1 & p & X2 & X3 & X4). split; [exact X1|]. exists p. split; [exact X2|]. split; [exact X3|]. rewrite D. exact X4.
        -- exact X.
    + injection E as <-. split; [exact C3|congruence].
Qed.

(* a label: one fallthrough edge from the block it ends to the label's block, which becomes current *)
Theorem label_edge t sfx s name s' i :
  cur_id s = Some i -> step t sfx s (ELabel name) = Ok s' ->
  exists y lb, find (fun kv => Nat.eqb (fst kv) name) (a_syms s) = Some (name, y) /\ sy_ref y = RBlock lb /\
    a_cfg s' = cfg_add (mk_aedge i (RBlock lb) ET_F false true) (a_cfg s) /\ cur_id s' = Some lb.
Proof.
  intros Hi E. cbn [step] in E. unfold cur_id in Hi.
  destruct (cur_sect s) as [x|] eqn:Ex; cbn [bind] in E; [|discriminate].
  destruct (cur_block x) as [b|] eqn:Eb; cbn [bind] in E; [|discriminate]. inversion Hi; subst i; clear Hi.
  destruct (find (fun kv => Nat.eqb (fst kv) name) (a_syms s)) as [[n y]|] eqn:Ef; [|discriminate].
  pose proof (find_some _ _ Ef) as (_ & Hn). cbn in Hn. apply Nat.eqb_eq in Hn. subst n.
  destruct (sy_ref y) as [lb| | |] eqn:Er; try discriminate. inversion E; subst s'; clear E.
  exists y, lb. split; [reflexivity|]. split; [exact Er|]. split; [reflexivity|].
  match goal with |- cur_id (put_sect ?S _) = _ => assert (Ex1 : cur_sect S = Ok x) by exact Ex; apply (cur_id_put S x); [exact Ex1|reflexivity|] end.
  eexists. split; [unfold cur_block; cbn [as_blocks]; rewrite rev_app_distr; cbn; reflexivity|reflexivity].
Qed.

(* data, strings, values, fills, section switches, definitions and chunk boundaries add no edge *)
Lemma split_block_false_cfg s s' : split_block s false = Ok s' -> a_cfg s' = a_cfg s.
Proof.
  unfold split_block. intros E.
  destruct (cur_sect s) as [x|]; cbn [bind] in E; [|discriminate]. destruct (cur_block x) as [b|]; cbn [bind] in E; [|discriminate].
  unfold fresh in E. cbn [fst snd] in E. match type of E with bind ?F _ = _ => destruct F; cbn [bind] in E; [|discriminate] end.
  inversion E; reflexivity.
Qed.

Definition adds_no_edge (e : ev) : bool :=
  match e with EChunk | EPre _ _ | ESection _ _ | EInt _ | EStr _ _ | EValue _ _ | ELeb _ | EFill _ => true | _ => false end.

Theorem other_events_add_no_edge t sfx s e s' : adds_no_edge e = true -> step t sfx s e = Ok s' -> a_cfg s' = a_cfg s.
Proof.
  intros He E. destruct e; try discriminate; cbn [step] in E.
  - inversion E; reflexivity.
  - destruct (_ || _); [discriminate|]. unfold fresh in E. cbn in E. inversion E; reflexivity.
  - destruct (find_sect s name); inversion E; reflexivity.
  - exact (k_cfg _ _ (kept_append_data _ _ _ E)).
  - destruct (cur_sect s) as [x|] eqn:Ex; cbn [bind] in E; [|discriminate]. destruct (cur_block x) as [b|] eqn:Eb; cbn [bind] in E; [|discriminate].
    match type of E with (if ?c then _ else _) = _ => destruct c end.
    + destruct (rev (as_blocks x)) as [|cb [|pb rest]]; try discriminate. inversion E; reflexivity.
    + destruct (split_block s false) as [s1|] eqn:E1; cbn [bind] in E; [|discriminate].
      destruct (append_data s1 len) as [s2|] eqn:E2; cbn [bind] in E; [|discriminate].
      destruct (cur_sect s2) as [x2|]; cbn [bind] in E; [|discriminate]. destruct (cur_block x2) as [b2|]; cbn [bind] in E; [|discriminate].
      apply split_block_false_cfg in E. cbn in E. rewrite E, (k_cfg _ _ (kept_append_data _ _ _ E2)). apply split_block_false_cfg, E1.
  - destruct (cur_sect s) as [x|]; cbn [bind] in E; [|discriminate].
    destruct (to_sx t s e false) as [[[e' y] s1]|] eqn:E1; cbn [bind] in E; [|discriminate].
    destruct (add_symex s1 (as_len x) e' size) as [s2|] eqn:E2; cbn [bind] in E; [|discriminate].
    rewrite (k_cfg _ _ (kept_append_data _ _ _ E)), (k_cfg _ _ (kept_add_symex _ _ _ _ _ E2)). exact (k_cfg _ _ (kept_to_sx _ _ _ _ _ _ _ E1)).
  - destruct (split_block s false) as [s1|] eqn:E1; cbn [bind] in E; [|discriminate].
    destruct (cur_sect s1) as [x|]; cbn [bind] in E; [|discriminate].
    destruct (to_sx t s1 e false) as [[[e' y] s2]|] eqn:E2; cbn [bind] in E; [|discriminate].
    destruct (add_symex s2 (as_len x) e' 1) as [s3|] eqn:E3; cbn [bind] in E; [|discriminate].
    destruct (append_data s3 1) as [s4|] eqn:E4; cbn [bind] in E; [|discriminate].
    destruct (cur_sect s4) as [x4|]; cbn [bind] in E; [|discriminate]. destruct (cur_block x4) as [b4|]; cbn [bind] in E; [|discriminate].
    apply split_block_false_cfg in E. cbn in E.
    rewrite E, (k_cfg _ _ (kept_append_data _ _ _ E4)), (k_cfg _ _ (kept_add_symex _ _ _ _ _ E3)), (k_cfg _ _ (kept_to_sx _ _ _ _ _ _ _ E2)).
    apply split_block_false_cfg, E1.
  - exact (k_cfg _ _ (kept_append_data _ _ _ E)).
Qed.
