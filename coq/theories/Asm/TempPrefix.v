(* Hand model of the temporary-label prefixes: the prefix each ABI class hands out (abi.py: temporary_label_prefix, used by
   InsertionContext.temporary_label in patch.py) and the prefix by which the assembler's back end (LLVM MC: MCAsmInfo's private
   label prefix of the module's target) recognises a temporary label -- only those labels receive the caller's suffix
   (assembler.py: `if label.is_temporary and ... temp_symbol_suffix`).  Both tables are compared with the implementation on every run.
   No proofs here. *)
From Coq Require Import String Ascii List Bool Arith.
Import ListNotations.
Open Scope string_scope.

(* the harness's numbering of gtirb.Module.ISA / FileFormat *)
Definition T_X64 := 0%nat.
Definition T_IA32 := 1%nat.
Definition T_ARM64 := 2%nat.
Definition T_MIPS32 := 3%nat.
Definition T_ELF := 0%nat.
Definition T_PE := 1%nat.

(* the ABIs of abi.py: _ABIS *)
Definition supported (isa fmt : nat) : bool :=
  (Nat.eqb isa T_X64 && (Nat.eqb fmt T_ELF || Nat.eqb fmt T_PE)) || (Nat.eqb isa T_IA32 && Nat.eqb fmt T_PE) ||
  (Nat.eqb isa T_ARM64 && Nat.eqb fmt T_ELF) || (Nat.eqb isa T_MIPS32 && Nat.eqb fmt T_ELF).

(* LLVM MC: a label is temporary when it starts with the target's private prefix: ".L" for ELF and 64-bit COFF, "L" for 32-bit
   COFF, "$" for MIPS o32 *)
Definition mc_private_prefix (isa fmt : nat) : string :=
  if Nat.eqb isa T_MIPS32 then "$"
  else if Nat.eqb isa T_IA32 && Nat.eqb fmt T_PE then "L"
  else ".L".
Definition mc_is_temporary (isa fmt : nat) (label : string) : bool := prefix (mc_private_prefix isa fmt) label.

(* ABI.temporary_label_prefix *)
Definition abi_temporary_label_prefix (isa fmt : nat) : string :=
  if Nat.eqb isa T_MIPS32 then "$L"
  else if Nat.eqb isa T_IA32 then "L"
  else ".L".

(* InsertionContext.temporary_label *)
Definition temporary_label (isa fmt : nat) (name : string) : string := abi_temporary_label_prefix isa fmt ++ name.

(* the name a label of a patch gets in the module: temporary labels receive the insertion's suffix *)
Definition symbol_name (isa fmt : nat) (label suffix : string) : string :=
  if mc_is_temporary isa fmt label then label ++ suffix else label.
