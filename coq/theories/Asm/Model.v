(* Hand model of the assembler's streamer (assembler/assembler.py: _SymbolCreator, _Streamer, Assembler.finalize) as a state
   machine over the events LLVM MC delivers.  Names, blocks, symbols and proxies are identities (nat).  No proofs here. *)
From Coq Require Import ZArith List Bool Arith.
From GR Require Import Base.Result IR.State.
Import ListNotations.
Open Scope Z_scope.

(* MC expressions, as far as the assembler looks into them *)
Inductive mcx :=
| MSym (name : nat) (variant : nat)      (* SymbolRefExpr; variant 0 = None_ *)
| MConst (v : Z)
| MAdd (a b : mcx)
| MSub (a b : mcx)
| MTarget (family kind : nat) (sub : mcx)   (* TargetExprAArch64 (family 0: elf name "" 0, :got: 1, :lo12: 2, :got_lo12: 3) /
                                               TargetExprMips (family 1: GOT 1, HI 2, LO 3, PCREL_HI16 4, PCREL_LO16 5, GOT_CALL 6); other kinds 9 *)
| MOther.
Record fixup := mk_fixup { fx_off : Z; fx_size : Z; fx_pcrel : bool; fx_val : mcx }.

Inductive ev :=
| EChunk                                                   (* a call of assemble() *)
| EPre (name : nat) (temp : bool)                          (* _SymbolCreator: a label or constant assignment is defined *)
| ESection (name : nat) (exec : bool)
| ELabel (name : nat)
| EInsn (len : Z) (ret call branch cond indirect : bool) (fx : list fixup)
| EInt (len : Z)                                           (* emit_bytes under emit_int_value *)
| EStr (len : Z) (is_nul : bool)                           (* emit_bytes of .ascii / .string pieces *)
| EValue (size : Z) (e : mcx)
| ELeb (e : mcx)                                           (* .uleb128 / .sleb128 of an expression *)
| EFill (n : Z)
| EAlign (a : Z).

(* what a symbol refers to *)
Inductive aref := RBlock (b : nat) | RProxy (p : nat) | RData | RNone.
Definition is_cfgnode (r : aref) : bool := match r with RBlock _ | RProxy _ => true | _ => false end.
(* a symbol: 1000+k are the module's symbols (inputs), smaller identities are created by the assembler *)
Record asym := mk_asym { sy_id : nat; sy_ref : aref; sy_at_end : bool }.

Inductive sx := SConst (addend : Z) (sym : nat) (attrs : list nat) | SAddr (s1 s2 : nat).

Record ablock := mk_ablock { ab_id : nat; ab_off : Z; ab_size : Z; ab_data : bool }.
Record asect := mk_asect {
  as_name : nat; as_exec : bool; as_len : Z; as_blocks : list ablock;
  as_symex : list (Z * sx); as_sizes : list (Z * Z); as_align : list (nat * Z)
}.
Definition ET_B := 0%nat. Definition ET_C := 1%nat. Definition ET_F := 2%nat. Definition ET_R := 3%nat.
(* source block, target, type, conditional, direct *)
Record aedge := mk_aedge { ae_src : nat; ae_tgt : aref; ae_type : nat; ae_cond : bool; ae_direct : bool }.

Record astate := mk_astate {
  a_sects : list asect;                 (* in creation order *)
  a_cur : option nat;                   (* name of the current section *)
  a_syms : list (nat * asym);           (* local_symbols: name -> symbol *)
  a_cfg : list aedge;
  a_code : list nat;                    (* blocks_with_code *)
  a_types : list (nat * nat);           (* block_types: 1 uleb/sleb, 2 ASCII, 3 String *)
  a_proxies : list nat;
  a_next : nat
}.

Record atarget := mk_atarget {
  t_module : list (nat * aref);         (* names the module defines -> referent of the (first) symbol of that name *)
  t_pie : bool;
  t_allow_undef : bool;
  t_unreachable : bool;                 (* trivially_unreachable *)
  t_variants : list (nat * option (list nat))   (* variant kind -> attributes, None when unsupported *)
}.
Definition PLT := 1%nat.

Definition aref_eqb (a b : aref) : bool :=
  match a, b with RBlock x, RBlock y | RProxy x, RProxy y => Nat.eqb x y | RData, RData | RNone, RNone => true | _, _ => false end.
Definition aedge_eqb (a b : aedge) : bool :=
  Nat.eqb (ae_src a) (ae_src b) && aref_eqb (ae_tgt a) (ae_tgt b) && Nat.eqb (ae_type a) (ae_type b) && Bool.eqb (ae_cond a) (ae_cond b) && Bool.eqb (ae_direct a) (ae_direct b).
Definition cfg_add (e : aedge) (c : list aedge) : list aedge := if existsb (aedge_eqb e) c then c else c ++ [e].
Definition cfg_discard (e : aedge) (c : list aedge) : list aedge := filter (fun x => negb (aedge_eqb e x)) c.

Definition fresh (s : astate) : nat * astate :=
  (a_next s, mk_astate (a_sects s) (a_cur s) (a_syms s) (a_cfg s) (a_code s) (a_types s) (a_proxies s) (S (a_next s))).

Definition find_sect (s : astate) (n : nat) : option asect := find (fun x => Nat.eqb (as_name x) n) (a_sects s).
Definition put_sect (s : astate) (x : asect) : astate :=
  mk_astate (map (fun y => if Nat.eqb (as_name y) (as_name x) then x else y) (a_sects s)) (a_cur s) (a_syms s) (a_cfg s) (a_code s) (a_types s) (a_proxies s) (a_next s).
Definition with_cfg (s : astate) c := mk_astate (a_sects s) (a_cur s) (a_syms s) c (a_code s) (a_types s) (a_proxies s) (a_next s).
Definition with_syms (s : astate) y := mk_astate (a_sects s) (a_cur s) y (a_cfg s) (a_code s) (a_types s) (a_proxies s) (a_next s).
Definition with_types (s : astate) y := mk_astate (a_sects s) (a_cur s) (a_syms s) (a_cfg s) (a_code s) y (a_proxies s) (a_next s).

(* the current section and its last block; "not in a section yet" is an assertion *)
Definition cur_sect (s : astate) : result asect :=
  match a_cur s with
  | Some n => match find_sect s n with Some x => Ok x | None => Err AssertErr end
  | None => Err AssertErr
  end.
Definition cur_block (x : asect) : result ablock := match rev (as_blocks x) with b :: _ => Ok b | [] => Err AssertErr end.
Definition set_last (x : asect) (b : ablock) : list ablock := removelast (as_blocks x) ++ [b].

(* _append_data *)
Definition append_data (s : astate) (n : Z) : result astate :=
  do x <- cur_sect s; do b <- cur_block x;
  Ok (put_sect s (mk_asect (as_name x) (as_exec x) (as_len x + n) (set_last x (mk_ablock (ab_id b) (ab_off b) (ab_size b + n) (ab_data b)))
                           (as_symex x) (as_sizes x) (as_align x))).

(* _split_block *)
Definition split_block (s : astate) (ft : bool) : result astate :=
  do x <- cur_sect s; do b <- cur_block x;
  let '(nb, s) := fresh s in
  let s := if ft then with_cfg s (cfg_add (mk_aedge (ab_id b) (RBlock nb) ET_F false true) (a_cfg s)) else s in
  do x <- cur_sect s;
  Ok (put_sect s (mk_asect (as_name x) (as_exec x) (as_len x) (as_blocks x ++ [mk_ablock nb (ab_off b + ab_size b) 0 false]) (as_symex x) (as_sizes x) (as_align x))).

(* _symbol_lookup / _resolve_symbol *)
Definition lookup_sym (t : atarget) (s : astate) (name : nat) : option asym :=
  match find (fun kv => Nat.eqb (fst kv) name) (a_syms s) with
  | Some kv => Some (snd kv)
  | None => match find (fun kv => Nat.eqb (fst kv) name) (t_module t) with
            | Some kv => Some (mk_asym (1000 + name) (snd kv) false)
            | None => None
            end
  end.
Definition resolve_sym (t : atarget) (s : astate) (name : nat) : result (asym * astate) :=
  match lookup_sym t s name with
  | Some y => Ok (y, s)
  | None =>
      if negb (t_allow_undef t) then Err UndefErr
      else let '(p, s) := fresh s in
           let '(sid, s) := fresh s in
           let y := mk_asym sid (RProxy p) false in
           Ok (y, mk_astate (a_sects s) (a_cur s) (a_syms s ++ [(name, y)]) (a_cfg s) (a_code s) (a_types s) (a_proxies s ++ [p]) (a_next s))
  end.

(* _get_symbol_ref_attrs *)
Definition ref_attrs (t : atarget) (variant : nat) (y : asym) (is_branch : bool) : result (list nat) :=
  if negb (Nat.eqb variant 0) then
    match find (fun kv => Nat.eqb (fst kv) variant) (t_variants t) with
    | Some (_, Some attrs) => Ok attrs
    | _ => Err UnsupportedErr
    end
  else if t_pie t && (match sy_ref y with RProxy _ => true | _ => false end) && is_branch then Ok [PLT]
  else Ok [].

(* _mcexpr_to_symbolic_operand, below the target-specific wrapper *)
Definition to_sx_plain (t : atarget) (s : astate) (e : mcx) (is_branch : bool) : result (sx * asym * astate) :=
  match e with
  | MAdd (MSym n v) (MConst c) =>
      do '(y, s) <- resolve_sym t s n; do at_ <- ref_attrs t v y is_branch; Ok (SConst c (sy_id y) at_, y, s)
  | MSub (MSym n1 v1) (MSym n2 v2) =>
      do '(y1, s) <- resolve_sym t s n1;
      if negb (Nat.eqb v1 0) then Err UnsupportedErr else
      do '(y2, s) <- resolve_sym t s n2;
      if negb (Nat.eqb v2 0) then Err UnsupportedErr else Ok (SAddr (sy_id y1) (sy_id y2), y1, s)
  | MSym n v =>
      do '(y, s) <- resolve_sym t s n; do at_ <- ref_attrs t v y is_branch; Ok (SConst 0 (sy_id y) at_, y, s)
  | _ => Err UnsupportedErr
  end.

(* attributes (harness numbering: PLT 1, GOT 2, LO12 3, HI 4, LO 5, PCREL 6) that a target-specific wrapper stands for *)
Definition A_GOT := 2%nat. Definition A_LO12 := 3%nat. Definition A_HI := 4%nat. Definition A_LO := 5%nat. Definition A_PCREL := 6%nat.
Definition target_attrs (family kind : nat) : option (list nat) :=
  match family, kind with
  | 0%nat, 0%nat => Some []
  | 0%nat, 1%nat => Some [A_GOT]
  | 0%nat, 2%nat => Some [A_LO12]
  | 0%nat, 3%nat => Some [A_GOT; A_LO12]
  | 1%nat, 1%nat => Some [A_GOT]
  | 1%nat, 2%nat => Some [A_HI]
  | 1%nat, 3%nat => Some [A_LO]
  | 1%nat, 4%nat => Some [A_PCREL; A_HI]
  | 1%nat, 5%nat => Some [A_PCREL; A_LO]
  | 1%nat, 6%nat => Some [A_GOT]
  | _, _ => None
  end.
Definition add_attrs (extra : list nat) (e : sx) : sx :=
  match e with
  | SConst c y at_ => SConst c y (extra ++ filter (fun a => negb (nmem a extra)) at_)
  | SAddr a b => SAddr a b
  end.
(* _mcexpr_to_symbolic_operand: the wrapper's attributes are added to what the wrapped expression gives; an unknown wrapper is refused
   before any symbol is resolved *)
Definition to_sx (t : atarget) (s : astate) (e : mcx) (is_branch : bool) : result (sx * asym * astate) :=
  match e with
  | MTarget family kind sub =>
      match target_attrs family kind with
      | None => Err UnsupportedErr
      | Some extra => do '(r, y, s') <- to_sx_plain t s sub is_branch; Ok (add_attrs extra r, y, s')
      end
  | _ => to_sx_plain t s e is_branch
  end.

(* _fixup_to_symbolic_operand: the PC-relative adjustment LLVM adds is unwrapped *)
Definition fixup_expr (f : fixup) (enc_len : Z) : mcx :=
  match fx_val f with
  | MAdd l (MConst c) => if fx_pcrel f && (fx_off f - c =? enc_len) then l else fx_val f
  | e => e
  end.

Definition add_symex (s : astate) (pos : Z) (e : sx) (size : Z) : result astate :=
  do x <- cur_sect s;
  Ok (put_sect s (mk_asect (as_name x) (as_exec x) (as_len x) (as_blocks x) (dset pos e (as_symex x)) (dset pos size (as_sizes x)) (as_align x))).

(* ---- the events ---- *)
Definition step (t : atarget) (suffix : bool) (s : astate) (e : ev) : result astate :=
  match e with
  | EChunk => Ok s
  | EPre name temp =>
      if (match find (fun kv => Nat.eqb (fst kv) name) (a_syms s) with Some _ => true | None => false end) ||
         (match find (fun kv => Nat.eqb (fst kv) name) (t_module t) with Some _ => true | None => false end)
      then Err MultiDefErr
      else let '(b, s) := fresh s in let '(sid, s) := fresh s in
           Ok (with_syms s (a_syms s ++ [(name, mk_asym sid (RBlock b) false)]))
  | ESection name exec =>
      let s := match find_sect s name with
               | Some _ => s
               | None => let '(b, s) := fresh s in
                         mk_astate (a_sects s ++ [mk_asect name exec 0 [mk_ablock b 0 0 false] [] [] []]) (a_cur s) (a_syms s) (a_cfg s) (a_code s) (a_types s) (a_proxies s) (a_next s)
               end in
      Ok (mk_astate (a_sects s) (Some name) (a_syms s) (a_cfg s) (a_code s) (a_types s) (a_proxies s) (a_next s))
  | ELabel name =>
      do x <- cur_sect s; do b <- cur_block x;
      match find (fun kv => Nat.eqb (fst kv) name) (a_syms s) with
      | Some (_, y) =>
          match sy_ref y with
          | RBlock lb =>
              let s := with_cfg s (cfg_add (mk_aedge (ab_id b) (RBlock lb) ET_F false true) (a_cfg s)) in
              Ok (put_sect s (mk_asect (as_name x) (as_exec x) (as_len x) (as_blocks x ++ [mk_ablock lb (ab_off b + ab_size b) 0 false]) (as_symex x) (as_sizes x) (as_align x)))
          | _ => Err AssertErr
          end
      | None => Err KeyErr
      end
  | EInsn len ret call branch cond indirect fx =>
      do x0 <- cur_sect s;
      do s <- fold_left (fun acc f => do s <- acc;
                                       do '(e, ig, s) <- to_sx t s (fixup_expr f len) ((call || branch) && negb indirect);
                                       add_symex s (as_len x0 + fx_off f) e (fx_size f))
                        fx (Ok s);
      do s <- append_data s len;
      do x <- cur_sect s; do b <- cur_block x;
      let s := mk_astate (a_sects s) (a_cur s) (a_syms s) (a_cfg s) (if nmem (ab_id b) (a_code s) then a_code s else a_code s ++ [ab_id b]) (a_types s) (a_proxies s) (a_next s) in
      if ret then
        let '(p, s) := fresh s in
        let s := mk_astate (a_sects s) (a_cur s) (a_syms s) (cfg_add (mk_aedge (ab_id b) (RProxy p) ET_R false true) (a_cfg s)) (a_code s) (a_types s) (a_proxies s ++ [p]) (a_next s) in
        split_block s false
      else if call || branch then
        do '(direct, tgt, s) <-
          (if indirect then
             let '(p, s) := fresh s in
             Ok (false, RProxy p, mk_astate (a_sects s) (a_cur s) (a_syms s) (a_cfg s) (a_code s) (a_types s) (a_proxies s ++ [p]) (a_next s))
           else match fx with
                | [f] =>
                    do '(e, y, s) <- to_sx t s (fixup_expr f len) true;
                    match e with
                    | SConst c _ _ =>
                        if negb (c =? 0) then Err UnsupportedErr
                        else if negb (is_cfgnode (sy_ref y)) then Err UnsupportedErr
                        else Ok (true, sy_ref y, s)
                    | SAddr _ _ => Err UnsupportedErr
                    end
                | _ => Err AssertErr
                end);
        let ty := if call then ET_C else ET_B in
        let s := with_cfg s (cfg_add (mk_aedge (ab_id b) tgt ty (if call then false else cond) direct) (a_cfg s)) in
        split_block s (call || cond)
      else Ok s
  | EInt len => append_data s len
  | EStr len is_nul =>
      do x <- cur_sect s; do b <- cur_block x;
      let prev_ascii := match rev (as_blocks x) with
                        | _ :: pb :: _ => match aget (ab_id pb) (a_types s) with Some ty => Nat.eqb ty 2 | None => false end
                        | _ => false
                        end in
      if is_nul && (len =? 1) && (ab_size b =? 0) && prev_ascii then
        (* _try_terminate_previous_ascii_block *)
        match rev (as_blocks x) with
        | cb :: pb :: rest =>
            let pb' := mk_ablock (ab_id pb) (ab_off pb) (ab_size pb + 1) (ab_data pb) in
            let cb' := mk_ablock (ab_id cb) (ab_off cb + 1) (ab_size cb) (ab_data cb) in
            let s := put_sect s (mk_asect (as_name x) (as_exec x) (as_len x + 1) (rev rest ++ [pb'; cb']) (as_symex x) (as_sizes x) (as_align x)) in
            Ok (with_types s (aset (ab_id pb) 3%nat (a_types s)))
        | _ => Err AssertErr
        end
      else
        do s <- split_block s false;
        do s <- append_data s len;
        do x <- cur_sect s; do b <- cur_block x;
        split_block (with_types s (aset (ab_id b) 2%nat (a_types s))) false
  | EValue size e =>
      do x <- cur_sect s;
      do '(e', ig, s) <- to_sx t s e false;
      do s <- add_symex s (as_len x) e' size;
      append_data s size
  | ELeb e =>
      (* _emit_value_with_encoding: the value gets a block of its own *)
      do s <- split_block s false;
      do x <- cur_sect s;
      do '(e', ig, s) <- to_sx t s e false;
      do s <- add_symex s (as_len x) e' 1;
      do s <- append_data s 1;
      do x <- cur_sect s; do b <- cur_block x;
      split_block (with_types s (aset (ab_id b) 1%nat (a_types s))) false
  | EFill n => append_data s n
  | EAlign a =>
      do x <- cur_sect s; do b <- cur_block x;
      do s <- (if negb (ab_size b =? 0) then split_block s true else Ok s);
      do x <- cur_sect s; do b <- cur_block x;
      Ok (put_sect s (mk_asect (as_name x) (as_exec x) (as_len x) (as_blocks x) (as_symex x) (as_sizes x) (aset (ab_id b) a (as_align x))))
  end.

Definition run (t : atarget) (evs : list ev) (s : astate) : result astate :=
  fold_left (fun acc e => do s <- acc; step t false s e) evs (Ok s).

Definition init : astate := mk_astate [] None [] [] [] [] [] 0.

(* ---- finalize ---- *)
(* symbols that refer to a block *)
Definition retarget_syms (syms : list (nat * asym)) (old new : nat) (at_end : bool) : list (nat * asym) :=
  map (fun kv => match sy_ref (snd kv) with
                 | RBlock b => if Nat.eqb b old then (fst kv, mk_asym (sy_id (snd kv)) (RBlock new) (sy_at_end (snd kv) || at_end)) else kv
                 | _ => kv
                 end) syms.
Definition has_syms (syms : list (nat * asym)) (b : nat) : bool :=
  existsb (fun kv => match sy_ref (snd kv) with RBlock x => Nat.eqb x b | _ => false end) syms.

Definition remove_extra (s : astate) (extras : list nat) (main extra : nat) : astate :=
  let ins := filter (fun e => aref_eqb (ae_tgt e) (RBlock extra)) (a_cfg s) in
  let c := fold_left (fun c e => let c := cfg_discard e c in
                                 if negb (nmem (ae_src e) extras) then cfg_add (mk_aedge (ae_src e) (RBlock main) (ae_type e) (ae_cond e) (ae_direct e)) c else c)
                     ins (a_cfg s) in
  let c := filter (fun e => negb (Nat.eqb (ae_src e) extra)) c in
  mk_astate (a_sects s) (a_cur s) (retarget_syms (a_syms s) extra main false) c (a_code s) (a_types s) (a_proxies s) (a_next s).

(* itertools.groupby(section.blocks, key=offset): a maximal run of blocks at one offset is a group; its last block is the main
   block, the others (empty) are folded into it.  `extras` are the blocks of the current run seen so far. *)
Fixpoint remove_empty_go (s : astate) (al : list (nat * Z)) (bs : list ablock) (extras : list nat) : astate * list (nat * Z) * list ablock :=
  match bs with
  | [] => (s, al, [])
  | b :: t =>
      let same_as_next := match t with c :: _ => ab_off c =? ab_off b | [] => false end in
      if same_as_next then remove_empty_go s al t (extras ++ [ab_id b])
      else
        let s := fold_left (fun s e => remove_extra s extras (ab_id b) e) extras s in
        let maxa := fold_left (fun m e => match aget e al with Some a => Z.max m a | None => m end) extras
                              (match aget (ab_id b) al with Some a => a | None => 0 end) in
        let al := fold_left (fun al e => adel e al) extras al in
        let al := if maxa =? 0 then al else aset (ab_id b) maxa al in
        let '(s, al, out) := remove_empty_go s al t [] in
        (s, al, b :: out)
  end.

Definition remove_empty_blocks (s : astate) (x : asect) : astate * asect :=
  let '(s, al, out) := remove_empty_go s (as_align x) (as_blocks x) [] in
  (s, mk_asect (as_name x) (as_exec x) (as_len x) out (as_symex x) (as_sizes x) al).

Definition convert_data_blocks (t : atarget) (s : astate) (x : asect) : result (astate * asect) :=
  fold_left (fun acc ib =>
               do '(s, x) <- acc;
               let '(i, b) := ib in
               if negb (ab_size b =? 0) && negb (nmem (ab_id b) (a_code s)) &&
                  (negb (as_exec x) || negb (Nat.eqb i 0) || t_unreachable t) &&
                  negb (existsb (fun e => aref_eqb (ae_tgt e) (RBlock (ab_id b))) (a_cfg s))
               then
                 let c := filter (fun e => negb (Nat.eqb (ae_src e) (ab_id b))) (a_cfg s) in
                 Ok (with_cfg s c,
                     mk_asect (as_name x) (as_exec x) (as_len x)
                              (map (fun y => if Nat.eqb (ab_id y) (ab_id b) then mk_ablock (ab_id b) (ab_off b) (ab_size b) true else y) (as_blocks x))
                              (as_symex x) (as_sizes x) (as_align x))
               else match aget (ab_id b) (a_types s) with
                    | Some 1%nat => Err UnsupportedErr
                    | _ => Ok (s, x)
                    end)
            (combine (seq 0 (List.length (as_blocks x))) (as_blocks x)) (Ok (s, x)).

Definition remove_trailing_empty (s : astate) (x : asect) : astate * asect :=
  match rev (as_blocks x) with
  | last :: rest =>
      let is_empty := ab_size last =? 0 in
      let reachable := negb (ab_data last) && existsb (fun e => aref_eqb (ae_tgt e) (RBlock (ab_id last))) (a_cfg s) in
      let referenced := has_syms (a_syms s) (ab_id last) in
      let drop := mk_asect (as_name x) (as_exec x) (as_len x) (rev rest) (as_symex x) (as_sizes x) (adel (ab_id last) (as_align x)) in
      if is_empty && negb reachable && negb referenced then (s, drop)
      else if is_empty && negb reachable then
        match rest with
        | prev :: _ => (with_syms s (retarget_syms (a_syms s) (ab_id last) (ab_id prev) true), drop)
        | [] => (s, x)
        end
      else (s, x)
  | [] => (s, x)
  end.

Definition finalize (t : atarget) (s : astate) : result astate :=
  fold_left (fun acc name =>
               do s <- acc;
               match find_sect s name with
               | None => Ok s
               | Some x =>
                   let '(s, x) := remove_empty_blocks s x in
                   do '(s, x) <- convert_data_blocks t s x;
                   let '(s, x) := remove_trailing_empty s x in
                   Ok (put_sect s x)
               end)
            (map as_name (a_sects s)) (Ok s).

Definition assemble (t : atarget) (evs : list ev) : result astate := do s <- run t evs init; finalize t s.

(* the section in which a name defined by the assembly lies (observation used by Properties/C13.v) *)
Definition section_of_label (s : astate) (name : nat) : option nat :=
  match find (fun kv => Nat.eqb (fst kv) name) (a_syms s) with
  | Some (_, y) => match sy_ref y with
                   | RBlock b => option_map as_name (find (fun x => existsb (fun k => Nat.eqb (ab_id k) b) (as_blocks x)) (a_sects s))
                   | _ => None
                   end
  | None => None
  end.
