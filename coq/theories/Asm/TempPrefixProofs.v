From Coq Require Import String Ascii List Bool Arith.
From GR Require Import Asm.TempPrefix.
Import ListNotations.
Open Scope string_scope.

Lemma prefix_app : forall p s, prefix p (p ++ s) = true.
Proof.
  induction p as [|a p IH]; intros s; cbn.
  - destruct s; reflexivity.
  - destruct (ascii_dec a a) as [_|N]; [apply IH|exfalso; apply N; reflexivity].
Qed.

(* a label made by InsertionContext.temporary_label is one the assembler's back end treats as temporary, for every ABI *)
Theorem temporary_label_is_temporary : forall isa fmt name,
  supported isa fmt = true -> mc_is_temporary isa fmt (temporary_label isa fmt name) = true.
Proof.
  intros isa fmt name S. unfold mc_is_temporary, temporary_label, mc_private_prefix, abi_temporary_label_prefix.
  destruct (Nat.eqb isa T_MIPS32) eqn:Em; [change ("$L" ++ name) with ("$" ++ ("L" ++ name)); apply prefix_app|].
  destruct (Nat.eqb isa T_IA32) eqn:Ei; cbn [andb]; [|apply prefix_app].
  destruct (Nat.eqb fmt T_PE) eqn:Ef; [apply prefix_app|].
  exfalso. apply Nat.eqb_eq in Ei. subst isa. unfold supported in S. rewrite Ef in S. cbn in S. discriminate S.
Qed.

Lemma append_inj : forall l s1 s2, l ++ s1 = l ++ s2 -> s1 = s2.
Proof.
  induction l as [|c l IH]; intros s1 s2 H; cbn in H; [exact H|]. injection H as H. exact (IH _ _ H).
Qed.

(* two insertions with different suffixes give a temporary label two different names *)
Theorem suffixed_names_differ : forall isa fmt label s1 s2,
  mc_is_temporary isa fmt label = true -> s1 <> s2 -> symbol_name isa fmt label s1 <> symbol_name isa fmt label s2.
Proof.
  intros isa fmt label s1 s2 T N E. unfold symbol_name in E. rewrite T in E. exact (N (append_inj _ _ _ E)).
Qed.

Theorem temporary_label_copies_never_clash : forall isa fmt name s1 s2,
  supported isa fmt = true -> s1 <> s2 ->
  symbol_name isa fmt (temporary_label isa fmt name) s1 <> symbol_name isa fmt (temporary_label isa fmt name) s2.
Proof.
  intros isa fmt name s1 s2 S N. apply suffixed_names_differ; [apply temporary_label_is_temporary; exact S|exact N].
Qed.

(* a label that is not temporary keeps its name whatever the suffix: inserting it twice defines one name twice *)
Theorem other_labels_keep_their_name : forall isa fmt label s1 s2,
  mc_is_temporary isa fmt label = false -> symbol_name isa fmt label s1 = symbol_name isa fmt label s2.
Proof. intros isa fmt label s1 s2 T. unfold symbol_name. rewrite T. reflexivity. Qed.

(* the prefix this repository handed out for MIPS before the repair (".L") is not temporary for the MIPS o32 back end *)
Example dot_L_is_not_temporary_on_mips : mc_is_temporary T_MIPS32 T_ELF (".L" ++ "x") = false.
Proof. reflexivity. Qed.
