(* Assembler.Result.create_ir() (assembler/_create_gtirb.py): what the module-wide tables of the IR hold.  Every section of the
   result becomes a section with ONE byte interval; the module's symbolicExpressionSizes is keyed by (that interval, offset), its
   alignment table by block.  A section is named by the nat the streamer model gives it (as_name), which stands for its interval. *)
From Coq Require Import List Bool Arith ZArith Lia.
From GR Require Import Base.Result IR.State Asm.Model.
Import ListNotations.

Definition ir_sizes (s : astate) : list ((nat * Z) * Z) :=
  flat_map (fun x => map (fun pz => ((as_name x, fst pz), snd pz)) (as_sizes x)) (a_sects s).

Definition ir_alignment (s : astate) : list (nat * Z) := flat_map as_align (a_sects s).

Definition ir_symex_at (s : astate) (sect : nat) : list Z :=
  match find_sect s sect with Some x => map fst (as_symex x) | None => [] end.

(* ---- proofs ---- *)
Lemma ir_sizes_In s n o z :
  In ((n, o), z) (ir_sizes s) <-> exists x, In x (a_sects s) /\ as_name x = n /\ In (o, z) (as_sizes x).
Proof.
  unfold ir_sizes. rewrite in_flat_map. split.
  - intros (x & Hx & H). apply in_map_iff in H as ([o' z'] & E & Hin). cbn [fst snd] in E. injection E as <- <- <-.
    exists x. auto.
  - intros (x & Hx & <- & Hin). exists x. split; [exact Hx|]. apply in_map_iff. exists (o, z). auto.
Qed.

(* with distinct section names (the streamer keeps one asect per name): the entries recorded against a section's interval are
   exactly that section's own operand sizes -- nothing of another section, nothing missing *)
Theorem ir_sizes_per_section s x o z :
  NoDup (map as_name (a_sects s)) -> In x (a_sects s) ->
  (In ((as_name x, o), z) (ir_sizes s) <-> In (o, z) (as_sizes x)).
Proof.
  intros ND Hx. rewrite ir_sizes_In. split.
  - intros (y & Hy & E & Hin).
    assert (y = x); [|subst; exact Hin].
    clear Hin. revert ND Hx Hy E. generalize (a_sects s). induction l as [|a l IH]; intros ND Hx Hy E; [destruct Hx|].
    cbn [map] in ND. inversion ND as [|? ? Hn ND']; subst.
    destruct Hx as [<-|Hx], Hy as [<-|Hy]; [reflexivity| | |apply IH; assumption].
    + exfalso. apply Hn. rewrite <- E. apply in_map. exact Hy.
    + exfalso. apply Hn. rewrite E. apply in_map. exact Hx.
  - intros Hin. exists x. auto.
Qed.

(* no entry is recorded against anything but the interval of a section of the result *)
Theorem ir_sizes_only_sections s n o z : In ((n, o), z) (ir_sizes s) -> In n (map as_name (a_sects s)).
Proof. rewrite ir_sizes_In. intros (x & Hx & <- & _). apply in_map. exact Hx. Qed.

(* as many entries as the sections have operands *)
Theorem ir_sizes_length s : length (ir_sizes s) = fold_right (fun x n => length (as_sizes x) + n)%nat 0%nat (a_sects s).
Proof.
  unfold ir_sizes. induction (a_sects s) as [|x l IH]; [reflexivity|].
  cbn [flat_map fold_right]. rewrite app_length, map_length, IH. reflexivity.
Qed.

Theorem ir_alignment_In s b a : In (b, a) (ir_alignment s) <-> exists x, In x (a_sects s) /\ In (b, a) (as_align x).
Proof. unfold ir_alignment. rewrite in_flat_map. reflexivity. Qed.
