(* CallPatch: arguments where the convention wants them, call executed aligned, stack-neutral. *)
From Coq Require Import ZArith List Bool Arith Lia ZifyBool.
From GR Require Import Base.Result Gen.CallsGen Calls.Model.
Import ListNotations.
Open Scope Z_scope.

(* ---- the generated align_address kernel ---- *)
Lemma land_mpow x k : 0 <= k -> Z.land x (- 2 ^ k) = 2 ^ k * (x / 2 ^ k).
Proof.
  intros Hk. replace (- 2 ^ k) with (Z.lnot (Z.ones k)) by (rewrite Z.ones_equiv; unfold Z.lnot; lia).
  rewrite <- Z.ldiff_land, Z.ldiff_ones_r by lia. rewrite Z.shiftr_div_pow2, Z.shiftl_mul_pow2 by lia. lia.
Qed.

Theorem align_address_spec : forall x k, 0 <= k ->
  let r := align_address x (2 ^ k) in r mod 2 ^ k = 0 /\ x <= r < x + 2 ^ k.
Proof.
  intros x k Hk r. unfold r, align_address. rewrite land_mpow by exact Hk.
  assert (Hp : 0 < 2 ^ k) by (apply Z.pow_pos_nonneg; lia).
  split.
  - rewrite Z.mul_comm. apply Z.mod_mul. lia.
  - pose proof (Z.div_mod (x + 2 ^ k - 1) (2 ^ k) ltac:(lia)) as Hd.
    pose proof (Z.mod_pos_bound (x + 2 ^ k - 1) (2 ^ k) Hp). lia.
Qed.

(* ---- argument assignment ---- *)
Lemma passed_args_length regs args : length (passed_args regs args) = length args.
Proof. revert regs. induction args as [|a t IH]; intros [|r rs]; cbn [passed_args length]; auto. Qed.

Lemma passed_args_nil args : passed_args [] args = map (fun a => (a, None)) args.
Proof. induction args as [|a t IH]; cbn; [reflexivity|]. rewrite IH. reflexivity. Qed.

(* the register arguments are a prefix: passed = zip of the first arguments with registers ++ stack arguments *)
Lemma passed_args_split regs args :
  passed_args regs args =
  map (fun ar => (fst ar, Some (snd ar))) (combine args regs) ++
  map (fun a => (a, None)) (skipn (length regs) args).
Proof.
  revert regs. induction args as [|a t IH]; intros [|r rs]; cbn [passed_args combine map app skipn length]; try reflexivity.
  - rewrite passed_args_nil. reflexivity.
  - rewrite IH. reflexivity.
Qed.

Section X86.
  Variable W : Z.
  Hypothesis Wpos : 0 < W.
  Variable sym_addr sym_word : nat -> Z.

  Definition emit (p : argv * option nat) : cinsn :=
    match p with
    | (AInt v, Some r) => MovImm r v
    | (ASym s, Some r) => MovMem r s
    | (AInt v, None) => PushImm v
    | (ASym s, None) => PushMem s
    end.

  (* value an argument denotes when it is placed *)
  Definition denotes (a : argv) : Z := match a with AInt v => v | ASym s => sym_word s end.

  Notation crun pops := (crun W sym_addr sym_word pops).

  (* pushing the stack arguments, last first: they end up in order at the new sp *)
  Lemma run_pushes : forall (l : list argv) pops s,
    let s' := crun pops (map (fun a => emit (a, None)) (rev l)) s in
    csp s' = csp s - W * Z.of_nat (length l) /\ cr s' = cr s /\ called s' = called s /\
    (forall j, (j < length l)%nat -> cmem s' (csp s' + W * Z.of_nat j) = denotes (nth j l (AInt 0))) /\
    (forall a, csp s <= a -> cmem s' a = cmem s a).
  Proof.
    induction l as [|x t IH]; intros pops s s'.
    - cbn in s'. subst s'. cbn [length]. split; [lia|]. split; [reflexivity|]. split; [reflexivity|]. split; [intros j Hj; cbn in Hj; lia|reflexivity].
    - unfold s'. cbn [rev]. rewrite map_app. unfold Model.crun. rewrite fold_left_app.
      fold (crun pops (map (fun a => emit (a, None)) (rev t)) s).
      destruct (IH pops s) as (I1 & I2 & I3 & I4 & I5).
      set (s1 := crun pops (map (fun a => emit (a, None)) (rev t)) s) in *.
      cbn [map fold_left length].
      assert (Hstep : forall st, let st' := cstep W sym_addr sym_word pops st (emit (x, None)) in
                csp st' = csp st - W /\ cr st' = cr st /\ called st' = called st /\
                cmem st' = setm (cmem st) (csp st - W) (denotes x)).
      { intros st. destruct x; cbn; auto. }
      destruct (Hstep s1) as (S1 & S2 & S3 & S4). rewrite S1, S2, S3, S4, I1, I2, I3.
      rewrite Nat2Z.inj_succ. repeat split; try lia.
      + intros j Hj. unfold setm. destruct j as [|j]; cbn [nth].
        * replace (csp s - W * Z.of_nat (length t) - W + W * Z.of_nat 0) with (csp s - W * Z.of_nat (length t) - W) by lia.
          rewrite Z.eqb_refl. reflexivity.
        * destruct (_ =? _) eqn:E; [lia|]. rewrite <- (I4 j ltac:(lia)). f_equal. rewrite I1. lia.
      + intros a Ha. unfold setm. destruct (_ =? _) eqn:E; [lia|]. apply I5. exact Ha.
  Qed.

  (* the register moves, last first: every register holds its argument (registers pairwise distinct) *)
  Lemma run_movs : forall (l : list (argv * nat)) pops s,
    NoDup (map snd l) ->
    let s' := crun pops (map (fun ar => emit (fst ar, Some (snd ar))) (rev l)) s in
    csp s' = csp s /\ cmem s' = cmem s /\ called s' = called s /\
    (forall a r, In (a, r) l -> cr s' r = denotes a).
  Proof.
    induction l as [|[a0 r0] t IH]; intros pops s Hn s'.
    - cbn in s'. subst s'. repeat split. intros a r [].
    - cbn [map snd] in Hn. inversion Hn as [|? ? Hr0 Hn']; subst.
      unfold s'. cbn [rev]. rewrite map_app. unfold Model.crun. rewrite fold_left_app.
      fold (crun pops (map (fun ar => emit (fst ar, Some (snd ar))) (rev t)) s).
      destruct (IH pops s Hn') as (I1 & I2 & I3 & I4).
      set (s1 := crun pops (map (fun ar => emit (fst ar, Some (snd ar))) (rev t)) s) in *.
      cbn [map fold_left fst snd].
      assert (Hstep : forall st, let st' := cstep W sym_addr sym_word pops st (emit (a0, Some r0)) in
                csp st' = csp st /\ cmem st' = cmem st /\ called st' = called st /\ cr st' = setr (cr st) r0 (denotes a0)).
      { intros st. destruct a0; cbn; auto. }
      destruct (Hstep s1) as (S1 & S2 & S3 & S4). rewrite S1, S2, S3, S4, I1, I2, I3. repeat split.
      intros a r [H|H].
      + injection H as <- <-. unfold setr. rewrite Nat.eqb_refl. reflexivity.
      + unfold setr. destruct (Nat.eqb r r0) eqn:E.
        * apply Nat.eqb_eq in E. subst. exfalso. apply Hr0. apply in_map_iff. exists (a, r0). auto.
        * apply I4. exact H.
  Qed.

  Lemma filter_stack_split regs args :
    filter is_stack (passed_args regs args) = map (fun a => (a, None)) (skipn (length regs) args).
  Proof.
    rewrite passed_args_split, filter_app.
    assert (H1 : filter is_stack (map (fun ar : argv * nat => (fst ar, Some (snd ar))) (combine args regs)) = []).
    { induction (combine args regs) as [|x t IH]; cbn; [reflexivity|exact IH]. }
    assert (H2 : forall l : list argv, filter is_stack (map (fun a => (a, None)) l) = map (fun a => (a, None)) l).
    { induction l as [|x t IH]; cbn; [reflexivity|]. rewrite IH. reflexivity. }
    rewrite H1, H2. reflexivity.
  Qed.

  Lemma call_x86_emit cv callee args adj :
    call_x86 W cv callee args adj =
    (let pa := passed_args (cregs cv) args in
     let arg_stack_size := W * Z.of_nat (length (filter is_stack pa)) in
     let total := (match adj with Some a => a + arg_stack_size | None => arg_stack_size end) + shadow cv in
     let padding := align_address total (calign cv) - total in
     (if padding =? 0 then [] else [SubSp padding]) ++ map emit (rev pa) ++
     (if shadow cv =? 0 then [] else [SubSp (shadow cv)]) ++ [Call callee] ++
     (let cleanup := shadow cv + padding + (if caller_cleanup cv then arg_stack_size else 0) in
      if cleanup =? 0 then [] else [AddSp cleanup])).
  Proof. reflexivity. Qed.

  (* ---- the theorem: any convention, any arguments, any reported adjustment ---- *)
  Theorem x86_call_spec : forall cv callee args adj k s0,
    calign cv = 2 ^ k -> 0 <= k -> NoDup (cregs cv) ->
    (* the callee removes its stack arguments itself iff the convention says so *)
    let stack_args := skipn (length (cregs cv)) args in
    let pops := if caller_cleanup cv then 0 else W * Z.of_nat (length stack_args) in
    let s1 := crun pops (call_x86 W cv callee args adj) s0 in
    (* aligned starting point: sp0 + adjustment is a multiple of the alignment *)
    (csp s0 + match adj with Some a => a | None => 0 end) mod 2 ^ k = 0 ->
    called s0 = None ->
    exists regs_at sp_at mem_at,
      called s1 = Some (callee, regs_at, sp_at, mem_at) /\
      (* i-th argument in the i-th register *)
      (forall a r, In (a, r) (combine args (cregs cv)) -> regs_at r = denotes a) /\
      (* remaining arguments on the stack, in order, above the shadow space *)
      (forall j, (j < length stack_args)%nat ->
         mem_at (sp_at + shadow cv + W * Z.of_nat j) = denotes (nth j stack_args (AInt 0))) /\
      (* the call is executed with an aligned stack pointer *)
      sp_at mod 2 ^ k = 0 /\
      (* and afterwards the stack pointer is where the patch found it *)
      csp s1 = csp s0.
  Proof.
    intros cv callee args adj k s0 Hal Hk Hnd stack_args pops s1 Hbase Hnc.
    unfold s1. rewrite call_x86_emit. cbn zeta. rewrite filter_stack_split, map_length. fold stack_args.
    set (nst := Z.of_nat (length stack_args)) in *.
    set (total := match adj with Some a => a + W * nst | None => W * nst end + shadow cv).
    rewrite Hal. destruct (align_address_spec total k Hk) as [Ha1 Ha2].
    set (padding := align_address total (2 ^ k) - total) in *.
    (* split the argument loop into pushes then moves *)
    rewrite passed_args_split, rev_app_distr, map_app.
    assert (Hpush : map emit (rev (map (fun a : argv => (a, None)) stack_args)) = map (fun a => emit (a, None)) (rev stack_args)).
    { rewrite <- map_rev, map_map. reflexivity. }
    assert (Hmov : map emit (rev (map (fun ar : argv * nat => (fst ar, Some (snd ar))) (combine args (cregs cv)))) =
                   map (fun ar => emit (fst ar, Some (snd ar))) (rev (combine args (cregs cv)))).
    { rewrite <- map_rev, map_map. reflexivity. }
    fold stack_args. rewrite Hpush, Hmov.
    unfold Model.crun. rewrite !fold_left_app.
    (* step 1: padding *)
    set (sA := fold_left (cstep W sym_addr sym_word pops) (if padding =? 0 then [] else [SubSp padding]) s0).
    assert (HA : csp sA = csp s0 - padding /\ cr sA = cr s0 /\ cmem sA = cmem s0 /\ called sA = None).
    { unfold sA. destruct (padding =? 0) eqn:E; cbn; repeat split; try assumption; lia. }
    destruct HA as (A1 & A2 & A3 & A4).
    (* step 2: pushes *)
    destruct (run_pushes stack_args pops sA) as (P1 & P2 & P3 & P4 & P5). unfold Model.crun in P1, P2, P3, P4, P5.
    set (sB := fold_left (cstep W sym_addr sym_word pops) (map (fun a => emit (a, None)) (rev stack_args)) sA) in *.
    (* step 3: moves *)
    assert (Hnd' : NoDup (map snd (combine args (cregs cv)))).
    { clear - Hnd. revert args. induction (cregs cv) as [|r rs IH]; intros [|a t]; cbn; try constructor.
      - inversion Hnd; subst. intros Hc. apply in_map_iff in Hc as ([a' r'] & E & Hin). cbn in E. subst.
        apply in_combine_r in Hin. contradiction.
      - inversion Hnd; subst. apply IH. assumption. }
    destruct (run_movs (combine args (cregs cv)) pops sB Hnd') as (M1 & M2 & M3 & M4). unfold Model.crun in M1, M2, M3, M4.
    set (sC := fold_left (cstep W sym_addr sym_word pops) (map (fun ar => emit (fst ar, Some (snd ar))) (rev (combine args (cregs cv)))) sB) in *.
    (* step 4: shadow space *)
    set (sD := fold_left (cstep W sym_addr sym_word pops) (if shadow cv =? 0 then [] else [SubSp (shadow cv)]) sC).
    assert (HD : csp sD = csp sC - shadow cv /\ cr sD = cr sC /\ cmem sD = cmem sC /\ called sD = called sC).
    { unfold sD. destruct (shadow cv =? 0) eqn:E; cbn; repeat split; lia. }
    destruct HD as (D1 & D2 & D3 & D4).
    (* step 5: the call, then the cleanup *)
    cbn [fold_left cstep].
    set (cleanup := shadow cv + padding + (if caller_cleanup cv then W * nst else 0)).
    set (sE := mk_cstate (cr sD) (csp sD + pops) (cmem sD) (Some (callee, cr sD, csp sD, cmem sD))).
    assert (HF : let sF := fold_left (cstep W sym_addr sym_word pops) (if cleanup =? 0 then [] else [AddSp cleanup]) sE in
                 csp sF = csp sE + cleanup /\ called sF = called sE).
    { destruct (cleanup =? 0) eqn:E; cbn; split; try reflexivity; lia. }
    destruct HF as (F1 & F2). fold sE. rewrite F2.
    exists (cr sD), (csp sD), (cmem sD). split; [reflexivity|].
    assert (HspD : csp sD = csp s0 - padding - W * nst - shadow cv) by (rewrite D1, M1, P1, A1; unfold nst; lia).
    split; [|split; [|split]].
    - intros a r Hin. rewrite D2. apply M4. exact Hin.
    - intros j Hj. rewrite D3, M2. rewrite <- (P4 j Hj). f_equal. rewrite D1, M1. lia.
    - (* alignment at the call *)
      rewrite HspD. unfold padding, total in *.
      destruct adj as [a|].
      + replace (csp s0 - (align_address (a + W * nst + shadow cv) (2 ^ k) - (a + W * nst + shadow cv)) - W * nst - shadow cv)
          with ((csp s0 + a) - align_address (a + W * nst + shadow cv) (2 ^ k)) by lia.
        rewrite Zminus_mod, Hbase, Ha1. reflexivity.
      + rewrite Z.add_0_r in Hbase.
        replace (csp s0 - (align_address (W * nst + shadow cv) (2 ^ k) - (W * nst + shadow cv)) - W * nst - shadow cv)
          with (csp s0 - align_address (W * nst + shadow cv) (2 ^ k)) by lia.
        rewrite Zminus_mod, Hbase, Ha1. reflexivity.
    - (* stack neutrality *)
      rewrite F1. unfold sE. cbn [csp]. rewrite HspD. unfold cleanup, pops, nst. destruct (caller_cleanup cv); lia.
  Qed.
End X86.

(* ---- ARM64 ---- *)
Section A64.
  Variable sym_addr sym_word : nat -> Z.
  Notation crun := (crun 8 sym_addr sym_word 0).
  Notation cstep := (cstep 8 sym_addr sym_word 0).

  Definition a64_denotes (a : argv) : Z := match a with AInt v => v | ASym s => sym_addr s end.

  Lemma land_ffff x : Z.land x 65535 = x mod 65536.
  Proof. change 65535 with (Z.ones 16). rewrite Z.land_ones by lia. reflexivity. Qed.

  (* movz / movk chunks rebuild the 64-bit value *)
  Lemma chunks_sum v : 0 <= v < 2 ^ 64 ->
    v mod 65536 + 65536 * ((v / 65536) mod 65536) + 4294967296 * ((v / 4294967296) mod 65536)
    + 281474976710656 * ((v / 281474976710656) mod 65536) = v.
  Proof.
    intros Hv. change (2 ^ 64) with 18446744073709551616 in Hv.
    pose proof (Z.div_mod v 65536 ltac:(lia)). pose proof (Z.mod_pos_bound v 65536 ltac:(lia)).
    pose proof (Z.div_mod (v / 65536) 65536 ltac:(lia)). pose proof (Z.mod_pos_bound (v / 65536) 65536 ltac:(lia)).
    pose proof (Z.div_mod (v / 65536 / 65536) 65536 ltac:(lia)). pose proof (Z.mod_pos_bound (v / 65536 / 65536) 65536 ltac:(lia)).
    rewrite Z.div_div in * by lia. change (65536 * 65536) with 4294967296 in *.
    pose proof (Z.div_mod (v / 4294967296 / 65536) 65536 ltac:(lia)).
    rewrite Z.div_div in * by lia. change (4294967296 * 65536) with 281474976710656 in *.
    assert (v / 281474976710656 < 65536) by (apply Z.div_lt_upper_bound; lia).
    assert (0 <= v / 281474976710656) by (apply Z.div_pos; lia).
    rewrite (Z.mod_small (v / 281474976710656) 65536) by lia. lia.
  Qed.

  Lemma movk_step s r c sh : 0 <= sh -> 0 <= cr s r < 2 ^ sh ->
    cr (cstep s (Movk r c sh)) r = cr s r + c * 2 ^ sh.
  Proof.
    intros Hsh Hr. cbn. unfold setr. rewrite Nat.eqb_refl.
    rewrite Z.shiftr_div_pow2 by lia. rewrite (Z.div_small (cr s r)) by lia.
    cbn [Z.land]. rewrite Z.shiftl_0_l, Z.shiftl_mul_pow2 by lia. lia.
  Qed.

  Lemma load_immediate_spec r v s : 0 <= v < 2 ^ 64 ->
    let s' := crun (load_immediate r v) s in
    cr s' r = v /\ (forall r', r' <> r -> cr s' r' = cr s r') /\ csp s' = csp s /\ cmem s' = cmem s /\ called s' = called s.
  Proof.
    intros Hv s'. unfold s', load_immediate.
    destruct ((-65535 <=? v) && (v <=? 65535)) eqn:E.
    - cbn. unfold setr. rewrite Nat.eqb_refl. repeat split. intros r' Hr'. destruct (Nat.eqb r' r) eqn:E2; [apply Nat.eqb_eq in E2; congruence|reflexivity].
    - unfold Model.crun. cbn [flat_map app]. rewrite !land_ffff, !Z.shiftr_div_pow2 by lia. change (2 ^ 0) with 1. rewrite Z.div_1_r.
      change (2 ^ 16) with 65536. change (2 ^ 32) with 4294967296. change (2 ^ 48) with 281474976710656.
      pose proof (chunks_sum v Hv) as Hsum.
      set (c0 := v mod 65536) in *. set (c1 := (v / 65536) mod 65536) in *.
      set (c2 := (v / 4294967296) mod 65536) in *. set (c3 := (v / 281474976710656) mod 65536) in *.
      assert (B0 : 0 <= c0 < 65536) by (apply Z.mod_pos_bound; lia).
      assert (B1 : 0 <= c1 < 65536) by (apply Z.mod_pos_bound; lia).
      assert (B2 : 0 <= c2 < 65536) by (apply Z.mod_pos_bound; lia).
      assert (B3 : 0 <= c3 < 65536) by (apply Z.mod_pos_bound; lia).
      (* a generic step: either the chunk is zero and nothing is emitted, or movk adds it *)
      assert (Hk : forall st c sh acc, 0 <= sh -> 0 <= acc < 2 ^ sh -> cr st r = acc ->
                let st' := fold_left cstep (if c =? 0 then [] else [Movk r c sh]) st in
                cr st' r = acc + c * 2 ^ sh /\ (forall r', r' <> r -> cr st' r' = cr st r') /\
                csp st' = csp st /\ cmem st' = cmem st /\ called st' = called st).
      { intros st c sh acc Hsh Hacc Hr. destruct (c =? 0) eqn:Ec.
        - cbn. assert (c = 0) by lia. subst c. repeat split; lia.
        - cbn [fold_left]. split; [rewrite movk_step by (rewrite ?Hr; lia); lia|].
          cbn. unfold setr. repeat split. intros r' Hr'. destruct (Nat.eqb r' r) eqn:E2; [apply Nat.eqb_eq in E2; congruence|reflexivity]. }
      cbn [fold_left]. rewrite !fold_left_app.
      set (sa := cstep s (Movz r c0)).
      assert (Ha : cr sa r = c0 /\ (forall r', r' <> r -> cr sa r' = cr s r') /\ csp sa = csp s /\ cmem sa = cmem s /\ called sa = called s).
      { unfold sa. cbn. unfold setr. rewrite Nat.eqb_refl. repeat split. intros r' Hr'. destruct (Nat.eqb r' r) eqn:E2; [apply Nat.eqb_eq in E2; congruence|reflexivity]. }
      destruct Ha as (A1 & A2 & A3 & A4 & A5).
      destruct (Hk sa c1 16 c0 ltac:(lia) ltac:(change (2 ^ 16) with 65536; lia) A1) as (K1 & K2 & K3 & K4 & K5).
      set (sb := fold_left cstep (if c1 =? 0 then [] else [Movk r c1 16]) sa) in *.
      change (2 ^ 16) with 65536 in K1.
      destruct (Hk sb c2 32 (c0 + c1 * 65536) ltac:(lia) ltac:(change (2 ^ 32) with 4294967296; lia) K1) as (L1 & L2 & L3 & L4 & L5).
      set (sc := fold_left cstep (if c2 =? 0 then [] else [Movk r c2 32]) sb) in *.
      change (2 ^ 32) with 4294967296 in L1.
      destruct (Hk sc c3 48 (c0 + c1 * 65536 + c2 * 4294967296) ltac:(lia) ltac:(change (2 ^ 48) with 281474976710656; lia) L1) as (M1 & M2 & M3 & M4 & M5).
      set (sd := fold_left cstep (if c3 =? 0 then [] else [Movk r c3 48]) sc) in *.
      change (2 ^ 48) with 281474976710656 in M1. cbn [fold_left].
      split; [lia|]. split; [intros r' Hr'; rewrite M2, L2, K2, A2 by exact Hr'; reflexivity|].
      split; [congruence|split; congruence].
  Qed.

  (* adrp + add :lo12: give the symbol's address *)
  Lemma load_symbol_spec r sy s : 0 <= sym_addr sy ->
    let s' := crun (load_symbol r sy) s in
    cr s' r = sym_addr sy /\ (forall r', r' <> r -> cr s' r' = cr s r') /\ csp s' = csp s /\ cmem s' = cmem s /\ called s' = called s.
  Proof.
    intros Ha s'. unfold s', load_symbol, Model.crun. cbn [fold_left Model.cstep cr csp cmem called]. unfold setr. rewrite !Nat.eqb_refl. split.
    - rewrite Z.shiftr_div_pow2, Z.shiftl_mul_pow2 by lia. change 4095 with (Z.ones 12). rewrite Z.land_ones by lia.
      pose proof (Z.div_mod (sym_addr sy) (2 ^ 12) ltac:(lia)). lia.
    - repeat split. intros r' Hr'. destruct (Nat.eqb r' r) eqn:E2; [apply Nat.eqb_eq in E2; congruence|reflexivity].
  Qed.

  (* the stack displacement of the ARM64 sequence is a multiple of 16 and is undone after the bl *)
  Theorem a64_stack_neutral : forall cv callee args,
    a64_accepts cv = Ok tt ->
    let n := Z.of_nat (length (filter is_stack (rev (passed_args (cregs cv) args)))) in
    let adj := align_address (n * 8) 16 in
    adj mod 16 = 0 /\ n * 8 <= adj /\
    call_a64 cv callee args =
      (if adj =? 0 then [] else [SubSp adj]) ++
      flat_map (fun ia => load_value X0 (fst (snd ia)) ++ [StrSlot X0 ((n - fst ia - 1) * 8)])
               (enumerate_z 0 (filter is_stack (rev (passed_args (cregs cv) args)))) ++
      flat_map (fun p => match snd p with Some r => load_value r (fst p) | None => [] end)
               (filter (fun p => negb (is_stack p)) (rev (passed_args (cregs cv) args))) ++
      [Bl callee] ++ (if adj =? 0 then [] else [AddSp adj]).
  Proof.
    intros cv callee args Hacc n adj. unfold a64_accepts in Hacc.
    destruct (negb (shadow cv =? 0)); [discriminate|]. destruct (negb (calign cv =? 16)) eqn:E; [discriminate|].
    assert (Hal : calign cv = 16) by lia.
    destruct (align_address_spec (n * 8) 4 ltac:(lia)) as [H1 H2]. change (2 ^ 4) with 16 in H1, H2.
    split; [exact H1|]. split; [unfold adj; lia|]. unfold call_a64. rewrite Hal. reflexivity.
  Qed.

  (* instructions that neither move sp nor call *)
  Definition quiet (i : cinsn) : bool :=
    match i with MovImm _ _ | MovMem _ _ | MovSmall _ _ | Movz _ _ | Movk _ _ _ | Adrp _ _ | AddLo12 _ _ | StrSlot _ _ => true | _ => false end.
  Lemma quiet_run l s : forallb quiet l = true -> csp (crun l s) = csp s /\ called (crun l s) = called s.
  Proof.
    revert s. induction l as [|i t IH]; intros s H; cbn [forallb] in H; [split; reflexivity|].
    apply andb_true_iff in H as [Hi Ht]. unfold Model.crun. cbn [fold_left]. fold (crun t (cstep s i)).
    destruct (IH (cstep s i) Ht) as [I1 I2]. rewrite I1, I2. destruct i; try discriminate; split; reflexivity.
  Qed.
  Lemma load_value_quiet r a : forallb quiet (load_value r a) = true.
  Proof.
    destruct a as [v|sy]; cbn [load_value]; [|reflexivity]. unfold load_immediate.
    destruct (_ && _); [reflexivity|]. cbn [forallb quiet flat_map app].
    repeat (destruct (_ =? 0); cbn [forallb quiet app]); reflexivity.
  Qed.
  Lemma flat_map_quiet {A} (f : A -> list cinsn) l : (forall x, forallb quiet (f x) = true) -> forallb quiet (flat_map f l) = true.
  Proof. intros H. induction l as [|x t IH]; cbn [flat_map]; [reflexivity|]. rewrite forallb_app, H, IH. reflexivity. Qed.

  (* the bl is executed with sp = sp0 - (multiple of 16); afterwards sp is back *)
  Theorem a64_call_sp : forall cv callee args s0,
    a64_accepts cv = Ok tt -> called s0 = None ->
    let n := Z.of_nat (length (filter is_stack (rev (passed_args (cregs cv) args)))) in
    let adj := align_address (n * 8) 16 in
    let s1 := crun (call_a64 cv callee args) s0 in
    adj mod 16 = 0 /\ csp s1 = csp s0 /\
    exists regs_at mem_at, called s1 = Some (callee, regs_at, csp s0 - adj, mem_at).
  Proof.
    intros cv callee args s0 Hacc Hnc n adj s1.
    destruct (a64_stack_neutral cv callee args Hacc) as (H16 & Hle & Heq). fold n adj in H16, Hle, Heq.
    split; [exact H16|]. unfold s1. rewrite Heq. unfold Model.crun. rewrite !fold_left_app.
    set (sA := fold_left cstep (if adj =? 0 then [] else [SubSp adj]) s0).
    assert (HA : csp sA = csp s0 - adj /\ called sA = None).
    { unfold sA. destruct (adj =? 0) eqn:E; cbn; split; try assumption; lia. }
    destruct HA as (A1 & A2).
    match goal with |- context[fold_left cstep (flat_map ?f ?l) sA] =>
      destruct (quiet_run (flat_map f l) sA) as (B1 & B2); [apply flat_map_quiet; intros [i [a o]]; cbn [fst snd]; rewrite forallb_app, load_value_quiet; reflexivity|];
      unfold Model.crun in B1, B2; set (sB := fold_left cstep (flat_map f l) sA) in * end.
    match goal with |- context[fold_left cstep (flat_map ?f ?l) sB] =>
      destruct (quiet_run (flat_map f l) sB) as (C1 & C2); [apply flat_map_quiet; intros [a [r|]]; cbn [fst snd]; [apply load_value_quiet|reflexivity]|];
      unfold Model.crun in C1, C2; set (sC := fold_left cstep (flat_map f l) sB) in * end.
    cbn [fold_left Model.cstep].
    set (sD := mk_cstate (cr sC) (csp sC + 0) (cmem sC) (Some (callee, cr sC, csp sC, cmem sC))).
    assert (HE : let sE := fold_left cstep (if adj =? 0 then [] else [AddSp adj]) sD in csp sE = csp sD + adj /\ called sE = called sD).
    { destruct (adj =? 0) eqn:E; cbn; split; try reflexivity; lia. }
    destruct HE as (E1 & E2). fold sD. rewrite E1, E2. unfold sD. cbn [csp called]. rewrite C1, B1, A1.
    split; [lia|]. eexists. eexists. reflexivity.
  Qed.
  (* ---- where the arguments are when the bl executes ---- *)
  Definition a64_wf (a : argv) : Prop := match a with AInt v => 0 <= v < 2 ^ 64 | ASym sy => 0 <= sym_addr sy end.

  Lemma load_value_spec r a s : a64_wf a ->
    let s' := crun (load_value r a) s in
    cr s' r = a64_denotes a /\ (forall r', r' <> r -> cr s' r' = cr s r') /\ csp s' = csp s /\ cmem s' = cmem s /\ called s' = called s.
  Proof.
    destruct a as [v|sy]; cbn [load_value a64_wf a64_denotes]; intros H; [apply load_immediate_spec|apply load_symbol_spec]; exact H.
  Qed.

  Lemma crun_app l1 l2 s : crun (l1 ++ l2) s = crun l2 (crun l1 s).
  Proof. unfold Model.crun. apply fold_left_app. Qed.

  (* the stack arguments: the i-th element of the list (numbered from k) is stored at [sp + (n - i - 1) * 8] through x0 *)
  Lemma stack_loop n : forall (l : list (argv * option nat)) k s,
    (forall a o, In (a, o) l -> a64_wf a) ->
    let s' := crun (flat_map (fun ia => load_value X0 (fst (snd ia)) ++ [StrSlot X0 ((n - fst ia - 1) * 8)]) (enumerate_z k l)) s in
    csp s' = csp s /\ called s' = called s /\
    (forall j a o, nth_error l j = Some (a, o) -> cmem s' (csp s + (n - (k + Z.of_nat j) - 1) * 8) = a64_denotes a) /\
    (forall addr, (forall j, (j < length l)%nat -> addr <> csp s + (n - (k + Z.of_nat j) - 1) * 8) -> cmem s' addr = cmem s addr) /\
    (forall r, r <> X0 -> cr s' r = cr s r).
  Proof.
    induction l as [|[a o] l IH]; intros k s Hwf; cbn [enumerate_z flat_map].
    - cbn. repeat split; try reflexivity. intros j a o Hj. destruct j; discriminate Hj.
    - cbn zeta. rewrite crun_app, crun_app. cbn [fst snd].
      destruct (load_value_spec X0 a s (Hwf a o (or_introl eq_refl))) as (L1 & L2 & L3 & L4 & L5).
      set (s1 := crun (load_value X0 a) s) in *.
      set (s2 := crun [StrSlot X0 ((n - k - 1) * 8)] s1).
      assert (S2 : csp s2 = csp s /\ called s2 = called s /\ cr s2 = cr s1 /\
                   cmem s2 = setm (cmem s) (csp s + (n - k - 1) * 8) (a64_denotes a)).
      { unfold s2. cbn. rewrite L3, L4, L5, L1. repeat split; reflexivity. }
      destruct S2 as (S21 & S22 & S23 & S24).
      destruct (IH (k + 1) s2 (fun a0 o0 H0 => Hwf a0 o0 (or_intror H0))) as (I1 & I2 & I3 & I4 & I5).
      fold s2. set (s3 := crun _ s2) in *.
      split; [rewrite I1; exact S21|]. split; [rewrite I2; exact S22|]. split; [|split].
      + intros j a0 o0 Hj. destruct j as [|j]; cbn [nth_error] in Hj.
        * injection Hj as <- <-. rewrite I4.
          -- rewrite S24. unfold setm. replace (k + Z.of_nat 0) with k by lia. rewrite Z.eqb_refl. reflexivity.
          -- intros j Hjl. rewrite S21. lia.
        * rewrite <- (I3 j a0 o0 Hj). rewrite S21. f_equal. lia.
      + intros addr Ha. rewrite I4.
        * rewrite S24. unfold setm. destruct (addr =? csp s + (n - k - 1) * 8) eqn:E; [|reflexivity].
          exfalso. apply (Ha 0%nat); [cbn; lia|]. apply Z.eqb_eq in E. rewrite E. lia.
        * intros j Hjl. rewrite S21. intros E. apply (Ha (S j)); [cbn [length]; lia|]. rewrite E. lia.
      + intros r Hr. rewrite I5 by exact Hr. rewrite S23. apply L2. exact Hr.
  Qed.

  (* the register arguments: every one ends up in its register (the registers are distinct) *)
  Lemma reg_loop : forall (l : list (argv * nat)) s,
    NoDup (map snd l) -> (forall a r, In (a, r) l -> a64_wf a) ->
    let s' := crun (flat_map (fun p : argv * option nat => match snd p with Some r => load_value r (fst p) | None => [] end)
                             (map (fun ar => (fst ar, Some (snd ar))) l)) s in
    csp s' = csp s /\ called s' = called s /\ cmem s' = cmem s /\
    (forall a r, In (a, r) l -> cr s' r = a64_denotes a) /\ (forall r, ~ In r (map snd l) -> cr s' r = cr s r).
  Proof.
    induction l as [|[a r] l IH]; intros s ND Hwf; cbn [map flat_map].
    - cbn. repeat split; try reflexivity. intros a r [].
    - cbn zeta. cbn [fst snd]. rewrite crun_app.
      destruct (load_value_spec r a s (Hwf a r (or_introl eq_refl))) as (L1 & L2 & L3 & L4 & L5).
      set (s1 := crun (load_value r a) s) in *.
      inversion ND as [|? ? Hnin ND']; subst.
      destruct (IH s1 ND' (fun a0 r0 H0 => Hwf a0 r0 (or_intror H0))) as (I1 & I2 & I3 & I4 & I5).
      set (s2 := crun _ s1) in *.
      split; [rewrite I1; exact L3|]. split; [rewrite I2; exact L5|]. split; [rewrite I3; exact L4|]. split.
      + intros a0 r0 [E|Hin]; [injection E as <- <-; rewrite I5 by exact Hnin; exact L1|exact (I4 a0 r0 Hin)].
      + intros r0 Hr0. cbn [map snd] in Hr0. rewrite I5 by (intros H; apply Hr0; right; exact H). apply L2. intros ->. apply Hr0. left. reflexivity.
  Qed.

  Lemma nth_error_skipn' {A} : forall k (l : list A) j, nth_error (skipn k l) j = nth_error l (k + j).
  Proof. induction k as [|k IH]; intros l j; [reflexivity|]. destruct l as [|x t]; [destruct j; reflexivity|]. cbn. apply IH. Qed.

  Lemma nth_error_rev' {A} : forall (l : list A) i, (i < length l)%nat -> nth_error (rev l) i = nth_error l (length l - S i).
  Proof.
    induction l as [|x t IH]; intros i Hi; cbn [length] in Hi; [lia|]. cbn [rev length].
    destruct (Nat.eq_dec i (length t)) as [->|Hne].
    - rewrite nth_error_app2 by (rewrite rev_length; lia). rewrite rev_length, Nat.sub_diag. replace (S (length t) - S (length t))%nat with 0%nat by lia. reflexivity.
    - rewrite nth_error_app1 by (rewrite rev_length; lia). rewrite IH by lia.
      replace (S (length t) - S i)%nat with (S (length t - S i)) by lia. reflexivity.
  Qed.

  Lemma filter_rev_split regs args :
    filter is_stack (rev (passed_args regs args)) = rev (map (fun a => (a, None)) (skipn (length regs) args)) /\
    filter (fun p => negb (is_stack p)) (rev (passed_args regs args)) = rev (map (fun ar => (fst ar, Some (snd ar))) (combine args regs)).
  Proof.
    rewrite passed_args_split, rev_app_distr, !filter_app.
    assert (A : forall l : list argv, filter is_stack (rev (map (fun a => (a, @None nat)) l)) = rev (map (fun a => (a, None)) l) /\
                                      filter (fun p => negb (is_stack p)) (rev (map (fun a => (a, @None nat)) l)) = []).
    { intros l. rewrite <- !map_rev. generalize (rev l). intros l0. induction l0 as [|x t [IH1 IH2]]; cbn; [tauto|]. rewrite IH1, IH2. tauto. }
    assert (B : forall l : list (argv * nat), filter is_stack (rev (map (fun ar => (fst ar, Some (snd ar))) l)) = [] /\
                  filter (fun p => negb (is_stack p)) (rev (map (fun ar => (fst ar, Some (snd ar))) l)) = rev (map (fun ar => (fst ar, Some (snd ar))) l)).
    { intros l. rewrite <- !map_rev. generalize (rev l). intros l0. induction l0 as [|x t [IH1 IH2]]; cbn; [tauto|]. rewrite IH1, IH2. tauto. }
    destruct (A (skipn (length regs) args)) as [A1 A2]. destruct (B (combine args regs)) as [B1 B2].
    rewrite A1, A2, B1, B2, app_nil_r. cbn [app]. tauto.
  Qed.

  (* at the bl: the i-th argument is in the i-th register of the convention while registers remain, the others are in the slots
     [sp], [sp + 8], ... in order; integer arguments with their exact value, symbol arguments as the symbol's address *)
  Theorem a64_arguments_at_the_call : forall cv callee args s0,
    a64_accepts cv = Ok tt -> NoDup (cregs cv) -> (forall a, In a args -> a64_wf a) ->
    let s1 := crun (call_a64 cv callee args) s0 in
    exists regs_at sp_at mem_at, called s1 = Some (callee, regs_at, sp_at, mem_at) /\
      (forall i a r, nth_error args i = Some a -> nth_error (cregs cv) i = Some r -> regs_at r = a64_denotes a) /\
      (forall j a, nth_error args (length (cregs cv) + j) = Some a -> mem_at (sp_at + 8 * Z.of_nat j) = a64_denotes a).
  Proof.
    intros cv callee args s0 Hacc ND Hwf s1.
    destruct (a64_stack_neutral cv callee args Hacc) as (H16 & Hle & Heq).
    destruct (filter_rev_split (cregs cv) args) as [Fs Fr].
    set (n := Z.of_nat (length (filter is_stack (rev (passed_args (cregs cv) args))))) in *.
    set (adj := align_address (n * 8) 16) in *.
    unfold s1. rewrite Heq, Fs, Fr. rewrite !crun_app.
    set (sA := crun (if adj =? 0 then [] else [SubSp adj]) s0).
    assert (HA : csp sA = csp s0 - adj). { unfold sA. destruct (adj =? 0) eqn:E; cbn; lia. }
    set (stk := rev (map (fun a => (a, @None nat)) (skipn (length (cregs cv)) args))).
    assert (Hn : n = Z.of_nat (length stk)). { unfold n. rewrite Fs. reflexivity. }
    destruct (stack_loop n stk 0 sA) as (B1 & B2 & B3 & B4 & B5).
    { intros a o Hin. unfold stk in Hin. apply in_rev, in_map_iff in Hin as (a0 & E & Hin). injection E as <- _.
      apply Hwf. rewrite <- (firstn_skipn (length (cregs cv)) args). apply in_or_app. right. exact Hin. }
    set (sB := crun _ sA) in *.
    rewrite <- map_rev.
    destruct (reg_loop (rev (combine args (cregs cv))) sB) as (C1 & C2 & C3 & C4 & C5).
    { rewrite map_rev. apply NoDup_rev. clear -ND. revert args. induction (cregs cv) as [|r rs IH]; intros [|a t]; cbn; try constructor.
      - inversion ND; subst. intros H. apply in_map_iff in H as ([a0 r0] & E & Hin). cbn in E. subst r0. apply in_combine_r in Hin. contradiction.
      - inversion ND; subst. apply IH. assumption. }
    { intros a r Hin. apply in_rev in Hin. apply in_combine_l in Hin. apply Hwf, Hin. }
    set (sC := crun _ sB) in *.
    set (sD := crun [Bl callee] sC).
    assert (HD : called sD = Some (callee, cr sC, csp sC, cmem sC)) by reflexivity.
    assert (HE : called (crun (if adj =? 0 then [] else [AddSp adj]) sD) = called sD).
    { destruct (adj =? 0); reflexivity. }
    exists (cr sC), (csp sC), (cmem sC). split; [rewrite HE; exact HD|]. split.
    - intros i a r Ha Hr. apply C4. apply -> in_rev.
      clear -Ha Hr. revert args i Ha Hr. induction (cregs cv) as [|r0 rs IH]; intros args i Ha Hr; [destruct i; discriminate Hr|].
      destruct args as [|a0 t]; [destruct i; discriminate Ha|]. destruct i as [|i]; cbn in *.
      + injection Ha as <-. injection Hr as <-. left. reflexivity.
      + right. eapply IH; eauto.
    - intros j a Ha. rewrite C3, C1, B1.
      assert (Hj : nth_error (skipn (length (cregs cv)) args) j = Some a).
      { rewrite nth_error_skipn'. exact Ha. }
      assert (Hlen : (j < length (skipn (length (cregs cv)) args))%nat) by (apply nth_error_Some; congruence).
      assert (Hstk : length stk = length (skipn (length (cregs cv)) args)) by (unfold stk; rewrite rev_length, map_length; reflexivity).
      (* position of the j-th stack argument in the reversed list *)
      specialize (B3 (length stk - 1 - j)%nat a None).
      rewrite <- B3.
      + f_equal. rewrite Hn. lia.
      + assert (Hl0 : (0 < length stk)%nat) by lia.
        unfold stk at 1. rewrite nth_error_rev' by (rewrite map_length; lia). rewrite map_length.
        replace (length (skipn (length (cregs cv)) args) - S (length stk - 1 - j))%nat with j by lia.
        rewrite nth_error_map, Hj. reflexivity.
  Qed.
End A64.

(* ---- encodability of the x86-64 patch ---- *)
Lemma x64_encodable_iff : forall cv callee args adj,
  forallb encodable_x64 (call_x86 8 cv callee args adj) = forallb arg_fits_x64 (passed_args (cregs cv) args).
Proof.
  intros cv callee args adj. unfold call_x86.
  set (pa := passed_args (cregs cv) args).
  rewrite !forallb_app.
  assert (Hm : forallb encodable_x64 (map (fun p : argv * option nat => match p with
                | (AInt v, Some r) => MovImm r v | (ASym s, Some r) => MovMem r s
                | (AInt v, None) => PushImm v | (ASym s, None) => PushMem s end) (rev pa)) = forallb arg_fits_x64 pa).
  { rewrite <- (rev_involutive pa) at 2. generalize (rev pa) as l. intros l.
    induction l as [|[a o] l IH]; [reflexivity|].
    cbn [map forallb rev]. rewrite forallb_app, IH. cbn [forallb]. rewrite andb_true_r, andb_comm.
    f_equal. destruct a, o; reflexivity. }
  rewrite Hm.
  repeat match goal with |- context [if ?c then _ else _] => destruct c end; cbn [forallb encodable_x64]; rewrite ?andb_true_r; reflexivity.
Qed.
