(* Hand model of patches/calls.py: _create_passed_args, _CallPatchX86.get_asm, _CallPatchARM64.get_asm,
   _load_immediate, _load_symbol; align_address is the generated kernel (Gen/CallsGen.v).
   Pinned to the source by translator/gen_calls.py.  Plus the small machine the emitted instruction
   forms run on.  No proofs here. *)
From Coq Require Import ZArith List Bool Arith.
From GR Require Import Base.Result Gen.CallsGen.
Import ListNotations.
Open Scope Z_scope.

Inductive argv := AInt (v : Z) | ASym (s : nat).

Record conv := mk_conv {
  cregs : list nat;          (* registers, in order *)
  calign : Z;                (* stack_alignment *)
  caller_cleanup : bool;
  shadow : Z                 (* shadow_space *)
}.

(* instruction forms, Intel syntax for x86 *)
Inductive cinsn :=
| SubSp (n : Z) | AddSp (n : Z)
| MovImm (r : nat) (v : Z)             (* mov reg, imm *)
| MovMem (r : nat) (s : nat)           (* mov reg, sym[rip]  /  mov reg, sym   : a LOAD from the symbol *)
| PushImm (v : Z)
| PushMem (s : nat)                    (* push sym[rip] / push sym : pushes the word stored at the symbol *)
| Call (s : nat)
(* ARM64 *)
| MovSmall (r : nat) (v : Z)           (* mov reg, #imm   (|imm| <= 0xFFFF) *)
| Movz (r : nat) (chunk : Z)
| Movk (r : nat) (chunk : Z) (sh : Z)
| Adrp (r : nat) (s : nat)
| AddLo12 (r : nat) (s : nat)
| StrSlot (r : nat) (slot : Z)         (* str reg, [sp, #slot] *)
| Bl (s : nat).

(* _create_passed_args: the i-th argument gets the i-th register while registers remain *)
Fixpoint passed_args (regs : list nat) (args : list argv) : list (argv * option nat) :=
  match args with
  | [] => []
  | a :: t => match regs with
              | r :: rs => (a, Some r) :: passed_args rs t
              | [] => (a, None) :: passed_args [] t
              end
  end.

Definition is_stack (p : argv * option nat) : bool := match snd p with None => true | Some _ => false end.

(* _CallPatchX86.get_asm; W = pointer_size(); adj = insertion_context.stack_adjustment *)
Definition call_x86 (W : Z) (cv : conv) (callee : nat) (args : list argv) (adj : option Z) : list cinsn :=
  let pa := passed_args (cregs cv) args in
  let arg_stack_size := W * Z.of_nat (length (filter is_stack pa)) in
  let total := (match adj with Some a => a + arg_stack_size | None => arg_stack_size end) + shadow cv in
  let padding := align_address total (calign cv) - total in
  (if padding =? 0 then [] else [SubSp padding]) ++
  map (fun p => match p with
                | (AInt v, Some r) => MovImm r v
                | (ASym s, Some r) => MovMem r s
                | (AInt v, None) => PushImm v
                | (ASym s, None) => PushMem s
                end) (rev pa) ++
  (if shadow cv =? 0 then [] else [SubSp (shadow cv)]) ++
  [Call callee] ++
  (let cleanup := shadow cv + padding + (if caller_cleanup cv then arg_stack_size else 0) in
   if cleanup =? 0 then [] else [AddSp cleanup]).

(* what the x86-64 instruction forms can encode: `push imm` takes a sign-extended 32-bit immediate only, `mov r64, imm` any 64-bit
   pattern.  The machine below pushes the integer itself, so C17_x86_call speaks about patches whose instructions are encodable;
   C17_x86_64_stack_argument_beyond_imm32_refuted shows the patch leaves that set (known finding). *)
Definition encodable_x64 (i : cinsn) : bool :=
  match i with
  | PushImm v => (- 2 ^ 31 <=? v) && (v <? 2 ^ 31)
  | MovImm _ v => (- 2 ^ 63 <=? v) && (v <? 2 ^ 64)
  | _ => true
  end.
Definition arg_fits_x64 (p : argv * option nat) : bool :=
  match p with
  | (AInt v, None) => (- 2 ^ 31 <=? v) && (v <? 2 ^ 31)
  | (AInt v, Some _) => (- 2 ^ 63 <=? v) && (v <? 2 ^ 64)
  | _ => true
  end.

(* _load_immediate *)
Definition load_immediate (r : nat) (v : Z) : list cinsn :=
  if (-65535 <=? v) && (v <=? 65535) then [MovSmall r v]
  else
    Movz r (Z.land (Z.shiftr v 0) 65535) ::
    flat_map (fun sh => let chunk := Z.land (Z.shiftr v sh) 65535 in
                        if chunk =? 0 then [] else [Movk r chunk sh]) [16; 32; 48].

Definition load_symbol (r : nat) (s : nat) : list cinsn := [Adrp r s; AddLo12 r s].
Definition load_value (r : nat) (a : argv) : list cinsn :=
  match a with AInt v => load_immediate r v | ASym s => load_symbol r s end.

Fixpoint enumerate_z {A} (i : Z) (l : list A) : list (Z * A) :=
  match l with [] => [] | x :: t => (i, x) :: enumerate_z (i + 1) t end.

Definition X0 : nat := 0.

(* _CallPatchARM64.get_asm *)
Definition call_a64 (cv : conv) (callee : nat) (args : list argv) : list cinsn :=
  let pa := rev (passed_args (cregs cv) args) in
  let stack_args := filter is_stack pa in
  let reg_args := filter (fun p => negb (is_stack p)) pa in
  let n := Z.of_nat (length stack_args) in
  let stack_adjustment := align_address (n * 8) (calign cv) in
  (if stack_adjustment =? 0 then [] else [SubSp stack_adjustment]) ++
  flat_map (fun ia => load_value X0 (fst (snd ia)) ++ [StrSlot X0 ((n - fst ia - 1) * 8)]) (enumerate_z 0 stack_args) ++
  flat_map (fun p => match snd p with Some r => load_value r (fst p) | None => [] end) reg_args ++
  [Bl callee] ++
  (if stack_adjustment =? 0 then [] else [AddSp stack_adjustment]).

(* CallPatchARM64.__init__ refusals *)
Definition a64_accepts (cv : conv) : result unit :=
  if negb (shadow cv =? 0) then Err ValueErr
  else if negb (calign cv =? 16) then Err ValueErr
  else if negb (caller_cleanup cv) then Err ValueErr
  else Ok tt.

(* ---- the machine: word-granular memory keyed by byte address (all accesses are sp-relative words) ---- *)
Record cstate := mk_cstate {
  cr : nat -> Z;              (* registers *)
  csp : Z;
  cmem : Z -> Z;              (* word stored at an address *)
  called : option (nat * (nat -> Z) * Z * (Z -> Z))   (* snapshot at the call: callee, registers, sp, memory *)
}.

Section Exec.
  Variable W : Z.                    (* slot size *)
  Variable sym_addr : nat -> Z.      (* address of a symbol *)
  Variable sym_word : nat -> Z.      (* word stored at a symbol *)
  Variable callee_pops : Z.          (* bytes of arguments the callee removes (callee cleanup), else 0 *)

  Definition setr (f : nat -> Z) (r : nat) (v : Z) : nat -> Z := fun x => if Nat.eqb x r then v else f x.
  Definition setm (m : Z -> Z) (a v : Z) : Z -> Z := fun x => if x =? a then v else m x.

  Definition cstep (s : cstate) (i : cinsn) : cstate :=
    match i with
    | SubSp n => mk_cstate (cr s) (csp s - n) (cmem s) (called s)
    | AddSp n => mk_cstate (cr s) (csp s + n) (cmem s) (called s)
    | MovImm r v | MovSmall r v => mk_cstate (setr (cr s) r v) (csp s) (cmem s) (called s)
    | MovMem r sy => mk_cstate (setr (cr s) r (sym_word sy)) (csp s) (cmem s) (called s)
    | PushImm v => mk_cstate (cr s) (csp s - W) (setm (cmem s) (csp s - W) v) (called s)
    | PushMem sy => mk_cstate (cr s) (csp s - W) (setm (cmem s) (csp s - W) (sym_word sy)) (called s)
    | Call f | Bl f =>
        (* the callee sees the state here; it returns with sp moved past what it pops *)
        mk_cstate (cr s) (csp s + callee_pops) (cmem s) (Some (f, cr s, csp s, cmem s))
    | Movz r c => mk_cstate (setr (cr s) r c) (csp s) (cmem s) (called s)
    | Movk r c sh =>
        let old := cr s r in
        let cleared := old - Z.shiftl (Z.land (Z.shiftr old sh) 65535) sh in
        mk_cstate (setr (cr s) r (cleared + Z.shiftl c sh)) (csp s) (cmem s) (called s)
    | Adrp r sy => mk_cstate (setr (cr s) r (Z.shiftl (Z.shiftr (sym_addr sy) 12) 12)) (csp s) (cmem s) (called s)
    | AddLo12 r sy => mk_cstate (setr (cr s) r (cr s r + Z.land (sym_addr sy) 4095)) (csp s) (cmem s) (called s)
    | StrSlot r slot => mk_cstate (cr s) (csp s) (setm (cmem s) (csp s + slot) (cr s r)) (called s)
    end.

  Definition crun (l : list cinsn) (s : cstate) : cstate := fold_left cstep l s.
End Exec.
