#!/bin/bash
# Applies every seeded change to /repo in turn, runs the property's quick check, records the outcome, undoes the change.
# usage: ./tools_run_seeded.sh [ids...]
cd /verif
# the evidence files are rewritten by every run: keep the ones of the unchanged tree
KEEP=${KEEP:-/tmp/.evidence_keep}; rm -rf $KEEP && cp -r evidence $KEEP
trap 'cp $KEEP/*.json /verif/evidence/ 2>/dev/null; rm -rf $KEEP' EXIT
for d in seeded/C*-*/; do
  id=$(basename $d); prop=${id%%-*}
  if [ $# -gt 0 ] && [[ ! " $* " =~ " $prop " ]] && [[ ! " $* " =~ " $id " ]]; then continue; fi
  git -C /repo diff --quiet || { echo "/repo is dirty, refusing"; exit 2; }
  git -C /repo apply /verif/$d/patch.diff || { echo "$id: patch does not apply"; continue; }
  out=$(./check $prop quick 2>&1 | grep -E "^VIOLATION|^$prop quick" | tr '\n' ' ')
  git -C /repo checkout -- .
  mkdir -p seeded/results; echo "$out" > seeded/results/$id.txt
  echo "$id: $out"
done
