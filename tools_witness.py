"""Witness generator for coq/theories/IR/FindingsGen.v: runs the implementation on a corpus case (corpus/<id>/*.json), takes the model input
line the correspondence run would hand to the extracted model ("ir ...", see ocaml/ir_main.ml read_case) and prints it as Coq terms (state
and work list).  The _refuted theorems of Properties/C02.v, C03.v, C08.v and C09.v are facts about these terms, checked by vm_compute.
The numbering of blocks and intervals follows the iteration order of gtirb's sets (UUIDs), so two runs print isomorphic, not identical, terms.
usage: PYTHONPATH=/repo/src PYTHONHASHSEED=0 /venv/bin/python tools_witness.py corpus/C03/<case>.json"""
import os
import sys, json
sys.path.insert(0, os.path.dirname(os.path.abspath(__file__))); sys.path.insert(0, '/repo/tests')
from harness import irgen

class Tok:
    def __init__(self, line): self.t=line.split(); self.i=0
    def next(self): x=self.t[self.i]; self.i+=1; return x
    def ni(self): return int(self.next())
def nat(n): return f"{n}%nat"
def z(n): return f"({n})" if n<0 else str(n)
def onat(t):
    i=t.ni(); return "None" if i<0 else f"(Some {nat(i)})"
def lst(xs): return "["+"; ".join(xs)+"]"
def listn(t,f): return [f() for _ in range(t.ni())]
def node(t):
    x=t.next(); return f"({'NP' if x[0]=='p' else 'NB'} {nat(int(x[1:]))})"
def label(t):
    l=t.next()
    if l=="-": return "None"
    ty,c,d=l.split(","); return f"(Some ({nat(int(ty))}, {'true' if c=='1' else 'false'}, {'true' if d=='1' else 'false'}))"
def edge(t): s=node(t); g=node(t); l=label(t); return f"mk_edge {s} {g} {l}"
def kind(t): return "KCode" if t.next()=="c" else "KData"
def hexbytes(h): return lst([str(int(h[i:i+2],16)) for i in range(0,len(h),2)]) if h!="-" else "[]"
def dmapz(t): return lst(listn(t, lambda: f"({z(t.ni())}, {z(t.ni())})"))
DC={"S":"DStart","E":"DEnd","M":"DRemember","R":"DRestore"}
def cfi(t):
    def ent():
        b=t.ni()
        return f"({nat(b)}, "+lst(listn(t, lambda: f"({z(t.ni())}, "+lst(listn(t, lambda: f"({DC.get(t.next(),'DOther')}, {z(t.ni())})"))+")"))+")"
    return lst(listn(t, ent))
def patch(t):
    data=hexbytes(t.next())
    blocks=lst(listn(t, lambda: (lambda i,k,o,s: f"({nat(i)}, {k}, {z(o)}, {z(s)})")(t.ni(),kind(t),t.ni(),t.ni())))
    pcfg=lst(listn(t, lambda: edge(t)))
    syms=lst(listn(t, lambda: (lambda i,r,e: f"({nat(i)}, ({r}, {'true' if e=='1' else 'false'}))")(t.ni(),onat(t),t.next())))
    prox=lst(listn(t, lambda: nat(t.ni())))
    symex=dmapz(t); sizes=dmapz(t)
    align=lst(listn(t, lambda: f"({nat(t.ni())}, {z(t.ni())})"))
    pc=cfi(t); enc=lst(listn(t, lambda: nat(t.ni())))
    return f"(mk_patch {data} {blocks} {pcfg} {syms} {prox} {symex} {sizes} {align} {pc} {enc})"
def convert(line):
    t=Tok(line); assert t.next()=="ir"
    blocks=lst(listn(t, lambda: (lambda i,k,bi,o,s: f"({nat(i)}, mk_blk {k} {bi} {z(o)} {z(s)})")(t.ni(),kind(t),onat(t),t.ni(),t.ni())))
    ivals=lst(listn(t, lambda: (lambda i,sec,d,sx: f"({nat(i)}, mk_ival {nat(sec)} {d} {sx})")(t.ni(),t.ni(),hexbytes(t.next()),dmapz(t))))
    order=lst(listn(t, lambda: f"({nat(t.ni())}, "+lst(listn(t, lambda: nat(t.ni())))+")"))
    stab=lst(listn(t, lambda: (lambda i,r,e: f"({nat(i)}, ({r}, {'true' if e=='1' else 'false'}))")(t.ni(),onat(t),t.next())))
    cfg=lst(listn(t, lambda: edge(t)))
    prox=lst(listn(t, lambda: nat(t.ni())))
    funcs=listn(t, lambda: (t.ni(), listn(t, t.ni), listn(t, t.ni), t.ni()))
    align=lst(listn(t, lambda: f"({nat(t.ni())}, {z(t.ni())})"))
    def otab(): return lst(listn(t, lambda: f"({nat(t.ni())}, {dmapz(t)})"))
    t0,t1,t2=otab(),otab(),otab()
    c=cfi(t)
    ms=[lst(listn(t, lambda: nat(t.ni()))) for _ in range(4)]
    entry=onat(t)
    fb=lst([f"({nat(f)}, "+lst([nat(b) for b in bl])+")" for f,bl,en,n in funcs])
    fe=lst([f"({nat(f)}, "+lst([nat(b) for b in en])+")" for f,bl,en,n in funcs])
    fn=lst([f"({nat(f)}, {nat(n)})" for f,bl,en,n in funcs])
    fbb=lst([f"({nat(b)}, {nat(f)})" for f,bl,en,n in funcs for b in bl])
    st=(f"mk_st {blocks}\n    {ivals}\n    {order}\n    (RefCache.mk_rc [] {stab})\n    {cfg}\n    {prox}\n    {fb} {fe} {fn} {fbb}\n    {align}\n    [{t0}; {t1}; {t2}]\n    {c}\n    [{ms[0]}; {ms[1]}; {ms[2]}; {ms[3]}] {entry} 900")
    def mods():
        def one():
            off=t.ni(); k=t.next()
            if k=="I":
                repl=t.ni(); p=patch(t); return f"(MInsert {z(repl)} {p}, {z(off)})"
            ln=t.ni(); tp=t.next(); return f"(MDelete {z(ln)} {'true' if tp=='1' else 'false'}, {z(off)})"
        return lst(listn(t, one))
    work=lst(listn(t, lambda: f"({nat(t.ni())}, {mods()})"))
    assert t.i==len(t.t), (t.i,len(t.t))
    return st, work
if __name__=="__main__":
    case=irgen.Case.from_json(json.load(open(sys.argv[1])))
    r=irgen.run_impl(case)
    st,work=convert(r["line"])
    print("(* implementation:", (r["error"] or "ok"), "*)")
    print("Definition W_state : st :=\n  "+st+".\nDefinition W_work : list (nat * list (modification * Z)) :=\n  "+work+".")
    print("(* DUMP "+(r["dump"] or "")[:3000]+" *)")
