(* C20 driver: one history per line, results of all calls joined by " ; ". *)
let nat_tok () = nat_of_int (next_int ())
let onat_tok () = let i = next_int () in if i < 0 then None else Some (nat_of_int i)
let show_onat = function None -> "None" | Some n -> string_of_int (int_of_nat n)
let sorted_ints l = Stdlib.String.concat "," (List.map string_of_int (List.sort compare (List.map int_of_nat l)))
let bool_s b = if b then "T" else "F"

(* ---- ReferenceCache ---- *)
let refcache () =
  let nsyms = next_int () in
  let tab = List.init nsyms (fun i -> let r = onat_tok () in let e = next_bool () in ((nat_of_int i, (r, e)))) in
  let c = ref { refs = []; stab = tab } in
  let out = ref [] in
  let emit s = out := s :: !out in
  let nops = next_int () in
  let dead = ref false in
  for _ = 1 to nops do
    let op = next () in
    (match op with
     | "rt" -> let b = nat_tok () in let t = onat_tok () in let e = next_bool () in
       if not !dead then (match retarget !c b t e with Ok c' -> c := c'; emit "ok" | Err er -> emit ("err " ^ err_name er); dead := true)
     | "gr" -> let b = nat_tok () in
       if not !dead then (let (l, c') = get_references !c b in c := c'; emit ("[" ^ sorted_ints l ^ "]"))
     | "gf" -> let s = nat_tok () in
       if not !dead then (match get_referent !c s with Ok (r, c') -> c := c'; emit (show_onat r) | Err er -> emit ("err " ^ err_name er); dead := true)
     | "sr" -> let s = nat_tok () in let r = onat_tok () in let e = next_bool () in
       if not !dead then (c := set_referent !c s r e; emit "ok")
     | "pg" -> let b = nat_tok () in let n = next_int () in let l = List.init n (fun _ -> nat_tok ()) in
       if not !dead then (match get_references_abandoned !c b l with Some c' -> c := c'; emit ("took " ^ string_of_int n) | None -> emit "not-references")
     | "pgx" -> let b = nat_tok () in
       if not !dead then (let (l, c') = get_references !c b in c := c'; emit ("took " ^ string_of_int (List.length l)))
     | "ap" -> if not !dead then (c := apply !c; emit "ok")
     | "pk" -> let s = nat_tok () in
       if not !dead then (let (r, e) = sym_get s (!c).stab in emit (show_onat r ^ "," ^ bool_s e))
     | o -> failwith ("bad refcache op " ^ o))
  done;
  if not !dead then begin
    c := apply !c;
    emit ("final " ^ Stdlib.String.concat " " (List.map (fun (s, (r, e)) -> show_onat r ^ "," ^ bool_s e) (!c).stab))
  end;
  Stdlib.String.concat " ; " (List.rev !out)

(* ---- ReturnEdgeCache ---- *)
let node_tok () = let t = next () in
  let n = nat_of_int (int_of_string (Stdlib.String.sub t 1 (Stdlib.String.length t - 1))) in
  if t.[0] = 'p' then NP n else NB n
let edge_tok () =
  let s = node_tok () in let t = node_tok () in let l = next () in
  let lab = if l = "-" then None else
      (match Stdlib.String.split_on_char ',' l with
       | [ty; c; d] -> Some ((nat_of_int (int_of_string ty), c = "1"), d = "1")
       | _ -> failwith "bad label") in
  { src = s; tgt = t; label = lab }
let show_node = function NB n -> "b" ^ string_of_int (int_of_nat n) | NP n -> "p" ^ string_of_int (int_of_nat n)
let show_edge e = show_node e.src ^ ">" ^ show_node e.tgt ^ ":" ^
  (match e.label with None -> "-" | Some ((t, c), d) -> string_of_int (int_of_nat t) ^ "," ^ (if c then "1" else "0") ^ "," ^ (if d then "1" else "0"))
let show_edges l = "{" ^ Stdlib.String.concat " " (List.sort compare (List.map show_edge l)) ^ "}"
let retcache () =
  let c = ref empty_rcache in
  let out = ref [] in
  let emit s = out := s :: !out in
  let nops = next_int () in
  for _ = 1 to nops do
    (match next () with
     | "add" -> c := rc_add !c (edge_tok ())
     | "dis" -> c := rc_discard !c (edge_tok ())
     | "clr" -> c := rc_clear !c
     | "upd" -> let n = next_int () in let es = List.init n (fun _ -> edge_tok ()) in c := rc_update !c es
     | "any" -> emit (bool_s (any_return_edges !c (node_tok ())))
     | "bre" -> emit (show_edges (block_return_edges !c (node_tok ())))
     | "bpe" -> emit (show_edges (block_proxy_return_edges !c (node_tok ())))
     | o -> failwith ("bad retcache op " ^ o))
  done;
  emit ("cfg " ^ show_edges (!c).cfg);
  Stdlib.String.concat " ; " (List.rev !out)
let retctx () =
  let nold = next_int () in
  let old = List.init nold (fun _ -> edge_tok ()) in
  let nact = next_int () in
  let acts = List.init nact (fun _ ->
    match next () with
    | "cadd" -> ACacheAdd (edge_tok ()) | "cdis" -> ACacheDiscard (edge_tok ()) | "cclr" -> ACacheClear
    | "oadd" -> AOldAdd (edge_tok ()) | "odis" -> AOldDiscard (edge_tok ())
    | "repl" -> AReplaceIrCfg | "raise" -> ARaise | o -> failwith ("bad action " ^ o)) in
  let (c, st) = with_return_cache old acts in
  (match st with ExitOk -> "ok" | ExitBodyRaised -> "body-raised" | ExitCFGModified -> "CFGModifiedError")
  ^ " ; old " ^ show_edges c.old_cfg ^ " ; ircfg " ^ (match c.ir_cfg with PtrOld -> "old" | PtrCache -> "cache" | PtrOther -> "other")

(* ---- BlockOrdering ---- *)
let border () =
  let o = ref [] in
  let out = ref [] in
  let emit s = out := s :: !out in
  let nops = next_int () in
  for _ = 1 to nops do
    (match next () with
     | "adj" -> (match adjacent_blocks !o (nat_tok ()) with Ok (p, n) -> emit (show_onat p ^ "," ^ show_onat n) | Err e -> emit ("err " ^ err_name e))
     | "rm" -> (match remove_block !o (nat_tok ()) with Ok o' -> o := o'; emit "ok" | Err e -> emit ("err " ^ err_name e))
     | "det" -> let n = next_int () in let bs = List.init n (fun _ -> nat_tok ()) in
       (match add_detached_blocks !o bs with Ok o' -> o := o'; emit "ok" | Err e -> emit ("err " ^ err_name e))
     | "ins" -> let a = nat_tok () in let n = next_int () in let bs = List.init n (fun _ -> nat_tok ()) in
       (match insert_blocks_after !o a bs with Ok o' -> o := o'; emit "ok" | Err e -> emit ("err " ^ err_name e))
     | x -> failwith ("bad border op " ^ x))
  done;
  Stdlib.String.concat " ; " (List.rev !out)

(* ---- OffsetMapping ---- *)
let show_inner (i : (z * z) list) =
  "{" ^ Stdlib.String.concat "," (List.sort compare (List.map (fun (d, v) -> str_of_z d ^ ":" ^ str_of_z v) i)) ^ "}"
let omap () =
  let m = ref [] in
  let out = ref [] in
  let emit s = out := s :: !out in
  let r f = function Ok v -> f v | Err e -> emit ("err " ^ err_name e) in
  let nops = next_int () in
  for _ = 1 to nops do
    (match next () with
     | "geto" -> let e = nat_tok () in let d = next_z () in r (fun v -> emit (str_of_z v)) (getitem_off !m e d)
     | "gete" -> r (fun i -> emit (show_inner i)) (getitem_elem !m (nat_tok ()))
     | "seto" -> let e = nat_tok () in let d = next_z () in let v = next_z () in m := setitem_off !m e d v
     | "sete" -> let e = nat_tok () in let n = next_int () in
       let i = List.init n (fun _ -> let d = next_z () in let v = next_z () in (d, v)) in m := setitem_elem !m e i
     | "delo" -> let e = nat_tok () in let d = next_z () in r (fun m' -> m := m'; emit "ok") (delitem_off !m e d)
     | "dele" -> r (fun m' -> m := m'; emit "ok") (delitem_elem !m (nat_tok ()))
     | "iseto" -> let e = nat_tok () in let d = next_z () in let v = next_z () in r (fun m' -> m := m'; emit "ok") (inner_setitem !m e d v)
     | "idelo" -> let e = nat_tok () in let d = next_z () in r (fun m' -> m := m'; emit "ok") (inner_delitem !m e d)
     | "ino" -> let e = nat_tok () in let d = next_z () in emit (bool_s (contains_off !m e d))
     | "ine" -> emit (bool_s (contains_elem !m (nat_tok ())))
     | "len" -> emit (string_of_int (int_of_nat (om_len !m)))
     | "bool" -> emit (bool_s (om_bool !m))
     | "iter" -> emit ("[" ^ Stdlib.String.concat "," (List.sort compare (List.map (fun (e, d) -> string_of_int (int_of_nat e) ^ "+" ^ str_of_z d) (om_iter !m))) ^ "]")
     | "keys" -> emit ("[" ^ sorted_ints (node_keys !m) ^ "]")
     | "popo" -> let e = nat_tok () in let d = next_z () in let dflt = next () in
       let dv = if dflt = "-" then None else Some (z_of_str dflt) in
       r (fun (v, m') -> m := m'; emit (str_of_z v)) (pop_off !m e d dv)
     | "sdo" -> let e = nat_tok () in let d = next_z () in let v = next_z () in
       let (v', m') = setdefault_off !m e d v in m := m'; emit (str_of_z v')
     | x -> failwith ("bad omap op " ^ x))
  done;
  Stdlib.String.concat " ; " (List.rev !out)

(* ---- IdentitySet ---- *)
let idset () =
  let s = ref [] in
  let out = ref [] in
  let emit x = out := x :: !out in
  let nops = next_int () in
  for _ = 1 to nops do
    (match next () with
     | "add" -> s := ids_add (nat_tok ()) !s
     | "dis" -> s := ids_discard (nat_tok ()) !s
     | "rem" -> (match ids_remove (nat_tok ()) !s with Ok s' -> s := s'; emit "ok" | Err e -> emit ("err " ^ err_name e))
     | "in" -> emit (bool_s (ids_mem (nat_tok ()) !s))
     | "len" -> emit (string_of_int (int_of_nat (ids_len !s)))
     | "iter" -> emit ("[" ^ sorted_ints !s ^ "]")
     | "clr" -> s := []
     | x -> failwith ("bad idset op " ^ x))
  done;
  Stdlib.String.concat " ; " (List.rev !out)

let handle = function
  | "refcache" -> refcache () | "retcache" -> retcache () | "retctx" -> retctx ()
  | "border" -> border () | "omap" -> omap () | "idset" -> idset ()
  | c -> failwith ("unknown command " ^ c)
let () = main_loop handle
