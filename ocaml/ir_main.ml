(* IR driver: one case per line (see harness/ir.py for the format); prints the canonical dump of the final state. *)
let ni () = next_int ()
let nn () = nat_of_int (next_int ())
let onat () = let i = next_int () in if i < 0 then None else Some (nat_of_int i)
let listn f = let n = ni () in List.init n (fun _ -> f ())
let i_of n = int_of_nat n
let node_tok () = let t = next () in
  let n = nat_of_int (int_of_string (Stdlib.String.sub t 1 (Stdlib.String.length t - 1))) in
  if t.[0] = 'p' then NP n else NB n
let label_tok () = let l = next () in
  if l = "-" then None else
    (match Stdlib.String.split_on_char ',' l with
     | [ty; c; d] -> Some ((nat_of_int (int_of_string ty), c = "1"), d = "1")
     | _ -> failwith "bad label")
let edge_tok () = let s = node_tok () in let t = node_tok () in let l = label_tok () in { src = s; tgt = t; label = l }
let kind_tok () = if next () = "c" then KCode else KData
let dclass_tok () = match next () with "S" -> DStart | "E" -> DEnd | "M" -> DRemember | "R" -> DRestore | _ -> DOther
let dmap_z () = listn (fun () -> let d = next_z () in let v = next_z () in (d, v))
let cfi_tok () = listn (fun () -> let b = nn () in
                   (b, listn (fun () -> let d = next_z () in (d, listn (fun () -> let c = dclass_tok () in let id = next_z () in (c, id))))))
let patch_tok () =
  let data = bytes_of_hex (next ()) in
  let blocks = listn (fun () -> let id = nn () in let k = kind_tok () in let o = next_z () in let sz = next_z () in (((id, k), o), sz)) in
  let pcfg = listn edge_tok in
  let syms = listn (fun () -> let id = nn () in let r = onat () in let e = next_bool () in (id, (r, e))) in
  let prox = listn nn in
  let symex = dmap_z () in
  let symsizes = dmap_z () in
  let align = listn (fun () -> let id = nn () in let a = next_z () in (id, a)) in
  let pcfi = cfi_tok () in
  let enc = listn nn in
  { p_data = data; p_blocks = blocks; p_cfg = pcfg; p_syms = syms; p_proxies = prox; p_symex = symex; p_symsizes = symsizes;
    p_align = align; p_cfi = pcfi; p_encodings = enc }

let read_case () =
  let blocks = listn (fun () -> let id = nn () in let k = kind_tok () in let bi = onat () in let o = next_z () in let sz = next_z () in
                       (id, { bk = k; bbi = bi; boff = o; bsize = sz })) in
  let ivals = listn (fun () -> let id = nn () in let sec = nn () in let data = bytes_of_hex (next ()) in let sx = dmap_z () in
                      (id, { isect = sec; icontents = data; isymex = sx })) in
  let order = listn (fun () -> let sec = nn () in (sec, listn nn)) in
  let stab = listn (fun () -> let id = nn () in let r = onat () in let e = next_bool () in (id, (r, e))) in
  let cfg = listn edge_tok in
  let prox = listn nn in
  let funcs = listn (fun () -> let f = nn () in let bl = listn nn in let en = listn nn in let name = nn () in (f, bl, en, name)) in
  let align = listn (fun () -> let id = nn () in let a = next_z () in (id, a)) in
  let otab () = listn (fun () -> let k = nn () in (k, dmap_z ())) in
  let t0 = otab () in let t1 = otab () in let t2 = otab () in
  let cfi = cfi_tok () in
  let m0 = listn nn in let m1 = listn nn in let m2 = listn nn in let m3 = listn nn in
  let entry = onat () in
  let fbb = List.concat (List.map (fun (f, bl, _, _) -> List.map (fun b -> (b, f)) bl) funcs) in
  let s = { blocks = blocks; ivals = ivals; order = order; rcache = { refs = []; stab = stab }; cfg = cfg; proxies = prox;
            fblocks = List.map (fun (f, bl, _, _) -> (f, bl)) funcs; fentries = List.map (fun (f, _, en, _) -> (f, en)) funcs;
            fnames = List.map (fun (f, _, _, n) -> (f, n)) funcs; fbb = fbb; align = align; otabs = [t0; t1; t2]; cfi = cfi;
            misc = [m0; m1; m2; m3]; entry = entry; next = nat_of_int 900 } in
  let work = listn (fun () -> let b = nn () in
                     (b, listn (fun () -> let off = next_z () in
                                 match next () with
                                 | "I" -> let repl = next_z () in let p = patch_tok () in (MInsert (repl, p), off)
                                 | "D" -> let len = next_z () in let tp = next_bool () in (MDelete (len, tp), off)
                                 | t -> failwith ("bad modification " ^ t)))) in
  (s, work)

let kind_s = function KCode -> "c" | KData -> "d"
let dump (s : st) =
  let bname id =
    if List.exists (fun p -> i_of p = i_of id) s.proxies then "P"
    else match List.assoc_opt (i_of id) (List.map (fun (k, v) -> (i_of k, v)) s.blocks) with
      | Some x -> (match x.bbi with
          | Some bi -> "b(" ^ string_of_int (i_of bi) ^ "," ^ str_of_z x.boff ^ "," ^ str_of_z x.bsize ^ "," ^ kind_s x.bk ^ ")"
          | None -> "DEAD")
      | None -> "?" ^ string_of_int (i_of id) in
  let nname = function NB n -> bname n | NP n -> bname n in
  let lines = ref [] in
  let add l = lines := l :: !lines in
  List.iter (fun (id, iv) -> add ("I" ^ string_of_int (i_of id) ^ " " ^ (let h = hex_of_bytes iv.icontents in if h = "" then "-" else h));
              List.iter (fun (o, v) -> add ("X " ^ string_of_int (i_of id) ^ " " ^ str_of_z o ^ " " ^ str_of_z v)) iv.isymex) s.ivals;
  List.iter (fun (id, x) -> match x.bbi with Some _ -> add ("B " ^ bname id) | None -> ()) s.blocks;
  List.iter (fun (sy, (r, e)) -> add ("S" ^ string_of_int (i_of sy) ^ " " ^ (match r with None -> "none" | Some b -> bname b) ^ "," ^ (if e then "T" else "F"))) s.rcache.stab;
  List.iter (fun e -> add ("E " ^ nname e.src ^ ">" ^ nname e.tgt ^ ":" ^
                           (match e.label with None -> "-" | Some ((t, c), d) -> string_of_int (i_of t) ^ "," ^ (if c then "1" else "0") ^ "," ^ (if d then "1" else "0")))) s.cfg;
  let names l = Stdlib.String.concat " " (List.sort compare (List.map bname l)) in
  List.iter (fun (f, bl) -> add ("FB" ^ string_of_int (i_of f) ^ " " ^ names bl)) s.fblocks;
  List.iter (fun (f, bl) -> add ("FE" ^ string_of_int (i_of f) ^ " " ^ names bl)) s.fentries;
  List.iter (fun (f, n) -> add ("FN" ^ string_of_int (i_of f) ^ " " ^ string_of_int (i_of n))) s.fnames;
  List.iter (fun (b, a) -> add ("A " ^ bname b ^ " " ^ str_of_z a)) s.align;
  let is_ival id = List.exists (fun (k, _) -> i_of k = i_of id) s.ivals in
  List.iteri (fun i t -> List.iter (fun (k, dm) -> List.iter (fun (d, v) ->
      add ("T" ^ string_of_int i ^ " " ^ (if is_ival k then "i" ^ string_of_int (i_of k) else bname k) ^ " " ^ str_of_z d ^ " " ^ str_of_z v)) dm) t) s.otabs;
  List.iter (fun (b, dm) -> List.iter (fun (d, ds) ->
      if ds <> [] then add ("C " ^ bname b ^ " " ^ str_of_z d ^ " " ^ Stdlib.String.concat "," (List.map (fun (c, id) ->
          (match c with DStart -> "S" | DEnd -> "E" | DRemember -> "M" | DRestore -> "R" | DOther -> "O") ^ str_of_z id) ds))) dm) s.cfi;
  List.iteri (fun i t -> List.iter (fun b -> add ("M" ^ string_of_int i ^ " " ^ bname b)) t) s.misc;
  add ("ENTRY " ^ (match s.entry with None -> "none" | Some b -> bname b));
  Stdlib.String.concat " | " (List.sort compare !lines)

let handle = function
  | "ir" ->
    let (s, work) = read_case () in
    (match apply_all s work with
     | Err e -> "err " ^ err_name e
     | Ok s' -> dump (finish s'))
  | "tracker" ->
    (* the CFI marks of the code blocks in the order the tracker visits them, then the points to ask about *)
    let marks = listn (fun () -> let i = nn () in let o = next_z () in
                        let m = (match next () with "S" -> MStart | "E" -> MEnd | _ -> MOther) in ((i, o), m)) in
    let ivs = tracker marks in
    Stdlib.String.concat "" (listn (fun () -> let i = nn () in let o = next_z () in if in_procedure ivs (i, o) then "1" else "0"))
  | "resolve" ->
    (* registrations of one block, in registration order: offset, replaced length; the id is the position *)
    let regs = List.mapi (fun i (o, l) -> (o, (i, l))) (listn (fun () -> let o = next_z () in let l = next_z () in (o, l))) in
    let sorted = sort_mods regs in
    if no_overlap (z_of_int 0) (fun (_, l) -> l) sorted
    then "ok " ^ Stdlib.String.concat " " (List.map (fun (_, (i, _)) -> string_of_int i) sorted)
    else "err AssertionError"
  | "plan" ->
    let entry = onat () in
    let pat_tok () = match next () with
      | "L" -> PLit (nn ()) | "M" -> PMain | "E" -> PEntrypoint | "R" -> PRegex (listn nn) | t -> failwith ("bad pattern " ^ t) in
    let opats () = if next () = "-" then None else Some (listn pat_tok) in
    let funcs = listn (fun () -> let name = nn () in let en = listn nn in let ex = listn nn in { f_name = name; f_entries = en; f_exits = ex }) in
    let id = nn () in let code = next_bool () in let fi = ni () in let insns = listn next_z in let term = next_bool () in
    let blk = { b_id = id; b_code = code; b_func = (if fi < 0 then None else Some (List.nth funcs fi)); b_insns = insns; b_term = term } in
    let bpos_tok () = match next () with "E" -> PEntry | "X" -> PExit | _ -> PAnywhere in
    let regs = listn (fun () -> let rid = nn () in
      let sc = match next () with
        | "A" -> let p = bpos_tok () in let ex = opats () in SAllBlocks (p, ex)
        | "S" -> let b = nn () in let p = bpos_tok () in SSingle (b, p)
        | "F" -> let fp = (if next () = "E" then FEntry else FExit) in let bp = bpos_tok () in let fs = opats () in SAllFunctions (fp, bp, fs)
        | "P" -> let b = nn () in let o = next_z () in let r = next_z () in SSpecific (b, o, r)
        | t -> failwith ("bad scope " ^ t) in
      (rid, sc)) in
    Stdlib.String.concat " " (List.map (fun (o, i) -> str_of_z o ^ ":" ^ string_of_int (i_of i)) (plan entry regs blk))
  | c -> failwith ("unknown command " ^ c)
let () = main_loop handle
