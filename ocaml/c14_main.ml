(* C14 driver: one command per line, one result line per command. *)
let find_cls (t : cls list) (name : Stdlib.String.t) : nat =
  let rec go l i = match l with
    | [] -> failwith ("unknown class " ^ name)
    | c :: r -> if str_of_cstr c.cname = name then i else go r (S i) in
  go t O
let cls_name (t : cls list) (i : nat) = str_of_cstr (List.nth t (int_of_nat i)).cname
let read_op () : eop =
  let c = find_cls expr_table (next ()) in
  let n = next_int () in
  let args = List.init n (fun _ -> next_z ()) in
  { o_cls = c; o_args = args }
let read_inst () : inst =
  let c = find_cls cfi_table (next ()) in
  let n = next_int () in
  let args = List.init n (fun _ ->
    match next () with
    | "i" -> FInt (next_z ())
    | "e" -> let k = next_int () in FExpr (List.init k (fun _ -> read_op ()))
    | t -> failwith ("bad field tag " ^ t)) in
  { o_cls = c; o_args = args }
let show_op (o : eop) =
  cls_name expr_table o.o_cls ^ "(" ^ Stdlib.String.concat "," (List.map str_of_z o.o_args) ^ ")"
let show_ops l = "[" ^ Stdlib.String.concat ";" (List.map show_op l) ^ "]"
let show_inst (o : inst) =
  cls_name cfi_table o.o_cls ^ "(" ^
  Stdlib.String.concat "," (List.map (function FInt v -> str_of_z v | FExpr l -> show_ops l) o.o_args) ^ ")"
let res f = function Ok a -> "ok " ^ f a | Err e -> "err " ^ err_name e
let handle cmd =
  match cmd with
  | "encop" -> let big = next_bool () in let ps = next_z () in let o = read_op () in
    (match construct_op o.o_cls o.o_args with Err e -> "err " ^ err_name e | Ok o -> res hex_of_bytes (encode_op o big ps))
  | "mkop" -> let o = read_op () in res show_op (construct_op o.o_cls o.o_args)
  | "decop" -> let big = next_bool () in let ps = next_z () in let b = bytes_of_hex (next ()) in
    res (fun ((o, n), r) -> show_op o ^ " " ^ str_of_z n ^ " " ^ string_of_int (List.length r)) (decode_op b big ps)
  | "encinst" -> let big = next_bool () in let ps = next_z () in let o = read_inst () in
    (match construct_inst o.o_cls o.o_args with Err e -> "err " ^ err_name e | Ok o -> res hex_of_bytes (encode_inst o big ps))
  | "mkinst" -> let o = read_inst () in res show_inst (construct_inst o.o_cls o.o_args)
  | "decinst" -> let big = next_bool () in let ps = next_z () in let b = bytes_of_hex (next ()) in
    res (fun ((o, n), r) -> show_inst o ^ " " ^ str_of_z n ^ " " ^ string_of_int (List.length r)) (decode_inst b big ps)
  | "parse" -> let big = next_bool () in let ps = next_z () in let b = bytes_of_hex (next ()) in
    res (fun l -> Stdlib.String.concat " " (List.map show_inst l)) (parse_cfi_instructions b big ps)
  | "operands" -> let big = next_bool () in let ps = next_z () in let o = read_inst () in
    res (fun (d, ops) -> str_of_cstr d ^ " " ^
          Stdlib.String.concat "," (List.map (function OInt v -> str_of_z v | OExpr l -> show_ops l) ops))
        (match construct_inst o.o_cls o.o_args with Err e -> Err e | Ok o -> operands o big ps)
  | "constop" -> let v = next_z () in res show_op (make_const_op v)
  | "uleb" -> res hex_of_bytes (uleb_encode_py (next_z ()))
  | "sleb" -> hex_of_bytes (sleb_encode (next_z ()))
  | "uleb_dec" -> res (fun ((v, n), r) -> str_of_z v ^ " " ^ str_of_z n ^ " " ^ string_of_int (List.length r)) (uleb_decode (bytes_of_hex (next ())))
  | "sleb_dec" -> res (fun ((v, n), r) -> str_of_z v ^ " " ^ str_of_z n ^ " " ^ string_of_int (List.length r)) (sleb_decode (bytes_of_hex (next ())))
  | c -> failwith ("unknown command " ^ c)
let () = main_loop handle
