(* assembler driver: target description + event list per line; prints the canonical result *)
let ni () = next_int ()
let nn () = nat_of_int (next_int ())
let i_of n = int_of_nat n
let listn f = let n = ni () in List.init n (fun _ -> f ())
let cat = Stdlib.String.concat
let sorted l = List.sort compare l
let si n = string_of_int (i_of n)
let rec mcx_tok () = match next () with
  | "S" -> let n = nn () in let v = nn () in MSym (n, v)
  | "K" -> MConst (next_z ())
  | "+" -> let a = mcx_tok () in let b = mcx_tok () in MAdd (a, b)
  | "-" -> let a = mcx_tok () in let b = mcx_tok () in MSub (a, b)
  | "T" -> let f = nn () in let k = nn () in let sub = mcx_tok () in MTarget (f, k, sub)
  | _ -> MOther
let aref_tok () = match next () with
  | "B" -> RBlock (nn ()) | "P" -> RProxy (nn ()) | "D" -> RData | _ -> RNone
let ev_tok () = match next () with
  | "chunk" -> EChunk
  | "pre" -> let n = nn () in let t = next_bool () in EPre (n, t)
  | "sect" -> let n = nn () in let x = next_bool () in ESection (n, x)
  | "label" -> ELabel (nn ())
  | "insn" -> let len = next_z () in let r = next_bool () in let c = next_bool () in let b = next_bool () in let cd = next_bool () in let ind = next_bool () in
    let fx = listn (fun () -> let o = next_z () in let sz = next_z () in let pc = next_bool () in let v = mcx_tok () in { fx_off = o; fx_size = sz; fx_pcrel = pc; fx_val = v }) in
    EInsn (len, r, c, b, cd, ind, fx)
  | "int" -> EInt (next_z ())
  | "str" -> let l = next_z () in let z = next_bool () in EStr (l, z)
  | "value" -> let sz = next_z () in let e = mcx_tok () in EValue (sz, e)
  | "leb" -> ELeb (mcx_tok ())
  | "fill" -> EFill (next_z ())
  | "align" -> EAlign (next_z ())
  | t -> failwith ("bad event " ^ t)
let handle = function
  | "tmplabel" ->
    (* isa fmt name label suffix: the ABI's prefix, temporary_label(name), whether `label` is temporary, the name it gets *)
    let isa = nn () in let fmt = nn () in let name = cstr_of_str (next ()) in let label = cstr_of_str (next ()) in let sfx = cstr_of_str (next ()) in
    "supported " ^ (if supported isa fmt then "1" else "0") ^ " | prefix " ^ str_of_cstr (abi_temporary_label_prefix isa fmt) ^
    " | label " ^ str_of_cstr (temporary_label isa fmt name) ^ " | temp " ^ (if mc_is_temporary isa fmt label then "1" else "0") ^
    " | named " ^ str_of_cstr (symbol_name isa fmt label sfx)
  | "asm" ->
    let modsyms = listn (fun () -> let n = nn () in let r = aref_tok () in (n, r)) in
    let pie = next_bool () in let undef = next_bool () in let unreach = next_bool () in
    let variants = listn (fun () -> let v = nn () in let ok = next_bool () in let at = listn nn in (v, if ok then Some at else None)) in
    let t = { t_module = modsyms; t_pie = pie; t_allow_undef = undef; t_unreachable = unreach; t_variants = variants } in
    let evs = listn ev_tok in
    (match assemble t evs with
     | Err e -> "err " ^ err_name e
     | Ok s ->
       (* canonical: blocks by (section, position); symbols by name *)
       let pos = Hashtbl.create 16 in
       List.iter (fun x -> List.iteri (fun k b -> Hashtbl.replace pos (i_of b.ab_id) (si x.as_name ^ "." ^ string_of_int k)) x.as_blocks) s.a_sects;
       let bname b = try Hashtbl.find pos (i_of b) with Not_found -> "?" in
       let rname = function RBlock b -> bname b | RProxy _ -> "proxy" | RData -> "data" | RNone -> "none" in
       let sname y = if i_of y >= 1000 then "m" ^ string_of_int (i_of y - 1000)
         else (match List.find_opt (fun (_, v) -> i_of v.sy_id = i_of y) s.a_syms with Some (n, _) -> "l" ^ si n | None -> "?") in
       let sects = List.map (fun x ->
           "sect " ^ si x.as_name ^ " len " ^ str_of_z x.as_len ^ " [" ^
           cat "," (List.map (fun b -> (if b.ab_data then "D" else "C") ^ str_of_z b.ab_off ^ "+" ^ str_of_z b.ab_size) x.as_blocks) ^ "] X{" ^
           cat ";" (sorted (List.map (fun (p, e) -> str_of_z p ^ ":" ^ (match e with
               | SConst (c, y, at) -> "c" ^ sname y ^ "+" ^ str_of_z c ^ "{" ^ cat "," (sorted (List.map si at)) ^ "}"
               | SAddr (a, b) -> "a" ^ sname a ^ "-" ^ sname b)) x.as_symex)) ^ "} Z{" ^
           cat ";" (sorted (List.map (fun (p, z) -> str_of_z p ^ ":" ^ str_of_z z) x.as_sizes)) ^ "} A{" ^
           cat ";" (sorted (List.map (fun (b, a) -> bname b ^ ":" ^ str_of_z a) x.as_align)) ^ "}") s.a_sects in
       let syms = sorted (List.map (fun (n, y) -> si n ^ "@" ^ rname y.sy_ref ^ (if y.sy_at_end then "$" else "")) s.a_syms) in
       let edges = sorted (List.map (fun e -> bname e.ae_src ^ ">" ^ rname e.ae_tgt ^ ":" ^ si e.ae_type ^ (if e.ae_cond then "c" else "") ^ (if e.ae_direct then "d" else "i")) s.a_cfg) in
       cat " | " (sects @ ["syms " ^ cat "," syms; "edges " ^ cat "," edges; "proxies " ^ string_of_int (List.length s.a_proxies)]))
  | "patchids" ->
    (* the names of the module's symbols -> the last patch id in use and the suffix the first patch of a new context gets *)
    let names = listn (fun () -> cstr_of_str (next ())) in
    let last = last_used_patch_id names in
    "last " ^ si last ^ " suffix " ^ str_of_cstr (patch_suffix (nat_of_int (i_of last + 1)))
  | "createir" ->
    (* the operand-size tables of the sections of a result -> the IR's symbolicExpressionSizes, keyed by (section, offset) *)
    let sects = listn (fun () -> let name = nn () in let sizes = listn (fun () -> let o = next_z () in let z = next_z () in (o, z)) in
                        { as_name = name; as_exec = false; as_len = z_of_str "0"; as_blocks = []; as_symex = []; as_sizes = sizes; as_align = [] }) in
    let s = { a_sects = sects; a_cur = None; a_syms = []; a_cfg = []; a_code = []; a_types = []; a_proxies = []; a_next = nat_of_int 0 } in
    cat "," (sorted (List.map (fun ((n, o), z) -> si n ^ ":" ^ str_of_z o ^ ":" ^ str_of_z z) (ir_sizes s)))
  | c -> failwith ("unknown command " ^ c)
let () = main_loop handle
