(* C16 driver: frames <abi> <flags> <align> <preserve> <leaf> <nscratch> <nclob> clob.. <nreads> reads..
   prints the allocation and the instruction tokens of prologue / epilogue, or the error. *)
let ints l = Stdlib.String.concat "," (List.map (fun n -> string_of_int (int_of_nat n)) l)
let tok = function
  | Push r -> "push:" ^ string_of_int (int_of_nat r) | Pop r -> "pop:" ^ string_of_int (int_of_nat r)
  | PushF -> "pushf" | PopF -> "popf"
  | LeaSp d -> "lea:" ^ str_of_z d | MovSpTo r -> "movsp>" ^ string_of_int (int_of_nat r)
  | MovToSp r -> "mov>sp:" ^ string_of_int (int_of_nat r) | AndSp m -> "and:" ^ str_of_z m
  | StpPre (a, b) -> "stp:" ^ string_of_int (int_of_nat a) ^ "," ^ string_of_int (int_of_nat b)
  | LdpPost (a, b) -> "ldp:" ^ string_of_int (int_of_nat a) ^ "," ^ string_of_int (int_of_nat b)
  | StrPre r -> "str:" ^ string_of_int (int_of_nat r) | LdrPost r -> "ldr:" ^ string_of_int (int_of_nat r)
  | Mrs r -> "mrs:" ^ string_of_int (int_of_nat r) | Msr r -> "msr:" ^ string_of_int (int_of_nat r)
  | AddiuSp d -> "addiu:" ^ str_of_z d
  | Sw (r, o) -> "sw:" ^ string_of_int (int_of_nat r) ^ "@" ^ str_of_z o
  | Lw (r, o) -> "lw:" ^ string_of_int (int_of_nat r) ^ "@" ^ str_of_z o
let toks l = Stdlib.String.concat " " (List.map tok l)
let handle = function
  | "frames" ->
    let abi = next () in
    let flags = next_bool () in let align = next_bool () in let pres = next_bool () in let leaf = next_bool () in
    let nscr = nat_of_int (next_int ()) in
    let ncl = next_int () in let cl = List.init ncl (fun _ -> nat_of_int (next_int ())) in
    let nrd = next_int () in let rd = List.init nrd (fun _ -> nat_of_int (next_int ())) in
    let c = { clobbers_flags = flags; clobbers = cl; scratch = nscr; reads_regs = rd; align_stack = align; preserve_caller_saved = pres } in
    let (a, kind) = match abi with
      | "x64_elf" -> (abi_x64_elf, 0) | "x64_pe" -> (abi_x64_pe, 0) | "ia32_pe" -> (abi_ia32_pe, 1)
      | "arm64_elf" -> (abi_arm64_elf, 2) | "mips32_elf" -> (abi_mips32_elf, 3) | x -> failwith ("abi " ^ x) in
    (match allocate a c with
     | Err e -> "alloc-err " ^ err_name e
     | Ok ru ->
       let head = "clob=" ^ ints ru.clobbered ^ " scratch=" ^ ints ru.scratch_regs ^ " avail=" ^ ints ru.available in
       let r = (match kind with
           | 0 -> Ok (frames_x64 a c ru leaf) | 1 -> frames_ia32 a c ru leaf
           | 2 -> frames_arm64 a c ru leaf | _ -> frames_mips a c ru leaf) in
       (match r with
        | Err e -> head ^ " ; frames-err " ^ err_name e
        | Ok ((pro, epi), adj) ->
          head ^ " ; pro " ^ toks pro ^ " ; epi " ^ toks epi ^ " ; adj " ^ (match adj with None -> "None" | Some n -> str_of_z n)))
  | c -> failwith ("unknown command " ^ c)
let () = main_loop handle
