(* symbol-level driver: one case per line; prints the canonical dump of the resulting state *)
let ni () = next_int ()
let nn () = nat_of_int (next_int ())
let i_of n = int_of_nat n
let onat () = let i = next_int () in if i < 0 then None else Some (nat_of_int i)
let listn f = let n = ni () in List.init n (fun _ -> f ())
let si n = string_of_int (i_of n)
let cat = Stdlib.String.concat
let sorted l = List.sort compare l

let read_dstate () =
  let syms = listn nn in
  let symex = listn (fun () -> let iv = nn () in let off = next_z () in let sy = listn nn in ((iv, off), sy)) in
  let cfi = listn (fun () -> let k = nn () in (k, listn (fun () -> let kind = nn () in let args = listn next_z in let sy = onat () in
                                                      { c_kind = kind; c_args = args; c_sym = sy }))) in
  let elf = listn nn in let tab = listn nn in
  let defs = listn (fun () -> let i = next_z () in let f = next_z () in (i, f)) in
  let reqs = listn (fun () -> let lib = nn () in (lib, listn next_z)) in
  let entries = listn (fun () -> let s = nn () in let v = next_z () in (s, v)) in
  let fn = listn (fun () -> let u = nn () in let s = nn () in (u, s)) in
  let peimp = listn nn in let peexp = listn nn in
  let fwd = listn (fun () -> let a = nn () in let b = nn () in (a, b)) in
  { d_syms = syms; d_symex = symex; d_cfi = cfi; d_elfinfo = elf; d_tabidx = tab; d_vdefs = defs; d_vreqs = reqs; d_ventries = entries;
    d_fnames = fn; d_peimp = peimp; d_peexp = peexp; d_fwd = fwd }

let dump_dstate (s : dstate) =
  let zs l = cat "," (List.map str_of_z l) in
  cat " | " [
    "syms " ^ cat "," (sorted (List.map si s.d_syms));
    "symex " ^ cat ";" (sorted (List.map (fun ((iv, off), sy) -> si iv ^ "+" ^ str_of_z off ^ ":" ^ cat "," (List.map si sy)) s.d_symex));
    "cfi " ^ cat ";" (sorted (List.map (fun (k, ds) -> si k ^ "=" ^ cat "/" (List.map (fun d ->
        si d.c_kind ^ "(" ^ zs d.c_args ^ ")" ^ (match d.c_sym with None -> "null" | Some x -> si x)) ds)) s.d_cfi));
    "elf " ^ cat "," (sorted (List.map si s.d_elfinfo));
    "tab " ^ cat "," (sorted (List.map si s.d_tabidx));
    "defs " ^ cat "," (sorted (List.map (fun (i, f) -> str_of_z i ^ ":" ^ str_of_z f) s.d_vdefs));
    "reqs " ^ cat ";" (sorted (List.map (fun (l, vs) -> si l ^ ":" ^ cat "," (sorted (List.map str_of_z vs))) s.d_vreqs));
    "entries " ^ cat "," (sorted (List.map (fun (x, v) -> si x ^ ":" ^ str_of_z v) s.d_ventries));
    "fnames " ^ cat "," (sorted (List.map (fun (u, x) -> si u ^ ":" ^ si x) s.d_fnames));
    "peimp " ^ cat "," (List.map si s.d_peimp);
    "peexp " ^ cat "," (List.map si s.d_peexp);
    "fwd " ^ cat "," (sorted (List.map (fun (a, b) -> si a ^ ">" ^ si b) s.d_fwd)) ]

let dump_rules rules =
  let l xs = cat "," (List.map si (sorted xs)) in
  cat ";" (sorted (List.map (fun r -> l r.ru_int ^ "/" ^ l r.ru_ext ^ "/" ^ l r.ru_access) rules))

let handle = function
  | "delreqs" ->
    let inmod = Array.of_list (listn next_bool) in
    let rs = listn (fun () -> let a = nn () in let f = next_bool () in (a, f)) in
    let (st, outs) = delete_requests (fun s -> inmod.(i_of s)) rs in
    "outs " ^ cat "," (List.map (fun b -> if b then "1" else "0") outs) ^ " | recorded " ^
    cat "," (List.map (fun (a, f) -> si a ^ ":" ^ (if f then "1" else "0")) st)
  | "requests" ->
    let info = Array.of_list (listn (fun () -> let m = next_bool () in let r = next_bool () in { q_in_module = m; q_has_referent = r })) in
    let rs = listn (fun () -> let a = nn () in let b = nn () in (a, b)) in
    let (st, outs) = requests (fun s -> info.(i_of s)) rs in
    "outs " ^ cat "," (List.map (fun b -> if b then "1" else "0") outs) ^ " | recorded " ^ cat "," (List.map (fun (a, b) -> si a ^ ">" ^ si b) st)
  | "delete" ->
    let s = read_dstate () in
    let req = listn (fun () -> let x = nn () in let f = next_bool () in (x, f)) in
    (match delete_symbols req s with Err e -> "err " ^ err_name e | Ok s' -> dump_dstate s')
  | "retarget" ->
    let syms = listn (fun () -> let id = nn () in let r = onat () in let d = next_bool () in let c = next_bool () in
                       (id, { s_ref = r; s_defined = d; s_cfgnode = c })) in
    let isa = nn () in let fmt = nn () in let pie = next_bool () in
    let rules = abi_rules isa fmt pie in
    let pre = "rules " ^ dump_rules rules ^ " | " in
    let rmap = listn (fun () -> let a = nn () in let b = nn () in (a, b)) in
    let sites = listn (fun () -> let iv = nn () in let off = next_z () in let c = next_bool () in let sy = listn nn in let ad = next_z () in
                        let at = listn nn in let nb = nn () in let blk = onat () in let bc = next_bool () in let acc = nn () in
                        { xs_key = (iv, off); xs_expr = { x_const = c; x_syms = sy; x_addend = ad; x_attrs = at };
                          xs_nblocks = nb; xs_block = blk; xs_block_cfg = bc; xs_access = acc }) in
    let cfi = listn (fun () -> let k = nn () in (k, listn (fun () -> let t = nn () in let sy = onat () in (t, sy)))) in
    let fwd = listn (fun () -> let a = nn () in let b = nn () in (a, b)) in
    let edges = listn (fun () -> let a = nn () in let b = nn () in let y = nn () in ((a, b), y)) in
    let st = { r_sites = sites; r_cfi = cfi; r_fwd = fwd; r_edges = edges } in
    (match retarget_symbol_uses syms rules rmap st with
     | Err e -> pre ^ "err " ^ err_name e
     | Ok s' ->
       pre ^ cat " | " [
         "sites " ^ cat ";" (sorted (List.map (fun x -> let (iv, off) = x.xs_key in
             si iv ^ "+" ^ str_of_z off ^ ":" ^ (if x.xs_expr.x_const then "C" else "A") ^ cat "," (List.map si x.xs_expr.x_syms) ^ "+" ^ str_of_z x.xs_expr.x_addend ^
             "{" ^ cat "," (sorted (List.map si x.xs_expr.x_attrs)) ^ "}") s'.r_sites));
         "cfi " ^ cat ";" (sorted (List.map (fun (k, ds) -> si k ^ "=" ^ cat "/" (List.map (fun (t, sy) -> si t ^ (match sy with None -> "null" | Some x -> "s" ^ si x)) ds)) s'.r_cfi));
         "fwd " ^ cat "," (sorted (List.map (fun (a, b) -> si a ^ ">" ^ si b) s'.r_fwd));
         "edges " ^ cat "," (sorted (List.map (fun ((a, b), y) -> si a ^ ">" ^ si b ^ ":" ^ si y) s'.r_edges)) ])
  | c -> failwith ("unknown command " ^ c)
let () = main_loop handle
