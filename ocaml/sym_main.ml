(* symbol-level driver: one case per line; prints the canonical dump of the resulting state *)
let ni () = next_int ()
let nn () = nat_of_int (next_int ())
let i_of n = int_of_nat n
let onat () = let i = next_int () in if i < 0 then None else Some (nat_of_int i)
let listn f = let n = ni () in List.init n (fun _ -> f ())
let si n = string_of_int (i_of n)
let cat = Stdlib.String.concat
let sorted l = List.sort compare l

let read_dstate () =
  let syms = listn nn in
  let symex = listn (fun () -> let iv = nn () in let off = next_z () in let sy = listn nn in ((iv, off), sy)) in
  let cfi = listn (fun () -> let k = nn () in (k, listn (fun () -> let kind = nn () in let args = listn next_z in let sy = onat () in
                                                      { c_kind = kind; c_args = args; c_sym = sy }))) in
  let elf = listn nn in let tab = listn nn in
  let defs = listn (fun () -> let i = next_z () in let f = next_z () in (i, f)) in
  let reqs = listn (fun () -> let lib = nn () in (lib, listn next_z)) in
  let entries = listn (fun () -> let s = nn () in let v = next_z () in (s, v)) in
  let fn = listn (fun () -> let u = nn () in let s = nn () in (u, s)) in
  let peimp = listn nn in let peexp = listn nn in
  let fwd = listn (fun () -> let a = nn () in let b = nn () in (a, b)) in
  { d_syms = syms; d_symex = symex; d_cfi = cfi; d_elfinfo = elf; d_tabidx = tab; d_vdefs = defs; d_vreqs = reqs; d_ventries = entries;
    d_fnames = fn; d_peimp = peimp; d_peexp = peexp; d_fwd = fwd }

let dump_dstate (s : dstate) =
  let zs l = cat "," (List.map str_of_z l) in
  cat " | " [
    "syms " ^ cat "," (sorted (List.map si s.d_syms));
    "symex " ^ cat ";" (sorted (List.map (fun ((iv, off), sy) -> si iv ^ "+" ^ str_of_z off ^ ":" ^ cat "," (List.map si sy)) s.d_symex));
    "cfi " ^ cat ";" (sorted (List.map (fun (k, ds) -> si k ^ "=" ^ cat "/" (List.map (fun d ->
        si d.c_kind ^ "(" ^ zs d.c_args ^ ")" ^ (match d.c_sym with None -> "null" | Some x -> si x)) ds)) s.d_cfi));
    "elf " ^ cat "," (sorted (List.map si s.d_elfinfo));
    "tab " ^ cat "," (sorted (List.map si s.d_tabidx));
    "defs " ^ cat "," (sorted (List.map (fun (i, f) -> str_of_z i ^ ":" ^ str_of_z f) s.d_vdefs));
    "reqs " ^ cat ";" (sorted (List.map (fun (l, vs) -> si l ^ ":" ^ cat "," (sorted (List.map str_of_z vs))) s.d_vreqs));
    "entries " ^ cat "," (sorted (List.map (fun (x, v) -> si x ^ ":" ^ str_of_z v) s.d_ventries));
    "fnames " ^ cat "," (sorted (List.map (fun (u, x) -> si u ^ ":" ^ si x) s.d_fnames));
    "peimp " ^ cat "," (List.map si s.d_peimp);
    "peexp " ^ cat "," (List.map si s.d_peexp);
    "fwd " ^ cat "," (sorted (List.map (fun (a, b) -> si a ^ ">" ^ si b) s.d_fwd)) ]

let handle = function
  | "delete" ->
    let s = read_dstate () in
    let req = listn (fun () -> let x = nn () in let f = next_bool () in (x, f)) in
    (match delete_symbols req s with Err e -> "err " ^ err_name e | Ok s' -> dump_dstate s')
  | c -> failwith ("unknown command " ^ c)
let () = main_loop handle
