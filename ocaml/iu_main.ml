(* intervalutils driver *)
let ni () = next_int ()
let nn () = nat_of_int (next_int ())
let i_of n = int_of_nat n
let listn f = let n = ni () in List.init n (fun _ -> f ())
let cat = Stdlib.String.concat
let sorted l = List.sort compare l
let dmap_z () = listn (fun () -> let d = next_z () in let v = next_z () in (d, v))
let read_ival () =
  let addr = next_z () in let size = next_z () in let contents = bytes_of_hex (next ()) in
  let blocks = listn (fun () -> let id = nn () in let o = next_z () in let s = next_z () in let c = next_bool () in
                       { ib_id = id; ib_off = o; ib_size = s; ib_code = c }) in
  let symex = dmap_z () in
  let t0 = dmap_z () in let t1 = dmap_z () in let t2 = dmap_z () in
  { iv_addr = addr; iv_size = size; iv_contents = contents; iv_blocks = blocks; iv_symex = symex; iv_tabs = [t0; t1; t2] }
let dump_ival (iv : ival) =
  let h = hex_of_bytes iv.iv_contents in
  let dm m = cat "," (sorted (List.map (fun (k, v) -> str_of_z k ^ ":" ^ str_of_z v) m)) in
  "[" ^ str_of_z iv.iv_addr ^ " " ^ str_of_z iv.iv_size ^ " " ^ (if h = "" then "-" else h) ^ " B{" ^
  cat "," (sorted (List.map (fun b -> (if i_of b.ib_id >= 900 then "pad" else string_of_int (i_of b.ib_id)) ^ "@" ^ str_of_z b.ib_off ^ "+" ^ str_of_z b.ib_size ^ (if b.ib_code then "c" else "d")) iv.iv_blocks)) ^
  "} X{" ^ dm iv.iv_symex ^ "} " ^ cat " " (List.map (fun t -> "T{" ^ dm t ^ "}") iv.iv_tabs) ^ "]"
(* the nop: its bytes in hex, or "abi:<isa>" for the table of the model *)
let read_nop () =
  let t = next () in
  if Stdlib.String.length t > 4 && Stdlib.String.sub t 0 4 = "abi:" then abi_nop (nat_of_int (int_of_string (Stdlib.String.sub t 4 (Stdlib.String.length t - 4))))
  else bytes_of_hex t
let handle = function
  | "splitjoin" ->
    let iv = read_ival () in
    let align = listn (fun () -> let id = nn () in let a = next_z () in (id, a)) in
    let nop = read_nop () in
    let parts = split_byte_interval iv in
    let s1 = cat " " (List.map dump_ival parts) in
    (match join_byte_intervals nop align (nat_of_int 900) parts with
     | Err e -> s1 ^ " || err " ^ err_name e
     | Ok j -> s1 ^ " || " ^ dump_ival j)
  | "join" ->
    let parts = listn read_ival in
    let align = listn (fun () -> let id = nn () in let a = next_z () in (id, a)) in
    let nop = read_nop () in
    (match join_byte_intervals nop align (nat_of_int 900) parts with
     | Err e -> "err " ^ err_name e
     | Ok j -> dump_ival j)
  | c -> failwith ("unknown command " ^ c)
let () = main_loop handle
