(* C15 driver.  eval <retcol> <big> <ps> <nblocks> { <id> <addr> <nentries> { <off> <ndirs> { <name> <nargs> args.. <sym> } } }
   sym: N (null uuid) | M (dangling uuid) | S<id> *)
let cls_name (t : cls list) (i : nat) = str_of_cstr (List.nth t (int_of_nat i)).cname
let show_op (o : eop) =
  cls_name expr_table o.o_cls ^ "(" ^ Stdlib.String.concat "," (List.map str_of_z o.o_args) ^ ")"
let show_ops l = "[" ^ Stdlib.String.concat ";" (List.map show_op l) ^ "]"
let show_rule = function
  | RUndefined -> "U" | RSameValue -> "S" | ROffset o -> "O" ^ str_of_z o | RValOffset o -> "V" ^ str_of_z o
  | RInRegister r -> "R" ^ str_of_z r | RAtExpr e -> "A" ^ show_ops e | RIsExpr e -> "I" ^ show_ops e
let show_cfa = function
  | None -> "-" | Some (CFARegOff (r, o)) -> "reg" ^ str_of_z r ^ "+" ^ str_of_z o | Some (CFAExpr e) -> "expr" ^ show_ops e
let show_row (r : row) =
  "{" ^ Stdlib.String.concat "," (List.map (fun (k, v) -> str_of_z k ^ ":" ^ show_rule v) r.regs) ^ "|" ^ show_cfa r.cfa ^ "}"
let show_ptr = function None -> "-" | Some (e, s) -> str_of_z e ^ "@" ^ str_of_z s
let show_state = function
  | None -> "None"
  | Some s -> "P(" ^ str_of_z s.retcol ^ " " ^ show_ptr s.personality ^ " " ^ show_ptr s.lsda ^ " " ^ show_row s.current ^ " "
              ^ show_row s.initial ^ " [" ^ Stdlib.String.concat ";" (List.map show_row s.stack) ^ "])"
let read_directive () =
  let name = cstr_of_str (next ()) in
  let n = next_int () in
  let args = List.init n (fun _ -> next_z ()) in
  let s = next () in
  let sym = if s = "N" then SymNull else if s = "M" then SymMissing
            else Sym (z_of_str (Stdlib.String.sub s 1 (Stdlib.String.length s - 1))) in
  ((name, args), sym)
let handle cmd =
  match cmd with
  | "eval" ->
    let retcol = next_z () in let big = next_bool () in let ps = next_z () in
    let nb = next_int () in
    let blocks = List.init nb (fun _ ->
      let id = next_z () in let addr = next_z () in let ne = next_int () in
      let entries = List.init ne (fun _ ->
        let off = next_z () in let nd = next_int () in
        (off, List.init nd (fun _ -> read_directive ()))) in
      ((id, addr), entries)) in
    let (ys, e) = evaluate retcol big ps blocks in
    Stdlib.String.concat " ; " (List.map (fun ((b, off), st) -> "y " ^ str_of_z b ^ " " ^ str_of_z off ^ " " ^ show_state st) ys)
    ^ (match e with None -> " ; end" | Some er -> " ; err " ^ err_name er)
  | c -> failwith ("unknown command " ^ c)
let () = main_loop handle
