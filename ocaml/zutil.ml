(* Shared glue for the extracted-model drivers.  Compiled after `module Zar = Z` (zarith)
   and `open <Model>`; only converts between text and the extracted Coq datatypes. *)
let rec pos_of_zar (n : Zar.t) : positive =
  if Zar.equal n Zar.one then XH
  else if Zar.is_odd n then XI (pos_of_zar (Zar.shift_right n 1))
  else XO (pos_of_zar (Zar.shift_right n 1))
let z_of_zar (n : Zar.t) : z =
  if Zar.sign n = 0 then Z0 else if Zar.sign n > 0 then Zpos (pos_of_zar n) else Zneg (pos_of_zar (Zar.neg n))
let rec zar_of_pos (p : positive) : Zar.t = match p with
  | XH -> Zar.one
  | XO q -> Zar.shift_left (zar_of_pos q) 1
  | XI q -> Zar.succ (Zar.shift_left (zar_of_pos q) 1)
let zar_of_z (v : z) : Zar.t = match v with Z0 -> Zar.zero | Zpos p -> zar_of_pos p | Zneg p -> Zar.neg (zar_of_pos p)
let z_of_str (s : Stdlib.String.t) : z = z_of_zar (Zar.of_string s)
let str_of_z (v : z) : Stdlib.String.t = Zar.to_string (zar_of_z v)
let z_of_int (i : int) : z = z_of_zar (Zar.of_int i)
let int_of_z (v : z) : int = Zar.to_int (zar_of_z v)
let rec nat_of_int (i : int) : nat = if i <= 0 then O else S (nat_of_int (i - 1))
let rec int_of_nat (n : nat) : int = match n with O -> 0 | S m -> 1 + int_of_nat m
let bool_of_ascii_bits c k = (Char.code c lsr k) land 1 = 1
let ascii_of_char (c : char) : ascii =
  Ascii (bool_of_ascii_bits c 0, bool_of_ascii_bits c 1, bool_of_ascii_bits c 2, bool_of_ascii_bits c 3,
         bool_of_ascii_bits c 4, bool_of_ascii_bits c 5, bool_of_ascii_bits c 6, bool_of_ascii_bits c 7)
let char_of_ascii (a : ascii) : char = match a with
  | Ascii (b0,b1,b2,b3,b4,b5,b6,b7) ->
    let v b k = if b then 1 lsl k else 0 in
    Char.chr (v b0 0 + v b1 1 + v b2 2 + v b3 3 + v b4 4 + v b5 5 + v b6 6 + v b7 7)
let cstr_of_str (s : Stdlib.String.t) : string =
  let r = ref EmptyString in
  for i = Stdlib.String.length s - 1 downto 0 do r := String (ascii_of_char s.[i], !r) done; !r
let str_of_cstr (s : string) : Stdlib.String.t =
  let b = Buffer.create 16 in
  let rec go = function EmptyString -> () | String (a, t) -> Buffer.add_char b (char_of_ascii a); go t in
  go s; Buffer.contents b
let hex_of_bytes (l : z list) : Stdlib.String.t =
  Stdlib.String.concat "" (List.map (fun b -> Printf.sprintf "%02x" (int_of_z b)) l)
let bytes_of_hex (s : Stdlib.String.t) : z list =
  let s = if s = "-" then "" else s in
  let n = Stdlib.String.length s / 2 in
  List.init n (fun i -> z_of_int (int_of_string ("0x" ^ Stdlib.String.sub s (2*i) 2)))
let err_name (e : err) : Stdlib.String.t = match e with
  | ValueErr -> "ValueError" | EOFErr -> "EOFError" | OverflowErr -> "OverflowError"
  | TypeErr -> "TypeError" | AssertErr -> "AssertionError" | KeyErr -> "KeyError"
  | IndexErr -> "IndexError" | CFIStateErr -> "CFIStateError" | NotImplementedErr -> "NotImplementedError" | UsesRemainErr -> "SymbolUsesRemainingError" | AmbiguousErr -> "AmbiguousIRError" | MultiDefErr -> "MultipleDefinitionsError" | UndefErr -> "UndefSymbolError" | UnsupportedErr -> "UnsupportedAssemblyError" | OutOfFuel -> "OutOfFuel"
(* token stream over one input line *)
let toks : Stdlib.String.t list ref = ref []
let set_line (l : Stdlib.String.t) = toks := List.filter (fun s -> s <> "") (Stdlib.String.split_on_char ' ' l)
let next () = match !toks with [] -> failwith "short line" | t :: r -> toks := r; t
let next_int () = int_of_string (next ())
let next_z () = z_of_str (next ())
let next_bool () = next () = "1"
let main_loop (handle : Stdlib.String.t -> Stdlib.String.t) =
  try
    while true do
      let l = input_line stdin in
      set_line l;
      let cmd = next () in
      let out = (try handle cmd with Failure m -> "driver-failure " ^ m | Not_found -> "driver-failure not-found") in
      print_string out; print_newline ()
    done
  with End_of_file -> ()
