(* C17 driver.  call <x86|a64> <W> <adj|-> <align> <caller_cleanup> <shadow> <nregs> regs.. <nargs> {i <v> | s <id>}  *)
let tok = function
  | SubSp n -> "sub:" ^ str_of_z n | AddSp n -> "add:" ^ str_of_z n
  | MovImm (r, v) -> "mov:" ^ string_of_int (int_of_nat r) ^ "=" ^ str_of_z v
  | MovMem (r, s) -> "movmem:" ^ string_of_int (int_of_nat r) ^ "=s" ^ string_of_int (int_of_nat s)
  | PushImm v -> "push:" ^ str_of_z v | PushMem s -> "pushmem:s" ^ string_of_int (int_of_nat s)
  | Call s -> "call:s" ^ string_of_int (int_of_nat s)
  | MovSmall (r, v) -> "movsmall:" ^ string_of_int (int_of_nat r) ^ "=" ^ str_of_z v
  | Movz (r, c) -> "movz:" ^ string_of_int (int_of_nat r) ^ "=" ^ str_of_z c
  | Movk (r, c, sh) -> "movk:" ^ string_of_int (int_of_nat r) ^ "=" ^ str_of_z c ^ "<<" ^ str_of_z sh
  | Adrp (r, s) -> "adrp:" ^ string_of_int (int_of_nat r) ^ "=s" ^ string_of_int (int_of_nat s)
  | AddLo12 (r, s) -> "addlo12:" ^ string_of_int (int_of_nat r) ^ "=s" ^ string_of_int (int_of_nat s)
  | StrSlot (r, o) -> "str:" ^ string_of_int (int_of_nat r) ^ "@" ^ str_of_z o
  | Bl s -> "bl:s" ^ string_of_int (int_of_nat s)
let handle = function
  | "call" ->
    let fam = next () in let w = next_z () in
    let adjs = next () in let adj = if adjs = "-" then None else Some (z_of_str adjs) in
    let align = next_z () in let cc = next_bool () in let shadow = next_z () in
    let nr = next_int () in let regs = List.init nr (fun _ -> nat_of_int (next_int ())) in
    let na = next_int () in
    let args = List.init na (fun _ -> match next () with
        | "i" -> AInt (next_z ()) | "s" -> ASym (nat_of_int (next_int ())) | t -> failwith ("arg " ^ t)) in
    let cv = { cregs = regs; calign = align; caller_cleanup = cc; shadow = shadow } in
    if fam = "x86" then Stdlib.String.concat " " (List.map tok (call_x86 w cv (nat_of_int 99) args adj))
    else (match a64_accepts cv with
        | Err e -> "err " ^ err_name e
        | Ok _ -> Stdlib.String.concat " " (List.map tok (call_a64 cv (nat_of_int 99) args)))
  | c -> failwith ("unknown command " ^ c)
let () = main_loop handle
