# prototype C12: assembler result invariants on random item lists (x86-64)
import random, gtirb, gtirb_rewriting, sys, logging
sys.path.insert(0,'/repo/tests')
from gtirb_test_helpers import add_code_block, add_symbol, add_text_section, create_test_module, add_proxy_block
from gtirb_rewriting.assembler import Assembler
logging.disable(logging.CRITICAL)
ET=gtirb.Edge.Type
ITEMS=[("nop","ord"),("jmp {L}","jmp"),("jne {L}","jcc"),("call {L}","call"),("ret","ret"),("jmp *%rax","ijmp"),("call *%rax","icall"),
       ("{D}:","label"),(".byte 1","data"),(".byte 2, 3","data"),(".quad ext","dataexpr"),(".zero 2","data"),(".align 4","align"),(".string \"ab\"","str"),(".uleb128 5","leb")]
def gen(rnd):
    n=rnd.randint(1,6); items=[]; nlab=0
    for _ in range(n):
        t,k=rnd.choice(ITEMS)
        if k=="label": t=t.format(D=f"l{nlab}"); nlab+=1
        items.append((t,k))
    # fill targets: any defined label or ext
    labs=[t[:-1] for t,k in items if k=="label"]+["ext"]
    items=[(t.format(L=rnd.choice(labs)) if "{L}" in t else t,k) for t,k in items]
    return items
bad=0; exc={}; kinds={}
for seed in range(int(sys.argv[1])):
    rnd=random.Random(seed); items=gen(rnd); tu=rnd.random()<0.5
    ir, m = create_test_module(gtirb.Module.FileFormat.ELF, gtirb.Module.ISA.X64)
    _, bi = add_text_section(m, address=0x1000); b0=add_code_block(bi,b"\x90"); ext=add_symbol(m,"ext",b0)
    a=Assembler(m, trivially_unreachable=tu)
    try:
        a.assemble("\n".join(t for t,k in items)); r=a.finalize()
    except Exception as e:
        k=type(e).__name__+":"+str(e)[:60]; exc[k]=exc.get(k,0)+1; continue
    errs=[]
    sec=r.text_section; off=0
    for i,b in enumerate(sec.blocks):
        if b.offset!=off: errs.append(f"tiling gap at block {i}")
        off+=b.size
        if b.size==0 and i!=len(sec.blocks)-1: errs.append("empty block not last")
    if off!=len(sec.data): errs.append("sizes do not sum to data")
    blocks=set(sec.blocks)
    for e in r.cfg:
        if e.source not in blocks: errs.append("edge source not a result block")
        if isinstance(e.target,gtirb.CodeBlock) and e.target not in blocks and e.target is not b0: errs.append("edge target stray block")
        if isinstance(e.target,gtirb.ProxyBlock) and e.target not in r.proxies: errs.append("proxy not in result.proxies")
        if isinstance(e.source,gtirb.DataBlock) or isinstance(e.target,gtirb.DataBlock): errs.append("edge touches data block")
    for b in sec.blocks:
        if isinstance(b,gtirb.CodeBlock):
            outs=list(r.cfg.out_edges(b)); types=sorted(e.label.type.name for e in outs)
            if types not in (["Fallthrough"],[],["Branch"],["Branch","Fallthrough"],["Call","Fallthrough"],["Return"]): errs.append(f"odd out-edge multiset {types}")
            if len([e for e in outs if e.label.type==ET.Fallthrough])>1: errs.append("two fallthroughs")
            for e in outs:
                if e.label.type==ET.Fallthrough:
                    i=sec.blocks.index(b)
                    if i+1>=len(sec.blocks) or e.target is not sec.blocks[i+1]: errs.append("fallthrough not to next block")
    for s in r.symbols:
        if s.referent is None: errs.append("symbol without referent")
        elif isinstance(s.referent,gtirb.ByteBlock) and s.referent not in blocks: errs.append(f"symbol {s.name} refers to stray block")
    for k in sec.symbolic_expressions:
        if not 0<=k<len(sec.data): errs.append("symexpr out of range")
    if errs:
        bad+=1; sig=tuple(sorted(set(errs))); kinds[sig]=kinds.get(sig,0)+1
        if kinds[sig]==1: print("BAD",seed,tu,[t for t,k in items],errs[:3],[(type(b).__name__,b.offset,b.size) for b in sec.blocks])
print("bad",bad,"exc",exc)
