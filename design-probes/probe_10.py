import random, gtirb, sys
from gtirb_rewriting._modify.cache import ReferenceCache
def run(seed, nblocks=3, nsyms=4, steps=12):
    rnd = random.Random(seed)
    ir = gtirb.IR(); m = gtirb.Module(name="m", ir=ir, isa=gtirb.Module.ISA.X64, file_format=gtirb.Module.FileFormat.ELF)
    s = gtirb.Section(name=".text", module=m); bi = gtirb.ByteInterval(contents=b"\x90"*nblocks, section=s, address=0x1000)
    blocks = [gtirb.CodeBlock(offset=i,size=1,byte_interval=bi) for i in range(nblocks)]
    syms = []
    spec = {}
    for i in range(nsyms):
        b = rnd.choice(blocks+[None]); ae = rnd.random()<0.5
        sy = gtirb.Symbol(f"s{i}", payload=b, at_end=ae, module=m); syms.append(sy); spec[i]=(b,ae)
    rc = ReferenceCache(); hist=[]
    for _ in range(steps):
        op = rnd.choice(["retarget"]*3+["get_referent","get_references","set_referent","apply"])
        if op=="retarget":
            a,b = rnd.choice(blocks), rnd.choice(blocks); ae = rnd.random()<0.5
            hist.append((op,blocks.index(a),blocks.index(b),ae))
            has = any(v[0] is a for v in spec.values())
            rc.retarget_references(a,b,ae)
            for k,v in spec.items():
                if v[0] is a: spec[k]=(b,ae)
        elif op=="get_referent":
            i = rnd.randrange(nsyms); hist.append((op,i))
            r = rc.get_referent(syms[i])
            if r is not spec[i][0]: return ("get_referent mismatch",hist)
            if r is not None and syms[i].at_end != spec[i][1]: return ("at_end mismatch after get_referent",hist, syms[i].at_end, spec[i])
        elif op=="get_references":
            b = rnd.choice(blocks); hist.append((op,blocks.index(b)))
            got = list(rc.get_references(b))
            exp = {i for i,v in spec.items() if v[0] is b}
            if {syms.index(x) for x in got}!=exp or len(got)!=len(exp): return ("get_references mismatch",hist,[x.name for x in got],exp)
            for x in got:
                if x.at_end != spec[syms.index(x)][1] or x.referent is not b: return ("get_references attr mismatch",hist)
        elif op=="set_referent":
            i = rnd.randrange(nsyms); b = rnd.choice(blocks+[None]); ae = rnd.random()<0.5; hist.append((op,i,blocks.index(b) if b else None,ae))
            rc.set_referent(syms[i],b,ae); spec[i]=(b,ae)
        else:
            hist.append((op,)); rc.apply()
            for i in range(nsyms):
                if syms[i].referent is not spec[i][0] or (spec[i][0] is not None and syms[i].at_end!=spec[i][1]): return ("apply mismatch",hist,i)
    rc.apply()
    for i in range(nsyms):
        if syms[i].referent is not spec[i][0] or (spec[i][0] is not None and syms[i].at_end!=spec[i][1]): return ("final mismatch",hist,i)
    return None
bad=0
for seed in range(30000):
    try:
        r = run(seed)
    except Exception as e:
        r = ("EXC "+type(e).__name__+" "+str(e),)
    if r:
        bad+=1
        if bad<=5: print(seed, r)
print("bad", bad)
