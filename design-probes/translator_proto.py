import ast, sys
SRC="/repo/src/gtirb_rewriting/"
class Fail(Exception): pass
def find_func(tree, qual):
    parts=qual.split("."); node=tree
    for p in parts:
        for n in ast.walk(node) if node is tree else node.body:
            if isinstance(n,(ast.FunctionDef,ast.ClassDef)) and n.name==p: node=n; break
        else: raise Fail(f"no {p}")
    return node
BIN={ast.Add:"+",ast.Sub:"-",ast.Mult:"*"}
CMP={ast.Lt:"<?",ast.LtE:"<=?",ast.Gt:">?",ast.GtE:">=?",ast.Eq:"=?"}
def expr(e, env):
    if isinstance(e,ast.Name):
        if e.id in env: return env[e.id]
        raise Fail(f"free name {e.id}")
    if isinstance(e,ast.Attribute):
        key=ast.unparse(e)
        if key in env: return env[key]
        raise Fail(f"free attr {key}")
    if isinstance(e,ast.Constant) and isinstance(e.value,int) and not isinstance(e.value,bool): return f"{e.value}"
    if isinstance(e,ast.BinOp) and type(e.op) in BIN: return f"({expr(e.left,env)} {BIN[type(e.op)]} {expr(e.right,env)})"
    if isinstance(e,ast.BinOp) and isinstance(e.op,ast.BitAnd): return f"(Z.land {expr(e.left,env)} {expr(e.right,env)})"
    if isinstance(e,ast.UnaryOp) and isinstance(e.op,ast.USub): return f"(- {expr(e.operand,env)})"
    if isinstance(e,ast.UnaryOp) and isinstance(e.op,ast.Invert): return f"(Z.lnot {expr(e.operand,env)})"
    if isinstance(e,ast.UnaryOp) and isinstance(e.op,ast.Not): return f"(negb {expr(e.operand,env)})"
    if isinstance(e,ast.Compare) and len(e.ops)==1 and type(e.ops[0]) in CMP: return f"({expr(e.left,env)} {CMP[type(e.ops[0])]} {expr(e.comparators[0],env)})"
    if isinstance(e,ast.Compare) and len(e.ops)==1 and isinstance(e.ops[0],ast.NotIn):
        key="in:"+ast.unparse(e.comparators[0])
        if key in env: return f"(negb ({env[key]} {expr(e.left,env)}))"
    if isinstance(e,ast.BoolOp): 
        op=" && " if isinstance(e.op,ast.And) else " || "
        return "("+op.join(expr(v,env) for v in e.values)+")"
    if isinstance(e,ast.IfExp): return f"(if {expr(e.test,env)} then {expr(e.body,env)} else {expr(e.orelse,env)})"
    if isinstance(e,ast.Call) and isinstance(e.func,ast.Name) and e.func.id=="len": 
        key="len:"+ast.unparse(e.args[0])
        if key in env: return env[key]
    raise Fail(f"unsupported {ast.dump(e)[:80]}")
t=ast.parse(open(SRC+"_modify/edit.py").read())
f=find_func(t,"edit_byte_interval")
# locate: size_delta assignment; 2 dict comps
out=[]
for st in f.body:
    if isinstance(st,ast.Assign) and ast.unparse(st.targets[0])=="size_delta":
        out.append("Definition ebi_size_delta (content_len length : Z) : Z := "+expr(st.value,{"len:content":"content_len","length":"length"})+".")
    if isinstance(st,ast.Assign) and ast.unparse(st.targets[0])=="bi.symbolic_expressions":
        dc=st.value; assert isinstance(dc,ast.DictComp)
        env={"k":"k","offset":"offset","length":"length","size_delta":"size_delta"}
        out.append("Definition ebi_symexpr_newkey (k offset size_delta : Z) : Z := "+expr(dc.key,env)+".")
        out.append("Definition ebi_symexpr_kept (k offset length : Z) : bool := "+expr(dc.generators[0].ifs[0],env)+".")
    if isinstance(st,ast.For) and ast.unparse(st.iter)=="bi.blocks":
        out.append("Definition ebi_block_moves (b_offset offset : Z) (in_static : Z -> bool) (b : Z): bool := "+expr(st.body[0].test,{"b.offset":"b_offset","offset":"offset","in:static_blocks":"in_static","b":"b"})+".")
t=ast.parse(open(SRC+"utils.py").read())
f=find_func(t,"align_address"); out.append("Definition align_address (address alignment : Z) : Z := "+expr(f.body[-1].value,{"address":"address","alignment":"alignment"})+".")
f=find_func(t,"effective_alignment"); out.append("Definition effective_alignment (address max_alignment : Z) : Z := "+expr(f.body[-1].value,{"address":"address","max_alignment":"max_alignment"})+".")
t=ast.parse(open(SRC+"rewriting.py").read())
f=find_func(t,"RewritingContext._apply_modifications")
for n in ast.walk(f):
    if isinstance(n,ast.Assign) and ast.unparse(n.targets[0]) in("block_delta","actual_offset"):
        out.append(f"Definition am_{ast.unparse(n.targets[0])} := "+expr(n.value,{"actual_block.offset":"actual_off","block.offset":"block_off","offset":"offset","total_insert_len":"total","block_delta":"block_delta"})+".")
print("\n".join(out))
