# Experiment: C09 - patch referencing label of a block deleted earlier in same apply()
import gtirb, gtirb_rewriting, sys
sys.path.insert(0,'/repo/tests')
from gtirb_test_helpers import add_code_block, add_symbol, add_text_section, create_test_module, add_function, add_edge
from helpers import literal_patch, add_function_object

ir, m = create_test_module(gtirb.Module.FileFormat.ELF, gtirb.Module.ISA.X64)
_, bi = add_text_section(m, address=0x1000)
b1 = add_code_block(bi, b"\x90")          # nop
b2 = add_code_block(bi, b"\x90\x90")      # labeled foo; will be deleted
b3 = add_code_block(bi, b"\x90\x90\x90")  # patch here refers to foo
add_edge(ir.cfg, b1, b2, gtirb.Edge.Type.Fallthrough)
add_edge(ir.cfg, b2, b3, gtirb.Edge.Type.Fallthrough)
foo = add_symbol(m, "foo", b2)
ctx = gtirb_rewriting.RewritingContext(m, [])
ctx.delete_at(b2, 0, b2.size)
ctx.insert_at(b3, 1, literal_patch("jmp foo"))
try:
    ctx.apply()
    print("OK; foo.referent", foo.referent, foo.at_end)
    for b in sorted(m.byte_blocks, key=lambda b:b.address): print(b, b.address, b.size, b.contents.hex())
    for e in ir.cfg: print(e)
except Exception as e:
    import traceback; traceback.print_exc()
