# prototype: CFG consistency oracle on output (C03) for insert/delete/replace, single & two functions
import re, random, gtirb, gtirb_rewriting, sys, logging, capstone
sys.path.insert(0,'/repo/tests')
from gtirb_test_helpers import add_code_block, add_symbol, add_text_section, create_test_module, add_edge, add_proxy_block
from helpers import literal_patch, add_function_object
logging.disable(logging.CRITICAL)
cs = capstone.Cs(capstone.CS_ARCH_X86, capstone.CS_MODE_64)
ET = gtirb.Edge.Type
def enc(kind):
    return {"nop":b"\x90","jmp":b"\xe9\0\0\0\0","jcc":b"\x0f\x85\0\0\0\0","call":b"\xe8\0\0\0\0","ret":b"\xc3"}[kind]
SYMOFF={"jmp":1,"jcc":2,"call":1}
def gen(rnd, nfun):
    # functions: list of blocks; block: list of (kind,target_label)
    funs=[]; labels=[]
    for f in range(nfun):
        nb=rnd.randint(1,3); blocks=[]
        for b in range(nb):
            n=rnd.randint(0,2); ins=[("nop",None)]*n
            term=rnd.choice(["nop","jmp","jcc","call","ret","ret"])
            ins=ins+[(term,None)]
            blocks.append(ins); labels.append(f"L{f}_{b}")
        blocks[-1][-1]=("ret",None)
        funs.append(blocks)
    # assign targets
    for f,blocks in enumerate(funs):
        for b,ins in enumerate(blocks):
            k,_=ins[-1]
            if k in("jmp","jcc"): ins[-1]=(k, f"L{f}_{rnd.randrange(len(blocks))}")
            elif k=="call": ins[-1]=(k, f"L{rnd.randrange(nfun)}_0")
    mods=[]
    for f,blocks in enumerate(funs):
        for b,ins in enumerate(blocks):
            bounds=[0]
            for k,_ in ins: bounds.append(bounds[-1]+len(enc(k)))
            if rnd.random()<0.5:
                p=rnd.randrange(len(bounds))
                t=rnd.choice(MODKINDS)
                if t=="ins":
                    patch=rnd.choice(["nop","nop\nret","call L0_0","jmp L0_0","jne L0_0\nnop","nop\ncall L%d_0"%(nfun-1)])
                    mods.append((f,b,"ins",bounds[p],0,patch))
                else:
                    q=rnd.randint(p,len(bounds)-1); ln=bounds[q]-bounds[p]
                    if ln==0: continue
                    mods.append((f,b,t,bounds[p],ln,None if t=="del" else "nop"))
    return funs,mods
def build(funs):
    ir, m = create_test_module(gtirb.Module.FileFormat.ELF, gtirb.Module.ISA.X64)
    _, bi = add_text_section(m, address=0x1000)
    syms={}; gbs={}
    for f,blocks in enumerate(funs):
        for b,ins in enumerate(blocks): syms[f"L{f}_{b}"]=add_symbol(m,f"L{f}_{b}")
    flat=[]
    for f,blocks in enumerate(funs):
        for b,ins in enumerate(blocks):
            data=b"".join(enc(k) for k,_ in ins); se={}
            k,t=ins[-1]
            if t: se[(len(data)-len(enc(k))+SYMOFF[k],4)]=gtirb.SymAddrConst(0,syms[t])
            gb=add_code_block(bi,data,se); gbs[(f,b)]=gb; syms[f"L{f}_{b}"].referent=gb; flat.append((f,b))
    fobjs=[]
    for f,blocks in enumerate(funs):
        fobjs.append(add_function_object(m,syms[f"L{f}_0"],gbs[(f,0)],{gbs[(f,b)] for b in range(1,len(blocks))}))
    # consistent CFG
    callers={f:[] for f in range(len(funs))}
    for i,(f,b) in enumerate(flat):
        k,t=funs[f][b][-1]; nxt=gbs[flat[i+1]] if i+1<len(flat) else None
        if k=="nop" and nxt: add_edge(ir.cfg,gbs[(f,b)],nxt,ET.Fallthrough)
        if k=="jmp": add_edge(ir.cfg,gbs[(f,b)],syms[t].referent,ET.Branch)
        if k=="jcc":
            add_edge(ir.cfg,gbs[(f,b)],syms[t].referent,ET.Branch,conditional=True)
            if nxt: add_edge(ir.cfg,gbs[(f,b)],nxt,ET.Fallthrough)
        if k=="call":
            add_edge(ir.cfg,gbs[(f,b)],syms[t].referent,ET.Call)
            if nxt: add_edge(ir.cfg,gbs[(f,b)],nxt,ET.Fallthrough); callers[int(t[1:].split('_')[0])].append(nxt)
    for (f,b) in flat:
        if funs[f][b][-1][0]=="ret":
            if callers[f]:
                for r in callers[f]: add_edge(ir.cfg,gbs[(f,b)],r,ET.Return)
            else: add_edge(ir.cfg,gbs[(f,b)],add_proxy_block(m),ET.Return)
    return ir,m,gbs,fobjs
def check(ir,m):
    errs=[]
    fb = m.aux_data["functionBlocks"].data; fe=m.aux_data["functionEntries"].data
    func_of={}
    for u,bs in fb.items():
        for b in bs: func_of[b]=u
    code=sorted(m.code_blocks,key=lambda b:b.address)
    starts={b.address:b for b in code if b.size}
    insn_kind={}; 
    blocks_by_addr={}
    calls_into={}  # func uuid -> set of return-site block
    info={}
    for b in code:
        if not b.size:
            errs.append(f"zero-size block at {b.address:x}"); continue
        ins=list(cs.disasm(b.contents,b.address))
        if sum(i.size for i in ins)!=b.size: errs.append("partial disasm"); continue
        for i in ins[:-1]:
            if i.mnemonic in("jmp","jne","call","ret"): errs.append(f"buried terminator {i.mnemonic} at {i.address:x}")
        last=ins[-1]; k={"jmp":"jmp","jne":"jcc","call":"call","ret":"ret"}.get(last.mnemonic,"nop")
        tgt=None
        if k in SYMOFF:
            se=None
            for o in range(b.offset+b.size-last.size, b.offset+b.size):
                se=se or b.byte_interval.symbolic_expressions.get(o)
            if se is None: errs.append("missing symexpr"); continue
            tgt=se.symbol.referent
        end=b.address+b.size
        nxt=starts.get(end)
        info[b]=(k,tgt,nxt)
        if k=="call" and isinstance(tgt,gtirb.CodeBlock) and tgt in func_of and nxt is not None:
            calls_into.setdefault(func_of[tgt],set()).add(nxt)
    for b,(k,tgt,nxt) in info.items():
        exp=set()
        if k in("nop","jcc","call") and nxt is not None: exp.add(("Fallthrough",nxt.address,False))
        if k=="jmp": exp.add(("Branch",tgt.address if isinstance(tgt,gtirb.CodeBlock) else "proxy",False))
        if k=="jcc": exp.add(("Branch",tgt.address if isinstance(tgt,gtirb.CodeBlock) else "proxy",True))
        if k=="call": exp.add(("Call",tgt.address if isinstance(tgt,gtirb.CodeBlock) else "proxy",False))
        if k=="ret":
            sites=calls_into.get(func_of.get(b),set())
            if sites: exp|={("Return",s.address,False) for s in sites}
            else: exp.add(("Return","proxy",False))
        got={(e.label.type.name, e.target.address if isinstance(e.target,gtirb.CodeBlock) else "proxy", bool(e.label.conditional)) for e in b.outgoing_edges}
        if got!=exp: errs.append(f"block {b.address:x} {k}: got {sorted(got,key=str)} exp {sorted(exp,key=str)}")
    return errs
MODKINDS=sys.argv[2].split(",")
bad=0; exc={}; kinds={}
for seed in range(int(sys.argv[1])):
    rnd=random.Random(seed); funs,mods=gen(rnd, int(sys.argv[3]))
    ir,m,gbs,fobjs=build(funs)
    pre=check(ir,m)
    if pre: print("GENERATOR BUG",seed,pre); break
    ctx=gtirb_rewriting.RewritingContext(m,fobjs)
    for (f,b,t,off,ln,p) in mods:
        blk=gbs[(f,b)]
        if t=="ins": ctx.insert_at(blk,off,literal_patch(p))
        elif t=="del": ctx.delete_at(blk,off,ln)
        else: ctx.replace_at(blk,off,ln,literal_patch(p))
    try: ctx.apply()
    except Exception as e:
        k=type(e).__name__+":"+str(e)[:50]; exc[k]=exc.get(k,0)+1; continue
    errs=check(ir,m)
    if errs:
        bad+=1
        key=errs[0].split(':')[0][-8:]
        sig=tuple(sorted({re.sub(r"[0-9a-f]{4}|\d+","N",e) for e in errs}))
        kinds[sig]=kinds.get(sig,0)+1
        if kinds[sig]<=1 and len(kinds)<=int(sys.argv[4]): print("INCONSISTENT",seed,funs,mods,"\n   ",errs[:3])
print("bad",bad,"exc",exc,"classes",len(kinds))
