import gtirb, gtirb_rewriting, sys
sys.path.insert(0,'/repo/tests')
from gtirb_test_helpers import add_code_block, add_symbol, add_text_section, create_test_module
from gtirb_rewriting.assembler import Assembler
import capstone
def tryasm(m, asm, syn, cs):
    try:
        a = Assembler(m); a.assemble(asm, syn); r = a.finalize()
        print(repr(asm), '=>', r.text_section.data.hex(), [(i.mnemonic,i.op_str) for i in cs.disasm(r.text_section.data,0)])
    except Exception as e:
        print(repr(asm), "EXC", type(e).__name__, e)
ir, m = create_test_module(gtirb.Module.FileFormat.ELF, gtirb.Module.ISA.ARM64)
_, bi = add_text_section(m, address=0x1000); b1 = add_code_block(bi, b"\x1f\x20\x03\xd5"); add_symbol(m,"foo",b1)
cs = capstone.Cs(capstone.CS_ARCH_ARM64, capstone.CS_MODE_ARM)
for asm in ["mov x0, #0x-5", "mov x0, #0xffff", "mov x0, #0x0", "movz x0, #0xfffb\nmovk x0, #0xffff, lsl #16\nmovk x0, #0xffff, lsl #32\nmovk x0, #0xffff, lsl #48", "adrp x0, foo\nadd x0, x0, #:lo12:foo", "sub sp, sp, #16\nstr x0, [sp, #8]"]:
    tryasm(m, asm, gtirb_rewriting.X86Syntax.ATT, cs)
ir, m = create_test_module(gtirb.Module.FileFormat.PE, gtirb.Module.ISA.X64)
_, bi = add_text_section(m, address=0x1000); b1 = add_code_block(bi, b"\x90"); add_symbol(m,"foo",b1)
cs = capstone.Cs(capstone.CS_ARCH_X86, capstone.CS_MODE_64)
for asm in ["mov RCX, foo", "push foo", "call foo", "sub rsp, 32"]:
    tryasm(m, asm, gtirb_rewriting.X86Syntax.INTEL, cs)
ir, m = create_test_module(gtirb.Module.FileFormat.PE, gtirb.Module.ISA.IA32)
_, bi = add_text_section(m, address=0x1000); b1 = add_code_block(bi, b"\x90"); add_symbol(m,"foo",b1)
cs = capstone.Cs(capstone.CS_ARCH_X86, capstone.CS_MODE_32)
for asm in ["push foo", "push 4294967295", "push -1", "push 2147483648"]:
    tryasm(m, asm, gtirb_rewriting.X86Syntax.INTEL, cs)
