import random, gtirb, sys, copy as cp
sys.path.insert(0,'/repo/tests')
from gtirb_test_helpers import add_code_block, add_symbol, add_text_section, create_test_module
import gtirb_rewriting._auxdata as aux
from gtirb_rewriting._auxdata import NULL_UUID
from gtirb_rewriting.dwarf.cfi_eval import evaluate_cfi_directives, CFIStateError
from gtirb_rewriting.dwarf.cfi import InstExpression, InstDefCFAExpression
from gtirb_rewriting.dwarf.expr import OpConst1U
D=[(".cfi_def_cfa",2),(".cfi_def_cfa_register",1),(".cfi_def_cfa_offset",1),(".cfi_adjust_cfa_offset",1),(".cfi_undefined",1),(".cfi_same_value",1),(".cfi_register",2),(".cfi_restore",1),(".cfi_val_offset",2),(".cfi_offset",2),(".cfi_rel_offset",2),(".cfi_remember_state",0),(".cfi_restore_state",0),(".cfi_return_column",1),(".cfi_startproc",0),(".cfi_endproc",0)]
exc={}; alias_bad=0; n=0
for seed in range(20000):
    rnd=random.Random(seed)
    ir, m = create_test_module(gtirb.Module.FileFormat.ELF, gtirb.Module.ISA.X64)
    _, bi = add_text_section(m, address=0x1000); b=add_code_block(bi,b"\x90"*8)
    t=aux.cfi_directives.get_or_insert(m)
    seq=[(".cfi_startproc",[],NULL_UUID)] if rnd.random()<0.9 else []
    for off in range(rnd.randint(1,6)):
        ds=[]
        for _ in range(rnd.randint(1,3)):
            name,ar=rnd.choice(D); ds.append((name,[rnd.randint(0,3) for _ in range(ar)],NULL_UUID))
        if rnd.random()<0.1: ds.append(InstDefCFAExpression([OpConst1U(1)]).gtirb_encoding("little",8))
        t[gtirb.Offset(b,off)]=(seq+ds) if off==0 else ds
    copies=[]; snaps=[]
    try:
        for blk,off,st in evaluate_cfi_directives(m,[b]):
            copies.append(cp.copy(st)); snaps.append(repr(st)); n+=1
    except Exception as e:
        k=type(e).__name__; exc[k]=exc.get(k,0)+1
        if k not in("CFIStateError","ValueError") and exc[k]==1: print("EXC",k,e,dict(t))
    if [repr(c) for c in copies]!=snaps: alias_bad+=1; (print("ALIAS",seed,[(c,s) for c,s in zip(copies,snaps) if c!=s][:1], dict(t)) if alias_bad<=2 else None)
print("yields",n,"exc",exc,"alias_bad",alias_bad)
