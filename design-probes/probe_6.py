import gtirb, gtirb_rewriting, sys, traceback
sys.path.insert(0,'/repo/tests')
from gtirb_test_helpers import add_code_block, add_data_block, add_symbol, add_text_section, create_test_module, add_edge
from helpers import literal_patch
def mk():
    ir, m = create_test_module(gtirb.Module.FileFormat.ELF, gtirb.Module.ISA.X64)
    _, bi = add_text_section(m, address=0x1000)
    b1 = add_code_block(bi, b"\x90\x90\x90"); b2 = add_code_block(bi, b"\x90\x90"); b3 = add_code_block(bi, b"\xc3")
    add_edge(ir.cfg, b1, b2, gtirb.Edge.Type.Fallthrough); add_edge(ir.cfg, b2, b3, gtirb.Edge.Type.Fallthrough)
    add_edge(ir.cfg, b3, gtirb.ProxyBlock(module=m), gtirb.Edge.Type.Return)
    s1=add_symbol(m,"s1",b1); s2=add_symbol(m,"s2",b2); e2=add_symbol(m,"e2",b2); e2.at_end=True; s3=add_symbol(m,"s3",b3)
    return ir,m,(b1,b2,b3)
def dump(m, ir):
    for b in sorted(m.byte_blocks, key=lambda b:(b.address,b.size)): print("  ",type(b).__name__, hex(b.address), b.size, b.contents.hex())
    for s in sorted(m.symbols,key=lambda s:s.name): print("  sym",s.name, type(s.referent).__name__, hex(s.referent.address) if isinstance(s.referent,gtirb.ByteBlock) else None, s.at_end)
    for e in ir.cfg: print("  edge", getattr(e.source,'address',None), '->', getattr(e.target,'address','proxy'), e.label.type.name)
def run(name, f):
    print("==",name)
    ir,m,bs = mk(); ctx = gtirb_rewriting.RewritingContext(m, [])
    try:
        f(ctx,*bs); ctx.apply(); dump(m, ir)
    except Exception as e:
        print("  EXC", type(e).__name__, e)
run("del whole b2 + insert at end of b2", lambda c,b1,b2,b3: (c.delete_at(b2,0,2), c.insert_at(b2,2,literal_patch("ud2"))))
run("insert at end of b2 (at_end sym)", lambda c,b1,b2,b3: (c.insert_at(b2,2,literal_patch("ud2"))))
run("insert at 0 of b2", lambda c,b1,b2,b3: (c.insert_at(b2,0,literal_patch("ud2"))))
run("delete b2 and b3", lambda c,b1,b2,b3: (c.delete_at(b2,0,2), c.delete_at(b3,0,1)))
run("delete all", lambda c,b1,b2,b3: (c.delete_at(b1,0,3), c.delete_at(b2,0,2), c.delete_at(b3,0,1)))
run("replace all b2", lambda c,b1,b2,b3: (c.replace_at(b2,0,2,literal_patch("ud2"))))
run("insert 0 and delete whole b2", lambda c,b1,b2,b3: (c.insert_at(b2,0,literal_patch("ud2")), c.delete_at(b2,0,2)))
