import gtirb, gtirb_rewriting, sys
sys.path.insert(0,'/repo/tests')
from gtirb_test_helpers import add_code_block, add_symbol, add_text_section, create_test_module
from gtirb_rewriting._auxdata import NULL_UUID
import gtirb_rewriting._auxdata as aux
from gtirb_rewriting.dwarf.cfi_eval import evaluate_cfi_directives
ir, m = create_test_module(gtirb.Module.FileFormat.ELF, gtirb.Module.ISA.X64)
_, bi = add_text_section(m, address=0x1000)
b1 = add_code_block(bi, b"\x90")
t = aux.cfi_directives.get_or_insert(m)
t[gtirb.Offset(b1,0)] = [(".cfi_startproc",[],NULL_UUID),(".cfi_restore",[3],NULL_UUID)]
try:
    print(list(evaluate_cfi_directives(m,[b1])))
except Exception as e:
    print("EXC", type(e), e)
# asm semantic of CallPatch symbol arg
from gtirb_rewriting.assembler import Assembler
import capstone
foo = add_symbol(m, "foo", b1)
for syn,asm in [(gtirb_rewriting.X86Syntax.INTEL,"mov RDI, foo[rip]"),(gtirb_rewriting.X86Syntax.INTEL,"push foo[rip]"),(gtirb_rewriting.X86Syntax.INTEL,"push 0x123456789"),(gtirb_rewriting.X86Syntax.INTEL,"mov rdi, 0x123456789abc"),(gtirb_rewriting.X86Syntax.INTEL,"push -5"),(gtirb_rewriting.X86Syntax.INTEL,"mov rdi, -5"), (gtirb_rewriting.X86Syntax.INTEL,"mov rdi, 18446744073709551615"),(gtirb_rewriting.X86Syntax.INTEL,"push 4294967295"),(gtirb_rewriting.X86Syntax.INTEL,"push 2147483648")]:
    try:
        a = Assembler(m); a.assemble(asm, syn); r = a.finalize()
        md = capstone.Cs(capstone.CS_ARCH_X86, capstone.CS_MODE_64)
        print(asm, '=>', r.text_section.data.hex(), [(i.mnemonic,i.op_str) for i in md.disasm(r.text_section.data,0)], r.text_section.symbolic_expressions)
    except Exception as e:
        print(asm, "EXC", type(e).__name__, e)
