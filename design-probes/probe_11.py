# prototype: token-listing spec vs implementation for bytes (C01) and symbol places (C02)
import random, gtirb, gtirb_rewriting, sys, logging
sys.path.insert(0,'/repo/tests')
from gtirb_test_helpers import add_code_block, add_data_block, add_symbol, add_text_section, create_test_module, add_edge, add_proxy_block
from helpers import literal_patch, add_function_object
logging.disable(logging.CRITICAL)
# vocabulary: (asm, bytes, falls_through)
INS = [("nop", b"\x90", True), ("xchg %ax,%ax", b"\x66\x90", True), ("ret", b"\xc3", False), ("ud2", b"\x0f\x0b", True)]
def gen(rnd):
    nb = rnd.randint(1,4)
    blocks=[]
    for i in range(nb):
        kind = "code" if rnd.random()<0.8 else "data"
        if kind=="code":
            n = rnd.randint(1,3); ins=[rnd.choice(INS[:2]) for _ in range(n)]
            if rnd.random()<0.3: ins[-1]=INS[2]
        else:
            ins=[("b", bytes([rnd.randrange(1,200)]), True) for _ in range(rnd.randint(1,3))]
        blocks.append((kind,ins, rnd.randint(0,2), rnd.randint(0,1)))
    mods=[]
    for bi_,(kind,ins,_,_) in enumerate(blocks):
        bounds=[0]
        for x in ins: bounds.append(bounds[-1]+len(x[1]))
        pos=0; i=0
        cand=[]
        k = rnd.randint(0,3)
        pts = sorted(rnd.choices(range(len(bounds)), k=k))
        last_end=0
        for p in pts:
            if bounds[p]<last_end: continue
            t = rnd.choice(["ins","ins","del","rep"])
            if t=="ins":
                mods.append((bi_, "ins", bounds[p], 0, rnd.choice(["nop","nop\nnop","xchg %ax,%ax"]) if kind=="code" else bytes([0xEE]*rnd.randint(1,2))))
                last_end=bounds[p]
            else:
                q = rnd.randint(p, len(bounds)-1)
                ln = bounds[q]-bounds[p]
                if t=="del": mods.append((bi_,"del",bounds[p],ln,None))
                else:
                    if ln==0: continue
                    mods.append((bi_,"rep",bounds[p],ln, "nop" if kind=="code" else b"\xEE"))
                last_end=bounds[q]
                if ln==0 and t=="del": pass
    rnd.shuffle(mods)
    return blocks, mods
PB = {"nop":b"\x90","nop\nnop":b"\x90\x90","xchg %ax,%ax":b"\x66\x90"}
def spec(blocks, mods):
    # tokens: ('L',name) / ('B',byte)
    out=[]
    for bi_,(kind,ins,ns,ne) in enumerate(blocks):
        data=b"".join(x[1] for x in ins)
        ms = sorted([(m[2],j,m) for j,m in enumerate(mods) if m[0]==bi_], key=lambda t:(t[0],t[1]))
        out += [('L',f"s{bi_}_{i}") for i in range(ns)]
        pos=0
        for off,j,m in ms:
            out += [('B',b) for b in data[pos:off]]; pos=off
            if m[1] in ("ins","rep"):
                pb = PB[m[4]] if isinstance(m[4],str) else m[4]
                out += [('B',b) for b in pb]
            pos = off+m[3]
        out += [('B',b) for b in data[pos:]]
        out += [('L',f"e{bi_}_{i}") for i in range(ne)]
    bts = bytes(t[1] for t in out if t[0]=='B')
    places={}
    n=0
    for t in out:
        if t[0]=='B': n+=1
        else: places[t[1]]=n
    return bts, places
def impl(blocks, mods):
    ir, m = create_test_module(gtirb.Module.FileFormat.ELF, gtirb.Module.ISA.X64)
    _, bi = add_text_section(m, address=0x1000)
    gb=[]
    for bi_,(kind,ins,ns,ne) in enumerate(blocks):
        data=b"".join(x[1] for x in ins)
        b = add_code_block(bi,data) if kind=="code" else add_data_block(bi,data)
        gb.append(b)
        for i in range(ns): add_symbol(m,f"s{bi_}_{i}",b)
        for i in range(ne):
            s=add_symbol(m,f"e{bi_}_{i}",b); s.at_end=True
    for i,(kind,ins,_,_) in enumerate(blocks):
        if kind=="code":
            if ins[-1][2]:
                if i+1<len(blocks) and blocks[i+1][0]=="code": add_edge(ir.cfg,gb[i],gb[i+1],gtirb.Edge.Type.Fallthrough)
            else:
                add_edge(ir.cfg,gb[i],add_proxy_block(m),gtirb.Edge.Type.Return)
    f = add_function_object(m,"f",next((b for b in gb if isinstance(b,gtirb.CodeBlock)),None),{b for b in gb if isinstance(b,gtirb.CodeBlock)}) if any(isinstance(b,gtirb.CodeBlock) for b in gb) else None
    ctx = gtirb_rewriting.RewritingContext(m,[f] if f else [])
    for (bi_,t,off,ln,p) in mods:
        b=gb[bi_]
        if t=="ins": ctx.insert_at(b,off,literal_patch(p) if isinstance(p,str) else p)
        elif t=="del": ctx.delete_at(b,off,ln)
        else: ctx.replace_at(b,off,ln,literal_patch(p) if isinstance(p,str) else p)
    ctx.apply()
    secbytes = b"".join(i.contents for i in sorted(m.byte_intervals,key=lambda i:i.address))
    places={}
    for s in m.symbols:
        if isinstance(s.referent, gtirb.ByteBlock):
            places[s.name]= s.referent.address + (s.referent.size if s.at_end else 0) - 0x1000
        elif s.name!="f": places[s.name]="proxy"
    return secbytes, places
bad=0; exc={}
N=int(sys.argv[1]) if len(sys.argv)>1 else 3000
for seed in range(N):
    rnd=random.Random(seed); blocks,mods=gen(rnd)
    try:
        ib,ip = impl(blocks,mods)
    except Exception as e:
        k=type(e).__name__+":"+str(e)[:60]; exc[k]=exc.get(k,0)+1; 
        if exc[k]<=1: print("EXC",seed,k,[(b[0],[x[0] for x in b[1]],b[2],b[3]) for b in blocks],mods)
        continue
    sb,sp = spec(blocks,mods)
    ip={k:v for k,v in ip.items() if k in sp}
    if ib!=sb or ip!=sp:
        bad+=1
        if bad<=6: print("MISMATCH",seed,[(b[0],[x[0] for x in b[1]],b[2],b[3]) for b in blocks],mods,"\n   impl",ib.hex(),ip,"\n   spec",sb.hex(),sp)
print("bad",bad,"exc",exc)
