import gtirb, gtirb_rewriting, sys
sys.path.insert(0,'/repo/tests')
from gtirb_test_helpers import add_code_block, add_symbol, add_text_section, create_test_module, add_proxy_block
from gtirb_rewriting.abi import CallingConventionDesc, _X86_64_ELF
from gtirb_rewriting.patches import CallPatch
from gtirb_rewriting.patch import InsertionContext
ir, m = create_test_module(gtirb.Module.FileFormat.ELF, gtirb.Module.ISA.X64)
_, bi = add_text_section(m, address=0x1000); b=add_code_block(bi,b"\x90"); sym=add_symbol(m,"foo",add_proxy_block(m))
p = CallPatch(sym, conv=CallingConventionDesc(("RDI",),16,True,shadow_space=8), align_stack=False)
print(p.get_asm(InsertionContext(m,None,b,0,stack_adjustment=0)))
print("---")
p = CallPatch(sym, args=(1,2,3), conv=CallingConventionDesc(("RDI",),16,True,shadow_space=8))
print(p.get_asm(InsertionContext(m,None,b,0,stack_adjustment=None)))
abi=_X86_64_ELF(); c=gtirb_rewriting.Constraints(align_stack=True)
pro,epi,adj=abi._create_prologue_and_epilogue(c, abi._allocate_patch_registers(c), True)
print("---"); print([s.code.strip().splitlines()[0].strip() for s in pro], adj)
