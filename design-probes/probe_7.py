import gtirb, gtirb_rewriting, sys, traceback
sys.path.insert(0,'/repo/tests')
from gtirb_test_helpers import add_code_block, add_data_block, add_symbol, add_text_section, create_test_module, add_edge
from helpers import literal_patch, add_function_object
def dump(m, ir):
    for b in sorted(m.byte_blocks, key=lambda b:(b.address,b.size)): print("  ",type(b).__name__, hex(b.address), b.size, b.contents.hex())
    for s in sorted(m.symbols,key=lambda s:s.name): print("  sym",s.name, type(s.referent).__name__, hex(s.referent.address) if isinstance(s.referent,gtirb.ByteBlock) else None, s.at_end)
    for e in sorted(ir.cfg, key=lambda e:(getattr(e.source,'address',0) or 0, e.label.type.name)): print("  edge", hex(e.source.address), '->', hex(e.target.address) if isinstance(e.target,gtirb.CodeBlock) else 'proxy', e.label.type.name, e.label.conditional, e.label.direct)
ir, m = create_test_module(gtirb.Module.FileFormat.ELF, gtirb.Module.ISA.X64)
_, bi = add_text_section(m, address=0x1000)
b1 = add_code_block(bi, b"\x90\xeb\x01")  # nop; jmp +1 -> b3
b2 = add_code_block(bi, b"\x90")
b3 = add_code_block(bi, b"\xc3")
add_edge(ir.cfg, b1, b3, gtirb.Edge.Type.Branch)
add_edge(ir.cfg, b2, b3, gtirb.Edge.Type.Fallthrough)
add_edge(ir.cfg, b3, gtirb.ProxyBlock(module=m), gtirb.Edge.Type.Return)
f = add_function_object(m, "f", b1, {b2,b3})
ctx = gtirb_rewriting.RewritingContext(m, [f])
ctx.delete_at(b1, 1, 2)
ctx.apply(); dump(m, ir)
