import gtirb, gtirb_rewriting, sys
sys.path.insert(0,'/repo/tests')
from gtirb_test_helpers import add_code_block, add_symbol, add_text_section, create_test_module, add_edge
from helpers import literal_patch
import gtirb_rewriting._auxdata as aux
ir, m = create_test_module(gtirb.Module.FileFormat.ELF, gtirb.Module.ISA.X64)
_, bi = add_text_section(m, address=0x1000)
b1 = add_code_block(bi, b"\x90\x90\x90")
b2 = add_code_block(bi, b"\x90\x90")
add_edge(ir.cfg, b1, b2, gtirb.Edge.Type.Fallthrough)
ctx = gtirb_rewriting.RewritingContext(m, [])
ctx.insert_at(b1, 1, literal_patch("nop\n.align 16\nnop"))
ctx.apply()
al = aux.alignment.get(m)
for b in sorted(m.byte_blocks, key=lambda b:b.address): print(type(b).__name__, hex(b.address), b.size, b.contents.hex(), "align", al.get(b) if al else None)
print([ (hex(i.address), i.size) for i in m.byte_intervals])
