import random, gtirb, sys
from gtirb_rewriting.intervalutils import split_byte_interval, join_byte_intervals
import gtirb_rewriting._auxdata as aux
def snap(m, bi):
    com = aux.comments.get(m) or {}
    return dict(size=bi.size, contents=bytes(bi.contents), init=bi.initialized_size,
        blocks=sorted((type(b).__name__, b.offset, b.size, b.uuid.int) for b in bi.blocks),
        se=sorted((k, v.symbol.name) for k,v in bi.symbolic_expressions.items()),
        com=sorted((("B",k.element_id.offset+k.displacement) if isinstance(k.element_id,gtirb.ByteBlock) else ("I",k.displacement), v) for k,v in com.items()),
        nblocks_in_module=len(list(m.byte_blocks)))
bad=0; kinds={}
for seed in range(int(sys.argv[1])):
    rnd=random.Random(seed)
    ir=gtirb.IR(); m=gtirb.Module(name="m",ir=ir,isa=gtirb.Module.ISA.X64,file_format=gtirb.Module.FileFormat.ELF)
    s=gtirb.Section(name=".text",module=m)
    n=rnd.randint(1,8); init = n if rnd.random()<0.7 else rnd.randint(0,n)
    bi=gtirb.ByteInterval(contents=bytes(rnd.randrange(1,255) for _ in range(init)), size=n, section=s, address=0x1000)
    sym=gtirb.Symbol("x",module=m)
    for i in range(rnd.randint(0,4)):
        o=rnd.randint(0,n); sz=rnd.randint(0,n-o)
        (gtirb.CodeBlock if rnd.random()<0.5 else gtirb.DataBlock)(offset=o,size=sz,byte_interval=bi)
    for k in set(rnd.choices(range(n),k=rnd.randint(0,2))): bi.symbolic_expressions[k]=gtirb.SymAddrConst(0,sym)
    com=aux.comments.get_or_insert(m)
    for k in set(rnd.choices(range(n+1),k=rnd.randint(0,2))): com[gtirb.Offset(bi,k)]=f"c{k}"
    before=snap(m,bi); addrs={b.uuid:(b.address,bytes(b.contents)) for b in bi.blocks}
    try:
        parts=split_byte_interval(bi, {})
        mid_ok = all((b.address,bytes(b.contents))==addrs[b.uuid] for p in parts for b in p.blocks)
        res=join_byte_intervals(parts, b"\x90", {})
        for p in parts[1:]: p.section=None
        after=snap(m,res)
    except Exception as e:
        k="EXC "+type(e).__name__+str(e)[:40]; kinds[k]=kinds.get(k,0)+1
        if kinds[k]==1: print(seed,k,before)
        continue
    if not mid_ok: kinds["mid"]=kinds.get("mid",0)+1; 
    if before!=after and init==n:
        diff=[k for k in before if before[k]!=after[k]]
        k="DIFF "+",".join(diff); kinds[k]=kinds.get(k,0)+1
        if kinds[k]<=2: print(seed,k,"\n  before",before,"\n  after ",after)
print(kinds)
