# prototype: C05 closedness validator + C06 function attribution on random rewrites (reuses exp13 generator)
import re, random, gtirb, gtirb_rewriting, sys, logging, io, uuid
sys.argv=[sys.argv[0]]+sys.argv[1:]
import importlib.util
logging.disable(logging.CRITICAL)
src=open(''+__import__('os').path.dirname(__file__)+'/probe_13.py').read().split("MODKINDS=sys.argv[2]")[0]
MODKINDS=["ins","del","rep"]
exec(src)
import gtirb_rewriting._auxdata as aux
def closed(ir,m):
    errs=[]
    blocks=set(m.byte_blocks); proxies=set(m.proxies); syms=set(m.symbols); ints=set(m.byte_intervals)
    for e in ir.cfg:
        for n in (e.source,e.target):
            if isinstance(n,gtirb.ProxyBlock):
                if n not in proxies: errs.append("edge endpoint proxy not in module.proxies")
            elif n not in blocks: errs.append(f"edge endpoint dead block")
    for s in syms:
        r=s.referent
        if r is None and s._payload is None: errs.append(f"sym {s.name} no referent")
        if isinstance(r,gtirb.ByteBlock) and r not in blocks: errs.append(f"sym {s.name} dead referent")
        if isinstance(r,gtirb.ProxyBlock) and r not in proxies: errs.append(f"sym {s.name} proxy not in module")
    for bi in ints:
        for k,se in bi.symbolic_expressions.items():
            if not (0<=k<bi.size): errs.append(f"symexpr key {k} outside interval size {bi.size}")
            for sy in se.symbols:
                if sy not in syms: errs.append("symexpr symbol not in module")
        for b in bi.blocks:
            if b.offset<0 or b.offset+b.size>bi.size: errs.append("block outside interval")
            if b.size==0: errs.append("zero-size block")
    for name,t in m.aux_data.items():
        d=t.data
        def chk(x,where):
            if isinstance(x,gtirb.ByteBlock) and x not in blocks: errs.append(f"aux {name} {where} dead block")
            if isinstance(x,gtirb.ByteInterval) and x not in ints: errs.append(f"aux {name} {where} dead interval")
            if isinstance(x,gtirb.Symbol) and x not in syms: errs.append(f"aux {name} {where} dead symbol")
            if isinstance(x,gtirb.ProxyBlock) and x not in proxies: errs.append(f"aux {name} {where} dead proxy")
            if isinstance(x,gtirb.Offset): chk(x.element_id,where)
            if isinstance(x,(set,list,tuple,frozenset)): 
                for y in x: chk(y,where)
            if isinstance(x,dict):
                for k,v in x.items(): chk(k,"key"); chk(v,"val")
        if hasattr(d,'items'):
            for k,v in d.items(): chk(k,"key"); chk(v,"val")
        else: chk(d,"val")
    # functions
    fb=aux.function_blocks.get(m) or {}; fe=aux.function_entries.get(m) or {}; fn=aux.function_names.get(m) or {}
    seen={}
    for u,bs in fb.items():
        if not bs: errs.append("empty function in functionBlocks")
        for b in bs:
            if b in seen: errs.append("block in two functions")
            seen[b]=u
    for u,es in fe.items():
        if u not in fb: errs.append("entries for function w/o blocks")
        elif not es<=fb[u]: errs.append("entry not in blocks")
        if not es: errs.append("function with no entries")
    if set(fb)!=set(fe) or set(fb)!=set(fn): errs.append(f"function key sets differ {len(fb)},{len(fe)},{len(fn)}")
    # roundtrip
    buf=io.BytesIO(); ir.save_protobuf_file(buf); buf.seek(0)
    try: ir2=gtirb.IR.load_protobuf_file(buf)
    except Exception as e: errs.append("protobuf load failed "+type(e).__name__)
    return errs
bad=0; kinds={}; exc={}
for seed in range(int(sys.argv[1])):
    rnd=random.Random(seed); funs,mods=gen(rnd, 2)
    ir,m,gbs,fobjs=build(funs)
    # tag original bytes' function: record block->function by address ranges (orig)
    ctx=gtirb_rewriting.RewritingContext(m,fobjs)
    for (f,b,t,off,ln,p) in mods:
        blk=gbs[(f,b)]
        if t=="ins": ctx.insert_at(blk,off,literal_patch(p))
        elif t=="del": ctx.delete_at(blk,off,ln)
        else: ctx.replace_at(blk,off,ln,literal_patch(p))
    try: ctx.apply()
    except Exception as e:
        import traceback; tb=traceback.extract_tb(e.__traceback__)[-1]; k=type(e).__name__+":"+str(e)[:40]+"@"+tb.name+":"+str(tb.lineno); exc[k]=exc.get(k,0)+1; (print("EXC",seed,k,funs,mods) if exc[k]==1 else None); continue
    errs=closed(ir,m)
    if errs:
        bad+=1
        sig=tuple(sorted(set(re.sub(r"\d+","N",e) for e in errs)))
        kinds[sig]=kinds.get(sig,0)+1
        if kinds[sig]==1: print("NOTCLOSED",seed,funs,mods,"\n   ",errs[:4])
print("bad",bad,"exc",exc); 
for k,v in kinds.items(): print(v,k)
