# prototype C11: canonical dump of rewritten module; compare across PYTHONHASHSEED
import re, random, gtirb, gtirb_rewriting, sys, logging, hashlib, json
logging.disable(logging.CRITICAL)
src=open(''+__import__('os').path.dirname(__file__)+'/probe_13.py').read().split("MODKINDS=sys.argv[2]")[0]
MODKINDS=["ins","del","rep"]
exec(src)
import gtirb_rewriting._auxdata as aux
def canon(ir,m):
    blocks=sorted(m.byte_blocks,key=lambda b:(b.address,b.size))
    name={b:f"B{b.address:x}_{b.size}" for b in blocks}
    def nn(n): return name.get(n,"proxy")
    d={}
    d["blocks"]=[(type(b).__name__,b.address,b.size,b.contents.hex()) for b in blocks]
    d["syms"]=sorted((s.name,nn(s.referent),s.at_end) for s in m.symbols)
    d["edges"]=sorted((nn(e.source),nn(e.target),e.label.type.name,bool(e.label.conditional),bool(e.label.direct)) for e in ir.cfg)
    d["se"]=sorted((bi.address+k,type(v).__name__,v.symbol.name,v.offset,sorted(a.name for a in v.attributes)) for bi in m.byte_intervals for k,v in bi.symbolic_expressions.items())
    fb=aux.function_blocks.get(m) or {}; fe=aux.function_entries.get(m) or {}; fn=aux.function_names.get(m) or {}
    d["funcs"]=sorted((fn[u].name if u in fn else "?",sorted(nn(b) for b in fb[u]),sorted(nn(b) for b in fe.get(u,()))) for u in fb)
    al=aux.alignment.get(m) or {}
    d["align"]=sorted((nn(k),v) for k,v in al.items() if isinstance(k,gtirb.ByteBlock))
    d["nproxies"]=len(m.proxies)
    return d
out={}
for seed in range(int(sys.argv[1])):
    rnd=random.Random(seed); funs,mods=gen(rnd, 2)
    ir,m,gbs,fobjs=build(funs)
    ctx=gtirb_rewriting.RewritingContext(m,fobjs)
    for (f,b,t,off,ln,p) in mods:
        blk=gbs[(f,b)]
        if t=="ins": ctx.insert_at(blk,off,literal_patch(p))
        elif t=="del": ctx.delete_at(blk,off,ln)
        else: ctx.replace_at(blk,off,ln,literal_patch(p))
    try: ctx.apply(); out[seed]=hashlib.sha1(json.dumps(canon(ir,m),sort_keys=True).encode()).hexdigest()
    except Exception as e: out[seed]="EXC "+type(e).__name__
json.dump(out,open(sys.argv[2],"w"))
