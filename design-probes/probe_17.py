import gtirb, gtirb_rewriting, sys, traceback
sys.path.insert(0,'/repo/tests')
from gtirb_test_helpers import add_code_block, add_symbol, add_text_section, create_test_module, add_edge, add_proxy_block
from helpers import literal_patch, add_function_object
ET=gtirb.Edge.Type
def mk():
    ir, m = create_test_module(gtirb.Module.FileFormat.ELF, gtirb.Module.ISA.X64)
    _, bi = add_text_section(m, address=0x1000)
    f = add_symbol(m,"f")
    b0 = add_code_block(bi, b"\xe8\0\0\0\0", {(1,4): gtirb.SymAddrConst(0,f)}); f.referent=b0
    b1 = add_code_block(bi, b"\xc3")
    add_edge(ir.cfg,b0,b0,ET.Call); add_edge(ir.cfg,b0,b1,ET.Fallthrough); add_edge(ir.cfg,b1,b1,ET.Return)
    fo=add_function_object(m,f,b0,{b1})
    return ir,m,b0,b1,fo
for name,mods in [("ins end of b0", lambda c,b0,b1:(c.insert_at(b0,5,literal_patch("nop")),)),
                  ("ins end of b1 'nop'", lambda c,b0,b1:(c.insert_at(b1,1,literal_patch("nop")),)),
                  ("ins end of b1 'nop;call f'", lambda c,b0,b1:(c.insert_at(b1,1,literal_patch("nop\ncall f")),)),
                  ("ins 0 of b1 'call f'", lambda c,b0,b1:(c.insert_at(b1,0,literal_patch("call f")),))]:
    ir,m,b0,b1,fo=mk(); c=gtirb_rewriting.RewritingContext(m,[fo]); mods(c,b0,b1)
    try:
        c.apply(); print(name,"OK", sorted((hex(e.source.address),e.label.type.name,hex(e.target.address) if isinstance(e.target,gtirb.CodeBlock) else 'proxy') for e in ir.cfg))
    except AssertionError as e:
        tb=traceback.extract_tb(e.__traceback__)[-1]; print(name,"ASSERT",tb.name,tb.lineno)
