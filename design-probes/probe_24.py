# prototype C16: concrete simulation of prologue/epilogue text for all ABIs
import random, re, sys, itertools
import gtirb_rewriting
from gtirb_rewriting.abi import _X86_64_ELF,_X86_64_PE,_IA32_PE,_ARM64_ELF,_MIPS32_ELF
from gtirb_rewriting.assembly import Constraints
class M:
    def __init__(s, regs, sp, ws): s.r=dict(regs); s.sp=sp; s.mem={}; s.flags=random.getrandbits(32); s.W=set(); s.R=set(); s.ws=ws
    def st(s,a,v,n=None):
        n=n or s.ws
        for i in range(n): s.mem[a+i]=(v,i); s.W.add(a+i)
    def ld(s,a,n=None):
        n=n or s.ws; vs=[]
        for i in range(n):
            s.R.add(a+i); vs.append(s.mem.get(a+i,("junk",a+i)))
        v0=vs[0][0]
        ok=all(v==(v0,i) for i,v in enumerate(vs))
        return v0 if ok else ("garbage",tuple(vs))
def run_x86(m, lines, sp):
    for ln in lines:
        ln=ln.strip()
        if not ln: continue
        t=re.split(r"[\s,]+",ln)
        op=t[0]
        if op in("pushq","push"): m.r[sp]-=m.ws; m.st(m.r[sp], m.r[t[1].lstrip('%')])
        elif op in("popq","pop"): m.r[t[1].lstrip('%')]=m.ld(m.r[sp]); m.r[sp]+=m.ws
        elif op in("pushfq","pushfd"): m.r[sp]-=m.ws; m.st(m.r[sp],("F",m.flags))
        elif op in("popfq","popfd"):
            v=m.ld(m.r[sp]); m.flags=v[1] if isinstance(v,tuple) and v[0]=="F" else ("badflags",v); m.r[sp]+=m.ws
        elif op in("leaq","lea"):
            mm=re.match(r"([+-]?(?:0x)?[0-9a-f]+)\(%(\w+)\)",t[1]); m.r[t[2].lstrip('%')]=m.r[mm.group(2)]+int(mm.group(1),0)
        elif op in("movq","mov"): m.r[t[2].lstrip('%')]=m.r[t[1].lstrip('%')]
        elif op in("andq","and"): m.r[t[2].lstrip('%')]=m.r[t[2].lstrip('%')] & int(t[1].lstrip('$'),0)
        else: raise Exception("x86? "+ln)
def run_a64(m, lines):
    for ln in lines:
        ln=ln.strip()
        if not ln: continue
        mm=re.match(r"stp (\w+), (\w+), \[sp, #-16\]!",ln)
        if mm: m.r["sp"]-=16; m.st(m.r["sp"],m.r[mm.group(1)],8); m.st(m.r["sp"]+8,m.r[mm.group(2)],8); continue
        mm=re.match(r"ldp (\w+), (\w+), \[sp\], #16",ln)
        if mm: m.r[mm.group(1)]=m.ld(m.r["sp"],8); m.r[mm.group(2)]=m.ld(m.r["sp"]+8,8); m.r["sp"]+=16; continue
        mm=re.match(r"str (\w+), \[sp, #-16\]!",ln)
        if mm: m.r["sp"]-=16; m.st(m.r["sp"],m.r[mm.group(1)],8); continue
        mm=re.match(r"ldr (\w+), \[sp\], #16",ln)
        if mm: m.r[mm.group(1)]=m.ld(m.r["sp"],8); m.r["sp"]+=16; continue
        mm=re.match(r"mrs (\w+), nzcv",ln)
        if mm: m.r[mm.group(1)]=("F",m.flags); continue
        mm=re.match(r"msr nzcv, (\w+)",ln)
        if mm: v=m.r[mm.group(1)]; m.flags=v[1] if isinstance(v,tuple) and v[0]=="F" else ("badflags",v); continue
        raise Exception("a64? "+ln)
def run_mips(m, lines):
    for ln in lines:
        ln=ln.strip()
        if not ln: continue
        mm=re.match(r"addiu \$sp, \$sp, (-?\d+)",ln)
        if mm: m.r["sp"]+=int(mm.group(1)); continue
        mm=re.match(r"sw \$(\w+), (\d+)\(\$sp\)",ln)
        if mm: m.st(m.r["sp"]+int(mm.group(2)),m.r[mm.group(1)],4); continue
        mm=re.match(r"lw \$(\w+), (\d+)\(\$sp\)",ln)
        if mm: m.r[mm.group(1)]=m.ld(m.r["sp"]+int(mm.group(2)),4); continue
        raise Exception("mips? "+ln)
ABIS=[("x64elf",_X86_64_ELF(),"rsp",8,16),("x64pe",_X86_64_PE(),"rsp",8,16),("ia32",_IA32_PE(),"esp",4,4),("a64",_ARM64_ELF(),"sp",8,16),("mips",_MIPS32_ELF(),"sp",4,8)]
bad={}; n=0; refused={}
rnd=random.Random(1)
for it in range(int(sys.argv[1])):
    name,abi,sp,ws,align=rnd.choice(ABIS)
    allr=[r.name for r in abi.all_registers()]; scr=[r.name for r in abi._scratch_registers()]
    clob=set(rnd.sample(allr, rnd.randint(0,min(4,len(allr))))) if rnd.random()<0.8 else set(allr)
    clob.discard(sp)
    reads=set(rnd.sample(scr, rnd.randint(0,2))) - clob
    c=Constraints(clobbers_flags=rnd.random()<0.5, clobbers_registers=clob, scratch_registers=rnd.randint(0,3), reads_registers=reads,
                  align_stack=(rnd.random()<0.4 and name not in("mips",)), preserve_caller_saved_registers=rnd.random()<0.3)
    leaf=rnd.random()<0.5
    try:
        ru=abi._allocate_patch_registers(c); pro,epi,adj=abi._create_prologue_and_epilogue(c,ru,leaf); epi=list(epi)
    except Exception as e:
        k=name+":"+type(e).__name__+":"+str(e)[:40]; refused[k]=refused.get(k,0)+1; continue
    n+=1
    saved={r.name for r in ru.clobbered_registers}
    regs={r:("init",r) for r in allr}; sp0=rnd.randrange(0x10000,0x20000)*ws + (rnd.choice([0,ws,2*ws,3*ws]) if name!="a64" else 0)
    if name=="a64": sp0=sp0//16*16
    regs[sp]=sp0
    m=M(regs,sp0,ws)
    lines_p=[l for s in pro for l in s.code.splitlines()]; lines_e=[l for s in epi for l in s.code.splitlines()]
    run={"x64elf":lambda L:run_x86(m,L,"rsp"),"x64pe":lambda L:run_x86(m,L,"rsp"),"ia32":lambda L:run_x86(m,L,"esp"),"a64":lambda L:run_a64(m,L),"mips":lambda L:run_mips(m,L)}[name]
    run(lines_p)
    sp1=m.r[sp]; Wp=set(m.W)
    errs=[]
    if adj is not None and sp0-sp1!=adj: errs.append("stack_adjustment wrong")
    if c.align_stack and name!="a64" and sp1%align: errs.append(f"not aligned after prologue mod{align}={sp1%align}")
    rz=abi.red_zone_size()
    if leaf and rz and any(sp0-rz<=a<sp0 for a in m.W): errs.append("prologue writes in red zone")
    if any(a>=sp0 for a in m.W): errs.append("prologue writes at/above sp0")
    if leaf and rz and sp1>sp0-rz and (lines_p): errs.append("body sp inside red zone")
    # havoc body: clobber all saved regs, flags (if declared), memory below sp1
    for r in saved: m.r[r]=("havoc",r)
    for r in ru.scratch_registers: m.r[r.name]=("havoc",r.name)
    if c.clobbers_flags: m.flags=("havocflags",)
    for a in range(sp1-64,sp1): m.mem[a]=("bodyjunk",a)
    m.R=set(); m.W=set()
    run(lines_e)
    if m.r[sp]!=sp0: errs.append("sp not restored")
    for r in saved:
        if m.r[r]!=("init",r): errs.append(f"reg {r} not restored")
    if c.clobbers_flags and isinstance(m.flags,tuple): errs.append("flags not restored")
    if not m.R<=Wp: errs.append("epilogue reads unwritten slot")
    if any(a>=sp0 for a in m.W): errs.append("epilogue writes at/above sp0")
    want={abi.get_register(x).name for x in clob}|{r.name for r in ru.scratch_registers}|({r.name for r in abi.caller_saved_registers()} if c.preserve_caller_saved_registers else set())
    if not want<=saved: errs.append("declared register not saved "+str(want-saved))
    sc=[r.name for r in ru.scratch_registers]
    if len(sc)!=c.scratch_registers or len(set(sc))!=len(sc) or set(sc)&{abi.get_register(x).name for x in reads} or sp in sc: errs.append("scratch allocation wrong")
    for e in errs:
        k=name+": "+re.sub(r"reg \w+","reg R",e); bad[k]=bad.get(k,0)+1
        if bad[k]==1: print("BAD",k,c,leaf,lines_p,lines_e)
print("n",n,"bad",bad,"refused",refused)
