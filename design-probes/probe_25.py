# prototype C17: simulate CallPatch text (sp tracking, arg placement) for default and custom conventions
import random, re, sys, gtirb
sys.path.insert(0,'/repo/tests')
from gtirb_test_helpers import add_code_block, add_symbol, add_text_section, create_test_module, add_proxy_block
from gtirb_rewriting.abi import CallingConventionDesc, ABI
from gtirb_rewriting.patches import CallPatch
from gtirb_rewriting.patch import InsertionContext
bad={}; n=0
rnd=random.Random(3)
TARGETS=[(gtirb.Module.ISA.X64,gtirb.Module.FileFormat.ELF,8),(gtirb.Module.ISA.X64,gtirb.Module.FileFormat.PE,8),(gtirb.Module.ISA.IA32,gtirb.Module.FileFormat.PE,4),(gtirb.Module.ISA.ARM64,gtirb.Module.FileFormat.ELF,8)]
for it in range(int(sys.argv[1])):
    isa,ff,ws=rnd.choice(TARGETS)
    ir,m=create_test_module(ff,isa); _,bi=add_text_section(m,address=0x1000); b=add_code_block(bi,b"\x90"*4); sym=add_symbol(m,"foo",add_proxy_block(m))
    abi=ABI.get(m); dflt=abi.calling_convention()
    if rnd.random()<0.5: conv=None; cv=dflt
    else:
        regs=tuple(rnd.sample(list(dflt.registers) or ["EAX"], rnd.randint(0,len(dflt.registers))))
        cv=conv=CallingConventionDesc(regs, dflt.stack_alignment, rnd.random()<0.7, shadow_space=(rnd.choice([0,dflt.stack_alignment,2*dflt.stack_alignment]) if isa!=gtirb.Module.ISA.ARM64 else 0))
    nargs=rnd.randint(0,16); args=[rnd.choice([0,1,-1,2**31-1,-2**31,255,65535,65536]) for _ in range(nargs)]
    align_stack = rnd.random()<0.5
    kw={} if isa==gtirb.Module.ISA.ARM64 else {"align_stack":align_stack}
    p=CallPatch(sym,args=args,conv=conv,**kw)
    adj = None if (align_stack and isa!=gtirb.Module.ISA.ARM64) else rnd.choice([0,ws,2*ws,16,24,136])
    if isa==gtirb.Module.ISA.ARM64: adj=rnd.choice([0,16,32])
    asm=p.get_asm(InsertionContext(m,None,b,0,stack_adjustment=adj))
    if "#0x-" in asm: continue  # refused by the assembler (negative small immediates on ARM64)
    # entry sp: aligned original minus adj, or aligned (after align snippet)
    A=cv.stack_alignment
    sp = 0x100000 - (adj or 0); sp0=sp
    regsv={}; mem={}; at_call=None
    for ln in asm.splitlines():
        t=re.split(r"[\s,]+",ln.strip())
        if t[0]=="sub" and t[1] in("rsp","esp"): sp-=int(t[2])
        elif t[0]=="add" and t[1] in("rsp","esp"): sp+=int(t[2])
        elif t[0]=="sub" and t[1]=="sp": sp-=int(t[3].lstrip('#'))
        elif t[0]=="add" and t[1]=="sp": sp+=int(t[3].lstrip('#'))
        elif t[0]=="push": sp-=ws; mem[sp]=int(t[1])
        elif t[0]=="mov" and not t[2].startswith('#'): regsv[t[1].upper()]=int(t[2])
        elif t[0]=="mov": regsv[t[1].upper()]=int(t[2].lstrip('#'),16)
        elif t[0]=="movz": regsv[t[1].upper()]=int(t[2].lstrip('#'),16)
        elif t[0]=="movk": regsv[t[1].upper()]|=int(t[2].lstrip('#'),16)<<int(t[4].lstrip('#'))
        elif t[0]=="str": mem[sp+int(t[3].lstrip('#').rstrip(']'))]=regsv[t[1].upper()]
        elif t[0] in("call","bl"):
            at_call=(sp,dict(regsv),dict(mem))
            if not cv.caller_cleanup: sp+=ws*max(0,nargs-len(cv.registers))   # callee pops stack args
        else: raise Exception("? "+ln)
    n+=1; errs=[]
    csp,cregs,cmem=at_call
    if csp%A: errs.append(f"misaligned at call")
    if sp!=sp0: errs.append("not stack neutral")
    for i,v in enumerate(args):
        want=v if isa!=gtirb.Module.ISA.ARM64 else v%(1<<64)
        if i<len(cv.registers):
            if cregs.get(cv.registers[i].upper())!=want: errs.append("register arg wrong")
        else:
            j=i-len(cv.registers); a=csp+cv.shadow_space+ws*j
            if cmem.get(a)!=want: errs.append("stack arg wrong/misplaced")
    for e in errs:
        k=f"{isa.name}/{ff.name}: {e}"; bad[k]=bad.get(k,0)+1
        if bad[k]==1: print("BAD",k,"conv",cv,"nargs",nargs,"adj",adj,"\n"+asm)
print("n",n,"bad",bad)
