import gtirb, gtirb_rewriting, sys, traceback
sys.path.insert(0,'/repo/tests')
from gtirb_test_helpers import add_code_block, add_data_block, add_symbol, add_text_section, create_test_module, add_edge, add_proxy_block
from helpers import literal_patch, add_function_object
import gtirb_rewriting._auxdata as aux
from gtirb_rewriting._auxdata import NULL_UUID
from gtirb_rewriting.dwarf.cfi_eval import evaluate_cfi_directives
# (3) delete entry block that carries CIE directives
ir, m = create_test_module(gtirb.Module.FileFormat.ELF, gtirb.Module.ISA.X64)
_, bi = add_text_section(m, address=0x1000)
b1 = add_code_block(bi, b"\x55")      # push rbp
b2 = add_code_block(bi, b"\x90\xc3")  # nop; ret
add_edge(ir.cfg,b1,b2,gtirb.Edge.Type.Fallthrough); add_edge(ir.cfg,b2,add_proxy_block(m),gtirb.Edge.Type.Return)
t = aux.cfi_directives.get_or_insert(m)
t[gtirb.Offset(b1,0)] = [(".cfi_startproc",[],NULL_UUID),(".cfi_def_cfa",[7,8],NULL_UUID),(".cfi_offset",[16,-8],NULL_UUID)]
t[gtirb.Offset(b1,1)] = [(".cfi_def_cfa_offset",[16],NULL_UUID)]
t[gtirb.Offset(b2,1)] = [(".cfi_def_cfa_offset",[8],NULL_UUID)]
t[gtirb.Offset(b2,2)] = [(".cfi_endproc",[],NULL_UUID)]
print("before ok:", len(list(evaluate_cfi_directives(m, list(m.code_blocks)))))
ctx = gtirb_rewriting.RewritingContext(m, []); ctx.delete_at(b1,0,1); ctx.apply()
try:
    print("after:", [(hex(b.address),o) for b,o,s in evaluate_cfi_directives(m, list(m.code_blocks))])
except Exception as e: print("after EXC", type(e).__name__, e)
print({ (hex(k.element_id.address),k.displacement):v for k,v in aux.cfi_directives.get(m).items()})
# (5) failure in 2nd patch
ir, m = create_test_module(gtirb.Module.FileFormat.ELF, gtirb.Module.ISA.X64)
_, bi = add_text_section(m, address=0x1000)
b1 = add_code_block(bi, b"\x90\x90"); b2 = add_code_block(bi, b"\x90\xc3"); s=add_symbol(m,"s2",b2)
add_edge(ir.cfg,b1,b2,gtirb.Edge.Type.Fallthrough); add_edge(ir.cfg,b2,add_proxy_block(m),gtirb.Edge.Type.Return)
cfg0 = ir.cfg
class Boom(gtirb_rewriting.Patch):
    def __init__(self): super().__init__(gtirb_rewriting.Constraints())
    def get_asm(self, ctx): raise RuntimeError("boom")
ctx = gtirb_rewriting.RewritingContext(m, []); ctx.delete_at(b1,0,2); ctx.insert_at(b2,1,Boom())
try: ctx.apply()
except RuntimeError as e: print("raised", e)
print("cfg same obj:", ir.cfg is cfg0, "edges", len(ir.cfg), "sym ref", s.referent is not None, "intervals", [(hex(i.address or 0), i.size) for i in m.byte_intervals])
import io; buf=io.BytesIO(); ir.save_protobuf_file(buf); print("serializable bytes", len(buf.getvalue()))
