# prototype C14: every class x boundary operands; roundtrip, consumption, rejection, make_const_op minimality
import io, itertools, dataclasses, sys
from gtirb_rewriting.dwarf import expr as E, cfi as C
from gtirb_rewriting.dwarf._encodable import _ENCODER_KEY
from gtirb_rewriting.dwarf._encoders import *
from gtirb_rewriting.dwarf._encoders import _AddToOpcodeEncoder,_ULEB128Encoder,_SLEB128Encoder,_IntEncoder,_UIntPtrEncoder
def classes(base):
    out=[]
    for c in base.__subclasses__():
        if c._opcode is not None: out.append(c)
        out+=classes(c)
    return out
def bvals(ks=(0,1,5,6,7,8,13,14,15,16,31,32,63,64,65)):
    s=set()
    for k in ks:
        for d in (-1,0,1):
            s.add(2**k+d); s.add(-(2**k)+d)
    s|={0,1,-1,31,32,63,64}
    return sorted(s)
def uleb(v):
    out=[]
    while True:
        b=v&0x7f; v>>=7
        if v: out.append(b|0x80)
        else: out.append(b); return bytes(out)
def sleb(v):
    out=[]
    while True:
        b=v&0x7f; v>>=7
        if (v==0 and not b&0x40) or (v==-1 and b&0x40): out.append(b); return bytes(out)
        out.append(b|0x80)
def ref_field(enc,v,bo,ps,opcode):
    if isinstance(enc,_AddToOpcodeEncoder): return None if not (0<=v<enc.upper_bound) else ("fused",v)
    if isinstance(enc,_ULEB128Encoder): return None if v<0 else uleb(v)
    if isinstance(enc,_SLEB128Encoder): return sleb(v)
    if isinstance(enc,_IntEncoder):
        n=enc.byte_size*8; lo,hi=(-(2**(n-1)),2**(n-1)) if enc.signed else (0,2**n)
        return None if not lo<=v<hi else (v%(2**n)).to_bytes(enc.byte_size,bo)
    if isinstance(enc,_UIntPtrEncoder): return None if not 0<=v<2**(8*ps) else v.to_bytes(ps,bo)
    raise Exception(enc)
bad={}; n=0
def note(k,info):
    bad[k]=bad.get(k,0)+1
    if bad[k]==1: print("BAD",k,info)
for base in (E.Operation, C.Instruction):
    for cls in classes(base):
        fs=[(f.name,f.metadata[_ENCODER_KEY]) for f in dataclasses.fields(cls)]
        if any(isinstance(e,C._ExprEncoder) for _,e in fs): continue
        vals=bvals() if len(fs)<=1 else bvals((0,5,6,7,8,31,32,63,64))
        for combo in itertools.product(vals,repeat=len(fs)):
            for bo in("little","big"):
                for ps in(4,8):
                    n+=1
                    refs=[ref_field(e,v,bo,ps,cls._opcode) for (_,e),v in zip(fs,combo)]
                    exp=None
                    if all(r is not None for r in refs):
                        op=cls._opcode+ (refs[0][1] if refs and isinstance(refs[0],tuple) else 0)
                        exp=bytes([op])+b"".join(r for r in refs if not isinstance(r,tuple))
                    try:
                        obj=cls(*combo); got=bytes(obj.encode(bo,ps))
                    except ValueError: got=None
                    except Exception as e: got=("EXC",type(e).__name__)
                    if got!=exp: note(f"{cls.__name__} encode mismatch",(combo,bo,ps,got,exp)); continue
                    if exp is not None:
                        r=io.BytesIO(exp+b"\xAA\xBB"); 
                        try: dec,cnt=base.decode(r,bo,ps)
                        except Exception as e: note(f"{cls.__name__} decode exc {type(e).__name__}",(combo,bo,ps)); continue
                        if dec!=obj or cnt!=len(exp) or type(dec) is not cls: note(f"{cls.__name__} roundtrip",(combo,bo,ps,dec,cnt))
print("cases",n,"bad",bad)
# make_const_op
consts=[c for c in classes(E.OpConst)]
worst=0
for v in bvals(tuple(range(0,66))):
    try: op=E.make_const_op(v)
    except ValueError:
        if -2**63<=v<2**64: note("make_const_op refuses in-range",v)
        continue
    if not -2**63<=v<2**64: note("make_const_op accepts out of range",v)
    ln=len(op.encode("little",8))
    if op.value!=v: note("make_const_op wrong value",v)
    best=ln
    for c in consts:
        try: best=min(best,len(c(v).encode("little",8)))
        except ValueError: pass
    if best<ln: note("make_const_op not shortest",(v,type(op).__name__,ln,best))
print("bad",bad)
