import gtirb, gtirb_rewriting, sys, traceback
sys.path.insert(0,'/repo/tests')
from gtirb_test_helpers import add_code_block, add_data_block, add_symbol, add_text_section, create_test_module, add_edge, add_proxy_block
from helpers import literal_patch, add_function_object
from gtirb_rewriting.assembler import Assembler
import gtirb_rewriting._auxdata as aux
from gtirb_rewriting._auxdata import NULL_UUID
def res(r):
    return {n:(s.data.hex(), [(type(b).__name__,b.offset,b.size) for b in s.blocks]) for n,s in r.sections.items()}
# (1) chunking across a section switch
ir, m = create_test_module(gtirb.Module.FileFormat.ELF, gtirb.Module.ISA.X64)
_, bi = add_text_section(m, address=0x1000); b0=add_code_block(bi,b"\x90")
a = Assembler(m); a.assemble("nop\n.data\n.byte 1\n.byte 2\n"); print("whole ", res(a.finalize()))
a = Assembler(m); a.assemble("nop\n.data\n.byte 1\n"); a.assemble(".byte 2\n"); print("chunks", res(a.finalize()))
# temp suffix collision across two rewriting contexts
for rnd in range(2):
    ctx = gtirb_rewriting.RewritingContext(m, [])
    ctx.insert_at(b0, 0, literal_patch(".Lfoo:\nnop\njmp .Lfoo"))
    ctx.apply()
    b0 = sorted(m.code_blocks, key=lambda b:b.address)[-1]
print("symbol names:", sorted(s.name for s in m.symbols))
# (2) retarget with return edges
ir, m = create_test_module(gtirb.Module.FileFormat.ELF, gtirb.Module.ISA.X64)
_, bi = add_text_section(m, address=0x1000)
A = add_symbol(m,"A"); B = add_symbol(m,"B"); 
c1 = add_code_block(bi, b"\xe8\x00\x00\x00\x00", {(1,4): gtirb.SymAddrConst(0,A)})  # call A
c2 = add_code_block(bi, b"\xc3")
fa = add_code_block(bi, b"\xc3"); A.referent=fa
fb = add_code_block(bi, b"\xc3"); B.referent=fb
add_edge(ir.cfg,c1,fa,gtirb.Edge.Type.Call); add_edge(ir.cfg,c1,c2,gtirb.Edge.Type.Fallthrough)
add_edge(ir.cfg,c2,add_proxy_block(m),gtirb.Edge.Type.Return)
add_edge(ir.cfg,fa,c2,gtirb.Edge.Type.Return)
add_edge(ir.cfg,fb,add_proxy_block(m),gtirb.Edge.Type.Return)
fm=add_function_object(m,"main",c1,{c2}); fA=add_function_object(m,A,fa); fB=add_function_object(m,B,fb)
ctx = gtirb_rewriting.RewritingContext(m,[fm,fA,fB]); ctx.retarget_symbol_uses(A,B); ctx.apply()
for e in sorted(ir.cfg, key=lambda e:(e.source.address, e.label.type.name)): print("  edge", hex(e.source.address), '->', hex(e.target.address) if isinstance(e.target,gtirb.CodeBlock) else 'proxy', e.label.type.name)
