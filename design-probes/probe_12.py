# prototype: annotations (comments block-keyed, symexprs in data, sym expr sizes) vs token spec
import random, gtirb, gtirb_rewriting, sys, logging
sys.path.insert(0,'/repo/tests')
from gtirb_test_helpers import add_code_block, add_data_block, add_symbol, add_text_section, create_test_module, add_edge, add_proxy_block
from helpers import literal_patch, add_function_object
import gtirb_rewriting._auxdata as aux
logging.disable(logging.CRITICAL)
INS = [("nop", b"\x90"), ("xchg %ax,%ax", b"\x66\x90")]
PB = {"nop":b"\x90","nop\nnop":b"\x90\x90","xchg %ax,%ax":b"\x66\x90"}
def gen(rnd):
    nb = rnd.randint(1,3); blocks=[]
    for i in range(nb):
        ins=[rnd.choice(INS) for _ in range(rnd.randint(1,3))]
        size=sum(len(x[1]) for x in ins)
        bounds=[0]
        for x in ins: bounds.append(bounds[-1]+len(x[1]))
        ann = sorted(set(rnd.choices(bounds[:-1], k=rnd.randint(0,3))))   # comment keys on insn starts
        keykind = rnd.choice(["block","interval"])
        blocks.append((ins,ann,keykind))
    mods=[]
    for bi_,(ins,ann,kk) in enumerate(blocks):
        bounds=[0]
        for x in ins: bounds.append(bounds[-1]+len(x[1]))
        pts = sorted(rnd.choices(range(len(bounds)), k=rnd.randint(0,3))); last_end=0
        for p in pts:
            if bounds[p]<last_end: continue
            t = rnd.choice(["ins","del","rep"])
            if t=="ins": mods.append((bi_,"ins",bounds[p],0,rnd.choice(list(PB)))); last_end=bounds[p]
            else:
                q=rnd.randint(p,len(bounds)-1); ln=bounds[q]-bounds[p]
                if ln==0: continue
                if bounds[p]==0 and ln==bounds[-1] and any(m[0]==bi_ for m in mods): continue
                mods.append((bi_,t,bounds[p],ln,None if t=="del" else "nop")); last_end=bounds[q]
                if bounds[p]==0 and ln==bounds[-1]: break
    rnd.shuffle(mods); return blocks,mods
def spec(blocks,mods):
    out=[]
    for bi_,(ins,ann,kk) in enumerate(blocks):
        data=b"".join(x[1] for x in ins)
        toks=[]
        for k,b in enumerate(data):
            if k in ann: toks.append(('A',f"c{bi_}_{k}"))
            toks.append(('B',b,k))
        ms = sorted([(m[2],j,m) for j,m in enumerate(mods) if m[0]==bi_], key=lambda t:(t[0],t[1]))
        res=[]; pos=0
        def upto(off):
            nonlocal pos
            for t in toks:
                if t[0]=='B' and pos<=t[2]<off: res.append(t)
                elif t[0]=='A':
                    k=int(t[1].split('_')[1])
                    if pos<=k<off: res.append(t)
            pos=off
        for off,j,m in ms:
            upto(off)
            if m[1] in("ins","rep"): res += [('B',b,-1) for b in PB[m[4]]]
            pos=off+m[3]
        upto(len(data)+1)
        out+=res
    n=0; places={}
    for t in out:
        if t[0]=='B': n+=1
        else: places[t[1]]=n
    return bytes(t[1] for t in out if t[0]=='B'), places
def impl(blocks,mods):
    ir, m = create_test_module(gtirb.Module.FileFormat.ELF, gtirb.Module.ISA.X64)
    _, bi = add_text_section(m, address=0x1000); gb=[]
    com = aux.comments.get_or_insert(m)
    for bi_,(ins,ann,kk) in enumerate(blocks):
        b=add_code_block(bi,b"".join(x[1] for x in ins)); gb.append(b)
        for k in ann:
            if kk=="block": com[gtirb.Offset(b,k)]=f"c{bi_}_{k}"
            else: com[gtirb.Offset(bi,b.offset+k)]=f"c{bi_}_{k}"
    for i in range(len(gb)-1): add_edge(ir.cfg,gb[i],gb[i+1],gtirb.Edge.Type.Fallthrough)
    f=add_function_object(m,"f",gb[0],set(gb[1:]))
    ctx=gtirb_rewriting.RewritingContext(m,[f])
    for (bi_,t,off,ln,p) in mods:
        b=gb[bi_]
        if t=="ins": ctx.insert_at(b,off,literal_patch(p))
        elif t=="del": ctx.delete_at(b,off,ln)
        else: ctx.replace_at(b,off,ln,literal_patch(p))
    ctx.apply()
    secbytes=b"".join(i.contents for i in sorted(m.byte_intervals,key=lambda i:i.address))
    places={}
    for off,v in aux.comments.get(m).items():
        el=off.element_id
        if isinstance(el,gtirb.ByteBlock):
            if el.byte_interval is None: places[v]="DANGLING-block"; continue
            places[v]=el.address+off.displacement-0x1000
        else:
            if el.section is None: places[v]="DANGLING-bi"; continue
            places[v]=el.address+off.displacement-0x1000
    return secbytes,places
bad=0; exc={}
for seed in range(int(sys.argv[1])):
    rnd=random.Random(seed); blocks,mods=gen(rnd)
    try: ib,ip=impl(blocks,mods)
    except Exception as e:
        k=type(e).__name__+":"+str(e)[:50]; exc[k]=exc.get(k,0)+1; continue
    sb,sp=spec(blocks,mods)
    if ib!=sb or ip!=sp:
        bad+=1
        if bad<=6: print("MISMATCH",seed,[([x[0] for x in b[0]],b[1],b[2]) for b in blocks],mods,"\n  impl",ib.hex(),sorted(ip.items()),"\n  spec",sb.hex(),sorted(sp.items()))
print("bad",bad,"exc",exc)
