import random, gtirb, sys
from gtirb_rewriting._adt import BlockOrdering, OffsetMapping, IdentitySet
bad=0
for seed in range(20000):
    rnd=random.Random(seed)
    blocks=[gtirb.CodeBlock() for _ in range(6)]
    bo=BlockOrdering(); chains=[]  # list of lists
    def find(b):
        for c in chains:
            if b in c: return c
    for step in range(10):
        op=rnd.choice(["detached","after","remove","adj"])
        free=[b for b in blocks if not find(b)]; used=[b for b in blocks if find(b)]
        try:
            if op=="detached":
                k=rnd.randint(0,min(3,len(free))); bs=rnd.sample(free,k)
                if rnd.random()<0.1 and used: bs=bs+[rnd.choice(used)]
                exp_err = any(find(b) for b in bs)
                try: bo.add_detached_blocks(bs); err=False
                except ValueError: err=True
                if err!=exp_err: bad+=1; print("detached err mismatch",seed); break
                if not err and bs: chains.append(list(bs))
            elif op=="after" and used:
                a=rnd.choice(used); k=rnd.randint(0,min(3,len(free))); bs=rnd.sample(free,k)
                bo.insert_blocks_after(a,bs); c=find(a); i=c.index(a); c[i+1:i+1]=bs
            elif op=="remove" and used:
                a=rnd.choice(used); bo.remove_block(a); c=find(a); i=c.index(a)
                c.remove(a)
                if not c: chains.remove(c)
            elif op=="adj" and used:
                pass
            for b in blocks:
                c=find(b)
                if c:
                    i=c.index(b); exp=(c[i-1] if i>0 else None, c[i+1] if i+1<len(c) else None)
                    if bo.adjacent_blocks(b)!=exp: bad+=1; print("adj mismatch",seed,step,op); raise StopIteration
        except StopIteration: break
print("blockordering bad",bad)
# OffsetMapping vs dict of dicts
bad=0
for seed in range(20000):
    rnd=random.Random(seed); els=[gtirb.CodeBlock() for _ in range(3)]
    om=OffsetMapping(); ref={}
    for step in range(12):
        op=rnd.choice(["set","del","setel","delel","get","len","contains","pop","setdefault"])
        e=rnd.choice(els); d=rnd.randint(0,2); off=gtirb.Offset(e,d)
        try:
            if op=="set": om[off]=step; ref.setdefault(e,{})[d]=step
            elif op=="del":
                exp = e in ref and d in ref[e]
                try: del om[off]; ok=True
                except KeyError: ok=False
                assert ok==exp
                if ok: del ref[e][d]
            elif op=="setel":
                v={rnd.randint(0,2):step for _ in range(rnd.randint(0,2))}; om[e]=dict(v); ref[e]=dict(v)
            elif op=="delel":
                exp = e in ref
                try: del om[e]; ok=True
                except KeyError: ok=False
                assert ok==exp
                if ok: del ref[e]
            elif op=="get": assert om.get(off)==ref.get(e,{}).get(d)
            elif op=="len": assert len(om)==sum(len(v) for v in ref.values()); assert bool(om)==any(ref.values())
            elif op=="contains": assert (off in om)==(e in ref and d in ref[e]); assert (e in om)==(e in ref)
            elif op=="pop":
                exp=ref.get(e,{}).get(d,"dflt"); got=om.pop(off,"dflt"); assert got==exp
                if e in ref: ref[e].pop(d,None)
            elif op=="setdefault":
                got=om.setdefault(off,step); 
                if e in ref and d in ref[e]: assert got==ref[e][d]
                else: ref.setdefault(e,{})[d]=step; assert got==step
            assert sorted(((k.element_id.uuid.int,k.displacement),v) for k,v in om.items())==sorted(((e2.uuid.int,d2),v) for e2,dd in ref.items() for d2,v in dd.items())
        except AssertionError:
            bad+=1; print("offsetmapping mismatch",seed,step,op); break
print("offsetmapping bad",bad)
