"""Regenerates coq/theories/Gen/DwarfGen.v from /repo/src/gtirb_rewriting/dwarf/*.py (fail closed)."""
import ast
import sys
from pyexpr import Env, Fail, body_nodoc, checks_ok, expr, fail, find

ENC_CLASSES = {
    "_AddToOpcodeEncoder": ("EAdd", 1),
    "_ULEB128Encoder": ("EULEB", 0),
    "_SLEB128Encoder": ("ESLEB", 0),
    "_UIntEncoder": ("EUInt", 1),
    "_SIntEncoder": ("ESInt", 1),
    "_UIntPtrEncoder": ("EUPtr", 0),
    "_ExprEncoder": ("EExpr", 0),
}


def parse_enum(tree, name):
    cls = find(tree, name)
    out = []
    for st in cls.body:
        if isinstance(st, ast.Expr) and isinstance(st.value, ast.Constant):
            continue
        if (isinstance(st, ast.Assign) and len(st.targets) == 1 and isinstance(st.targets[0], ast.Name)
                and isinstance(st.value, ast.Constant) and isinstance(st.value.value, int)):
            out.append((st.targets[0].id, st.value.value))
        else:
            fail(st, f"unsupported statement in enum {name}")
    return out


def class_table(tree, root, enum_name, enum_vals, with_directive):
    """All concrete subclasses (transitively) of `root`, in declaration order."""
    known = {root: None}  # name -> inherited fields (None: abstract root)
    abstract_fields = {root: []}
    rows = []
    for st in tree.body:
        if not isinstance(st, ast.ClassDef):
            continue
        bases = [ast.unparse(b) for b in st.bases]
        if st.name == root or not any(b in known for b in bases):
            continue
        parents = [b for b in bases if b in known]
        if len(parents) != 1 or len(bases) != 1:
            fail(st, "unsupported base list")
        parent = parents[0]
        kw = {k.arg: k.value for k in st.keywords}
        fields = []
        for s in st.body:
            if isinstance(s, ast.Expr) and isinstance(s.value, ast.Constant):
                continue
            if isinstance(s, ast.AnnAssign) and isinstance(s.target, ast.Name):
                if s.value is None:
                    fields.append((s.target.id, None))
                    continue
                v = s.value
                if not (isinstance(v, ast.Call) and ast.unparse(v.func) == "_encoded_field" and len(v.args) == 1
                        and not v.keywords and isinstance(v.args[0], ast.Call)):
                    fail(s, "field without _encoded_field(<Encoder>(...))")
                ec = v.args[0]
                ename = ast.unparse(ec.func)
                if ename not in ENC_CLASSES:
                    fail(s, "unknown encoder class")
                ctor, nargs = ENC_CLASSES[ename]
                if len(ec.args) != nargs or ec.keywords:
                    fail(s, "unexpected encoder arguments")
                args = []
                for a in ec.args:
                    if not (isinstance(a, ast.Constant) and isinstance(a.value, int)):
                        fail(s, "encoder argument is not an int literal")
                    args.append(a.value)
                fields.append((s.target.id, (ctor, args)))
            elif isinstance(s, ast.FunctionDef) and s.name == "__new__" and st.name == "OpConst":
                continue  # compatibility shim: OpConst(value) -> make_const_op(value); modelled as make_const_op
            else:
                fail(s, f"unsupported statement in class {st.name}")
        if "opcode_type" in kw:
            if set(kw) != {"opcode_type"} or ast.unparse(kw["opcode_type"]) != enum_name:
                fail(st, "unsupported abstract class keywords")
            known[st.name] = None
            abstract_fields[st.name] = abstract_fields[parent] + fields
            continue
        want = {"opcode", "directive"} if with_directive else {"opcode"}
        if set(kw) != want:
            fail(st, "unsupported class keywords")
        op = kw["opcode"]
        if not (isinstance(op, ast.Attribute) and ast.unparse(op.value) == enum_name and op.attr in enum_vals):
            fail(st, "opcode is not a member of the expected enum")
        directive = ""
        if with_directive:
            d = kw["directive"]
            if not (isinstance(d, ast.Constant) and isinstance(d.value, str)):
                fail(st, "directive is not a string literal")
            directive = d.value
        # dataclass field order: inherited first; a redeclared name keeps its inherited position
        inherited = list(abstract_fields[parent])
        names = [n for n, _ in inherited]
        for n, e in fields:
            if n in names:
                inherited[names.index(n)] = (n, e)
            else:
                inherited.append((n, e))
                names.append(n)
        for n, e in inherited:
            if e is None:
                fail(st, f"field {n} has no encoder")
        for i, (n, e) in enumerate(inherited):
            if e[0] == "EAdd" and i != 0:
                fail(st, "fused encoder is not the first field")
        known[st.name] = None
        if st.name in abstract_fields:
            pass
        rows.append((st.name, enum_vals[op.attr], directive, inherited, parent))
    return rows


def coq_str(s):
    return '"' + s.replace('"', '""') + '"%string'


def emit_table(name, rows):
    out = [f"Definition {name} : list cls := ["]
    lines = []
    for cname, opcode, directive, fields, _parent in rows:
        fs = "; ".join(f"({coq_str(n)}, {e[0]}{''.join(' ' + str(a) for a in e[1])})" for n, e in fields)
        lines.append(f"  mk_cls {coq_str(cname)} {opcode} {coq_str(directive)} [{fs}]")
    out.append(";\n".join(lines))
    out.append("].")
    return "\n".join(out)


# ---- make_const_op: early-return statement translator -------------------------------------------

def stmts_result(stmts, env, classes):
    """Statement list -> Gallina term of type `result (string * Z)`; falling off the end is an error
    the caller must make impossible (we emit Err AssertErr)."""
    if not stmts:
        return "(Err AssertErr)"
    st, rest = stmts[0], stmts[1:]
    if isinstance(st, ast.Expr) and isinstance(st.value, ast.Constant):
        return stmts_result(rest, env, classes)
    if isinstance(st, ast.Return):
        v = st.value
        if isinstance(v, ast.Call) and len(v.args) == 1 and not v.keywords and isinstance(v.func, ast.Name):
            f = v.func.id
            if f in classes:
                return f"(Ok ({coq_str(f)}, {expr(v.args[0], env)}))"
            if f in env.names and f in env.class_vars:
                return f"(Ok ({env.names[f]}, {expr(v.args[0], env)}))"
        fail(st, "unsupported return")
    if isinstance(st, ast.Raise):
        if ast.unparse(st.exc.func if isinstance(st.exc, ast.Call) else st.exc) == "ValueError":
            return "(Err ValueErr)"
        fail(st, "unsupported raise")
    if isinstance(st, ast.Assign) and len(st.targets) == 1 and isinstance(st.targets[0], ast.Name):
        n = st.targets[0].id
        if isinstance(st.value, ast.Name) and st.value.id in classes:
            e2 = env.child(**{n: n})
            e2.class_vars = env.class_vars | {n}
            return f"(let {n} := {coq_str(st.value.id)} in {stmts_result(rest, e2, classes)})"
        e2 = env.child(**{n: n})
        e2.class_vars = env.class_vars
        return f"(let {n} := {expr(st.value, env)} in {stmts_result(rest, e2, classes)})"
    if isinstance(st, ast.If):
        t = expr(st.test, env)
        a = stmts_result(st.body + rest, env, classes)
        b = stmts_result(st.orelse + rest, env, classes)
        return f"(if {t} then {a} else {b})"
    if isinstance(st, ast.For) and not st.orelse and isinstance(st.iter, ast.Tuple) and isinstance(st.target, ast.Tuple):
        # unroll a loop over a literal tuple of literal tuples
        unrolled = []
        tnames = [ast.unparse(t) for t in st.target.elts]
        body_terms = None
        result = stmts_result(rest, env, classes)
        for row in reversed(st.iter.elts):
            if not (isinstance(row, ast.Tuple) and len(row.elts) == len(tnames)):
                fail(st, "loop row shape")
            e2 = env.child()
            e2.class_vars = set(env.class_vars)
            binds = []
            for n, v in zip(tnames, row.elts):
                if isinstance(v, ast.Name) and v.id in classes:
                    binds.append((n, coq_str(v.id)))
                    e2.class_vars.add(n)
                elif isinstance(v, ast.Constant):
                    binds.append((n, expr(v, env)))
                else:
                    fail(st, "loop row element")
                e2.names[n] = n
            # body followed by "continue with the next row"
            body = stmts_result_k(st.body, e2, classes, result)
            for n, v in reversed(binds):
                body = f"(let {n} := {v} in {body})"
            result = body
        return result
    fail(st, "unsupported statement")


def stmts_result_k(stmts, env, classes, k):
    """Like stmts_result but falling off the end continues with Gallina term k."""
    if not stmts:
        return k
    st, rest = stmts[0], stmts[1:]
    if isinstance(st, ast.If):
        t = expr(st.test, env)
        a = stmts_result_k(st.body + rest, env, classes, k)
        b = stmts_result_k(st.orelse + rest, env, classes, k)
        return f"(if {t} then {a} else {b})"
    if isinstance(st, ast.Assign) and len(st.targets) == 1 and isinstance(st.targets[0], ast.Name):
        n = st.targets[0].id
        e2 = env.child(**{n: n})
        e2.class_vars = set(env.class_vars)
        if isinstance(st.value, ast.Name) and st.value.id in classes:
            e2.class_vars.add(n)
            return f"(let {n} := {coq_str(st.value.id)} in {stmts_result_k(rest, e2, classes, k)})"
        return f"(let {n} := {expr(st.value, env)} in {stmts_result_k(rest, e2, classes, k)})"
    if isinstance(st, (ast.Return, ast.Raise)):
        return stmts_result([st], env, classes)
    fail(st, "unsupported statement in loop body")


def generate(src):
    d2 = ast.parse(open(src + "dwarf/dwarf2.py").read())
    enc = ast.parse(open(src + "dwarf/_encoders.py").read())
    ex = ast.parse(open(src + "dwarf/expr.py").read())
    cf = ast.parse(open(src + "dwarf/cfi.py").read())
    out = ["(* GENERATED by translator/gen_dwarf.py from /repo/src/gtirb_rewriting/dwarf -- do not edit *)",
           "From Coq Require Import ZArith List Bool String.",
           "From GR Require Import Base.Result Base.PyPrelude Dwarf.Leb128 Dwarf.Types.",
           "Import ListNotations.", "Open Scope Z_scope.", ""]
    cfa = parse_enum(d2, "CallFrameInstructions")
    eops = parse_enum(d2, "ExpressionOperations")
    penc = parse_enum(d2, "PointerEncodings")
    for nm, vals in (("cfa_opcodes", cfa), ("expr_opcodes", eops), ("ptr_encodings", penc)):
        out.append(f"Definition {nm} : list (string * Z) := [" +
                   "; ".join(f"({coq_str(n)}, {v})" for n, v in vals) + "].")
    out.append("")
    # _int_domain
    f = find(enc, "_int_domain")
    b = body_nodoc(f)
    if not (len(b) == 1 and isinstance(b[0], ast.If) and len(b[0].body) == 1 and len(b[0].orelse) == 1):
        fail(f, "_int_domain shape")

    def rng(args, kwargs):
        if len(args) == 2 and not kwargs:
            return f"({args[0]}, {args[1]})"
        raise Fail("range() with other than 2 arguments")
    env = Env({"bit_size": "bit_size", "signed": "signed"}, {"range": rng})
    t = expr(b[0].test, env)
    r1 = b[0].body[0]
    r2 = b[0].orelse[0]
    if not (isinstance(r1, ast.Return) and isinstance(r2, ast.Return)):
        fail(f, "_int_domain returns")
    out.append(f"Definition int_domain (bit_size : Z) (signed : bool) : Z * Z :=\n  if {t} then {expr(r1.value, env)} else {expr(r2.value, env)}.")
    out.append("")

    def intdom(args, kwargs):
        a = list(args)
        if "signed" in kwargs:
            a.append(kwargs["signed"])
        if len(a) != 2:
            raise Fail("_int_domain call shape")
        return f"(int_domain {a[0]} {a[1]})"
    # validate bodies
    for cls, params, names in (
        ("_AddToOpcodeEncoder", "(upper_bound : Z)", {"self.upper_bound": "upper_bound"}),
        ("_ULEB128Encoder", "", {}),
        ("_IntEncoder", "(byte_size : Z) (signed : bool)", {"self.byte_size": "byte_size", "self.signed": "signed"}),
        ("_UIntPtrEncoder", "", {}),
    ):
        fn = find(enc, cls + ".validate")
        n = dict(names)
        n.update({"value": "value", "ptr_size": "ptr_size"})
        env = Env(n, {"_int_domain": intdom}, options={"ptr_size"})
        out.append(f"Definition validate{cls} {params} (value : Z) (ptr_size : option Z) : bool :=\n  {checks_ok(body_nodoc(fn), env)}.")
    # classes that must NOT override validate (base: always ok)
    for cls in ("_SLEB128Encoder",):
        c = find(enc, cls)
        if any(isinstance(s, ast.FunctionDef) and s.name == "validate" for s in c.body):
            raise Fail(f"{cls} now overrides validate: not modelled")
    ec = find(cf, "_ExprEncoder")
    if any(isinstance(s, ast.FunctionDef) and s.name == "validate" for s in ec.body):
        raise Fail("_ExprEncoder now overrides validate: not modelled")
    base = find(enc, "_Encoder.validate")
    if not all(isinstance(s, ast.Pass) for s in body_nodoc(base)):
        raise Fail("_Encoder.validate is no longer `pass`")
    # _UIntEncoder/_SIntEncoder constructor flags
    for cls, flag in (("_UIntEncoder", False), ("_SIntEncoder", True)):
        fn = find(enc, cls + ".__init__")
        b = body_nodoc(fn)
        want = f"super().__init__(byte_size, signed={flag})"
        if not (len(b) == 1 and ast.unparse(b[0]) == want):
            fail(fn, f"{cls}.__init__ is not `{want}`")
    out.append(f"Definition validate_UIntEncoder (byte_size : Z) := validate_IntEncoder byte_size false.")
    out.append(f"Definition validate_SIntEncoder (byte_size : Z) := validate_IntEncoder byte_size true.")
    # fused add-to-opcode arithmetic
    fe = find(enc, "_AddToOpcodeEncoder.encode")
    b = body_nodoc(fe)
    r = b[0].value if len(b) == 1 and isinstance(b[0], ast.Return) else None
    if not (isinstance(r, ast.Call) and isinstance(r.func, ast.Attribute) and r.func.attr == "to_bytes"
            and ast.unparse(r.args[0]) == "1" and ast.unparse(r.args[1]) == "byteorder" and len(r.args) == 2 and not r.keywords):
        fail(fe, "_AddToOpcodeEncoder.encode shape")
    env = Env({"opcode": "opcode", "value": "value", "byte_value": "byte_value"})
    out.append(f"Definition fused_add_encode (opcode value : Z) : Z := {expr(r.func.value, env)}.")
    fd = find(enc, "_AddToOpcodeEncoder.decode")
    b = body_nodoc(fd)
    if not (len(b) == 1 and isinstance(b[0], ast.Return)):
        fail(fd, "_AddToOpcodeEncoder.decode shape")
    out.append(f"Definition fused_add_decode (opcode byte_value : Z) : Z := {expr(b[0].value, env)}.")
    out.append("")
    # _IntEncoder / _UIntPtrEncoder encode+decode calls are pinned textually (hand model IntCodec.v)
    pins = {
        "_IntEncoder.encode": "return value.to_bytes(self.byte_size, byteorder, signed=self.signed)",
        "_IntEncoder.decode": "return (int.from_bytes(io.read(self.byte_size), byteorder, signed=self.signed), self.byte_size)",
        "_UIntPtrEncoder.encode": "return value.to_bytes(ptr_size, byteorder, signed=False)",
        "_UIntPtrEncoder.decode": "return (int.from_bytes(io.read(ptr_size), byteorder, signed=False), ptr_size)",
        "_ULEB128Encoder.encode": "return leb128.u.encode(value)",
        "_ULEB128Encoder.decode": "return leb128.u.decode_reader(io)",
        "_SLEB128Encoder.encode": "return leb128.i.encode(value)",
        "_SLEB128Encoder.decode": "return leb128.i.decode_reader(io)",
    }
    for q, want in pins.items():
        fn = find(enc, q)
        got = "\n".join(ast.unparse(s) for s in body_nodoc(fn))
        if got != want:
            raise Fail(f"{q} body changed: {got!r} (hand model pinned to {want!r})")
    # class tables
    ev = dict(eops)
    cv = dict(cfa)
    erows = class_table(ex, "Operation", "ExpressionOperations", ev, False)
    crows = class_table(cf, "Instruction", "CallFrameInstructions", cv, True)
    out.append(emit_table("expr_table", erows))
    out.append("")
    # subclasses of OpConst (what make_const_op may choose among)
    out.append("Definition const_class_names : list string := [" + "; ".join(coq_str(r[0]) for r in erows if r[4] == "OpConst") + "].")
    out.append("")
    out.append(emit_table("cfi_table", crows))
    out.append("")
    # make_const_op
    fn = find(ex, "make_const_op")
    classes = {r[0] for r in erows}
    env = Env({"value": "value"}, {
        "_int_domain": intdom,
        "leb128.i.encode": lambda a, k: f"(sleb_encode {a[0]})",
        "leb128.u.encode": lambda a, k: f"(uleb_encode {a[0]})",
        "len": lambda a, k: f"(Z.of_nat (List.length {a[0]}))",
    })
    env.class_vars = set()
    out.append(f"Definition make_const_op_gen (value : Z) : result (string * Z) :=\n  {stmts_result(body_nodoc(fn), env, classes)}.")
    out.append("")
    return "\n".join(out)


if __name__ == "__main__":
    try:
        sys.stdout.write(generate(sys.argv[1]))
    except Fail as e:
        sys.stderr.write(f"TRANSLATOR-REFUSED gen_dwarf: {e}\n")
        sys.exit(3)
