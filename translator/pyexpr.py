"""Fail-closed translation of Python expressions / small statement lists to Gallina text.

Semantics assumed (trusted base): Python int -> Z; // and % are floor division
(Z.div / Z.modulo agree for every sign of the divisor); comparisons -> Z boolean
comparisons; and/or/not on *boolean-typed* operands -> && || negb; `range(a,b)`
-> the pair (a,b) with membership tested by in_range; `x is None`/`is not None`
on an option-typed name -> match.  Anything else raises Fail.
"""
import ast


class Fail(Exception):
    pass


def fail(node, why):
    where = getattr(node, "lineno", "?")
    raise Fail(f"line {where}: {why}: {ast.unparse(node)[:120] if isinstance(node, ast.AST) else node}")


BIN = {ast.Add: "+", ast.Sub: "-", ast.Mult: "*"}
CMP = {ast.Lt: "<?", ast.LtE: "<=?", ast.Gt: ">?", ast.GtE: ">=?", ast.Eq: "=?"}


class Env:
    """names: python name/attr text -> coq text.  funcs: python callee text -> callable(args coq, kwargs coq)->coq.
    options: set of python names whose coq type is option (for `is None`)."""

    def __init__(self, names=None, funcs=None, options=None, strings=False):
        self.names = dict(names or {})
        self.funcs = dict(funcs or {})
        self.options = set(options or ())
        self.strings = strings

    def child(self, **extra):
        e = Env(self.names, self.funcs, self.options, self.strings)
        e.names.update(extra)
        return e


def expr(e, env):
    if isinstance(e, ast.Name) or isinstance(e, ast.Attribute):
        key = ast.unparse(e)
        if key in env.names:
            return env.names[key]
        fail(e, "free name")
    if isinstance(e, ast.Constant):
        if isinstance(e.value, bool):
            return "true" if e.value else "false"
        if isinstance(e.value, int):
            return f"({e.value})" if e.value < 0 else f"{e.value}"
        if isinstance(e.value, str) and env.strings:
            return '"' + e.value.replace('"', '""') + '"%string'
        fail(e, "unsupported constant")
    if isinstance(e, ast.BinOp):
        if type(e.op) in BIN:
            return f"({expr(e.left, env)} {BIN[type(e.op)]} {expr(e.right, env)})"
        if isinstance(e.op, ast.Pow):
            return f"(Z.pow {expr(e.left, env)} {expr(e.right, env)})"
        if isinstance(e.op, ast.FloorDiv):
            return f"(Z.div {expr(e.left, env)} {expr(e.right, env)})"
        if isinstance(e.op, ast.Mod):
            return f"(Z.modulo {expr(e.left, env)} {expr(e.right, env)})"
        if isinstance(e.op, ast.BitAnd):
            return f"(Z.land {expr(e.left, env)} {expr(e.right, env)})"
        if isinstance(e.op, ast.BitOr):
            return f"(Z.lor {expr(e.left, env)} {expr(e.right, env)})"
        if isinstance(e.op, ast.LShift):
            return f"(Z.shiftl {expr(e.left, env)} {expr(e.right, env)})"
        if isinstance(e.op, ast.RShift):
            return f"(Z.shiftr {expr(e.left, env)} {expr(e.right, env)})"
        fail(e, "unsupported binary operator")
    if isinstance(e, ast.UnaryOp):
        if isinstance(e.op, ast.USub):
            return f"(- {expr(e.operand, env)})"
        if isinstance(e.op, ast.Invert):
            return f"(Z.lnot {expr(e.operand, env)})"
        if isinstance(e.op, ast.Not):
            return f"(negb {expr(e.operand, env)})"
        fail(e, "unsupported unary operator")
    if isinstance(e, ast.Compare):
        parts = []
        left = e.left
        for op, right in zip(e.ops, e.comparators):
            parts.append(compare(left, op, right, env, e))
            left = right
        return parts[0] if len(parts) == 1 else "(" + " && ".join(parts) + ")"
    if isinstance(e, ast.BoolOp):
        op = " && " if isinstance(e.op, ast.And) else " || "
        return "(" + op.join(expr(v, env) for v in e.values) + ")"
    if isinstance(e, ast.IfExp):
        return f"(if {expr(e.test, env)} then {expr(e.body, env)} else {expr(e.orelse, env)})"
    if isinstance(e, ast.Tuple):
        return "(" + ", ".join(expr(x, env) for x in e.elts) + ")"
    if isinstance(e, ast.Call):
        key = ast.unparse(e.func)
        if key in env.funcs:
            args = [expr(a, env) for a in e.args]
            kwargs = {k.arg: expr(k.value, env) for k in e.keywords}
            return env.funcs[key](args, kwargs)
        fail(e, "unknown callee")
    fail(e, "unsupported expression")


def compare(left, op, right, env, whole):
    if type(op) in CMP:
        return f"({expr(left, env)} {CMP[type(op)]} {expr(right, env)})"
    if isinstance(op, ast.NotEq):
        return f"(negb ({expr(left, env)} =? {expr(right, env)}))"
    if isinstance(op, ast.In):
        return f"(in_range {expr(right, env)} {expr(left, env)})"
    if isinstance(op, ast.NotIn):
        return f"(negb (in_range {expr(right, env)} {expr(left, env)}))"
    if isinstance(op, (ast.Is, ast.IsNot)) and isinstance(right, ast.Constant) and right.value is None:
        key = ast.unparse(left)
        if key in env.options:
            t, f = ("true", "false") if isinstance(op, ast.Is) else ("false", "true")
            return f"(match {env.names[key]} with None => {t} | Some _ => {f} end)"
    fail(whole, "unsupported comparison")


def is_raise(st, exc):
    if not isinstance(st, ast.Raise) or st.exc is None:
        return False
    x = st.exc
    name = x.func if isinstance(x, ast.Call) else x
    return ast.unparse(name) == exc


def checks_ok(stmts, env, exc="ValueError"):
    """A statement list made only of `if c: raise exc`, `x = e`, `pass`, docstrings and
    `if x is not None: <same>` -> a boolean that is true iff nothing is raised."""
    if not stmts:
        return "true"
    st, rest = stmts[0], stmts[1:]
    if isinstance(st, ast.Pass) or (isinstance(st, ast.Expr) and isinstance(st.value, ast.Constant)):
        return checks_ok(rest, env, exc)
    if isinstance(st, ast.Assign) and len(st.targets) == 1 and isinstance(st.targets[0], ast.Name):
        n = st.targets[0].id
        v = expr(st.value, env)
        return f"(let {n} := {v} in {checks_ok(rest, env.child(**{n: n}), exc)})"
    if isinstance(st, ast.If) and not st.orelse:
        # body that raises (string-building assignments before the raise are irrelevant)
        if is_raise(st.body[-1], exc) and all(isinstance(s, ast.Assign) for s in st.body[:-1]):
            return f"(negb {expr(st.test, env)} && {checks_ok(rest, env, exc)})"
        t = st.test
        if (isinstance(t, ast.Compare) and len(t.ops) == 1 and isinstance(t.ops[0], ast.IsNot)
                and isinstance(t.comparators[0], ast.Constant) and t.comparators[0].value is None):
            key = ast.unparse(t.left)
            if key in env.options:
                inner_env = env.child(**{key: key + "_v"})
                inner_env.options = env.options - {key}
                inner = checks_ok(st.body, inner_env, exc)
                return (f"((match {env.names[key]} with None => true | Some {key}_v => {inner} end)"
                        f" && {checks_ok(rest, env, exc)})")
    fail(st, "unsupported statement in check chain")


def find(tree, qual):
    """Locate Class.method / function by qualified name."""
    node = tree
    for p in qual.split("."):
        for n in node.body:
            if isinstance(n, (ast.FunctionDef, ast.ClassDef)) and n.name == p:
                node = n
                break
        else:
            raise Fail(f"cannot locate {qual} (missing {p})")
    return node


def body_nodoc(fn):
    b = fn.body
    if b and isinstance(b[0], ast.Expr) and isinstance(b[0].value, ast.Constant) and isinstance(b[0].value.value, str):
        b = b[1:]
    return b
