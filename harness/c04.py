"""C04: symbolic expressions and offset-keyed aux data travel with the bytes they annotate."""
import gtirb

from harness import irgen
from harness.c01 import expected_chunks
from harness.ir import IRProp


def expr_key(e):
    syms = [s.name for s in e.symbols]
    add = getattr(e, "offset", 0)
    return (type(e).__name__, tuple(syms), add, tuple(sorted(str(a) for a in e.attributes)))


def operands(case, i):
    """offset -> target block of the symbolic expressions of original block i"""
    x = case.blocks[i]
    if x["kind"] == "c":
        k, t = x["ins"][-1]
        return {case.size(i) - len(irgen.ENC[k]) + irgen.SYMOFF[k]: t} if t is not None else {}
    return dict(x.get("dsym") or {})


def observe(module, B, rec):
    ivs = rec["ival_of_block"]
    starts, acc = [], 0
    for iv in ivs:
        starts.append(acc)
        acc += len(iv.contents)

    def gpos(elem, disp):
        if isinstance(elem, gtirb.ByteInterval):
            iv, base = elem, 0
        else:
            iv, base = elem.byte_interval, elem.offset
        j = next((k for k, x in enumerate(ivs) if x is iv), None)
        if j is None:
            return ("dangling", type(elem).__name__)
        size = len(iv.contents) if isinstance(elem, gtirb.ByteInterval) else elem.size
        if not (0 <= disp <= size):
            return ("outside", disp, size)
        return starts[j] + base + disp
    out = {"symex": [], "tabs": {}, "cfi": [], "dups": [], "foreign": []}
    for j, iv in enumerate(ivs):
        for off, e in iv.symbolic_expressions.items():
            ok = 0 <= off and off + 1 <= len(iv.contents)
            out["symex"].append((starts[j] + off if ok else ("outside", off), expr_key(e)))
            for s in e.symbols:
                if s.module is not module or not any(s is x for x in module.symbols_named(s.name)) if hasattr(module, "symbols_named") else s.module is not module:
                    out["foreign"].append(s.name)
    names = {}
    for s in module.symbols:
        names[s.name] = names.get(s.name, 0) + 1
    out["dups"] = sorted(n for n, c in names.items() if c > 1)
    for t, name in enumerate(irgen.TABLES):
        out["tabs"][t] = sorted(((gpos(o.element_id, o.displacement), irgen.tabval(t, v)) for o, v in module.aux_data[name].data.items()), key=repr)
    for o, ds in module.aux_data["cfiDirectives"].data.items():
        for d in ds:
            out["cfi"].append((gpos(o.element_id, o.displacement), irgen.DCLASS.get(d[0], "O"), d[1][-1] if d[1] else 0))
    return out


def observe_final(m):
    """the same observation on the module apply() returns (intervals re-joined): positions are addresses - 0x1000"""
    out = {"symex": [], "tabs": {}}
    for bi in m.byte_intervals:
        for off, e in bi.symbolic_expressions.items():
            out["symex"].append((bi.address + off - 0x1000, expr_key(e)))
    for t, name in enumerate(irgen.TABLES):
        rows = []
        for o, v in m.aux_data[name].data.items():
            el = o.element_id
            if getattr(el, "address", None) is None:
                rows.append((("dangling", type(el).__name__), irgen.tabval(t, v)))
            else:
                rows.append((el.address + o.displacement - 0x1000, irgen.tabval(t, v)))
        out["tabs"][t] = sorted(rows, key=repr)
    return out


class C04(IRProp):
    id = "C04"
    prop_file = "Properties/C04.v"
    tag = "c04"
    genopts = dict()
    trusted_base = IRProp.base_trusted
    assumptions = ["generated annotations sit on bytes / instruction boundaries strictly inside their block (displacement < size); an Offset whose "
                   "displacement equals the block size annotates no byte and is outside the property's quantifier",
                   "positions are compared as offsets into the concatenated listing"]
    level_rule = ("random x86-64 modules with symbolic operands, comments / padding / symbolicExpressionSizes entries keyed by blocks and by the "
                  "byte interval, CFI directives, and patches with symbolic operands and own labels")
    oracle_text = ("when the modify cache is left: every symbolic expression, table entry and CFI directive of the original sits at the image of its "
                   "byte under the listing edit, entries on removed bytes are gone (CFI start/end/remember/restore may slide to the deletion point), "
                   "patch expressions sit at patch position + offset and use the module's symbol object of that name, no symbol name occurs twice, "
                   "no entry points outside its element")

    def make_case(self, seed):
        case = super().make_case(seed)
        fixed = []
        operand_offsets, a = set(), 0
        for i, x in enumerate(case.blocks):
            for o in operands(case, i):
                operand_offsets.add(a + o)
            a += case.size(i)
        for (t, key, d, v) in case.aux:
            if key == "bi":
                if t == 2 and d in operand_offsets:
                    continue        # would overwrite the size entry the test helper records for the operand
                if d < case.total_size():
                    fixed.append((t, key, d, v))
            elif d < case.size(key):
                fixed.append((t, key, d, v))
        case.aux = fixed
        return case

    def observe(self, module, B, rec):
        return observe(module, B, rec)

    def spec(self, seed, case, r):
        if r["error"] is not None or r["obs"] is None:
            return []
        chunks = expected_chunks(case, r)
        if chunks is None:
            return []
        obs = r["obs"]
        starts, acc = [], 0
        for c, _ in chunks:
            starts.append(acc)
            acc += len(c)
        begins, a = [], 0
        for i in range(len(case.blocks)):
            begins.append(a)
            a += case.size(i)
        mods_of = {i: sorted((off, n, ln, (len(r["mod_code"][n][0]) if t != "del" else 0)) for n, (bi, t, off, ln, patch, _) in enumerate(case.mods) if bi == i)
                   for i in range(len(case.blocks))}

        def image(i, d):
            """new offset of original offset d of block i inside its chunk, or None when the byte was removed"""
            delta = 0
            for off, n, ln, plen in mods_of[i]:
                if d >= off + ln:
                    delta += plen - ln
                elif d >= off:
                    return None
            return d + delta

        def image_before(i, d):
            """the boundary in front of anything inserted at d itself"""
            delta = 0
            for off, n, ln, plen in mods_of[i]:
                if off + ln <= d and off < d:
                    delta += plen - ln
                elif off < d < off + ln:
                    return None
            return d + delta

        def patch_pos(i, n0):
            delta = 0
            for off, n, ln, plen in mods_of[i]:
                if n == n0:
                    return off + delta
                delta += plen - ln
        bad = []
        # --- symbolic expressions
        want = []
        for i, x in enumerate(case.blocks):
            for o, t in operands(case, i).items():
                im = image(i, o)
                if im is not None:
                    want.append((starts[i] + im, ("SymAddrConst", (f"L{t}",), 0, ())))
            for off, n, ln, plen in mods_of[i]:
                if case.mods[n][1] != "del":
                    code = r["mod_code"][n][1]
                    for ro, e in code.text_section.symbolic_expressions.items():
                        want.append((starts[i] + patch_pos(i, n) + ro, expr_key(e)))
        # the operands the patch text asks for (independent of what the assembler reports): offset, symbol, addend
        import re as _re
        for i in range(len(case.blocks)):
            for off, n, ln, plen in mods_of[i]:
                text = case.mods[n][4]
                if case.mods[n][1] == "del" or not isinstance(text, str):
                    continue
                labels = _re.findall(r"\bL(\d+)\b", text)
                tmpl = _re.sub(r"\bL\d+\b", "{L}", text)
                if tmpl in irgen.PATCH_EXPRS and labels:
                    code = r["mod_code"][n][1]
                    got = sorted((ro, tuple(sy.name for sy in e.symbols), getattr(e, "offset", None)) for ro, e in code.text_section.symbolic_expressions.items())
                    exp = sorted((ro, (f"L{labels[0]}",), add) for ro, add in irgen.PATCH_EXPRS[tmpl])
                    if got != exp:
                        bad.append(dict(what=f"patch `{text}`: expressions (offset, symbol, addend) {got}, the text asks for {exp}"))
        final = observe_final(r["built"].m) if not case.align else None     # alignment padding would shift the addresses
        if sorted(want, key=repr) != sorted(obs["symex"], key=repr):
            bad.append(dict(what=f"symbolic expressions: expected {sorted(want, key=repr)}, found {sorted(obs['symex'], key=repr)}"))
        if final is not None and sorted(want, key=repr) != sorted(final["symex"], key=repr):
            bad.append(dict(what=f"symbolic expressions after apply(): expected {sorted(want, key=repr)}, found {sorted(final['symex'], key=repr)}"))
        if obs["dups"]:
            bad.append(dict(what=f"duplicate symbol names {obs['dups']}"))
        if obs["foreign"]:
            bad.append(dict(what=f"expressions use symbols that are not the module's: {obs['foreign']}"))
        # --- offset tables
        for t in range(3):
            want = []
            for (tt, key, d, v) in case.aux:
                if tt != t:
                    continue
                if key == "bi":
                    i = max(k for k in range(len(case.blocks)) if begins[k] <= d)
                    d = d - begins[i]
                else:
                    i = key
                im = image(i, d)
                if im is not None:
                    want.append((starts[i] + im, v))
            if t == 2:
                for i, x in enumerate(case.blocks):
                    for o in operands(case, i):
                        im = image(i, o)
                        if im is not None:
                            want.append((starts[i] + im, 4))
                for i in range(len(case.blocks)):
                    for off, n, ln, plen in mods_of[i]:
                        if case.mods[n][1] != "del":
                            code = r["mod_code"][n][1]
                            for ro, sz in code.text_section.symbolic_expression_sizes.items():
                                want.append((starts[i] + patch_pos(i, n) + ro, sz))
            if sorted(want, key=repr) != obs["tabs"][t]:
                bad.append(dict(what=f"table {irgen.TABLES[t]}: expected {sorted(want, key=repr)}, found {obs['tabs'][t]}"))
            if final is not None and sorted(want, key=repr) != final["tabs"][t]:
                bad.append(dict(what=f"table {irgen.TABLES[t]} after apply(): expected {sorted(want, key=repr)}, found {final['tabs'][t]}"))
        # --- CFI directives of the original
        got = {did: (pos, c) for pos, c, did in obs["cfi"]}
        for i, dm in case.cfi.items():
            for d, ds in dm.items():
                for (c, did) in ds:
                    im = image(i, d) if d < case.size(i) else None
                    if d == case.size(i):
                        # a directive at the end boundary follows the block's last byte
                        im = len(chunks[i][0]) if any(True for _ in [0]) else None
                    if im is not None:
                        if did not in got:
                            if d == case.size(i) or c in "ODA":
                                continue       # boundary directives and plain directives next to removed code are C08's concern
                            bad.append(dict(what=f"CFI directive {c}{did} of block {i}+{d} disappeared"))
                        elif got[did][0] not in (starts[i] + im, starts[i] + (image_before(i, d) if image_before(i, d) is not None else im)) and d < case.size(i):
                            bad.append(dict(what=f"CFI directive {c}{did} of block {i}+{d}: expected at {starts[i] + im}, found at {got[did][0]}"))
        for kind in ("symex",):
            for pos, _ in obs[kind]:
                if isinstance(pos, tuple):
                    bad.append(dict(what=f"symbolic expression outside its interval: {pos}"))
        for t in range(3):
            for pos, _ in obs["tabs"][t]:
                if isinstance(pos, tuple):
                    bad.append(dict(what=f"{irgen.TABLES[t]} entry {pos}"))
        return bad


    def oracle(self, tier, ctx, boosted):
        import random

        from harness import ctxlevel
        from vlib import common as C
        res = super().oracle(tier, ctx, boosted)
        # patches with symbolic operands on every target (wrappers, addends, GOT / PLT forms): expression, addend, attributes, size entry
        rnd = C.rng("c04-exprs" + ("-boost" if boosted else ""))
        for _ in range({"quick": 400, "thorough": 4000}["thorough" if boosted else tier]):
            sd = rnd.randrange(1 << 30)
            w = ctxlevel.patch_expressions(random.Random(sd))
            res["evaluations"] += 1
            if w:
                res["violations"].append(dict(what=w, input={"patch_expressions_seed": sd}, finding=None))
        res["violations"] = [b for b in res["violations"] if b["finding"] is None][:10] + [b for b in res["violations"] if b["finding"] is not None][:5]
        return res


PROP = C04()
