"""C07: each registered insertion lands exactly once, exactly where asked."""
import re

from harness import irgen
from harness.ir import IRProp
from vlib import common as C


def gen_regs(rnd, case):
    """[(kind, params)] registrations over the whole vocabulary of scopes"""
    code = [i for i, x in enumerate(case.blocks) if x["kind"] == "c"]
    names = [f"L{i}" for i, x in enumerate(case.blocks) if x.get("fb") == 0 and x.get("func") is not None]

    def pats():
        if rnd.random() < 0.4:
            return None
        if rnd.random() < 0.12:
            return []              # an empty filter: a set that names no function selects none (not "no filter")
        out = []
        for _ in range(rnd.randint(1, 2)):
            k = rnd.random()
            if k < 0.5 and names:
                out.append(("L", rnd.choice(names)))
            elif k < 0.6:
                out.append(("M",))
            elif k < 0.75:
                out.append(("E",))
            else:
                out.append(("R", rnd.choice(["L[0-3]", "L.*", "L1|L2", "main", "x.*"])))
        return out
    regs = []
    for _ in range(rnd.randint(1, 5)):
        k = rnd.random()
        pos = rnd.choice("EXY")
        if k < 0.3:
            regs.append(("A", pos, pats()))
        elif k < 0.5:
            regs.append(("S", rnd.choice(code), pos))
        elif k < 0.8 and case.nfun:
            regs.append(("F", rnd.choice("EX"), pos, pats()))
        else:
            b = rnd.choice(code)
            regs.append(("P", b, rnd.choice(case.bounds(b)), 0))
    return regs


class C07(IRProp):
    id = "C07"
    prop_file = "Properties/C07.v"
    tag = "c07"
    genopts = dict(with_aux=False, with_cfi=False, mods="ins", max_mods=0, orphan_code=0.35, with_syscall=True)
    sizes = {"quick": 500, "thorough": 3000, "boost": 1500}
    trusted_base = ["Coq 8.16.1 kernel",
                    "hand model IR/Scopes.v of scopes.py and _ModificationStore (tied by comparing, per block, the plan of the model with "
                    "what resolve_offsets returns and with the InsertionContext handed to every patch)",
                    "Python's re (regular expressions reach the model as the set of function names they match) and gtirb_functions "
                    "(entry / exit blocks of a Function) are inputs of the model",
                    "extraction: ExtrOcamlBasic only; OCaml driver ocaml/zutil.ml + ir_main.ml"]
    assumptions = ["bubbling is not implemented in the code under test: ANYWHERE resolves to the first potential offset"]
    level_rule = ("random x86-64 modules with 0-2 functions; 1-5 registrations drawn from AllBlocksScope, SingleBlockScope, AllFunctionsScope "
                  "(entry/exit; name sets with literals, MAIN_NAME, ENTRYPOINT_NAME, regular expressions) and insert_at; positions ENTRY/EXIT/ANYWHERE")
    oracle_text = ("per block: the ids and offsets resolve_offsets returns == the specification (designated blocks by the scope's definition, "
                   "ENTRY 0, EXIT before the terminator, ANYWHERE on a boundary not behind the terminator); every patch callback runs once per "
                   "designated block with an InsertionContext naming the original block, offset and function; the patches' bytes appear in "
                   "registration order at equal offsets")

    def run_one(self, seed):
        """returns (case, regs, per-block observations, contexts, error)"""
        import random
        import gtirb
        import gtirb_rewriting
        import gtirb_rewriting.rewriting as R
        from gtirb_rewriting import AllBlocksScope, AllFunctionsScope, BlockPosition, FunctionPosition, SingleBlockScope
        from gtirb_rewriting.scopes import ENTRYPOINT_NAME, MAIN_NAME
        rnd = random.Random(seed)
        case = irgen.Case(rnd, **self.genopts)
        if rnd.random() < 0.3 and case.nfun:
            case.entry = next(i for i, x in enumerate(case.blocks) if x.get("fb") == 0 and x.get("func") is not None)
        regs = gen_regs(rnd, case)
        B = irgen.build(case)
        if case.nfun and rnd.random() < 0.3:
            B.syms[next(i for i, x in enumerate(case.blocks) if x.get("func") == 0)].name = "main"
        BP = {"E": BlockPosition.ENTRY, "X": BlockPosition.EXIT, "Y": BlockPosition.ANYWHERE}
        FP = {"E": FunctionPosition.ENTRY, "X": FunctionPosition.EXIT}

        def mkpats(ps):
            if ps is None:
                return None
            out = set()
            for p in ps:
                out.add(p[1] if p[0] == "L" else MAIN_NAME if p[0] == "M" else ENTRYPOINT_NAME if p[0] == "E" else re.compile(p[1]))
            return out
        ctx = gtirb_rewriting.RewritingContext(B.m, B.fobjs)
        seen_ctx = []

        def mkpatch(rid):
            @gtirb_rewriting.patch_constraints()
            def patch(c):
                seen_ctx.append((rid, next((k for k, g in enumerate(B.gbs) if g is c.block), None), c.offset,
                                 None if c.function is None else next(k for k, f in enumerate(B.fobjs) if f is c.function)))
                return "nop"
            return gtirb_rewriting.Patch.from_function(patch)
        err = None
        try:
            for rid, r in enumerate(regs):
                if r[0] == "A":
                    ctx.register_insert(AllBlocksScope(BP[r[1]], mkpats(r[2])), mkpatch(rid))
                elif r[0] == "S":
                    ctx.register_insert(SingleBlockScope(B.gbs[r[1]], BP[r[2]]), mkpatch(rid))
                elif r[0] == "F":
                    ctx.register_insert(AllFunctionsScope(FP[r[1]], BP[r[2]], mkpats(r[3])), mkpatch(rid))
                else:
                    ctx.insert_at(B.gbs[r[1]], r[2], mkpatch(rid))
        except Exception as e:   # noqa
            return case, regs, B, None, None, type(e).__name__
        plans = {}
        orig = R._ModificationStore.resolve_offsets

        def spy(store, block, decoder, modifications):
            out = orig(store, block, decoder, list(modifications))
            k = next((k for k, g in enumerate(B.gbs) if g is block), None)
            plans[k] = [(o, m.id) for m, o in out]
            return out
        R._ModificationStore.resolve_offsets = spy
        try:
            ctx.apply()
        except Exception as e:   # noqa
            err = type(e).__name__
        finally:
            R._ModificationStore.resolve_offsets = orig
        return case, regs, B, plans, seen_ctx, err

    # ---- the model's input line for one block
    def model_line(self, case, regs, B, i):
        names = {}

        def nid(s):
            if s == "main":
                return 0
            return names.setdefault(s, len(names) + 1)
        fnames = [f.get_name() for f in B.fobjs]
        parts = ["plan", str(-1 if case.entry is None else case.entry), str(len(B.fobjs))]
        for f in B.fobjs:
            en = [k for k, g in enumerate(B.gbs) if any(g is e for e in f.get_entry_blocks())]
            ex = [k for k, g in enumerate(B.gbs) if any(g is e for e in f.get_exit_blocks())]
            parts.append(f"{nid(f.get_name())} {len(en)} " + " ".join(map(str, en)) + f" {len(ex)} " + " ".join(map(str, ex)))
        x = case.blocks[i]
        sizes = [len(irgen.ENC[k]) for k, _ in x["ins"]] if x["kind"] == "c" else []
        term = x["kind"] == "c" and x["ins"][-1][0] in irgen.TERMINATORS
        fidx = x.get("func")
        parts.append(f"{i} {1 if x['kind'] == 'c' else 0} {-1 if fidx is None else fidx} {len(sizes)} " + " ".join(map(str, sizes)) + f" {1 if term else 0}")

        def pats(ps):
            if ps is None:
                return "-"
            out = [f"+ {len(ps)}"]
            for p in ps:
                if p[0] == "L":
                    out.append(f"L {nid(p[1])}")
                elif p[0] in "ME":
                    out.append(p[0])
                else:
                    ms = [nid(n) for n in fnames if re.fullmatch(p[1], n)]
                    out.append(f"R {len(ms)} " + " ".join(map(str, ms)))
            return " ".join(out)
        parts.append(str(len(regs)))
        for rid, r in enumerate(regs):
            if r[0] == "A":
                parts.append(f"{rid} A {r[1]} {pats(r[2])}")
            elif r[0] == "S":
                parts.append(f"{rid} S {r[1]} {r[2]}")
            elif r[0] == "F":
                parts.append(f"{rid} F {r[1]} {r[2]} {pats(r[3])}")
            else:
                parts.append(f"{rid} P {r[1]} {r[2]} {r[3]}")
        return " ".join(parts)

    def correspondence(self, tier, ctx):
        seeds = self.seeds(tier, self.tag)
        runs = [self.run_one(sd) for sd in seeds]
        self._runs7 = list(zip(seeds, runs))
        lines, keys = [], []
        for sd, (case, regs, B, plans, seen, err) in self._runs7:
            if plans is None or err is not None:
                continue
            for i in range(len(case.blocks)):
                lines.append(self.model_line(case, regs, B, i))
                keys.append((sd, i, plans.get(i, [])))
        got = C.run_driver("ir", lines)
        dis, samples = [], []
        kinds = {"A": 0, "S": 0, "F": 0, "P": 0}
        for sd, (case, regs, B, plans, seen, err) in self._runs7:
            for r in regs:
                kinds[r[0]] += 1
        for (sd, i, impl), g in zip(keys, got):
            want = " ".join(f"{o}:{rid}" for o, rid in impl)
            if g.strip() != want.strip():
                dis.append({"seed": sd, "block": i, "implementation": want, "model": g})
            elif impl and len(samples) < 4:
                samples.append({"seed": sd, "block": i, "plan": want})
        return dict(evaluations=len(lines), distinct_nontrivial=len({l for l, k in zip(lines, keys) if k[2]}), samples=samples, disagreements=dis[:20],
                    dist={"cases": len(runs), "registrations_by_scope": kinds, "register_errors": sum(1 for _, r in self._runs7 if r[3] is None),
                          "apply_errors": sum(1 for _, r in self._runs7 if r[5] is not None and r[3] is not None)})

    # ---- histories: a function inserted in the same context; a second context over the rewritten blocks
    def history(self, seed):
        """Two clauses that need more than one registration round.  (1) A context that also inserts a function: the scopes designate
        blocks of the module as it was handed over, so no patch of a scope registration runs for a block of the new function ("and in
        no other block").  (2) A second RewritingContext over the same block objects after the first one changed how blocks end (a
        conditional jump appended to a block that fell through; a label in front of a `ret`, which moves the `ret` into a block of its
        own): EXIT is in front of the terminator the block has NOW, read off the bytes with the vocabulary's own encodings."""
        import random
        import gtirb
        import gtirb_functions
        import gtirb_rewriting
        from gtirb_rewriting import AllBlocksScope, BlockPosition, SingleBlockScope
        rnd = random.Random(seed ^ 0x5a5a)
        case = irgen.Case(rnd, with_aux=False, with_cfi=False, mods="ins", max_mods=0, with_scope=False)
        B = irgen.build(case)
        code = [i for i, x in enumerate(case.blocks) if x["kind"] == "c"]
        ctx = gtirb_rewriting.RewritingContext(B.m, B.fobjs)
        ran = []

        def marker(tag, text="nop"):
            @gtirb_rewriting.patch_constraints()
            def patch(c):
                ran.append((tag, c.block, c.offset))
                return text
            return gtirb_rewriting.Patch.from_function(patch)

        @gtirb_rewriting.patch_constraints()
        def body(c):
            return "nop\njne .Lnf\nnop\n.Lnf:\nret"
        with_fn = rnd.random() < 0.5
        if with_fn:
            ctx.register_insert_function("newfn", gtirb_rewriting.Patch.from_function(body))
        pos1 = rnd.choice([BlockPosition.ENTRY, BlockPosition.EXIT, BlockPosition.ANYWHERE])
        ctx.register_insert(AllBlocksScope(pos1), marker("all"))
        # patches that change how a block ends
        for i in code:
            x = case.blocks[i]
            k = rnd.random()
            if k < 0.35 and x["ins"][-1][0] not in irgen.TERMINATORS:
                ctx.insert_at(B.gbs[i], case.size(i), marker("end", f"jne L{rnd.choice(code)}"))
            elif k < 0.6 and x["ins"][-1][0] == "ret" and len(x["ins"]) > 1:
                ctx.insert_at(B.gbs[i], case.bounds(i)[-2], marker("lab", "nop\n.Lhh:"))
        originals = list(B.gbs)
        try:
            ctx.apply()
        except Exception as e:   # noqa
            return None
        for tag, blk, off in ran:
            if tag == "all" and not any(blk is g for g in originals):
                return f"a context that inserts a function: the patch of an AllBlocksScope registration ran for a block that is not one of the module's blocks (size {blk.size}, offset {off})"
        n_all = sum(1 for tag, blk, off in ran if tag == "all")
        if n_all != len(code):
            return f"AllBlocksScope registration ran {n_all} times, the module had {len(code)} code blocks"
        # second context over the rewritten module
        m = B.m
        blocks = [b for b in m.byte_blocks if isinstance(b, gtirb.CodeBlock) and b.size]
        ctx2 = gtirb_rewriting.RewritingContext(m, gtirb_functions.Function.build_functions(m))
        ran.clear()
        for b in blocks:
            ctx2.register_insert(SingleBlockScope(b, BlockPosition.EXIT), marker(id(b)))
        want = {}
        encs = sorted(irgen.ENC.items(), key=lambda kv: -len(kv[1]))
        for b in blocks:
            data = bytes(b.byte_interval.contents[b.offset:b.offset + b.size])
            o, last = 0, None
            while o < len(data):
                hit = None
                for k, e in encs:
                    oplen = {"jmp": 1, "jcc": 2, "call": 1}.get(k)
                    if (data[o:o + oplen] == e[:oplen] and o + len(e) <= len(data)) if oplen else data[o:o + len(e)] == e:
                        hit = (k, len(e))
                        break
                if hit is None:
                    last = None
                    break
                last = (hit[0], o)
                o += hit[1]
            if last is None:
                continue            # bytes outside the vocabulary (the inserted function's own code is decoded too: it is inside)
            want[id(b)] = last[1] if last[0] in irgen.TERMINATORS else b.size
        try:
            ctx2.apply()
        except Exception as e:   # noqa
            return None
        for tag, blk, off in ran:
            if tag in want and off != want[tag]:
                return (f"second context over a rewritten module: EXIT of a block of {blk.size + 0} bytes resolved to offset {off}, its terminator "
                        f"(by its bytes) starts at {want[tag]}")
        return None

    # ---- the specification, written independently of the model
    def oracle(self, tier, ctx, boosted):
        runs = getattr(self, "_runs7", None)
        if runs is None or boosted:
            seeds = self.seeds("boost" if boosted else tier, self.tag + "-boost")
            runs = (runs or []) + [(sd, self.run_one(sd)) for sd in seeds]
        bads = []
        for sd, (case, regs, B, plans, seen, err) in runs:
            if plans is None or err is not None:
                # registrations of the generated vocabulary (scopes over the module's own blocks and functions, `nop` patches) are
                # never refused: an exception here is a registration that did not land
                bads.append(dict(what=f"{'registering' if plans is None else 'apply() with'} insertions of the supported vocabulary raises {err}",
                                 input={"seed": sd, "regs": repr(regs)}, finding=None))
                continue
            v = self.check_case(case, regs, B, plans, seen)
            if v:
                bads.append(dict(what=v, input={"seed": sd, "regs": repr(regs)}, finding=None))
        nh = 0
        for sd, _ in runs:
            if sd % 2 == 0 or boosted:
                nh += 1
                v = self.history(sd)
                if v:
                    bads.append(dict(what=v, input={"seed": sd, "history": True}, finding=None))
        self._nh = nh
        return dict(evaluations=len(runs), violations=bads[:10], samples=[{"oracle": self.oracle_text}])

    def replay(self, path):
        import json
        d = json.load(open(path))
        print(json.dumps(d, indent=1)[:3000])
        v = d.get("violation")
        if v and "seed" in v.get("input", {}):
            sd = v["input"]["seed"]
            if v["input"].get("history"):
                got = self.history(sd)
            else:
                case, regs, B, plans, seen, err = self.run_one(sd)
                got = None if plans is None or err is not None else self.check_case(case, regs, B, plans, seen)
            print("replayed:", got or "no violation on the current tree")
            return 1 if got else 0
        return 0

    def check_case(self, case, regs, B, plans, seen):
        fname = [f.get_name() for f in B.fobjs]

        def fmatch(fi, ps):
            if ps is None:
                return None
            f = B.fobjs[fi]
            for p in ps:
                if p[0] == "L" and fname[fi] == p[1]:
                    return True
                if p[0] == "M" and fname[fi] == "main":
                    return True
                if p[0] == "E" and case.entry is not None and any(B.gbs[case.entry] is e for e in f.get_entry_blocks()):
                    return True
                if p[0] == "R" and re.fullmatch(p[1], fname[fi]):
                    return True
            return False
        for i, x in enumerate(case.blocks):
            fi = x.get("func")
            want = []
            for rid, r in enumerate(regs):
                if r[0] == "A":
                    ok = x["kind"] == "c" and not (fi is not None and r[2] is not None and fmatch(fi, r[2]))
                    pos = r[1]
                elif r[0] == "S":
                    ok, pos = r[1] == i, r[2]
                elif r[0] == "F":
                    ok = fi is not None and (r[3] is None or fmatch(fi, r[3]))
                    if ok:
                        f = B.fobjs[fi]
                        members = f.get_entry_blocks() if r[1] == "E" else f.get_exit_blocks()
                        ok = any(B.gbs[i] is e for e in members)
                    pos = r[2]
                else:
                    ok, pos = r[1] == i, None
                if not ok:
                    continue
                if r[0] == "P":
                    off = r[2]
                elif pos == "E":
                    off = 0
                elif pos == "X":
                    sizes = [len(irgen.ENC[k]) for k, _ in x["ins"]]
                    off = sum(sizes[:-1]) if x["ins"][-1][0] in irgen.TERMINATORS else sum(sizes)
                else:
                    off = None        # ANYWHERE: any boundary not behind the terminator
                want.append((rid, off))
            got = plans.get(i, [])
            if sorted(rid for rid, _ in want) != sorted(rid for _, rid in got):
                return f"block {i}: registrations applied {sorted(rid for _, rid in got)}, designated {sorted(rid for rid, _ in want)}"
            offs = dict(want)
            bounds = case.bounds(i)
            last_ok = bounds[-2] if x["kind"] == "c" and x["ins"][-1][0] in irgen.TERMINATORS else bounds[-1]
            for o, rid in got:
                if offs[rid] is not None and o != offs[rid]:
                    return f"block {i}: registration {rid} placed at {o}, asked for {offs[rid]}"
                if offs[rid] is None and not (o in bounds and o <= last_ok):
                    return f"block {i}: ANYWHERE registration {rid} placed at {o}"
            if got != sorted(got):
                return f"block {i}: order {got} is not (offset, registration)"
            # the InsertionContext of every application
            for o, rid in got:
                hits = [c for c in seen if c[0] == rid and c[1] == i]
                if len(hits) != 1:
                    return f"block {i}: patch of registration {rid} ran {len(hits)} times"
                if hits[0][2] != o or hits[0][3] != fi:
                    return f"block {i}: InsertionContext of registration {rid} says offset {hits[0][2]} function {hits[0][3]}, expected {o} / {fi}"
        extra = [c for c in seen if not any(rid == c[0] for _, rid in plans.get(c[1], []))]
        if extra:
            return f"patch callbacks ran outside the plan: {extra[:3]}"
        return None


PROP = C07()
