"""The assembler on every target of the property (C12 / C13): X64 ELF in Intel syntax, X64 PE, IA32 PE (AT&T and Intel), IA32 ELF, AArch64 ELF,
MIPS32 ELF.  Texts are generated from per-target vocabularies together with what each line means (kind, size, mnemonic, operand
position, attributes, addend), so that the oracle reads the property's text against the result without parsing assembly.  The events
the streamer receives are logged in the model's vocabulary (as in harness/asmgen.py, extended by the target-specific expression
wrappers and by section flags of COFF sections)."""
import gtirb

from harness import asmgen
from harness.asmgen import MODULE_SYMS, NAMES, NID, SECTS

A = gtirb.SymbolicExpression.Attribute


def T(line, kind, size, mn=None, opoff=None, opsize=None, attrs=(), addend=0, cond=False, judge=True, csize=None):
    """one vocabulary entry: the text (with {t} for a symbol), what it is, its size in bytes (csize: the part that is the instruction itself
    when the assembler appends a delay-slot nop), the mnemonic an independent disassembler shows, the offset and size of its symbolic
    operand, the attributes and addend the operand must get; judge=False: compared with the model only"""
    return dict(line=line, kind=kind, size=size, mn=mn, opoff=opoff, opsize=opsize, attrs=set(attrs), addend=addend, cond=cond, judge=judge,
                csize=size if csize is None else csize)


X86_DATA = [T(".byte 1", "data", 1), T(".byte 1, 2, 3", "data", 3), T(".long 7", "data", 4), T(".zero 3", "data", 3), T('.ascii "ab"', "data", 2),
            T('.string "hi"', "data", 3), T(".quad {t}", "dsym", 8, opoff=0, opsize=8), T(".long {t}+8", "dsym", 4, opoff=0, opsize=4, addend=8)]
X86_FLOW = [T("nop", "nop", 1, "nop"), T("ret", "ret", 1, "ret"), T("jmp {t}", "jmp", 2, "jmp", 1, 1), T("jne {t}", "jcc", 2, "jne", 1, 1, cond=True),
            T("call {t}", "call", 5, "call", 1, 4)]
VOCAB = {
    "x64i": X86_FLOW + X86_DATA + [
        T("jmp rax", "ijmp", 2, "jmp"), T("call rax", "icall", 2, "call"),
        T("lea rax, [rip+{t}]", "ref", 7, "lea", 3, 4), T("mov eax, dword ptr [rip+{t}+4]", "ref", 6, "mov", 2, 4, addend=4),
        T("mov rax, qword ptr [rip+{t}@GOTPCREL]", "ref", 7, "mov", 3, 4, attrs=("GOT", "PCREL")), T("mov dword ptr [rip+{t}], 1", "ref", 10, "mov", 2, 4),
        T("call qword ptr [rip+{t}@GOTPCREL]", "icall", 6, "call", 2, 4, attrs=("GOT", "PCREL")),
        T("call qword ptr [rip+{t}]", "icall", 6, "call", 2, 4), T("jmp qword ptr [rip+{t}]", "ijmp", 6, "jmp", 2, 4),
        # every relocation suffix the assembler maps to attributes on ELF: the attribute(s) the suffix names
        T("call {t}@PLT", "call", 5, "call", 1, 4, attrs=("PLT",)),
        T("mov rax, qword ptr [rip+{t}@GOTTPOFF]", "ref", 7, "mov", 3, 4, attrs=("GOT", "TPOFF")), T("lea rdi, [rip+{t}@TLSGD]", "ref", 7, "lea", 3, 4, attrs=("TLSGD",)),
        T("lea rax, [rax+{t}@DTPOFF]", "ref", 7, "lea", 3, 4, attrs=("DTPOFF",)), T("mov rax, qword ptr fs:[{t}@TPOFF]", "ref", 9, "mov", 5, 4, attrs=("TPOFF",)),
        T("lea rax, [rax+{t}@NTPOFF]", "ref", 7, "lea", 3, 4, attrs=("NTPOFF",)), T("mov rax, qword ptr [rax+{t}@GOT]", "ref", 7, "mov", 3, 4, attrs=("GOT",))],
    # IA32 ELF (AT&T): the GOT- and TLS-relative operands of position-independent 32-bit code
    "ia32elf": X86_FLOW + X86_DATA[:6] + [
        T(".long {t}", "dsym", 4, opoff=0, opsize=4), T("jmp *%eax", "ijmp", 2, "jmp"), T("call *%eax", "icall", 2, "call"),
        T("mov {t}+4, %eax", "ref", 5, "mov", 1, 4, addend=4), T("call {t}@PLT", "call", 5, "call", 1, 4, attrs=("PLT",)),
        T("movl {t}@GOT(%ebx), %eax", "ref", 6, "mov", 2, 4, attrs=("GOT",)), T("movl {t}@GOTNTPOFF(%ebx), %eax", "ref", 6, "mov", 2, 4, attrs=("GOT", "NTPOFF")),
        T("movl {t}@GOTTPOFF(%ebx), %eax", "ref", 6, "mov", 2, 4, attrs=("GOT", "TPOFF")), T("leal {t}@NTPOFF(%eax), %edx", "ref", 6, "lea", 2, 4, attrs=("NTPOFF",)),
        T("leal {t}@TLSGD(,%ebx,1), %eax", "ref", 7, "lea", 3, 4, attrs=("TLSGD",)), T("leal {t}@DTPOFF(%eax), %edx", "ref", 6, "lea", 2, 4, attrs=("DTPOFF",)),
        T("movl {t}@TPOFF(%eax), %edx", "ref", 6, "mov", 2, 4, attrs=("TPOFF",)), T("movl %gs:{t}@NTPOFF, %eax", "ref", 6, "mov", 2, 4, attrs=("NTPOFF",))],
    "x64pe": X86_FLOW + X86_DATA + [
        T("jmp *%rax", "ijmp", 2, "jmp"), T("call *%rax", "icall", 2, "call"),
        T("lea {t}(%rip), %rax", "ref", 7, "lea", 3, 4), T("mov {t}+4(%rip), %eax", "ref", 6, "mov", 2, 4, addend=4), T("movl $1, {t}(%rip)", "ref", 10, "mov", 2, 4)],
    "ia32": X86_FLOW + X86_DATA[:6] + [
        T(".long {t}", "dsym", 4, opoff=0, opsize=4), T(".long {t}+8", "dsym", 4, opoff=0, opsize=4, addend=8),
        T("jmp *%eax", "ijmp", 2, "jmp"), T("call *%eax", "icall", 2, "call"),
        T("lea {t}, %eax", "ref", 6, "lea", 2, 4), T("mov {t}+4, %eax", "ref", 5, "mov", 1, 4, addend=4), T("movl $1, {t}", "ref", 10, "mov", 2, 4)],
    "ia32i": X86_FLOW + X86_DATA[:6] + [
        T(".long {t}", "dsym", 4, opoff=0, opsize=4),
        T("jmp eax", "ijmp", 2, "jmp"), T("call eax", "icall", 2, "call"),
        T("mov eax, dword ptr [{t}+4]", "ref", 5, "mov", 1, 4, addend=4), T("mov eax, offset {t}", "ref", 5, "mov", 1, 4)],
    # AArch64: the size recorded for an operand is not judged (the fixup's bit width / 8; what a consumer expects there is not
    # something this sandbox can confirm)
    "arm64": [T("nop", "nop", 4, "nop"), T("ret", "ret", 4, "ret"), T("b {t}", "jmp", 4, "b", 0), T("b.ne {t}", "jcc", 4, "b.ne", 0, cond=True),
              T("cbz x0, {t}", "jcc", 4, "cbz", 0, cond=True), T("bl {t}", "call", 4, "bl", 0), T("br x0", "ijmp", 4, "br"), T("blr x0", "icall", 4, "blr"),
              T("adrp x0, {t}", "ref", 4, "adrp", 0), T("add x0, x0, :lo12:{t}", "ref", 4, "add", 0, attrs=("LO12",)),
              T("adrp x0, :got:{t}", "ref", 4, "adrp", 0, attrs=("GOT",)), T("ldr x0, [x0, :got_lo12:{t}]", "ref", 4, "ldr", 0, attrs=("GOT", "LO12")),
              T("ldr x0, [x0, :lo12:{t}]", "ref", 4, "ldr", 0, attrs=("LO12",)), T("adr x0, {t}", "ref", 4, "adr", 0),
              T("add x0, x0, :lo12:{t}+8", "ref", 4, "add", 0, attrs=("LO12",), addend=8), T("adrp x0, {t}+8", "ref", 4, "adrp", 0, addend=8),
              T("ldr x0, [x0, :got_lo12:{t}]", "ref", 4, "ldr", 0, attrs=("GOT", "LO12")),
              # pc-relative literal loads and addresses with an addend (a literal pool): the addend belongs to the operand
              T("ldr x0, {t}+16", "ref", 4, "ldr", 0, addend=16), T("adr x0, {t}+8", "ref", 4, "adr", 0, addend=8), T("ldr x1, {t}", "ref", 4, "ldr", 0),
              T(".word 7", "data", 4), T(".byte 1, 2, 3, 4", "data", 4), T(".xword {t}", "dsym", 8, opoff=0, opsize=8), T(".word {t}+8", "dsym", 4, opoff=0, opsize=4, addend=8),
              T('.ascii "abcd"', "data", 4)],
    # MIPS32 (.set reorder: the assembler fills every delay slot with a nop, which starts the next block).  `b` is the pseudo
    # instruction beq $zero,$zero and `jr $ra` the return idiom; LLVM describes them as a conditional branch and an indirect jump:
    # what the edges of those two should be is not judged here.
    "mips": [T("nop", "nop", 4, "nop"), T("j {t}", "jmp", 8, "j", 0, csize=4), T("jal {t}", "call", 8, "jal", 0, csize=4),
             T("bne $t0, $t1, {t}", "jcc", 8, "bne", 0, cond=True, csize=4), T("jr $t9", "ijmp", 8, "jr", csize=4), T("jalr $t9", "icall", 8, "jalr", csize=4),
             T("b {t}", "jcc", 8, "b", 0, cond=True, judge=False, csize=4), T("jr $ra", "ijmp", 8, "jr", judge=False, csize=4),
             T("lui $t0, %hi({t})", "ref", 4, "lui", 0, attrs=("HI",)), T("addiu $t0, $t0, %lo({t})", "ref", 4, "addiu", 0, attrs=("LO",)),
             T("lw $t9, %got({t})($gp)", "ref", 4, "lw", 0, attrs=("GOT",)), T("lw $t9, %call16({t})($gp)", "ref", 4, "lw", 0, attrs=("GOT",)),
             T("lui $t0, %hi({t}+8)", "ref", 4, "lui", 0, attrs=("HI",), addend=8), T("addiu $t0, $t0, %lo({t}+8)", "ref", 4, "addiu", 0, attrs=("LO",), addend=8),
             T(".word 7", "data", 4), T(".word {t}", "dsym", 4, opoff=0, opsize=4), T(".4byte {t}+8", "dsym", 4, opoff=0, opsize=4, addend=8),
             T('.ascii "abcd"', "data", 4)],
}
# IA32 PE with both syntaxes in one text: every assemble() call takes the syntax as an argument, so a text whose lines change syntax is
# handed over in one call per run of lines of one syntax (the current section is restated where the syntax changes, as a later call
# would otherwise begin in .text: C13's finding)
VOCAB["ia32mix"] = [dict(v, intel=False) for v in VOCAB["ia32"]] + [dict(v, intel=True) for v in VOCAB["ia32i"]]
TARGETS = {
    "x64i": dict(isa="X64", fmt="ELF", intel=True, x86=True, labels=["foo", "bar", ".Ltmp", ".Lx"]),
    "x64pe": dict(isa="X64", fmt="PE", intel=False, x86=True, labels=["foo", "bar", ".Ltmp", ".Lx"]),
    "ia32": dict(isa="IA32", fmt="PE", intel=False, x86=True, labels=["foo", "bar", "Ltmp", "Lx"]),
    "ia32i": dict(isa="IA32", fmt="PE", intel=True, x86=True, labels=["foo", "bar", "Ltmp", "Lx"]),
    # (the library has no ABI for IA32 ELF: the assembler takes the target, a RewritingContext does not)
    "ia32elf": dict(isa="IA32", fmt="ELF", intel=False, x86=True, labels=["foo", "bar", ".Ltmp", ".Lx"], abi=False),
    "ia32mix": dict(isa="IA32", fmt="PE", intel=None, x86=True, labels=["foo", "bar", "Ltmp", "Lx"]),
    "arm64": dict(isa="ARM64", fmt="ELF", intel=False, x86=False, labels=["foo", "bar", ".Ltmp", ".Lx"]),
    "mips": dict(isa="MIPS32", fmt="ELF", intel=False, x86=False, labels=["foo", "bar", "$Ltmp", "$Lx"]),
}
# the model's name identities: asmgen.NAMES = foo, bar, .Ltmp, .Lx, ext, extp, dat, nil, und1, und2; per target the two temporary
# labels are spelt with the target's prefix
def name_id(target, name):
    labs = TARGETS[target]["labels"]
    return labs.index(name) if name in labs else NID.get(name, 99)


def sections_of(target):
    """(switch line, name, executable) that the target's object format offers"""
    if TARGETS[target]["fmt"] == "ELF":
        return [(".text", ".text", True), (".data", ".data", False), ('.section .rodata,"a",@progbits', ".rodata", False),
                ('.section .mytext,"ax",@progbits', ".mytext", True)]
    return [(".text", ".text", True), (".data", ".data", False)]


def gen_items(rnd, target, allow_undef):
    """a list of items: dict(line=..., kind=..., ...) ; kind label / sect / align as well"""
    tg = TARGETS[target]
    labs = tg["labels"]
    will_define = [l for l in labs if rnd.random() < 0.5]
    pending = list(will_define)
    defined, items = [], []
    for _ in range(rnd.randint(1, 9)):
        k = rnd.random()
        targets = will_define + ["ext", "extp"] + (["und1", "und2"] if rnd.random() < (0.4 if allow_undef else 0.04) else []) + \
            ([rnd.choice(labs)] if rnd.random() < 0.03 else []) + (["dat", "nil"] if rnd.random() < 0.04 else [])
        t = rnd.choice(targets)
        if k < 0.17:
            l = pending.pop(0) if pending else rnd.choice(labs)
            if l not in defined or rnd.random() < 0.03:
                defined.append(l)
                items.append(dict(line=f"{l}:", kind="label", name=l, size=0))
        elif k < 0.90:
            v = dict(rnd.choice(VOCAB[target]))
            v["sym"] = t if "{t}" in v["line"] else None
            v["line"] = v["line"].replace("{t}", t)
            items.append(v)
        elif k < 0.94:
            a = rnd.choice([4, 8])
            items.append(dict(line=f".p2align {2 if a == 4 else 3}", kind="align", size=None, align=a))
        else:
            line, name, ex = rnd.choice(sections_of(target))
            items.append(dict(line=line, kind="sect", name=name, size=0))
    for l in pending:
        items.insert(rnd.randint(0, len(items)), dict(line=f"{l}:", kind="label", name=l, size=0))
    if tg["intel"] is None:
        # restate the current section in front of the first line of another syntax
        out, cur_syntax, cur_sect = [], None, dict(line=".text", kind="sect", name=".text", size=0)
        for it in items:
            if it["kind"] == "sect":
                cur_sect = it
            syn = it.get("intel")
            if syn is not None:
                if cur_syntax is not None and syn != cur_syntax:
                    out.append(dict(cur_sect, restated=True))
                cur_syntax = syn
            out.append(it)
        items = out
    return items


def calls_of(tg, items, cut):
    """[(items of one assemble() call, Intel syntax?)]: the whole text, or the two parts of a cut; for a text of mixed syntax one call per
    run of lines of one syntax (a restated section opens the run it was written for)"""
    parts = [items] if not cut else [items[:cut], items[cut:]]
    if tg["intel"] is not None:
        return [(p, tg["intel"]) for p in parts]
    out = []
    for p in parts:
        run, cur = [], None
        for it in p:
            syn = it.get("intel")
            if it.get("restated") and run:
                out.append((run, bool(cur)))
                run, cur = [], None
            elif syn is not None and cur is not None and syn != cur:
                out.append((run, bool(cur)))
                run = []
            if syn is not None:
                cur = syn
            run.append(it)
        if run:
            out.append((run, bool(cur)))
    return out


def make_module(target, pie):
    import sys
    sys.path.insert(0, "/repo/tests")
    from gtirb_test_helpers import add_code_block, add_data_block, add_proxy_block, add_symbol, add_text_section, create_test_module
    tg = TARGETS[target]
    ir, m = create_test_module(getattr(gtirb.Module.FileFormat, tg["fmt"]), getattr(gtirb.Module.ISA, tg["isa"]), binary_type=["DYN"] if pie else ["EXEC"])
    if tg["isa"] == "MIPS32":
        m.byte_order = gtirb.Module.ByteOrder.Big
    _, bi = add_text_section(m, address=0x1000)
    cb = add_code_block(bi, b"\x90" * 4)
    db = add_data_block(bi, b"\x00")
    pb = add_proxy_block(m)
    refs = {"code": cb, "proxy": pb, "data": db, "none": None}
    syms = {}
    for name, kind in MODULE_SYMS.items():
        syms[name] = add_symbol(m, name, refs[kind]) if refs[kind] is not None else add_symbol(m, name)
    return m, syms


A64_KINDS = {"": 0, ":got:": 1, ":lo12:": 2, ":got_lo12:": 3}
MIPS_KINDS = {"GOT": 1, "HI": 2, "LO": 3, "PCREL_HI16": 4, "PCREL_LO16": 5, "GOT_CALL": 6}


def is_indirect(isa, data, desc):
    """indirect transfers, read off the encoding (not through the library's instruction-name table)"""
    if not (desc.is_call or desc.is_branch):
        return False
    if isa in ("X64", "IA32"):
        k = 0
        while k < len(data) and ((isa == "X64" and 0x40 <= data[k] <= 0x4F) or data[k] in (0x66, 0x3E, 0x2E, 0xF2, 0xF3)):
            k += 1
        return k < len(data) and data[k] == 0xFF
    if isa == "ARM64":
        w = int.from_bytes(data[:4], "little")
        return (w & 0xFE000000) == 0xD6000000          # unconditional branch (register): br, blr, ret, ...
    if isa == "MIPS32":
        w = int.from_bytes(data[:4], "big")
        return (w >> 26) == 0 and (w & 0x3F) in (8, 9)  # SPECIAL jr / jalr
    return False


class Logger(asmgen.Logger):
    """asmgen.Logger for every target: names by the target's label spelling, target-specific expression wrappers, COFF sections"""

    def __init__(self, target):
        super().__init__()
        self.target = target

    def nid(self, name):
        return name_id(self.target, name)

    def mcx(self, e):
        import mcasm
        mc = mcasm.mc
        if isinstance(e, mc.SymbolRefExpr):
            vk = e.variant_kind
            vid = 0 if vk == mc.SymbolRefExpr.VariantKind.None_ else self.variants.setdefault(vk, len(self.variants) + 1)
            return f"S {self.nid(e.symbol.name)} {vid}"
        if isinstance(e, mc.ConstantExpr):
            return f"K {e.value}"
        if isinstance(e, mc.BinaryExpr) and e.opcode == mc.BinaryExpr.Opcode.Add:
            return f"+ {self.mcx(e.lhs)} {self.mcx(e.rhs)}"
        if isinstance(e, mc.BinaryExpr) and e.opcode == mc.BinaryExpr.Opcode.Sub:
            return f"- {self.mcx(e.lhs)} {self.mcx(e.rhs)}"
        if isinstance(e, mc.TargetExprAArch64):
            return f"T 0 {A64_KINDS.get(e.variant_kind_name, 9)} {self.mcx(e.sub_expr)}"
        if isinstance(e, mc.TargetExprMips):
            return f"T 1 {MIPS_KINDS.get(e.variant_kind.name, 9)} {self.mcx(e.sub_expr)}"
        return "O"

    def install(self):
        import gtirb_rewriting.assembler.assembler as As
        import mcasm
        log = self
        isa = TARGETS[self.target]["isa"]
        self.saved = []

        def patch(cls, name, fn):
            orig = getattr(cls, name)
            self.saved.append((cls, name, orig))
            setattr(cls, name, fn(orig))
        patch(As._SymbolCreator, "_precreate_label", lambda orig: lambda self, ps, label: (log.events.append(f"pre {log.nid(label.name)} {1 if label.is_temporary else 0}"), orig(self, ps, label))[1])

        def sect(orig):
            def f(self, state, section, subsection):
                if isinstance(section, mcasm.mc.SectionELF):
                    ex = bool(section.flags & 0x4)                       # SHF_EXECINSTR
                else:
                    ex = bool(section.characteristics & 0x20000000)      # IMAGE_SCN_MEM_EXECUTE
                log.events.append(f"sect {SECTS.get(section.name, (9, False))[0]} {1 if ex else 0}")
                return orig(self, state, section, subsection)
            return f
        patch(As._Streamer, "change_section", sect)
        patch(As._Streamer, "emit_label", lambda orig: lambda self, state, symbol, loc: (log.events.append(f"label {log.nid(symbol.name)}"), orig(self, state, symbol, loc))[1])

        def insn(orig):
            def f(self, state, inst, data, fixups):
                d = inst.desc
                indirect = is_indirect(isa, data, d)
                fx = " ".join(f"{x.offset} {x.kind_info.bit_size // 8} {1 if x.kind_info.is_pc_rel else 0} {log.mcx(x.value)}" for x in fixups)
                log.events.append(f"insn {len(data)} {int(d.is_return)} {int(d.is_call)} {int(d.is_branch)} {int(d.is_conditional_branch)} {int(bool(indirect))} {len(fixups)} {fx}")
                return orig(self, state, inst, data, fixups)
            return f
        patch(As._Streamer, "emit_instruction", insn)

        def ebytes(orig):
            def f(self, state, data):
                if self._prevent_print_as_string_count:
                    log.events.append(f"int {len(data)}")
                else:
                    log.events.append(f"str {len(data)} {1 if data == bytes(1) else 0}")
                return orig(self, state, data)
            return f
        patch(As._Streamer, "emit_bytes", ebytes)
        patch(As._Streamer, "emit_value_impl", lambda orig: lambda self, state, value, size, loc: (None if getattr(log, "nested", False) else log.events.append(f"value {size} {log.mcx(value)}"), orig(self, state, value, size, loc))[1])

        def leb(orig):
            def f(self, state, value):
                log.events.append(f"leb {log.mcx(value)}")
                log.nested = True
                try:
                    return orig(self, state, value)
                finally:
                    log.nested = False
            return f
        patch(As._Streamer, "emit_uleb128_value", leb)
        patch(As._Streamer, "emit_sleb128_value", leb)
        patch(As._Streamer, "emit_value_fill", lambda orig: lambda self, state, num_bytes, fill_value, loc: (log.events.append(f"fill {getattr(num_bytes, 'value', 0)}"), orig(self, state, num_bytes, fill_value, loc))[1])
        patch(As._Streamer, "_emit_alignment", lambda orig: lambda self, ps, alignment, value, value_size, max_bytes: (log.events.append(f"align {alignment}"), orig(self, ps, alignment, value, value_size, max_bytes))[1])


def dump_result(res, module_syms, target, suffix):
    """asmgen.dump_result with the target's label names"""
    labs = TARGETS[target]["labels"]
    pos = {}
    for name, sec in res.sections.items():
        for k, b in enumerate(sec.blocks):
            pos[id(b)] = f"{SECTS.get(name, (9, False))[0]}.{k}"
    modsym = {id(s): n for n, s in module_syms.items()}
    names = labs + NAMES[4:]

    def base(n):
        for l in names:
            if n == l or n == l + suffix:
                return l
        return None

    def rname(r):
        if r is None:
            return "none"
        if isinstance(r, gtirb.ProxyBlock):
            return "proxy"
        return pos.get(id(r), "data" if isinstance(r, gtirb.DataBlock) else "?")

    def sname(s):
        if id(s) in modsym:
            return f"m{NID[modsym[id(s)]]}"
        b = base(s.name)
        return "?" if b is None else f"l{name_id(target, b)}"
    out = []
    for name, sec in res.sections.items():
        blocks = ",".join(("D" if isinstance(b, gtirb.DataBlock) else "C") + f"{b.offset}+{b.size}" for b in sec.blocks)
        sx = []
        for p, e in sec.symbolic_expressions.items():
            if isinstance(e, gtirb.SymAddrConst):
                sx.append(f"{p}:c{sname(e.symbol)}+{e.offset}" + "{" + ",".join(sorted(str(asmgen.ATTR(a)) for a in e.attributes)) + "}")
            else:
                sx.append(f"{p}:a{sname(e.symbol1)}-{sname(e.symbol2)}")
        out.append(f"sect {SECTS.get(name, (9, False))[0]} len {len(sec.data)} [{blocks}] X{{" + ";".join(sorted(sx)) + "} Z{" +
                   ";".join(sorted(f"{p}:{z}" for p, z in sec.symbolic_expression_sizes.items())) + "} A{" +
                   ";".join(sorted(f"{pos.get(id(b), '?')}:{a}" for b, a in sec.alignment.items())) + "}")
    syms = sorted(f"{name_id(target, base(s.name)) if base(s.name) is not None else 99}@{rname(s.referent)}" + ("$" if s.at_end else "") for s in res.symbols)
    out.append("syms " + ",".join(syms))
    edges = sorted(f"{pos.get(id(e.source), '?')}>{rname(e.target)}:{e.label.type.value}" + ("c" if e.label.conditional else "") + ("d" if e.label.direct else "i") for e in res.cfg)
    out.append("edges " + ",".join(edges))
    out.append(f"proxies {len(res.proxies)}")
    return " | ".join(out)


def run(target, items, pie, allow_undef, unreachable=False, suffix="_sfx1", cut=None):
    """returns (model line, implementation dump or error, Result or None, module symbols); cut: the text is fed to assemble() in two
    chunks, items[:cut] and items[cut:]"""
    import gtirb_rewriting.assembler.assembler as As
    tg = TARGETS[target]
    m, msyms = make_module(target, pie)
    log = Logger(target)
    log.install()
    res, err = None, None
    try:
        asm = As.Assembler(m, temp_symbol_suffix=suffix, allow_undef_symbols=allow_undef, trivially_unreachable=unreachable)
        for part, intel in calls_of(tg, items, cut):
            log.events.append("chunk")
            asm.assemble("\n".join(it["line"] for it in part) + "\n", As.X86Syntax.INTEL if intel else As.X86Syntax.ATT)
        res = asm.finalize()
    except Exception as e:   # noqa
        err = type(e).__name__
    finally:
        log.remove()
    ref = {"code": "B 990", "proxy": "P 991", "data": "D", "none": "N"}
    parts = ["asm", str(len(MODULE_SYMS))] + [f"{NID[n]} {ref[k]}" for n, k in MODULE_SYMS.items()]
    # PLT inference for calls and jumps to proxies: x86 ELF position-independent targets only (the harness's own reading of the target)
    parts += [str(int(pie and tg["x86"] and tg["fmt"] == "ELF")), str(int(allow_undef)), str(int(unreachable))]
    vs = []
    for vk, vid in log.variants.items():
        attrs = As._Streamer._ELF_VARIANT_KINDS.get(vk)
        vs.append(f"{vid} {0 if attrs is None else 1} {0 if attrs is None else len(attrs)} " + ("" if attrs is None else " ".join(str(asmgen.ATTR(a)) for a in sorted(attrs, key=lambda a: a.value))))
    parts.append(str(len(vs)) + " " + " ".join(vs))
    parts.append(str(len(log.events)) + " " + " ".join(log.events))
    out = ("err " + err) if err else dump_result(res, msyms, target, suffix)
    return " ".join(parts), out, res, msyms


def fresh_proxies(res, msyms):
    """a return goes to a fresh proxy, an indirect transfer to a fresh proxy: such a proxy is not a symbol's referent, has exactly one
    incoming edge and is one of the result's proxies"""
    named = {id(s.referent) for s in list(res.symbols) + list(msyms.values()) if isinstance(s.referent, gtirb.ProxyBlock)}
    for e in res.cfg:
        t = e.target
        if isinstance(t, gtirb.ProxyBlock) and id(t) not in named:
            n = sum(1 for _ in res.cfg.in_edges(t))
            if n != 1:
                return f"the proxy that the {e.label.type.name} edge of the block at offset {e.source.offset} leads to has {n} incoming edges: it is shared"
            if not any(t is p for p in res.proxies):
                return f"the proxy of a {e.label.type.name} edge is not among the result's proxies"
    return None


CS = {"X64": ("CS_ARCH_X86", "CS_MODE_64"), "IA32": ("CS_ARCH_X86", "CS_MODE_32"), "ARM64": ("CS_ARCH_ARM64", "CS_MODE_ARM"),
      "MIPS32": ("CS_ARCH_MIPS", "CS_MODE_MIPS32")}


def check(target, items, res, msyms, pie, unreachable=False, suffix="_sfx1"):
    """the property's clauses, read against the items' own description; returns a violation text or None"""
    import capstone
    tg = TARGETS[target]
    arch, mode = CS[tg["isa"]]
    md = capstone.Cs(getattr(capstone, arch), getattr(capstone, mode) + (capstone.CS_MODE_BIG_ENDIAN if tg["isa"] == "MIPS32" else 0))
    # ---- layout: (section, offset) of every item; alignment directives pad the current section
    sect, offs, placed, labels = ".text", {".text": 0}, [], {}
    for it in items:
        if it["kind"] == "sect":
            sect = it["name"]
            offs.setdefault(sect, 0)
        elif it["kind"] == "label":
            labels.setdefault(it["name"], (sect, offs[sect]))
        elif it["kind"] == "align":
            pass            # an alignment directive starts a block with an alignment entry; it adds no bytes to the patch
        else:
            placed.append((sect, offs[sect], it))
            offs[sect] += it["size"]
    for name, sec in res.sections.items():
        pos = 0
        for k, b in enumerate(sec.blocks):
            if b.offset != pos:
                return f"section {name}: block {k} starts at {b.offset}, previous ended at {pos}"
            if b.size == 0 and k != len(sec.blocks) - 1:
                return f"section {name}: empty block {k} is not the last one"
            pos += b.size
        if pos != len(sec.data):
            return f"section {name}: blocks end at {pos}, data has {len(sec.data)} bytes"
        if len(sec.data) != offs.get(name, 0):
            return f"section {name}: {len(sec.data)} bytes, the text asks for {offs.get(name, 0)}"
    # ---- instructions
    for sect, off, it in placed:
        if it.get("mn"):
            data = bytes(res.sections[sect].data[off:off + it["csize"]])
            ins = list(md.disasm(data, 0))
            if len(ins) != 1 or ins[0].mnemonic != it["mn"] or ins[0].size != it["csize"]:
                return f"bytes {data.hex()} at {sect}+{off} do not disassemble to `{it['line']}` ({[i.mnemonic for i in ins]})"
            if it["size"] > it["csize"]:
                rest = bytes(res.sections[sect].data[off + it["csize"]:off + it["size"]])
                if [i.mnemonic for i in md.disasm(rest, 0)] != ["nop"]:
                    return f"`{it['line']}` is not followed by a delay-slot nop ({rest.hex()})"
    # ---- labels
    symname = {s.name: s for s in res.symbols}

    def resolve(name):
        return symname.get(name) or symname.get(name + suffix) or msyms.get(name)
    for l, (sect, off) in labels.items():
        s = symname.get(l) or symname.get(l + suffix)
        if s is None:
            return f"label {l} has no symbol"
        r = s.referent
        if not isinstance(r, gtirb.ByteBlock) or not any(r is b for b in res.sections[sect].blocks):
            return f"label {l} does not refer to a block of {sect}"
        if r.offset + (r.size if s.at_end else 0) != off:
            return f"label {l} designates {sect}+{r.offset + (r.size if s.at_end else 0)}, the text puts it at {off}"
    # ---- control transfers
    for sect, off, it in placed:
        if it["size"] == 0:
            continue
        sec = res.sections[sect]
        blk = next((b for b in sec.blocks if b.offset <= off < b.offset + b.size), None)
        if blk is None:
            return f"no block covers {sect}+{off}"
        if it["kind"] in ("jmp", "jcc", "call", "ret", "ijmp", "icall"):
            if not isinstance(blk, gtirb.CodeBlock):
                return f"`{it['line']}` lies in a data block"
            end = off + it["csize"]
            if blk.offset + blk.size != end:
                return f"`{it['line']}` at {sect}+{off} does not end its block ({blk.offset}+{blk.size})"
            if not it["judge"]:
                continue
            edges = {(e.label.type.name, ("proxy" if isinstance(e.target, gtirb.ProxyBlock) else (e.target.offset if any(e.target is b for b in sec.blocks) else "other")),
                      bool(e.label.conditional), bool(e.label.direct)) for e in res.cfg.out_edges(blk)}
            nxt = next((b for b in sec.blocks if b.offset == end and b is not blk), None)
            want = set()
            if it["kind"] == "ret":
                want.add(("Return", "proxy", False, True))
            else:
                indirect = it["kind"] in ("ijmp", "icall")
                if indirect:
                    tgt = "proxy"
                else:
                    s = resolve(it["sym"])
                    r = s.referent if s is not None else None
                    tgt = "proxy" if isinstance(r, gtirb.ProxyBlock) else (r.offset if (r is not None and any(r is b for b in sec.blocks)) else "other")
                want.add(("Call" if it["kind"] in ("call", "icall") else "Branch", tgt, it["cond"], not indirect))
                if it["kind"] in ("call", "icall", "jcc"):
                    if nxt is None:
                        return f"`{it['line']}` can fall through but no block follows it"
                    want.add(("Fallthrough", nxt.offset, False, True))
            if edges != want:
                return f"`{it['line']}` at {sect}+{off}: edges {sorted(edges, key=str)}, expected {sorted(want, key=str)}"
        elif it.get("mn") and not isinstance(blk, gtirb.CodeBlock):
            return f"`{it['line']}` lies in a data block"
    # ---- symbolic operands
    expected_positions = set()
    for sect, off, it in placed:
        if it.get("sym") is None or it.get("opoff") is None:
            continue
        sec = res.sections[sect]
        p = off + it["opoff"]
        expected_positions.add((sect, p))
        e = sec.symbolic_expressions.get(p)
        if e is None:
            return f"`{it['line']}`: no symbolic expression at {sect}+{p}"
        if not isinstance(e, gtirb.SymAddrConst):
            return f"`{it['line']}`: the operand became a {type(e).__name__}"
        want_sym = resolve(it["sym"])
        if want_sym is not None and e.symbol is not want_sym and e.symbol.name not in (it["sym"], it["sym"] + suffix):
            return f"`{it['line']}`: expression names {e.symbol.name}"
        if want_sym is not None and want_sym in msyms.values() and e.symbol is not want_sym:
            return f"`{it['line']}`: a new symbol object was created for the module's symbol {it['sym']}"
        if e.offset != it["addend"]:
            return f"`{it['line']}`: addend {e.offset}, expected {it['addend']}"
        got_attrs = {a.name for a in e.attributes}
        want_attrs = set(it["attrs"])
        # a call or jump to a symbol without a definition in a position-independent x86 ELF module goes through the PLT
        if tg["x86"] and tg["fmt"] == "ELF" and pie and it["kind"] in ("jmp", "jcc", "call") and isinstance(e.symbol.referent, gtirb.ProxyBlock):
            want_attrs = want_attrs | {"PLT"}
        if got_attrs != want_attrs:
            return f"`{it['line']}`: attributes {sorted(got_attrs)}, expected {sorted(want_attrs)}"
        if it.get("opsize") is not None and sec.symbolic_expression_sizes.get(p) != it["opsize"]:
            return f"`{it['line']}`: operand size {sec.symbolic_expression_sizes.get(p)}, expected {it['opsize']}"
    for name, sec in res.sections.items():
        for p in sec.symbolic_expressions:
            if (name, p) not in expected_positions:
                return f"unexpected symbolic expression at {name}+{p}"
    w = fresh_proxies(res, msyms)
    if w:
        return w
    # ---- an ordinary instruction falls through: when a block ends in one and code follows in the next block (a label or an alignment
    # directive cut the block there), there is a fallthrough edge between the two
    for name, sec in res.sections.items():
        for b, nxt in zip(sec.blocks, sec.blocks[1:]):
            if not (isinstance(b, gtirb.CodeBlock) and isinstance(nxt, gtirb.CodeBlock) and b.size and nxt.size):
                continue
            lastit = [it for (s_, o, it) in placed if s_ == name and it["size"] and o + it["size"] == b.offset + b.size]
            first_next = [it for (s_, o, it) in placed if s_ == name and o == nxt.offset and it["size"]]
            if lastit and lastit[0]["kind"] in ("nop", "ref") and first_next and first_next[0].get("mn"):
                if not any(e.target is nxt and e.label.type == gtirb.Edge.Type.Fallthrough for e in res.cfg.out_edges(b)):
                    return f"`{lastit[0]['line']}` at the end of the block at {name}+{b.offset} does not fall through to the code that follows it"
    # ---- data conversion
    for name, sec in res.sections.items():
        for k, b in enumerate(sec.blocks):
            inside = [it for (s_, o, it) in placed if s_ == name and b.offset <= o < b.offset + b.size]
            has_code = any(it.get("mn") for it in inside) or any(s_ == name and o < b.offset < o + it["size"] for (s_, o, it) in placed if it.get("mn"))
            reached = any(True for _ in res.cfg.in_edges(b)) if isinstance(b, gtirb.CodeBlock) else False
            first_exec = k == 0 and gtirb.Section.Flag.Executable in sec.flags and not unreachable
            if b.size and not has_code and not reached and not first_exec and isinstance(b, gtirb.CodeBlock):
                return f"block {name}+{b.offset} holds only data, nothing reaches it, yet it is a code block"
            if has_code and isinstance(b, gtirb.DataBlock):
                return f"block {name}+{b.offset} holds instructions but is a data block"
    return None
