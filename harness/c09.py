"""C09: the rewrite caches are transparent -- one apply() with all modifications equals one apply() per modification."""
import json

from harness import irgen
from harness.c11 import full_dump
from harness.ir import IRProp


def patch_maker(case):
    """text -> Patch.  In a third of the cases the patches declare constraints that make the ABI build a frame around them (the flags
    are saved and restored); within one context a text that is used at several places is served by ONE Patch object, as a
    transformation that registers one patch at many places does.  A fresh context starts with fresh objects."""
    import gtirb_rewriting
    framed = sum(len(repr(m_)) for m_ in case.mods) % 3 == 0
    made = {}

    def mk(text):
        if text not in made:
            @gtirb_rewriting.patch_constraints(clobbers_flags=framed)
            def patch(ctx, _text=text):
                return _text
            made[text] = gtirb_rewriting.Patch.from_function(patch)
        return made[text]
    return mk


def apply_batch(case):
    import gtirb_rewriting
    literal_patch = patch_maker(case)
    B = irgen.build(case)
    ctx = gtirb_rewriting.RewritingContext(B.m, B.fobjs)
    for (i, t, off, ln, patch, to_proxy) in case.mods:
        blk = B.gbs[i]
        p = patch if isinstance(patch, bytes) or patch is None else literal_patch(patch)
        if t == "ins":
            ctx.insert_at(blk, off, p)
        elif t == "del":
            ctx.delete_at(blk, off, ln, retarget_to_proxy=to_proxy)
        else:
            ctx.replace_at(blk, off, ln, p)
    try:
        ctx.apply()
    except Exception as e:   # noqa
        return ("error", type(e).__name__, str(e)[:80])
    return ("ok", full_dump(B.m))


def apply_one_at_a_time(case):
    """Ascending address order, one RewritingContext per modification.  The place of a pending modification is found again
    by its address: the block that starts there (inside the region of its original block), else the block that ends there."""
    import gtirb_functions
    import gtirb_rewriting
    B = irgen.build(case)
    sizes = [case.size(i) for i in range(len(case.blocks))]           # current length of each original block's region
    order = sorted(enumerate(case.mods), key=lambda x: (x[1][0], x[1][2], x[0]))
    delta = {}                                                          # original block -> bytes added so far
    first = True
    for n, (i, t, off, ln, patch, to_proxy) in order:
        start = 0x1000 + sum(sizes[:i])
        addr = start + off + delta.get(i, 0)
        end = start + sizes[i]
        blocks = [b for b in B.m.byte_blocks if b.address is not None and start <= b.address and b.address + b.size <= end]
        cand = [b for b in blocks if b.address <= addr < b.address + b.size]
        if not cand:
            cand = [b for b in blocks if b.address + b.size == addr and b.size] or [b for b in blocks if b.address == addr]
        if not cand:
            return ("error", "NoPlace", f"no block at {addr:#x}")
        blk = cand[0]
        o = addr - blk.address
        fobjs = B.fobjs if first else gtirb_functions.Function.build_functions(B.m)
        first = False
        ctx = gtirb_rewriting.RewritingContext(B.m, fobjs)
        p = patch if isinstance(patch, bytes) or patch is None else patch_maker(case)(patch)
        if t == "del" and to_proxy and not (o == 0 and ln == blk.size):
            to_proxy = False
        if t == "ins":
            ctx.insert_at(blk, o, p)
        elif t == "del":
            ctx.delete_at(blk, o, ln, retarget_to_proxy=to_proxy)
        else:
            ctx.replace_at(blk, o, ln, p)
        before = sum(len(bi.contents) for s_ in B.m.sections for bi in s_.byte_intervals)
        try:
            ctx.apply()
        except Exception as e:   # noqa
            return ("error", type(e).__name__, str(e)[:80])
        after = sum(len(bi.contents) for s_ in B.m.sections for bi in s_.byte_intervals)
        sizes[i] += after - before
        delta[i] = delta.get(i, 0) + (after - before)
    return ("ok", full_dump(B.m))


class C09(IRProp):
    id = "C09"
    prop_file = "Properties/C09.v"
    tag = "c09"
    genopts = dict(max_mods=2, with_aux=False, whole_del=0.2, data_first=0.3, call_history=0.15)
    trusted_base = IRProp.base_trusted
    assumptions = ["in the one-at-a-time runs a pending modification is located again by the address of its byte (block starting there inside "
                   "the region of its original block, else the block ending there); temporary label suffixes are normalised; "
                   "no alignment entries (padding would accumulate over several apply() calls)"]
    level_rule = "the IR correspondence cases; each also applied one modification per RewritingContext and compared with the batch result"
    oracle_text = "complete output dump of one apply() with all modifications == dump after one apply() per modification (temporary-label suffixes normalised)"

    def neighbours(self, r):
        """a fresh ModifyCache on the rewritten module: its neighbouring blocks are the IR's blocks in listing order (a zero-sized
        block is what is left of code that stood in front of the block at its address)"""
        import gtirb_functions
        from gtirb_rewriting._modify.cache import make_modify_cache
        if r is None or r.get("error") is not None:
            return []
        m = r["built"].m
        if not any(b.size == 0 for b in m.byte_blocks):
            return []
        bad = []
        with make_modify_cache(m, gtirb_functions.Function.build_functions(m)) as cache:
            for sect in m.sections:
                want = sorted(sect.byte_blocks, key=lambda b: (b.address, b.size != 0))
                for k, b in enumerate(want):
                    prev, nxt = cache.adjacent_blocks(b)
                    wp, wn = (want[k - 1] if k else None), (want[k + 1] if k + 1 < len(want) else None)
                    if prev is not wp or nxt is not wn:
                        bad.append(dict(what=f"fresh ModifyCache: neighbours of the block at {b.address:#x}+{b.size} are "
                                             f"{[None if x is None else (hex(x.address), x.size) for x in (prev, nxt)]}, the IR has "
                                             f"{[None if x is None else (hex(x.address), x.size) for x in (wp, wn)]}", finding=None))
                        return bad
        return bad

    def spec(self, seed, case, r):
        import re
        nb = self.neighbours(r)
        if nb:
            return nb
        if not case.mods:
            return []
        a = apply_batch(case)
        b = apply_one_at_a_time(case)

        def norm(x):
            # temporary labels carry the per-context patch counter as suffix
            return re.sub(r"(\.L[A-Za-z]+)_[0-9]+", r"\1_N", x) if isinstance(x, str) else x
        if a[0] == "ok" and b[0] == "ok":
            da, db = json.loads(norm(a[1])), json.loads(norm(b[1]))
            for d_ in (da, db):
                for k_, v_ in d_.items():
                    if isinstance(v_, list) and k_ != "sections":
                        v_.sort(key=json.dumps)
            if da != db:
                diff = [k for k in da if da[k] != db.get(k)]
                return [dict(what=f"batch and one-at-a-time outputs differ in {diff}: " + "; ".join(f"{k}: {da[k]} vs {db[k]}" for k in diff[:2])[:600],
                             finding=self.classify(case, a, b))]
            return []
        if a[0] != b[0]:
            return [dict(what=f"batch gives {a[:2]}, one-at-a-time gives {b[:2]}", finding=self.classify(case, a, b))]
        return []

    def classify(self, case, a, b):
        if a[0] == "error" and a[1] == "UnsupportedAssemblyError" and b[0] == "ok":
            # known finding: a patch names the label of a block that the same apply() has already removed; the assembler reads
            # Symbol.referent, which is None while the reference is held indirectly by the ReferenceCache
            gone = {i for (i, t, off, ln, patch, _) in case.mods if t in ("del", "rep") and off == 0}
            for (i, t, off, ln, patch, _) in case.mods:
                if isinstance(patch, str) and any(f"L{g}" in patch.split() for g in gone):
                    return "C09-assembler-reads-symbol-referent-directly"
        return None


PROP = C09()
