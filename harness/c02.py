"""C02: symbols keep designating the same place in the edited listing."""
import gtirb

from harness.c01 import expected_chunks
from harness.ir import IRProp


def positions(module, B, rec):
    """(symbol name -> ('pos', global offset) | ('proxy',) | ('none',) | ('dangling', why)) when the modify cache is left."""
    ivs = rec["ival_of_block"]
    starts, acc = [], 0
    for iv in ivs:
        starts.append(acc)
        acc += len(iv.contents)
    out = {}
    for s in module.symbols:
        r = s.referent
        if r is None:
            out[s.name] = ("none",)
        elif isinstance(r, gtirb.ProxyBlock):
            out[s.name] = ("proxy",) if r.module is module else ("dangling", "proxy outside the module")
        elif isinstance(r, gtirb.ByteBlock):
            iv = r.byte_interval
            j = next((k for k, x in enumerate(ivs) if x is iv), None)
            if iv is None or r.module is not module or j is None:
                out[s.name] = ("dangling", "referent is not part of the module")
            else:
                out[s.name] = ("pos", starts[j] + r.offset + (r.size if s.at_end else 0))
        else:
            out[s.name] = ("other",)
    return out


class C02(IRProp):
    id = "C02"
    prop_file = "Properties/C02.v"
    tag = "c02"
    genopts = dict(with_cfi=False, with_aux=False, multi_labels=True)
    trusted_base = IRProp.base_trusted
    assumptions = ["positions are compared as offsets into the concatenated listing: the end of block k and the start of block k+1 are the same place"]
    level_rule = ("random x86-64 modules with start labels on every block, extra start labels and end labels on random blocks, patches that define "
                  "their own labels; distinct = distinct model input line; non-trivial = at least one modification")
    oracle_text = ("every label's offset in the concatenated listing when the modify cache is left == its offset in the edited listing (start labels "
                   "before anything inserted at offset 0, end labels after anything inserted at the end, labels of deleted blocks at the next "
                   "position or on a proxy, patch labels inside the patch); no referent outside the module")

    def observe(self, module, B, rec):
        return positions(module, B, rec)

    def spec(self, seed, case, r):
        if r["error"] is not None or r["obs"] is None:
            return []
        chunks = expected_chunks(case, r)
        if chunks is None:
            return []
        obs = r["obs"]
        starts, acc = [], 0
        for c, _ in chunks:
            starts.append(acc)
            acc += len(c)
        proxied = {i for (i, t, off, ln, patch, to_proxy) in case.mods if t == "del" and to_proxy}
        bad = []

        def expect(name, want):
            got = obs.get(name)
            if got != want:
                bad.append(dict(what=f"label {name}: expected {want}, found {got}", finding=self.classify(case, name, want, got)))
        whole = set()
        for i in range(len(case.blocks)):
            dels = [(off, ln) for (j, t, off, ln, patch, to_proxy) in case.mods if j == i and t == "del"]
            others = [1 for (j, t, off, ln, patch, to_proxy) in case.mods if j == i and t != "del"]
            covered = set()
            for off, ln in dels:
                covered |= set(range(off, off + ln))
            if dels and not others and covered >= set(range(case.size(i))):
                whole.add(i)          # every byte of the block is deleted (by one deletion or by several)

        def slides_onto_proxied(i):
            # block i is deleted whole (no proxy asked) and so is everything up to a block that is deleted to a proxy: the labels of
            # block i have slid onto that block ("the next position") when it is proxied, so either outcome meets the statement
            if i not in whole or i in proxied:
                return False
            j = i + 1
            while j < len(case.blocks) and j in whole and j not in proxied:
                j += 1
            return j < len(case.blocks) and j in proxied
        for i in range(len(case.blocks)):
            names = [f"L{i}"] + ([f"X{i}"] if i in case.extra_start else [])
            for n in names + ([f"E{i}"] if i in case.end_labels else []):
                if slides_onto_proxied(i) and obs.get(n) == ("proxy",):
                    continue
                if n.startswith("E"):
                    expect(n, ("proxy",) if i in proxied else ("pos", starts[i] + len(chunks[i][0])))
                else:
                    expect(n, ("proxy",) if i in proxied else ("pos", starts[i]))
        # labels defined by patches: position of the patch inside the chunk + offset inside the patch
        for i in range(len(case.blocks)):
            mods = sorted((off, n, ln) for n, (bi, t, off, ln, patch, _) in enumerate(case.mods) if bi == i)
            delta = 0
            for off, n, ln in mods:
                if case.mods[n][1] != "del":
                    data, _, labels = r["mod_code"][n]
                    for name, lo in labels.items():
                        expect(name, ("pos", starts[i] + off + delta + lo))
                    delta += len(data)
                delta -= ln
        # every label a patch text defines is a symbol of the module afterwards, once per application of the patch, and designates a
        # position (read off the patch TEXT, not off what the assembler handed over)
        import re
        defs = {}
        for n, (bi, t, off, ln, patch, _) in enumerate(case.mods):
            if isinstance(patch, str) and t != "del" and n in r["mod_code"]:
                for base in re.findall(r"^(\.L\w+):", patch, re.M):
                    defs[base] = defs.get(base, 0) + 1
        for base, count in defs.items():
            found = [(name, got) for name, got in obs.items() if name == base or re.fullmatch(re.escape(base) + r"_\d+", name)]
            if len(found) != count:
                bad.append(dict(what=f"label {base}: defined by {count} applied patch(es), {len(found)} symbol(s) of that name in the module", finding=None))
            for name, got in found:
                if got[0] != "pos":
                    bad.append(dict(what=f"label {name} of a patch designates no position: {got}", finding=None))
        for name, got in obs.items():
            if got[0] == "dangling":
                bad.append(dict(what=f"label {name}: {got[1]}", finding=None))
        # ... and when apply() has returned (the intervals are joined again)
        import gtirb
        m = r["built"].m
        live = {id(b) for b in m.byte_blocks} | {id(p) for p in m.proxies}
        for sy in m.symbols:
            ref = sy.referent
            if isinstance(ref, (gtirb.ByteBlock, gtirb.ProxyBlock)) and id(ref) not in live:
                bad.append(dict(what=f"label {sy.name}: after apply() it refers to a {type(ref).__name__} that is not part of the module", finding=None))
        return bad

    def classify(self, case, name, want, got):
        # known finding: a label that ends a text patch in a data block is an end-of-block symbol of the patch's block; a later
        # insertion at the same offset is put in front of it
        if name.startswith(".Ld") and want[0] == "pos" and got[0] == "pos" and got[1] > want[1]:
            for n, (i, t, off, ln, patch, _) in enumerate(case.mods):
                if isinstance(patch, str) and patch.endswith(".Ld:") and any(j == i and o2 == off + ln and t2 != "del" and n2 != n for n2, (j, t2, o2, l2, p2, _) in enumerate(case.mods)):
                    return "C02-label-ending-a-data-patch-follows-later-insertions"
        # known finding: end label of block k found on a proxy while block k+1 was deleted with retarget_to_proxy
        if name.startswith("E") and got == ("proxy",) and want[0] == "pos":
            k = int(name[1:])
            if any(i == k + 1 and t == "del" and to_proxy for (i, t, off, ln, patch, to_proxy) in case.mods) and \
               any(i == k and t != "del" and off + ln == case.size(k) for (i, t, off, ln, patch, to_proxy) in case.mods):
                return "C02-end-label-captured-by-proxied-successor"
        return None


PROP = C02()
