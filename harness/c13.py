"""C13: assembler symbol discipline and incremental assembly."""
import re

import gtirb

from harness import asmgen
from harness.c12 import C12
from vlib import common as C


ABIS = [("X64", "ELF"), ("X64", "PE"), ("IA32", "PE"), ("ARM64", "ELF"), ("MIPS32", "ELF")]
ISA_NUM = {"X64": 0, "IA32": 1, "ARM64": 2, "MIPS32": 3}
FMT_NUM = {"ELF": 0, "PE": 1}
LABELS = [".Lq", "Lq", "$Lq", "$q", "q", "_q", ".q", "L.q", ".L", "L", ".Lq_1", "$.q"]
NOP = {"X64": "nop", "IA32": "nop", "ARM64": "nop", "MIPS32": "nop"}
BRANCH = {"X64": "jmp {l}", "IA32": "jmp {l}", "ARM64": "b {l}", "MIPS32": "b {l}\nnop"}
CODE = {"X64": b"\x90\x90\xc3", "IA32": b"\x90\x90\xc3", "ARM64": b"\x1f\x20\x03\xd5" * 2 + b"\xc0\x03\x5f\xd6", "MIPS32": bytes(8) + b"\x03\xe0\x00\x08" + bytes(4)}


def abi_module(isa, fmt):
    import sys
    sys.path.insert(0, "/repo/tests")
    from gtirb_test_helpers import add_code_block, add_symbol, add_text_section, create_test_module
    ir, m = create_test_module(getattr(gtirb.Module.FileFormat, fmt), getattr(gtirb.Module.ISA, isa))
    if isa == "MIPS32":
        m.byte_order = gtirb.Module.ByteOrder.Big
    _, bi = add_text_section(m, address=0x1000)
    b = add_code_block(bi, CODE[isa])
    add_symbol(m, "f", b)
    return m, b


def temp_label_case(isa, fmt, name, label, suffix):
    """(model line, what the implementation says) -- None when the target's assembler does not take `label` as a label at all"""
    import gtirb_rewriting.assembler.assembler as A
    from gtirb_rewriting.abi import ABI
    from gtirb_rewriting.patch import InsertionContext
    m, b = abi_module(isa, fmt)
    line = f"tmplabel {ISA_NUM[isa]} {FMT_NUM[fmt]} {name} {label} {suffix}"
    prefix = ABI.get(m).temporary_label_prefix()
    made = InsertionContext(m, None, b, 0).temporary_label(name)
    try:
        a = A.Assembler(m, temp_symbol_suffix=suffix)
        a.assemble(f"{label}:\n{NOP[isa]}\n", A.X86Syntax.ATT)
        res = a.finalize()
    except Exception:    # noqa
        return line, None
    names = [s.name for s in res.symbols]
    if len(names) != 1:
        return line, None
    return line, f"supported 1 | prefix {prefix} | label {made} | temp {1 if names[0] != label else 0} | named {names[0]}"


def same_patch_twice(isa, fmt, rnd):
    """the same patch -- its label made by InsertionContext.temporary_label -- inserted 2-3 times in one context: no clash, and every
    copy branches to its own label.  Returns a violation text or None."""
    import gtirb_rewriting
    from gtirb_rewriting import Patch, patch_constraints
    m, b = abi_module(isa, fmt)
    base = rnd.choice(["x", "loop", "a0", "t1", "L", "_end", "x_1"])

    @patch_constraints()
    def p(ictx):
        lab = ictx.temporary_label(base)
        return f"{lab}:\n{NOP[isa]}\n" + BRANCH[isa].format(l=lab) + "\n"
    patch = Patch.from_function(p)
    ctx = gtirb_rewriting.RewritingContext(m, [])
    step = 1 if isa in ("X64", "IA32") else 4
    offs = rnd.sample([0, step, 2 * step], rnd.randint(2, 3))
    for o in offs:
        ctx.insert_at(b, o, patch)
    try:
        ctx.apply()
    except Exception as e:    # noqa
        return f"{isa} {fmt}: inserting one patch with the label temporary_label({base!r}) at {len(offs)} places raises {type(e).__name__}: {str(e)[:80]}"
    names = [s.name for s in m.symbols]
    if len(names) != len(set(names)):
        return f"{isa} {fmt}: two symbols with one name after inserting one patch {len(offs)} times: {sorted(names)}"
    labs = [s for s in m.symbols if s.name != "f"]
    if len(labs) != len(offs):
        return f"{isa} {fmt}: {len(offs)} copies of the patch left {len(labs)} label symbols: {sorted(names)}"
    for bi in m.byte_intervals:
        for off, e in bi.symbolic_expressions.items():
            for sy in e.symbols:
                # the branch of a copy sits directly behind its own label's nop: the label it names must be the closest one before it
                addr = bi.address + off
                before = [s for s in labs if s.referent is not None and s.referent.address is not None and s.referent.address <= addr]
                own = max(before, key=lambda s: s.referent.address) if before else None
                if sy in labs and sy is not own:
                    return f"{isa} {fmt}: a copy of the patch branches to {sy.name}, the label of another copy"
    return None


def global_labels_across_patches(rnd):
    """Two patches of one rewrite, in one block or in two: the second refers to a global label the first defines (it must bind to that
    one symbol), or defines the same global label again (MultipleDefinitionsError).  Returns a violation text or None."""
    import gtirb_rewriting
    from helpers import literal_patch
    isa, fmt = rnd.choice(ABIS)
    m, b = abi_module(isa, fmt)
    import sys
    sys.path.insert(0, "/repo/tests")
    from gtirb_test_helpers import add_code_block
    b2 = add_code_block(b.byte_interval, CODE[isa])
    step = 1 if isa in ("X64", "IA32") else 4
    same_block = rnd.random() < 0.6
    redefine = rnd.random() < 0.4
    first = f"glob_a:\n{NOP[isa]}\n"
    second = first if redefine else BRANCH[isa].format(l="glob_a") + "\n"
    ctx = gtirb_rewriting.RewritingContext(m, [])
    ctx.insert_at(b, 0, literal_patch(first))
    ctx.insert_at(b if same_block else b2, step, literal_patch(second))
    desc = f"{isa} {fmt}: a patch defining glob_a and a later patch {'defining it again' if redefine else 'branching to it'}, {'in one block' if same_block else 'in two blocks'}"
    try:
        ctx.apply()
        raised = None
    except Exception as e:    # noqa
        raised = type(e).__name__
    if redefine:
        if raised != "MultipleDefinitionsError":
            return f"{desc}: {'no error' if raised is None else raised}, expected MultipleDefinitionsError"
        return None
    if raised:
        return f"{desc}: apply raises {raised}"
    syms = [s_ for s_ in m.symbols if s_.name == "glob_a"]
    if len(syms) != 1:
        return f"{desc}: {len(syms)} symbols named glob_a"
    users = [e for bi in m.byte_intervals for e in bi.symbolic_expressions.values() if any(x.name == "glob_a" for x in e.symbols)]
    if len(users) != 1 or users[0].symbol is not syms[0]:
        return f"{desc}: the branch does not use the module's symbol glob_a"
    return None


class C13(C12):
    id = "C13"
    prop_file = "Properties/C13.v"
    level_rule = ("the C12 texts, each also cut into two chunks fed to assemble() one after the other; the same text assembled twice with "
                  "different temporary-label suffixes into one module; names of the module, unknown names with and without allow_undef_symbols, "
                  "redefinitions")

    def cases(self, tier, tag):
        rnd = C.rng(tag)
        n = {"quick": 1200, "thorough": 10000}[tier]
        out = []
        for _ in range(n):
            undef = rnd.random() < 0.5
            out.append((asmgen.gen_text(rnd, undef, chunks=2), rnd.random() < 0.5, undef, False))
        return out

    def cases_mt(self, tier, tag):
        """the other targets, each text also cut into two chunks"""
        rnd = C.rng(tag + "-chunks")
        out = []
        for c in super().cases_mt(tier, tag):
            items = c[1]
            out.append(tuple(c) + ((rnd.randint(1, len(items) - 1) if len(items) > 1 and rnd.random() < 0.8 else None),))
        return out

    def run_mt(self, c):
        from harness import asmmt
        return asmmt.run(c[0], c[1], c[2], c[3], unreachable=c[4], cut=c[5])

    def correspondence(self, tier, ctx):
        r = super().correspondence(tier, ctx)
        # Asm/TempPrefix.v against every ABI: the prefix handed out, and which labels the assembler suffixes
        lines, outs = [], []
        for (isa, fmt) in ABIS:
            for label in LABELS:
                line, out = temp_label_case(isa, fmt, "x1", label, "_9")
                if out is not None:
                    lines.append(line)
                    outs.append(out)
        got = C.run_driver("asm", lines)
        r["disagreements"] = (r["disagreements"] + [{"case": l, "implementation": o, "model": g} for l, o, g in zip(lines, outs, got) if o != g])[:20]
        r["evaluations"] += len(lines)
        r["dist"]["temporary_label_cases"] = len(lines)
        # Asm/PatchIds.v against RewritingContext: the last patch id in use among the names of a module's symbols
        import gtirb
        import gtirb_rewriting
        from gtirb_test_helpers import create_test_module
        rnd = C.rng("c13-patchids")
        plines, pouts = [], []
        for _ in range(400 if tier == "quick" else 3000):
            names = []
            for _k in range(rnd.randint(0, 6)):
                base = rnd.choice(["f", ".Lx", "blk", "a_b", "_", "x_", ".L_blah", "part_3", "$Lt", "n0", "__"])
                tail = rnd.choice(["", "_" + str(rnd.randint(0, 400)), "_0" + str(rnd.randint(0, 99)), "_" + str(rnd.randint(0, 50)) + "x", "_x1", str(rnd.randint(0, 9)),
                                   "_" + str(rnd.randint(0, 30)) + "_" + str(rnd.randint(0, 30)), "_-3", "_+4", "_1_", "_ 7".replace(" ", "")])
                names.append(base + tail)
            ir, m = create_test_module(gtirb.Module.FileFormat.ELF, gtirb.Module.ISA.X64)
            for n_ in names:
                m.symbols.add(gtirb.Symbol(n_))
            try:
                ctx = gtirb_rewriting.RewritingContext(m, [])
                last = ctx._last_used_patch_id()
                out = f"last {last} suffix _{ctx._patch_id + 1}"
            except Exception as e:   # noqa
                out = "err " + type(e).__name__
            plines.append(f"patchids {len(names)} " + " ".join(names))
            pouts.append(out)
        pgot = C.run_driver("asm", plines)
        r["disagreements"] = (r["disagreements"] + [{"case": l, "implementation": o, "model": g} for l, o, g in zip(plines, pouts, pgot) if o != g])[:20]
        r["evaluations"] += len(plines)
        r["dist"]["patch_id_cases"] = len(plines)
        return r

    def oracle(self, tier, ctx, boosted):
        import gtirb_rewriting.assembler.assembler as A
        pairs = getattr(self, "_runs", None)
        if pairs is None or boosted:
            cases = self.cases("thorough" if boosted else tier, "c13-boost")
            pairs = (pairs or []) + [(c, asmgen.run_assembler(c[0], c[1], c[2])) for c in cases]
        bads = []
        for (chunks, pie, undef, _), (line, out, res, msyms) in pairs:
            text = [l for ch in chunks for l in ch]
            # (1) symbol discipline on the result
            if res is not None:
                names = [s.name for s in res.symbols]
                if len(names) != len(set(names)):
                    bads.append(dict(what=f"two symbols with one name: {sorted(names)}", input={"chunks": chunks}, finding=None))
                for s in res.symbols:
                    if s.name in msyms:
                        bads.append(dict(what=f"a new symbol named {s.name} although the module has one", input={"chunks": chunks}, finding=None))
                und = [s for s in res.symbols if s.name.startswith("und")]
                if und and not undef:
                    bads.append(dict(what="an undefined name was accepted without allow_undef_symbols", input={"chunks": chunks}, finding=None))
                for s in und:
                    if not isinstance(s.referent, gtirb.ProxyBlock):
                        bads.append(dict(what=f"{s.name} is not backed by a proxy", input={"chunks": chunks}, finding=None))
                for sec in res.sections.values():
                    for e in sec.symbolic_expressions.values():
                        for sy in e.symbols:
                            if sy.name in msyms and sy is not msyms[sy.name]:
                                bads.append(dict(what=f"expression uses a copy of the module's symbol {sy.name}", input={"chunks": chunks}, finding=None))
            # (2) chunks vs concatenation (when no chunk refers to a label defined in a later chunk)
            if len(chunks) == 2:
                later = {l[:-1] for l in chunks[1] if l.endswith(":")}
                forward = any(set(re.findall(r"[.A-Za-z_][.A-Za-z_0-9]*", l.split(None, 1)[1] if " " in l else "")) & later for l in chunks[0] if not l.endswith(":"))
                if not forward:
                    _, whole, _, _ = asmgen.run_assembler([text], pie, undef)
                    # both refused: which of several errors is reported first depends on how far the text was read
                    if whole != out and not (whole.startswith("err") and out.startswith("err")):
                        bads.append(dict(what=f"chunked: {out[:300]} || whole: {whole[:300]}", input={"chunks": chunks, "pie": pie, "allow_undef": undef},
                                         finding=self.classify_chunks(chunks, out, pie, undef)))
            # (3) the same text twice with different suffixes: no clash, no capture
            if res is not None and not any(l.endswith(":") and not l.startswith(".L") for l in text):
                m, ms = asmgen.make_module(pie)
                seen = set()
                tmpdefs = {l[:-1] for l in text if l.endswith(":")}
                ok = True
                for k in range(2):
                    try:
                        a = A.Assembler(m, temp_symbol_suffix=f"_sfx{k}", allow_undef_symbols=undef)
                        a.assemble("\n".join(text) + "\n", A.X86Syntax.ATT)
                        r = a.finalize()
                    except Exception as e:   # noqa
                        # k == 0: the concatenated text itself is not assemblable (the chunked run got through because of the known
                        # restart in .text); only a failure of the second copy is a clash
                        if k == 1:
                            bads.append(dict(what=f"second insertion of the same text fails: {type(e).__name__}", input={"text": text}, finding=None))
                        ok = False
                        break
                    for s in r.symbols:
                        if s.name in seen and not s.name.startswith("und"):
                            bads.append(dict(what=f"symbol name {s.name} produced twice", input={"text": text}, finding=None))
                        seen.add(s.name)
                        m.symbols.add(s)
                    for sec in r.sections.values():
                        for e in sec.symbolic_expressions.values():
                            for sy in e.symbols:
                                if any(sy.name == d or sy.name.startswith(d + "_sfx") for d in tmpdefs) and not sy.name.endswith(f"_sfx{k}"):
                                    bads.append(dict(what=f"copy {k} refers to {sy.name}: a label of another copy", input={"text": text}, finding=None))
        # (2') chunks vs concatenation on the other targets
        from harness import asmmt
        for c, (line, out, res, msyms) in (getattr(self, "_mruns", None) or []):
            target, items, pie, undef, unreach, cut = c
            if not cut:
                continue
            later = {it["name"] for it in items[cut:] if it["kind"] == "label"}
            if any(it.get("sym") in later for it in items[:cut]):
                continue
            # the known restart in .text: only texts whose first chunk ends in .text are compared
            cur = ".text"
            for it in items[:cut]:
                if it["kind"] == "sect":
                    cur = it["name"]
            if cur != ".text":
                continue
            _, whole, _, _ = asmmt.run(target, items, pie, undef, unreachable=unreach)
            if whole != out and not (whole.startswith("err") and out.startswith("err")):
                bads.append(dict(what=f"{target}: chunked: {out[:300]} || whole: {whole[:300]}", input={"target": target, "text": [it["line"] for it in items], "cut": cut, "pie": pie, "allow_undef": undef}, finding=None))
        # the suffix source of a whole rewrite: functions added with register_insert_function and ordinary insertions of the same text
        from harness import funcins
        rnd2 = C.rng("c13-funcins" + ("-boost" if boosted else ""))
        extra = 0
        for _ in range({"quick": 300, "thorough": 3000}["thorough" if boosted else tier]):
            sd = rnd2.randrange(1 << 30)
            r2 = funcins.run(sd)
            if r2["error"]:
                continue
            extra += 1
            for w in funcins.check_names(r2)[:1]:
                bads.append(dict(what="after a rewrite that inserts the same patch several times (as functions and at ordinary places): " + w,
                                 input={"funcins_seed": sd, "functions": [t for _, _, t in r2["inserted"]]}, finding=None))
        rnd3 = C.rng("c13-abis" + ("-boost" if boosted else ""))
        for _ in range({"quick": 12, "thorough": 60}["thorough" if boosted else tier]):
            for isa, fmt in ABIS:
                extra += 1
                w = same_patch_twice(isa, fmt, rnd3)
                if w:
                    bads.append(dict(what=w, input={"abi": [isa, fmt]}, finding=None))
        for _ in range({"quick": 150, "thorough": 1500}["thorough" if boosted else tier]):
            extra += 1
            w = global_labels_across_patches(rnd3)
            if w:
                bads.append(dict(what=w, input="global_labels_across_patches()", finding=None))
        from harness import ctxlevel
        for _ in range({"quick": 150, "thorough": 1500}["thorough" if boosted else tier]):
            extra += 1
            w = ctxlevel.extern_symbols(rnd3)
            if w:
                bads.append(dict(what=w, input="ctxlevel.extern_symbols()", finding=None))
        # the same patch inserted by one RewritingContext after another over one module
        import random
        for _ in range({"quick": 100, "thorough": 1000}["thorough" if boosted else tier]):
            extra += 1
            sd = rnd3.randrange(1 << 30)
            w = ctxlevel.labels_across_contexts(random.Random(sd))
            if w:
                bads.append(dict(what=w, input=f"ctxlevel.labels_across_contexts(random.Random({sd}))", finding=None))
        bads = [b for b in bads if b["finding"] is None][:10] + [b for b in bads if b["finding"]][:2]
        return dict(evaluations=len(pairs) + extra, violations=bads, samples=[{"oracle": "symbol identity and uniqueness; chunked == whole; two copies with different suffixes"}])

    def classify_chunks(self, chunks, out, pie, undef):
        # known finding: every assemble() call starts in .text again, so data following a section switch of an earlier chunk lands in .text
        cur = ".text"
        for l in chunks[0]:
            if l in (".text", ".data"):
                cur = l
            elif l.startswith(".section"):
                cur = l.split()[1].split(",")[0]
        if cur != ".text":
            # ... and the difference is exactly that: the concatenation with ".text" written at the cut gives the chunked result
            _, patched, _, _ = asmgen.run_assembler([chunks[0] + [".text"] + chunks[1]], pie, undef)
            if patched == out:
                return "C13-chunks-restart-in-the-text-section"
        return None


PROP = C13()
