"""C19: delete_symbol removes every trace of the symbol, and only that."""
import io
import uuid

from vlib import common as C
from vlib.runner import Prop


def gen(rnd):
    n = rnd.randint(2, 6)
    syms = list(range(n))
    case = dict(n=n)
    case["symex"] = [(rnd.randrange(2), 4 * k, rnd.sample(syms, rnd.choice([1, 1, 1, 2]))) for k in range(rnd.randint(0, 5))]
    case["cfi"] = [[(rnd.choice([0, 0, 1, 2]), [rnd.randrange(0, 200)], rnd.choice(syms + [None, None])) for _ in range(rnd.randint(1, 3))] for _ in range(rnd.randint(0, 3))]
    case["elf"] = [s for s in syms if rnd.random() < 0.6]
    case["tab"] = [s for s in syms if rnd.random() < 0.4]
    if rnd.random() < 0.7:
        ids = list(range(1, rnd.randint(2, 5)))
        case["defs"] = [(i, 1 if (i == 1 and rnd.random() < 0.7) else rnd.choice([0, 0, 2])) for i in ids if rnd.random() < 0.7]
        case["reqs"] = [(l, [i for i in ids if rnd.random() < 0.5]) for l in range(rnd.randint(0, 2))]
        case["entries"] = [(s, rnd.choice(ids)) for s in syms if rnd.random() < 0.6]
    else:
        case["defs"], case["reqs"], case["entries"] = [], [], []
    case["fnames"] = [(k, rnd.choice(syms)) for k in range(rnd.randint(0, 3))]
    case["peimp"] = [s for s in syms if rnd.random() < 0.3]
    case["peexp"] = [s for s in syms if rnd.random() < 0.3]
    pairs = {}
    for _ in range(rnd.randint(0, 3)):
        pairs[rnd.choice(syms)] = rnd.choice(syms)
    case["fwd"] = sorted(pairs.items())
    req = {}
    for _ in range(rnd.randint(1, 2)):
        req[rnd.choice(syms)] = rnd.random() < 0.5
    case["req"] = sorted(req.items())
    return case


def model_line(c):
    p = ["delete", str(c["n"])] + [str(i) for i in range(c["n"])]
    p.append(str(len(c["symex"])))
    for iv, off, sy in c["symex"]:
        p.append(f"{iv} {off} {len(sy)} " + " ".join(map(str, sy)))
    p.append(str(len(c["cfi"])))
    for k, ds in enumerate(c["cfi"]):
        p.append(f"{k} {len(ds)}")
        for kind, args, sy in ds:
            p.append(f"{kind} {len(args)} " + " ".join(map(str, args)) + f" {-1 if sy is None else sy}")
    for key in ("elf", "tab"):
        p.append(f"{len(c[key])} " + " ".join(map(str, c[key])))
    p.append(str(len(c["defs"])) + " " + " ".join(f"{i} {f}" for i, f in c["defs"]))
    p.append(str(len(c["reqs"])))
    for l, vs in c["reqs"]:
        p.append(f"{l} {len(vs)} " + " ".join(map(str, vs)))
    p.append(str(len(c["entries"])) + " " + " ".join(f"{s} {v}" for s, v in c["entries"]))
    p.append(str(len(c["fnames"])) + " " + " ".join(f"{u} {s}" for u, s in c["fnames"]))
    for key in ("peimp", "peexp"):
        p.append(f"{len(c[key])} " + " ".join(map(str, c[key])))
    p.append(str(len(c["fwd"])) + " " + " ".join(f"{a} {b}" for a, b in c["fwd"]))
    p.append(str(len(c["req"])) + " " + " ".join(f"{s} {1 if f else 0}" for s, f in c["req"]))
    return " ".join(p)


KIND = {0: ".cfi_undefined", 1: ".cfi_personality", 2: ".cfi_lsda"}


def build(c):
    import gtirb
    from gtirb_rewriting import _auxdata
    ir = gtirb.IR()
    m = gtirb.Module(name="m", isa=gtirb.Module.ISA.X64, file_format=gtirb.Module.FileFormat.ELF, ir=ir)
    sec = gtirb.Section(name=".data", module=m)
    ivs = [gtirb.ByteInterval(contents=bytes(32), address=0x1000 + 0x100 * k, section=sec) for k in range(2)]
    blocks = [gtirb.DataBlock(offset=0, size=32, byte_interval=iv) for iv in ivs]
    syms = [gtirb.Symbol(f"s{i}", payload=blocks[i % 2], module=m) for i in range(c["n"])]
    for iv, off, sy in c["symex"]:
        ivs[iv].symbolic_expressions[off] = gtirb.SymAddrConst(0, syms[sy[0]]) if len(sy) == 1 else gtirb.SymAddrAddr(1, 0, syms[sy[0]], syms[sy[1]])
    if c["cfi"]:
        tab = _auxdata.cfi_directives.get_or_insert(m)
        for k, ds in enumerate(c["cfi"]):
            tab[gtirb.Offset(blocks[0], k)] = [(KIND[kind], list(args), _auxdata.NULL_UUID if sy is None else syms[sy]) for kind, args, sy in ds]
    if c["elf"]:
        t = _auxdata.elf_symbol_info.get_or_insert(m)
        for s in c["elf"]:
            t[syms[s]] = (0, "FUNC", "GLOBAL", "DEFAULT", 0)
    if c["tab"]:
        t = _auxdata.elf_symbol_tab_idx_info.get_or_insert(m)
        for s in c["tab"]:
            t[syms[s]] = [(".symtab", s)]
    if c["defs"] or c["reqs"] or c["entries"]:
        _auxdata.elf_symbol_versions.set(m, ({i: ([f"V{i}"], f) for i, f in c["defs"]}, {f"lib{l}": {v: f"V{v}" for v in vs} for l, vs in c["reqs"]},
                                             {syms[s]: (v, False) for s, v in c["entries"]}))
    uuids = [uuid.UUID(int=k + 1) for k in range(4)]
    if c["fnames"]:
        t = _auxdata.function_names.get_or_insert(m)
        for u, s in c["fnames"]:
            t[uuids[u]] = syms[s]
    if c["peimp"]:
        _auxdata.pe_imported_symbols.set(m, [syms[s] for s in c["peimp"]])
    if c["peexp"]:
        _auxdata.pe_exported_symbols.set(m, [syms[s] for s in c["peexp"]])
    if c["fwd"]:
        t = _auxdata.symbol_forwarding.get_or_insert(m)
        for a, b in c["fwd"]:
            t[syms[a]] = syms[b]
    return ir, m, ivs, blocks, syms, uuids


def dump(c, m, ivs, blocks, syms, uuids):
    from gtirb_rewriting import _auxdata
    sid = {id(s): i for i, s in enumerate(syms)}

    def S(x):
        return str(sid[id(x)]) if id(x) in sid else "?"
    out = ["syms " + ",".join(sorted((S(s) for s in m.symbols), key=lambda z: (len(z), z)) if False else sorted(S(s) for s in m.symbols))]
    rows = []
    for k, iv in enumerate(ivs):
        for off, e in iv.symbolic_expressions.items():
            rows.append(f"{k}+{off}:" + ",".join(S(s) for s in e.symbols))
    out.append("symex " + ";".join(sorted(rows)))
    rows = []
    tab = _auxdata.cfi_directives.get(m) or {}
    for o, ds in tab.items():
        rows.append(f"{o.displacement}=" + "/".join(f"{ {'.cfi_undefined': 0, '.cfi_personality': 1, '.cfi_lsda': 2}[d[0]] }(" + ",".join(map(str, d[1])) + ")" + ("null" if not hasattr(d[2], "name") else S(d[2])) for d in ds))
    out.append("cfi " + ";".join(sorted(rows)))
    out.append("elf " + ",".join(sorted(S(s) for s in (_auxdata.elf_symbol_info.get(m) or {}))))
    out.append("tab " + ",".join(sorted(S(s) for s in (_auxdata.elf_symbol_tab_idx_info.get(m) or {}))))
    v = _auxdata.elf_symbol_versions.get(m) or ({}, {}, {})
    out.append("defs " + ",".join(sorted(f"{i}:{f}" for i, (_, f) in v[0].items())))
    out.append("reqs " + ";".join(sorted(f"{l[3:]}:" + ",".join(sorted(map(str, vs))) for l, vs in v[1].items())))
    out.append("entries " + ",".join(sorted(f"{S(s)}:{i}" for s, (i, _) in v[2].items())))
    uid = {u: k for k, u in enumerate(uuids)}
    out.append("fnames " + ",".join(sorted(f"{uid[u]}:{S(s)}" for u, s in (_auxdata.function_names.get(m) or {}).items())))
    out.append("peimp " + ",".join(S(s) for s in (_auxdata.pe_imported_symbols.get(m) or [])))
    out.append("peexp " + ",".join(S(s) for s in (_auxdata.pe_exported_symbols.get(m) or [])))
    out.append("fwd " + ",".join(sorted(f"{S(a)}>{S(b)}" for a, b in (_auxdata.symbol_forwarding.get(m) or {}).items())))
    return " | ".join(out)


def run_impl(c):
    from gtirb_rewriting._modify.delete_symbols import SymbolDeletionOptions, delete_symbols
    ir, m, ivs, blocks, syms, uuids = build(c)
    try:
        delete_symbols(m, {syms[s]: SymbolDeletionOptions(f) for s, f in c["req"]})
    except Exception as e:   # noqa
        return "err " + type(e).__name__, (ir, m, ivs, blocks, syms, uuids)
    return dump(c, m, ivs, blocks, syms, uuids), (ir, m, ivs, blocks, syms, uuids)


def spec_check(c, out, objs):
    """the property, written against the implementation's output directly"""
    import gtirb
    from gtirb_rewriting import _auxdata
    ir, m, ivs, blocks, syms, uuids = objs
    req = dict(c["req"])
    unforced_use = any(any((s in req and not req[s]) for s in sy) for _, _, sy in c["symex"])
    if out.startswith("err"):
        return None if (unforced_use and out == "err SymbolUsesRemainingError") else f"refused with {out} although no expression uses a symbol deleted without force"
    if unforced_use:
        return "deleted although an expression still uses the symbol and force was not given"
    dead = {id(syms[s]) for s in req}
    for s in req:
        if syms[s].module is not None:
            return f"symbol s{s} is still in the module"
    for s in range(c["n"]):
        if s not in req and syms[s].module is not m:
            return f"symbol s{s} left the module although it was not deleted"
    # no table mentions a dead symbol
    for name in ("elfSymbolInfo", "elfSymbolTabIdxInfo", "functionNames", "peImportedSymbols", "peExportedSymbols", "symbolForwarding"):
        if name in m.aux_data:
            data = m.aux_data[name].data
            items = list(data.items()) if hasattr(data, "items") else [(x, None) for x in data]
            for k, v in items:
                for x in (k, v):
                    if id(x) in dead:
                        return f"{name} still mentions a deleted symbol"
    v = _auxdata.elf_symbol_versions.get(m)
    if v:
        if any(id(s) in dead for s in v[2]):
            return "elfSymbolVersions entries still mention a deleted symbol"
        used = {i for (i, _) in v[2].values()}
        for i, f in c["defs"]:
            keep = i in used or f == 1
            if (i in v[0]) != keep:
                return f"version definition {i} (flags {f}) {'kept' if i in v[0] else 'dropped'}, used versions {sorted(used)}"
        for l, vs in c["reqs"]:
            want = [x for x in vs if x in used]
            got = sorted(v[1].get(f"lib{l}", {}).keys()) if f"lib{l}" in v[1] else None
            if got is None:
                if want or not vs:
                    return f"requirement lib{l} dropped, versions {vs}, used {sorted(used)}"
            elif got != sorted(set(want)):
                return f"requirement lib{l} has versions {got}, expected {sorted(set(want))}"
    for o, ds in (_auxdata.cfi_directives.get(m) or {}).items():
        orig = c["cfi"][o.displacement]
        for (kind, args, sy), d in zip(orig, ds):
            if sy in req:
                if hasattr(d[2], "name"):
                    return "CFI directive still names a deleted symbol"
                if kind in (1, 2) and list(d[1]) != [0xFF]:
                    return f"personality/LSDA directive of a deleted symbol has encoding {d[1]}, expected DW_EH_PE_omit"
                if kind == 0 and list(d[1]) != list(args):
                    return "arguments of a directive changed"
            elif (sy is None) != (not hasattr(d[2], "name")) or list(d[1]) != list(args):
                return "a CFI directive that does not name a deleted symbol changed"
    for k, iv in enumerate(ivs):
        want = {off for (ivk, off, sy) in c["symex"] if ivk == k and not any(s in req for s in sy)}
        if set(iv.symbolic_expressions) != want:
            return f"expressions of interval {k}: {sorted(iv.symbolic_expressions)}, expected {sorted(want)}"
    try:
        buf = io.BytesIO()
        ir.save_protobuf_file(buf)
    except Exception as e:   # noqa
        return f"module does not serialize: {type(e).__name__}"
    return None


def gen_requests(rnd):
    """a sequence of delete_symbol requests: 4 symbols of the module, 2 of another module, repeated with varying force flags"""
    return [(rnd.randrange(6) if rnd.random() < 0.25 else rnd.randrange(4), rnd.random() < 0.5) for _ in range(rnd.randint(1, 7))]


def run_requests(reqs):
    import gtirb
    import gtirb_rewriting
    ir = gtirb.IR()
    m = gtirb.Module(name="m", isa=gtirb.Module.ISA.X64, file_format=gtirb.Module.FileFormat.ELF, ir=ir)
    other = gtirb.Module(name="o", isa=gtirb.Module.ISA.X64, file_format=gtirb.Module.FileFormat.ELF, ir=ir)
    syms = [gtirb.Symbol(f"s{i}", module=m) for i in range(4)] + [gtirb.Symbol(f"f{i}", module=other) for i in range(2)]
    ctx = gtirb_rewriting.RewritingContext(m, [])
    outs = []
    for k, f in reqs:
        try:
            ctx.delete_symbol(syms[k], force=f)
            outs.append("1")
        except ValueError:
            outs.append("0")
    sid = {id(x): i for i, x in enumerate(syms)}
    rec = ",".join(f"{sid[id(sy)]}:{1 if o.force else 0}" for sy, o in ctx._symbol_deletions.items())
    line = "delreqs 6 1 1 1 1 0 0 " + f"{len(reqs)} " + " ".join(f"{k} {1 if f else 0}" for k, f in reqs)
    return line, "outs " + ",".join(outs) + " | recorded " + rec


class C19(Prop):
    id = "C19"
    gens = []
    prop_file = "Properties/C19.v"
    extract = ("sym", "ExtractSym.v", "sym_main.ml", "Sym_model")
    allowed_axioms = set()
    trusted_base = ["Coq 8.16.1 kernel", "hand model Sym/Delete.v of _modify/delete_symbols.py, tied by running the extracted model against "
                    "delete_symbols() on random modules with all the tables it touches", "extraction: ExtrOcamlBasic only; OCaml driver ocaml/zutil.ml + sym_main.ml",
                    "gtirb's protobuf serializer (the module is saved after every deletion; tested, not proved)"]
    assumptions = ["an absent aux table and an empty one are the same state (`if not table: return`)"]
    level_rule = ("random modules with 2-6 symbols and random elfSymbolInfo, elfSymbolTabIdxInfo, elfSymbolVersions (definitions incl. base, "
                  "requirements, entries), functionNames, PE import/export lists, symbolForwarding, CFI directives (plain, personality, LSDA) and "
                  "symbolic expressions (one or two symbols); 1-2 deletion requests with and without force")

    def cases(self, tier, tag):
        rnd = C.rng(tag)
        n = {"quick": 3000, "thorough": 20000}[tier]
        return [gen(rnd) for _ in range(n)]

    def correspondence(self, tier, ctx):
        cases = self.cases(tier, "c19")
        lines = [model_line(c) for c in cases]
        impl = [run_impl(c) for c in cases]
        self._impl = list(zip(cases, impl))
        got = C.run_driver("sym", lines)
        dis = [{"case": l, "implementation": o, "model": g} for l, (o, _), g in zip(lines, impl, got) if o != g]
        # the request layer of RewritingContext against Sym/DeleteRequests.v
        rnd = C.rng("c19-requests")
        rq = [gen_requests(rnd) for _ in range({"quick": 600, "thorough": 5000}[tier])]
        rruns = [run_requests(r) for r in rq]
        rgot = C.run_driver("sym", [l for l, _ in rruns])
        dis += [{"case": l, "implementation": o, "model": g} for (l, o), g in zip(rruns, rgot) if o != g]
        lines = lines + [l for l, _ in rruns]
        errs = sum(1 for o, _ in impl if o.startswith("err"))
        samples = [{"case": l[:200], "result": o[:200]} for l, (o, _) in list(zip(lines, impl))[:4]]
        return dict(evaluations=len(lines), distinct_nontrivial=len(set(lines)), samples=samples, disagreements=dis[:20],
                    dist={"cases": len(cases), "refused": errs, "forced_requests": sum(1 for c in cases for _, f in c["req"] if f)})

    def oracle(self, tier, ctx, boosted):
        pairs = getattr(self, "_impl", None)
        if pairs is None or boosted:
            cases = self.cases("thorough" if boosted else tier, "c19-boost")
            pairs = (pairs or []) + [(c, run_impl(c)) for c in cases]
        bads = []
        for c, (out, objs) in pairs:
            v = spec_check(c, out, objs)
            if v:
                bads.append(dict(what=v, input=c, finding=None))
        # context level: repeated delete_symbol requests with different force flags, deletions next to a modification
        from harness import ctxlevel
        rndc = C.rng("c19-ctx" + ("-boost" if boosted else ""))
        extra = 0
        for _ in range(2000 if boosted else 400):
            extra += 1
            w = ctxlevel.delete_requests(rndc)
            if w:
                bads.append(dict(what=w, input="ctxlevel.delete_requests()", finding=None))
            w = ctxlevel.retarget_and_delete(rndc)
            if w:
                bads.append(dict(what=w, input="ctxlevel.retarget_and_delete()", finding=None))
        return dict(evaluations=len(pairs) + extra, violations=bads[:10], samples=[{"oracle": "the property's clauses checked directly on the module delete_symbols() leaves; RewritingContext.delete_symbol request sequences"}])

    def replay(self, path):
        import json
        d = json.load(open(path))
        print(json.dumps(d, indent=1)[:3000])
        return 0


PROP = C19()
