"""Oracles at the level of a whole RewritingContext, for behaviour that only shows when the pieces verified in isolation are used
together: the same Patch object inserted at several places (frames, epilogues, suffixes must not leak from one insertion to the
next), a context with a DEBUG logger, the calling-convention description handed out by an ABI, repeated delete_symbol requests,
deletions and modifications in one context.  Implementation only (no model): every expectation is obtained from the implementation
*in isolation* (one fresh context, one fresh patch object, one insertion) or from the property's text."""
import dataclasses
import io
import logging
import random
import sys

import gtirb

sys.path.insert(0, "/repo/tests")


def build(rnd, isa="x64"):
    """3-4 code blocks `nop nop [call ext] ret`, each with a label; some in leaf functions, some in calling functions, some in none"""
    from gtirb_test_helpers import add_code_block, add_edge, add_proxy_block, add_symbol, add_text_section, create_test_module
    from helpers import add_function_object
    ir, m = create_test_module(gtirb.Module.FileFormat.ELF, gtirb.Module.ISA.X64)
    _, bi = add_text_section(m, address=0x1000)
    ext = add_proxy_block(m)
    extsym = add_symbol(m, "ext", ext)
    blocks, funcs, kinds = [], [], []
    for k in range(rnd.randint(3, 4)):
        calls = rnd.random() < 0.5
        data = b"\x90\x90" + (b"\xe8\0\0\0\0" if calls else b"") + b"\xc3"
        se = {(3, 4): gtirb.SymAddrConst(0, extsym)} if calls else {}
        b = add_code_block(bi, data, se)
        s_ = add_symbol(m, f"f{k}", b)
        if calls:
            add_edge(ir.cfg, b, ext, gtirb.Edge.Type.Call)
        add_edge(ir.cfg, b, add_proxy_block(m), gtirb.Edge.Type.Return)
        if rnd.random() < 0.75:
            funcs.append(add_function_object(m, s_, b))
        blocks.append(b)
        kinds.append(calls)
    return ir, m, blocks, funcs, extsym


def regions(m, nblocks):
    """bytes of the text section between consecutive block labels f0, f1, ..."""
    syms = {s.name: s for s in m.symbols}
    addrs = [syms[f"f{k}"].referent.address for k in range(nblocks)]
    bi = next(iter(m.byte_intervals))
    data = bytes(bi.contents)
    base = bi.address
    ends = addrs[1:] + [base + len(data)]
    return [data[a - base:e - base].hex() for a, e in zip(addrs, ends)]


CONSTRAINTS = [dict(clobbers_flags=True), dict(clobbers_registers={"rax", "rcx"}), dict(scratch_registers=1),
               dict(preserve_caller_saved_registers=True), dict(clobbers_flags=True, align_stack=True), dict()]


def shared_patch_insertions(rnd, call_patch=False):
    """One Patch object inserted at the start of several blocks of one context (optionally with a DEBUG logger) against the same
    insertions done one per fresh context with fresh patch objects.  Returns a violation text or None."""
    import gtirb_rewriting
    from gtirb_rewriting.patches import CallPatch
    seed = rnd.randrange(1 << 30)
    kw = rnd.choice(CONSTRAINTS)
    debug = rnd.random() < 0.4

    def make_patch(m, extsym):
        if call_patch:
            return CallPatch(extsym, args=[rnd_args[0], rnd_args[1]][:nargs], preserve_caller_saved_registers=rnd_pres)

        @gtirb_rewriting.patch_constraints(**kw)
        def patch(c, *scratch):
            return "nop"
        return gtirb_rewriting.Patch.from_function(patch)
    r0 = random.Random(seed)
    rnd_args = [r0.randrange(-5, 1 << 20), r0.randrange(0, 255)]
    nargs = r0.randint(0, 2)
    rnd_pres = r0.random() < 0.7
    ir, m, blocks, funcs, extsym = build(random.Random(seed))
    where = [k for k in range(len(blocks)) if r0.random() < 0.8] or [0]
    logger = None
    if debug:
        logger = logging.getLogger("verif-ctx")
        logger.handlers = [logging.StreamHandler(io.StringIO())]
        logger.setLevel(logging.DEBUG)
        logger.propagate = False
    was = logging.root.manager.disable
    logging.disable(logging.NOTSET)
    try:
        ctx = gtirb_rewriting.RewritingContext(m, funcs, logger=logger) if logger else gtirb_rewriting.RewritingContext(m, funcs)
        p = make_patch(m, extsym)
        for k in where:
            ctx.insert_at(blocks[k], 0, p)
        try:
            ctx.apply()
        except Exception as e:   # noqa
            return f"one patch object inserted at {len(where)} places: apply raises {type(e).__name__}: {str(e)[:80]}"
    finally:
        logging.disable(was)
    got = regions(m, len(blocks))
    for k in where:
        ir2, m2, blocks2, funcs2, extsym2 = build(random.Random(seed))
        ctx2 = gtirb_rewriting.RewritingContext(m2, funcs2)
        ctx2.insert_at(blocks2[k], 0, make_patch(m2, extsym2))
        ctx2.apply()
        want = regions(m2, len(blocks2))[k]
        if got[k] != want:
            return (f"the same patch object ({'CallPatch' if call_patch else kw}) inserted into blocks {where}"
                    f"{' with a DEBUG logger' if debug else ''}: block {k} holds {got[k]}, inserted alone it gives {want}")
    return None


def convention_is_not_shared():
    """ABI.calling_convention() hands out a description the caller may adapt: adapting it must not change what the next caller gets"""
    from gtirb_rewriting.abi import ABI
    bad = []
    for ff, isa in ((gtirb.Module.FileFormat.ELF, gtirb.Module.ISA.X64), (gtirb.Module.FileFormat.PE, gtirb.Module.ISA.X64),
                    (gtirb.Module.FileFormat.ELF, gtirb.Module.ISA.IA32), (gtirb.Module.FileFormat.PE, gtirb.Module.ISA.IA32),
                    (gtirb.Module.FileFormat.ELF, gtirb.Module.ISA.ARM64)):
        m = gtirb.Module(name="m", isa=isa, file_format=ff)
        try:
            abi = ABI.get(m)
            c1 = abi.calling_convention()
        except Exception:   # noqa
            continue
        before = dataclasses.asdict(c1)
        for f in dataclasses.fields(c1):
            v = getattr(c1, f.name)
            try:
                setattr(c1, f.name, (not v) if isinstance(v, bool) else (v + 8 if isinstance(v, int) else (tuple(reversed(v)) if isinstance(v, tuple) else v)))
            except Exception:   # noqa  (a frozen description is fine)
                pass
        after = dataclasses.asdict(ABI.get(m).calling_convention())
        if after != before:
            bad.append(f"{ff.name}/{isa.name}: calling_convention() after a caller adapted an earlier result: {after}, before {before}")
            # the description is shared: put the values back, so that the checks that run afterwards see the ABI's own convention
            for k, v in before.items():
                try:
                    setattr(c1, k, v)
                except Exception:   # noqa
                    pass
    return bad


def delete_requests(rnd):
    """delete_symbol requests (also repeated, with different force flags) together with an insertion, in one context.
    Returns a violation text or None."""
    import gtirb_rewriting
    import gtirb_rewriting._auxdata as _auxdata
    from gtirb_test_helpers import add_code_block, add_data_block, add_data_section, add_symbol, add_text_section, create_test_module
    from helpers import literal_patch
    ir, m = create_test_module(gtirb.Module.FileFormat.ELF, gtirb.Module.ISA.X64)
    _, bi = add_text_section(m, address=0x1000)
    _, dbi = add_data_section(m, address=0x4000)
    d = add_data_block(dbi, b"\0" * 8)
    used = add_symbol(m, "used", d)          # named by an instruction
    pers = add_symbol(m, "pers", d)          # named by .cfi_personality only
    free = add_symbol(m, "free", d)          # named by nothing
    a = add_code_block(bi, b"\x90\x90\xc3")           # block with no CFI of its own, in front
    b = add_code_block(bi, b"\x48\x8d\x05\0\0\0\0\xc3", {(3, 4): gtirb.SymAddrConst(0, used)})
    add_symbol(m, "a", a)
    add_symbol(m, "b", b)
    tab = _auxdata.cfi_directives.get_or_insert(m)
    if rnd.random() < 0.5:
        # the first entry of the table sits behind the place where a patch may go
        tab[gtirb.Offset(a, 2)] = [(".cfi_undefined", [3], _auxdata.NULL_UUID)]
    cfi_block = a if rnd.random() < 0.5 else b
    tab[gtirb.Offset(cfi_block, 0)] = [(".cfi_startproc", [], _auxdata.NULL_UUID), (".cfi_personality", [0x9b], pers)]
    tab[gtirb.Offset(b, 8)] = [(".cfi_endproc", [], _auxdata.NULL_UUID)]
    ctx = gtirb_rewriting.RewritingContext(m, [])
    if rnd.random() < 0.7:
        blk = rnd.choice((a, b))
        ctx.insert_at(blk, rnd.choice((0, 1)) if blk is a else 0, literal_patch(rnd.choice(("nop", "nop\n.L_x:"))))
        # ... and more of them, also where directives sit (the end of the procedure, the place of .cfi_undefined): the blocks are
        # split there and the modify layer moves directives between the per-block dictionaries the table hands out
        for k_ in range(rnd.choice((0, 0, 1, 2, 3))):
            blk2, off2 = rnd.choice(((a, 2), (a, 3), (b, 7), (b, 8), (b, 8)))
            if (blk2 is blk) and off2 in (0, 1):
                continue
            ctx.insert_at(blk2, off2, literal_patch(rnd.choice(("nop", f"nop\n.L_y{k_}:\nnop", f".L_z{k_}:\nnop"))))
    reqs = []
    for s_ in (used, pers, free):
        for _ in range(rnd.choice((0, 1, 1, 2))):
            f = rnd.random() < 0.5
            reqs.append((s_, f))
    rnd.shuffle(reqs)
    for s_, f in reqs:
        ctx.delete_symbol(s_, force=f)
    eff = {}
    for s_, f in reqs:
        eff[s_.name] = eff.get(s_.name, True) and f
    must_raise = "used" in eff and not eff["used"]
    try:
        ctx.apply()
        raised = None
    except Exception as e:   # noqa
        raised = type(e).__name__
    desc = [(s_.name, f) for s_, f in reqs]
    if must_raise:
        if raised != "SymbolUsesRemainingError":
            return f"requests {desc}: `used` still has a use and one of its requests is not forced, apply() gives {raised or 'no error'}"
        return None
    if raised:
        return f"requests {desc}: nothing unforced is in use, apply() raises {raised}"
    names = {s_.name for s_ in m.symbols}
    for n in eff:
        if n in names:
            return f"requests {desc}: {n} is still in the module"
    gone = {s_ for s_, _ in reqs}
    for bi_ in m.byte_intervals:
        for off, e in bi_.symbolic_expressions.items():
            if any(sy in gone for sy in e.symbols):
                return f"requests {desc}: an expression still names a deleted symbol"
    for off, ds in _auxdata.cfi_directives.get(m).items():
        for (dn, args, sy) in ds:
            if sy in gone:
                return f"requests {desc}: {dn} still names the deleted symbol {sy.name}"
    return None


# ------------------------------------------------------------------------------------ C01 on every fixed- and variable-width ISA
LISTING_ISAS = {
    # nop, body instruction, terminators (bytes, symbolic operand offset or None, edges), marker patches (text, bytes)
    "X64": dict(nop=b"\x90", body=b"\x90", call=(b"\xe8\0\0\0\0", 1), jmp=(b"\xe9\0\0\0\0", 1), jcc=(b"\x0f\x85\0\0\0\0", 2), ret=b"\xc3",
                marks=[("push %rax", b"\x50"), ("push %rcx", b"\x51"), ("push %rdx", b"\x52"), ("push %rbx\npush %rbx", b"\x53\x53")], big=False),
    "ARM64": dict(nop=b"\x1f\x20\x03\xd5", body=b"\x1f\x20\x03\xd5", call=(b"\x00\x00\x00\x94", 0), jmp=(b"\x00\x00\x00\x14", 0), jcc=(b"\x01\x00\x00\x54", 0),
                  ret=b"\xc0\x03\x5f\xd6", marks=[("mov x1, x1", b"\xe1\x03\x01\xaa"), ("mov x2, x2", b"\xe2\x03\x02\xaa"), ("mov x3, x3", b"\xe3\x03\x03\xaa"),
                                                     ("mov x4, x4\nmov x4, x4", b"\xe4\x03\x04\xaa" * 2)], big=False),
    "MIPS32": dict(nop=b"\0\0\0\0", body=b"\0\0\0\0", call=None, jmp=None, jcc=None, ret=None,
                   marks=[("move $9, $9", b"\x01\x20\x48\x25"), ("move $10, $10", b"\x01\x40\x50\x25"), ("move $11, $11", b"\x01\x60\x58\x25"),
                          ("move $12, $12\nmove $12, $12", b"\x01\x80\x60\x25" * 2)], big=True),
}


def scoped_listing(rnd, validate=None):
    """A module of 2-4 code blocks (x86-64, AArch64, MIPS32), some with alignment requirements; 1-4 registrations: insert_at at an
    instruction boundary, SingleBlockScope / AllBlocksScope at ENTRY or EXIT.  The text section afterwards must be the listing edit
    -- ENTRY at offset 0, EXIT in front of the instruction that ends a block with a control transfer, several patches at one place in
    registration order -- plus whole nops in front of a block with an alignment entry.  Returns a violation text or None."""
    import gtirb_rewriting
    from gtirb_rewriting import AllBlocksScope, BlockPosition, SingleBlockScope
    from gtirb_test_helpers import add_code_block, add_edge, add_proxy_block, add_symbol, add_text_section, create_test_module
    from helpers import literal_patch
    isa = rnd.choice(["X64", "X64", "ARM64", "ARM64", "MIPS32"])
    T = LISTING_ISAS[isa]
    ir, m = create_test_module(gtirb.Module.FileFormat.ELF, getattr(gtirb.Module.ISA, isa))
    if T["big"]:
        m.byte_order = gtirb.Module.ByteOrder.Big
    _, bi = add_text_section(m, address=0x1000)
    ext = add_proxy_block(m)
    extsym = add_symbol(m, "ext", ext)
    nb = rnd.randint(2, 4)
    kinds = [rnd.choice(["fall", "call", "jmp", "jcc", "ret"] if T["ret"] else ["fall"]) for _ in range(nb)]
    if T["ret"]:
        kinds[-1] = rnd.choice(["ret", "jmp"])
    blocks, insns = [], []
    for k, kind in enumerate(kinds):
        sizes = [len(T["body"])] * rnd.randint(1, 3)
        data, se = T["body"] * len(sizes), {}
        if kind in ("call", "jmp", "jcc"):
            enc, eo = T[kind]
            se[(len(data) + eo, 4)] = gtirb.SymAddrConst(0, extsym)
            data += enc
            sizes.append(len(enc))
        elif kind == "ret":
            data += T["ret"]
            sizes.append(len(T["ret"]))
        b = add_code_block(bi, data, se)
        add_symbol(m, f"b{k}", b)
        blocks.append(b)
        insns.append(sizes)
    for k, kind in enumerate(kinds):
        nxt = blocks[k + 1] if k + 1 < nb else None
        if kind in ("fall", "call", "jcc") and nxt is not None:
            add_edge(ir.cfg, blocks[k], nxt, gtirb.Edge.Type.Fallthrough)
        if kind == "call":
            add_edge(ir.cfg, blocks[k], ext, gtirb.Edge.Type.Call)
        elif kind in ("jmp", "jcc"):
            add_edge(ir.cfg, blocks[k], ext, gtirb.Edge.Type.Branch, conditional=(kind == "jcc"))
        elif kind == "ret":
            add_edge(ir.cfg, blocks[k], add_proxy_block(m), gtirb.Edge.Type.Return)
    align = {}
    for k in range(1, nb):
        if rnd.random() < 0.4:
            align[k] = rnd.choice([8, 16])
            m.aux_data["alignment"].data[blocks[k]] = align[k]
    original = [bytes(b.contents) for b in blocks]
    # only alignment requirements that hold in the input make sense: pad the input?  No: an entry that does not hold yet is a
    # requirement all the same -- the rewrite has to establish it.
    isz = 1 if isa == "X64" else 4                      # every marker instruction has this size
    # a second RewritingContext over the rewritten module (only without alignment entries: padding would change what a block holds)
    rounds = 2 if not align and validate is None and rnd.random() < 0.35 else 1
    history = []
    for round_no in range(rounds):
        ctx = gtirb_rewriting.RewritingContext(m, [])
        plan = {k: [] for k in range(nb)}          # block -> [(offset, registration number, bytes)]
        desc = []
        for reg in range(rnd.randint(1, 4)):
            text, code = rnd.choice(T["marks"])
            how = rnd.choice(["at", "single", "all"])
            term = lambda k: kinds[k] in ("call", "jmp", "jcc", "ret")     # noqa
            exit_off = lambda k: sum(insns[k][:-1]) if term(k) else sum(insns[k])   # noqa
            if how == "at":
                k = rnd.randrange(nb)
                off = sum(insns[k][:rnd.randint(0, len(insns[k]))])
                ctx.insert_at(blocks[k], off, literal_patch(text))
                plan[k].append((off, reg, code))
                desc.append(f"insert_at(b{k}, {off})")
            else:
                pos = rnd.choice(["ENTRY", "EXIT"])
                ks = [rnd.randrange(nb)] if how == "single" else list(range(nb))
                scope = SingleBlockScope(blocks[ks[0]], getattr(BlockPosition, pos)) if how == "single" else AllBlocksScope(getattr(BlockPosition, pos))
                if how == "all" and rnd.random() < 0.4:
                    # ONE patch object whose text depends on the place it is asked for: block k gets marker (k + shift) mod n
                    shift = rnd.randrange(len(T["marks"]))

                    @gtirb_rewriting.patch_constraints()
                    def by_place(c, _shift=shift):
                        k = next(j for j, x in enumerate(blocks) if x is c.block)
                        return T["marks"][(k + _shift) % len(T["marks"])][0]
                    ctx.register_insert(scope, gtirb_rewriting.Patch.from_function(by_place))
                    for k in ks:
                        plan[k].append((0 if pos == "ENTRY" else exit_off(k), reg, T["marks"][(k + shift) % len(T["marks"])][1]))
                    desc.append(f"register_insert(AllBlocksScope({pos}), one patch whose text depends on the block)")
                    continue
                ctx.register_insert(scope, literal_patch(text))
                for k in ks:
                    plan[k].append((0 if pos == "ENTRY" else exit_off(k), reg, code))
                desc.append(f"register_insert({'SingleBlockScope(b%d' % ks[0] if how == 'single' else 'AllBlocksScope('}{', ' if how == 'single' else ''}{pos}))")
        history.append(desc)
        try:
            ctx.apply()
        except Exception as e:    # noqa
            return f"{isa}: blocks {kinds}, contexts {history}: apply raises {type(e).__name__}: {str(e)[:100]}"
        if validate is not None:
            w = validate(ir, m)
            if w:
                return f"{isa}: blocks {kinds}, alignment {align}, registrations {desc}: {w}"
            return None
        want, stream = b"", []                    # stream: (size, is the instruction that ends an input block with a control transfer)
        for k in range(nb):
            edited, cur = b"", 0
            bounds = [0]
            for z in insns[k]:
                bounds.append(bounds[-1] + z)
            ordered = sorted(plan[k])
            for bi_, bnd in enumerate(bounds):
                for off, _, code in ordered:
                    if off == bnd:
                        stream += [(isz, False)] * (len(code) // isz)
                if bi_ < len(insns[k]):
                    stream.append((insns[k][bi_], term(k) and bi_ == len(insns[k]) - 1))
            for off, _, code in ordered:
                edited += original[k][cur:off] + code
                cur = off
            edited += original[k][cur:]
            if k in align:
                pad = (-(0x1000 + len(want))) % align[k]
                if pad % len(T["nop"]):
                    return None          # (cannot happen with these sizes on the fixed-width ISAs)
                want += T["nop"] * (pad // len(T["nop"]))
            want += edited
        got = b"".join(bytes(x.contents) for x in sorted(m.byte_intervals, key=lambda x: x.address or 0) if x.section.name == ".text")
        if got != want:
            return (f"{isa}: blocks {[(kd, len(o)) for kd, o in zip(kinds, original)]}, alignment {align}, contexts {history}: the text section is "
                    f"{got.hex()}, the listing edit with nop padding is {want.hex()}")
        # the next context edits what this one left: the code blocks the module has now, each a run of whole instructions of the stream
        if round_no + 1 < rounds:
            pieces = sorted(m.code_blocks, key=lambda x: x.address)
            if any(x.size == 0 for x in pieces) or sum(x.size for x in pieces) != len(want):
                return None
            blocks, original, insns, kinds, pos_ = [], [], [], [], 0
            it = iter(stream)
            for x in pieces:
                if x.address != 0x1000 + pos_:
                    return None
                sizes, flags, have = [], [], 0
                while have < x.size:
                    z, f = next(it)
                    sizes.append(z)
                    flags.append(f)
                    have += z
                if have != x.size:
                    return None          # a block boundary inside an instruction: not a case for this oracle
                blocks.append(x)
                original.append(bytes(x.contents))
                insns.append(sizes)
                kinds.append("jmp" if flags[-1] else "fall")
                pos_ += x.size
            nb = len(blocks)
    return None


# ------------------------------------------------------------------------------------ patches with symbolic operands on every target
def patch_expressions(rnd):
    """A patch of 1-3 instructions with symbolic operands (the per-target vocabulary of harness/asmmt.py: wrappers, addends, GOT / PLT
    forms) inserted through a RewritingContext in front of a block: afterwards each operand's expression sits at its byte of the
    text section, names the module's symbol, keeps addend and attributes (and, on x86, its size entry).  Returns a violation or None."""
    import gtirb_rewriting
    from gtirb_rewriting.assembly import X86Syntax
    from harness import asmmt
    # the targets a RewritingContext exists for, with one syntax per patch
    target = rnd.choice([t for t, g in asmmt.TARGETS.items() if g.get("abi", True) and g["intel"] is not None])
    tg = asmmt.TARGETS[target]
    pie = rnd.random() < 0.5
    m, msyms = asmmt.make_module(target, pie)
    refs = [v for v in asmmt.VOCAB[target] if v["kind"] == "ref" and "{t}" in v["line"]]
    if tg["x86"]:
        # direct transfers as well: on a position-independent ELF module a call or jump to a symbol of a proxy is given the PLT attribute,
        # a plain reference to the same symbol in the same patch is not
        refs = refs + [v for v in asmmt.VOCAB[target] if v["kind"] in ("call", "jmp", "jcc") and "{t}" in v["line"]]
    items = []
    for _ in range(rnd.randint(1, 3)):
        v = dict(rnd.choice(refs))
        v["sym"] = rnd.choice(["ext", "extp", "dat"] if v["kind"] == "ref" else ["ext", "extp"])      # a transfer to data is refused
        v["line"] = v["line"].replace("{t}", v["sym"])
        items.append(v)
    text = "\n".join(v["line"] for v in items)

    @gtirb_rewriting.patch_constraints(x86_syntax=X86Syntax.INTEL if tg["intel"] else X86Syntax.ATT)
    def patch(c):
        return text
    cb = msyms["ext"].referent
    base = cb.address
    ctx = gtirb_rewriting.RewritingContext(m, [])
    ctx.insert_at(cb, 0, gtirb_rewriting.Patch.from_function(patch))
    try:
        ctx.apply()
    except Exception as e:    # noqa
        return f"{target}: inserting `{text}` raises {type(e).__name__}: {str(e)[:80]}"
    exprs, sizes = {}, {}
    for bi in m.byte_intervals:
        for off, e in bi.symbolic_expressions.items():
            exprs[bi.address + off] = e
    tab = m.aux_data.get("symbolicExpressionSizes")
    for o, z in (tab.data.items() if tab is not None else ()):
        if isinstance(o.element_id, gtirb.ByteInterval) and o.element_id.address is not None:
            sizes[o.element_id.address + o.displacement] = z
    pos = base
    want_at = set()
    for v in items:
        a = pos + v["opoff"]
        want_at.add(a)
        e = exprs.get(a)
        if e is None:
            return f"{target}: `{v['line']}` (in the patch `{text}`): no symbolic expression at {a:#x}; expressions at {sorted(hex(x) for x in exprs)}"
        if not isinstance(e, gtirb.SymAddrConst) or e.symbol is not msyms[v["sym"]]:
            return f"{target}: `{v['line']}`: the expression at {a:#x} does not name the module's symbol {v['sym']}"
        if e.offset != v["addend"]:
            return f"{target}: `{v['line']}`: addend {e.offset}, expected {v['addend']}"
        want_attrs = set(v["attrs"])
        if tg["x86"] and tg["fmt"] == "ELF" and pie and v["kind"] in ("call", "jmp", "jcc") and isinstance(msyms[v["sym"]].referent, gtirb.ProxyBlock):
            want_attrs = want_attrs | {"PLT"}
        if {x.name for x in e.attributes} != want_attrs:
            return f"{target}: `{v['line']}` (in the patch `{text}`): attributes {sorted(x.name for x in e.attributes)}, expected {sorted(want_attrs)}"
        if v.get("opsize") is not None and sizes.get(a) != v["opsize"]:
            return f"{target}: `{v['line']}`: symbolicExpressionSizes has {sizes.get(a)} at {a:#x}, expected {v['opsize']}"
        pos += v["size"]
    extra = [a for a in exprs if base <= a < pos and a not in want_at]
    if extra:
        return f"{target}: patch `{text}`: unexpected expressions at {[hex(a) for a in extra]}"
    stray = [a for a in sizes if a not in exprs]
    if stray:
        return f"{target}: patch `{text}`: symbolicExpressionSizes entries at {[hex(a) for a in stray]} where no expression is"
    return None


# ------------------------------------------------------------------------------------ extern symbols: one symbol per name
def extern_symbols(rnd):
    """get_or_insert_extern_symbol binds a name to the module's symbol of that name -- also to one that came into the module after an
    earlier request, by another route (added to the module directly, or the name of a function registered with
    register_insert_function) -- and otherwise creates exactly one proxy-backed symbol; a patch that calls the name afterwards names that
    symbol.  Returns a violation text or None."""
    import gtirb_rewriting
    from gtirb_test_helpers import add_code_block, add_proxy_block, add_symbol, add_text_section, create_test_module
    from helpers import literal_patch
    ff = rnd.choice([gtirb.Module.FileFormat.ELF, gtirb.Module.FileFormat.PE])
    ir, m = create_test_module(ff, gtirb.Module.ISA.X64)
    _, bi = add_text_section(m, address=0x1000)
    b = add_code_block(bi, b"\x90\x90\xc3")
    add_symbol(m, "start", b)
    ctx = gtirb_rewriting.RewritingContext(m, [])
    names = ["puts", "hook", "helper"]
    got, ops = {}, []
    for _ in range(rnd.randint(3, 7)):
        n = rnd.choice(names)
        k = rnd.random()
        if k < 0.6:
            try:
                s = ctx.get_or_insert_extern_symbol(n, "libx.so")
            except Exception as e:    # noqa
                return f"{ff.name}: {ops} then get_or_insert_extern_symbol({n}) raises {type(e).__name__}"
            ops.append(f"get({n})")
            named = [x for x in m.symbols if x.name == n]
            if len(named) != 1:
                return f"{ff.name}: after {ops} the module has {len(named)} symbols named {n}"
            if named[0] is not s:
                return f"{ff.name}: after {ops} get_or_insert_extern_symbol({n}) returned a symbol that is not the module's symbol of that name"
            if n in got and got[n] is not s:
                return f"{ff.name}: after {ops} a repeated request for {n} returned another symbol"
            got[n] = s
        elif k < 0.85:
            if not any(x.name == n for x in m.symbols):
                got[n] = add_symbol(m, n, add_proxy_block(m))
                ops.append(f"add_symbol({n})")
        else:
            if not any(x.name == n for x in m.symbols) and n not in [o[9:-1] for o in ops if o.startswith("function(")]:
                ctx.register_insert_function(n, literal_patch("ret"))
                ops.append(f"function({n})")
    target = rnd.choice(names)
    if not any(x.name == target for x in m.symbols) and f"function({target})" not in ops:
        return None
    ctx.insert_at(b, 0, literal_patch(f"call {target}"))
    try:
        ctx.apply()
    except Exception as e:    # noqa
        return f"{ff.name}: {ops} then a patch `call {target}`: apply raises {type(e).__name__}: {str(e)[:80]}"
    named = [x for x in m.symbols if x.name == target]
    if len(named) != 1:
        return f"{ff.name}: after {ops} and a rewrite the module has {len(named)} symbols named {target}"
    for iv in m.byte_intervals:
        for off, e in iv.symbolic_expressions.items():
            for sy in e.symbols:
                if sy.name == target and sy is not named[0]:
                    return f"{ff.name}: after {ops} the patch `call {target}` names a symbol that is not the module's symbol {target}"
    return None


# ------------------------------------------------------------------------------------ tables that name single blocks (PE, ELF dynamic)
def block_tables(rnd):
    """peSafeExceptionHandlers / elfDynamicInit / elfDynamicFini / the entry point name single code blocks.  Blocks are deleted (with
    and without retarget_to_proxy): afterwards no table names a block that left the module, the mark of a deleted block has moved to
    the code block that follows it (none with retarget_to_proxy or when data or nothing follows), and the module serializes.
    Returns a violation text or None."""
    import io

    import gtirb_rewriting
    from gtirb_rewriting import _auxdata
    from gtirb_test_helpers import add_code_block, add_data_block, add_symbol, add_text_section, create_test_module
    pe = rnd.random() < 0.5
    ir, m = create_test_module(gtirb.Module.FileFormat.PE if pe else gtirb.Module.FileFormat.ELF,
                               rnd.choice([gtirb.Module.ISA.IA32, gtirb.Module.ISA.X64]) if pe else gtirb.Module.ISA.X64)
    _, bi = add_text_section(m, address=0x1000)
    kinds = [rnd.choice("cccd") for _ in range(rnd.randint(3, 5))]
    kinds[0] = "c"
    blocks = [add_code_block(bi, b"\x90\xc3") if k == "c" else add_data_block(bi, b"\x01\x02") for k in kinds]
    for k, b in enumerate(blocks):
        add_symbol(m, f"b{k}", b)
    code = [k for k, kd in enumerate(kinds) if kd == "c"]
    marks = {}
    if pe:
        safe = {k for k in code if rnd.random() < 0.6}
        _auxdata.pe_safe_exception_handlers.set(m, {blocks[k] for k in safe})
        marks["seh"] = safe
    else:
        if rnd.random() < 0.7:
            k = rnd.choice(code)
            _auxdata.elf_dynamic_init.set(m, blocks[k])
            marks["init"] = k
        if rnd.random() < 0.7:
            k = rnd.choice(code)
            _auxdata.elf_dynamic_fini.set(m, blocks[k])
            marks["fini"] = k
    if rnd.random() < 0.5:
        marks["entry"] = rnd.choice(code)
        m.entry_point = blocks[marks["entry"]]
    victims = {k: rnd.random() < 0.4 for k in rnd.sample(code, rnd.randint(1, min(2, len(code))))}
    # consecutive victims make the hand-over chain: keep the expectation simple
    if any(k + 1 in victims for k in victims):
        return None
    # not judged: deleting the DT_INIT / DT_FINI block in front of data (or of nothing) without retarget_to_proxy -- the library asserts that
    # a code block follows (observation in DESIGN.md)
    for name in ("init", "fini"):
        k = marks.get(name)
        if k in victims and not victims[k] and (k + 1 >= len(blocks) or kinds[k + 1] != "c"):
            return None
    ctx = gtirb_rewriting.RewritingContext(m, [])
    for k, to_proxy in victims.items():
        ctx.delete_at(blocks[k], 0, blocks[k].size, retarget_to_proxy=to_proxy)
    try:
        ctx.apply()
    except Exception as e:    # noqa
        return f"{'PE' if pe else 'ELF'} blocks {kinds}, marks {marks}, deleting {victims}: apply raises {type(e).__name__}"
    live = {id(b) for b in m.byte_blocks}
    gone = {k for k in victims if id(blocks[k]) not in live or blocks[k].size == 0}

    def heir(k):
        """the block a mark of deleted block k goes to: the next block when it is code and the deletion was not to a proxy"""
        if victims[k] or k + 1 >= len(blocks) or kinds[k + 1] != "c":
            return None
        return k + 1
    desc = f"{'PE' if pe else 'ELF'} blocks {kinds}, marks {marks}, deleting {victims}"
    if pe:
        tab = _auxdata.pe_safe_exception_handlers.get(m) or set()
        for b in tab:
            if id(b) not in live:
                return f"{desc}: peSafeExceptionHandlers names a block that is no longer in the module"
        want = set()
        for k in marks["seh"]:
            if k in victims and id(blocks[k]) not in live:
                if heir(k) is not None:
                    want.add(heir(k))
            else:
                want.add(k)
        got = {k for k, b in enumerate(blocks) if any(b is x for x in tab)}
        if got != want:
            return f"{desc}: peSafeExceptionHandlers marks blocks {sorted(got)}, expected {sorted(want)}"
    for name, acc in (("init", _auxdata.elf_dynamic_init), ("fini", _auxdata.elf_dynamic_fini)):
        if name in marks:
            k = marks[name]
            cur = acc.get(m)
            if cur is not None and id(cur) not in live:
                return f"{desc}: {acc.name if hasattr(acc, 'name') else name} names a block that is no longer in the module"
            if k in victims and id(blocks[k]) not in live:
                w = heir(k)
                if (cur is None) != (w is None) or (w is not None and cur is not blocks[w]):
                    return f"{desc}: elfDynamic{name.capitalize()} is {'block %d' % blocks.index(cur) if cur in blocks else cur}, expected {'block %d' % w if w is not None else 'no entry'}"
            elif cur is not blocks[k]:
                return f"{desc}: elfDynamic{name.capitalize()} moved although its block was not deleted"
    if "entry" in marks:
        k = marks["entry"]
        cur = m.entry_point
        if cur is not None and id(cur) not in live:
            return f"{desc}: the entry point is a block that is no longer in the module"
        if k in victims and id(blocks[k]) not in live:
            w = heir(k)
            if (cur is None) != (w is None) or (w is not None and cur is not blocks[w]):
                return f"{desc}: the entry point is not the expected block"
    try:
        buf = io.BytesIO()
        ir.save_protobuf_file(buf)
        buf.seek(0)
        gtirb.IR.load_protobuf_file(buf)
    except Exception as e:    # noqa
        return f"{desc}: the module does not survive a protobuf round trip ({type(e).__name__}: {str(e)[:80]})"
    return None


def retarget_and_delete(rnd):
    """The usual way to replace a symbol: retarget_symbol_uses(old, new) and delete_symbol(old) in one context.  After apply() the old
    symbol is gone and every former mention -- instruction operand, data word, CFI personality, symbolForwarding value -- names the
    new symbol; nothing is dropped, and no SymbolUsesRemainingError is raised (no use remains once the retarget is done).
    Returns a violation text or None."""
    import gtirb_rewriting
    import gtirb_rewriting._auxdata as _auxdata
    from gtirb_test_helpers import add_code_block, add_data_block, add_data_section, add_symbol, add_text_section, create_test_module
    ir, m = create_test_module(gtirb.Module.FileFormat.ELF, gtirb.Module.ISA.X64)
    _, bi = add_text_section(m, address=0x1000)
    _, dbi = add_data_section(m, address=0x4000)
    d1 = add_data_block(dbi, b"\0" * 8)
    d2 = add_data_block(dbi, b"\0" * 8)
    old = add_symbol(m, "old", d1)
    new = add_symbol(m, "new", d2)
    uses = {k: rnd.random() < 0.6 for k in ("insn", "word", "cfi", "fwd")}
    if not any(uses.values()):
        uses["insn"] = True
    code = add_code_block(bi, b"\x48\x8d\x05\0\0\0\0\xc3", {(3, 4): gtirb.SymAddrConst(0, old if uses["insn"] else new)})
    add_symbol(m, "f", code)
    word = add_data_block(dbi, b"\0" * 8, {(0, 8): gtirb.SymAddrConst(4, old if uses["word"] else new)})
    tab = _auxdata.cfi_directives.get_or_insert(m)
    tab[gtirb.Offset(code, 0)] = [(".cfi_startproc", [], _auxdata.NULL_UUID), (".cfi_personality", [0x9b], old if uses["cfi"] else new)]
    tab[gtirb.Offset(code, 8)] = [(".cfi_endproc", [], _auxdata.NULL_UUID)]
    alias = add_symbol(m, "alias")
    _auxdata.symbol_forwarding.get_or_insert(m)[alias] = old if uses["fwd"] else new
    force = rnd.random() < 0.5
    ctx = gtirb_rewriting.RewritingContext(m, [])
    if rnd.random() < 0.5:
        ctx.retarget_symbol_uses(old, new)
        ctx.delete_symbol(old, force=force)
    else:
        ctx.delete_symbol(old, force=force)
        ctx.retarget_symbol_uses(old, new)
    desc = f"old used by {sorted(k for k, v in uses.items() if v)}, retarget_symbol_uses(old, new) and delete_symbol(old, force={force}) in one context"
    try:
        ctx.apply()
    except Exception as e:    # noqa
        return f"{desc}: apply raises {type(e).__name__}"
    if any(s.name == "old" for s in m.symbols):
        return f"{desc}: old is still in the module"
    exprs = {}
    for x in m.byte_intervals:
        for off, e in x.symbolic_expressions.items():
            exprs[x.address + off] = e
    e1, e2 = exprs.get(code.address + 3), exprs.get(word.address)
    if e1 is None or e1.symbol is not new or e1.offset != 0:
        return f"{desc}: the instruction operand is {None if e1 is None else e1.symbol.name}, expected new"
    if e2 is None or e2.symbol is not new or e2.offset != 4:
        return f"{desc}: the data word is {None if e2 is None else (e2.symbol.name, e2.offset)}, expected new+4"
    pers = [d for ds in _auxdata.cfi_directives.get(m).values() for d in ds if d[0] == ".cfi_personality"]
    if len(pers) != 1 or pers[0][2] is not new or pers[0][1] != [0x9b]:
        return f"{desc}: the personality directive is {[(d[1], getattr(d[2], 'name', d[2])) for d in pers]}, expected [0x9b] new"
    fw = _auxdata.symbol_forwarding.get(m) or {}
    if fw.get(alias) is not new:
        return f"{desc}: symbolForwarding[alias] is {getattr(fw.get(alias), 'name', fw.get(alias))}, expected new"
    return None


def labels_across_contexts(rnd):
    """The same patch (a loop around a temporary label) inserted in one RewritingContext after another over ONE module, one to three
    places each time: afterwards no two symbols of the module share a name, and the branch of every copy leads to the label of its
    own copy.  Returns a violation text or None."""
    import gtirb_rewriting
    from gtirb_test_helpers import add_code_block, add_symbol, add_text_section, create_test_module
    from helpers import literal_patch
    isa = rnd.choice(["X64", "ARM64"])
    nop, ret, text = {"X64": (b"\x90", b"\xc3", ".Lagain:\nnop\njne .Lagain"),
                      "ARM64": (b"\x1f\x20\x03\xd5", b"\xc0\x03\x5f\xd6", ".Lagain:\nnop\nb.ne .Lagain")}[isa]
    ir, m = create_test_module(gtirb.Module.FileFormat.ELF, getattr(gtirb.Module.ISA, isa))
    _, bi = add_text_section(m, address=0x1000)
    blocks = [add_code_block(bi, nop * 2 + ret) for _ in range(4)]
    for k, b in enumerate(blocks):
        add_symbol(m, rnd.choice([f"fn{k}", f"blk_{k}", f"part_{k}_0"]), b)      # names that end in digits are ordinary names
    rounds = rnd.randint(2, 3)
    for r_ in range(rounds):
        ctx = gtirb_rewriting.RewritingContext(m, [])
        for b in rnd.sample(blocks, rnd.randint(1, 3)):
            ctx.insert_at(b, 0, literal_patch(text))
        try:
            ctx.apply()
        except Exception as e:   # noqa
            return f"{isa}: context {r_ + 1} of {rounds} over one module, the same patch with a temporary label: apply raises {type(e).__name__}: {str(e)[:80]}"
    names = {}
    for s_ in m.symbols:
        names[s_.name] = names.get(s_.name, 0) + 1
    dup = sorted(n for n, c in names.items() if c > 1)
    if dup:
        return f"{isa}: {rounds} contexts over one module, the same patch with a temporary label: {dup} name {[names[n] for n in dup]} symbols each"
    return None


def retarget_and_delete_block(rnd):
    """retarget_symbol_uses(A, B) in a context that also deletes code: the whole block A labels, the whole block B labels, or an
    unrelated one.  The retarget is decided on the module as it was handed over (A and B both label code there), so afterwards the call
    operand names B with the attributes of a reference to B, the call edge leads to the block B labels NOW (B's label slides to the
    next block when its own goes), and A's label is wherever the deletion left it.  Returns a violation text or None."""
    import gtirb_rewriting
    from gtirb_test_helpers import add_code_block, add_edge, add_proxy_block, add_symbol, add_text_section, create_test_module
    pie = rnd.random() < 0.5
    ir, m = create_test_module(gtirb.Module.FileFormat.ELF, gtirb.Module.ISA.X64, ["DYN"] if pie else ["EXEC"])
    _, bi = add_text_section(m, address=0x1000)
    A = add_symbol(m, "A")
    B = add_symbol(m, "B")
    c = add_code_block(bi, b"\xe8\0\0\0\0", {(1, 4): gtirb.SymAddrConst(0, A)})
    after = add_code_block(bi, b"\x90\xc3")
    a = add_code_block(bi, b"\x90\x90\xc3")
    a2 = add_code_block(bi, b"\x90\xc3")
    b = add_code_block(bi, b"\x90\xc3")
    b2 = add_code_block(bi, b"\x90\x90\x90\xc3")
    other = add_code_block(bi, b"\x90\xc3")
    A.referent, B.referent = a, b
    for k, blk in (("c", c), ("after", after), ("a2", a2), ("b2", b2), ("other", other)):
        add_symbol(m, k, blk)
    add_edge(ir.cfg, c, a, gtirb.Edge.Type.Call)
    add_edge(ir.cfg, c, after, gtirb.Edge.Type.Fallthrough)
    for blk in (after, a, a2, b, b2, other):
        add_edge(ir.cfg, blk, add_proxy_block(m), gtirb.Edge.Type.Return)
    which = rnd.choice(["a", "b", "other", "none"])
    ctx = gtirb_rewriting.RewritingContext(m, [])
    order = rnd.random() < 0.5
    if order:
        ctx.retarget_symbol_uses(A, B)
    if which != "none":
        blk = {"a": a, "b": b, "other": other}[which]
        ctx.delete_at(blk, 0, blk.size)
    if not order:
        ctx.retarget_symbol_uses(A, B)
    desc = f"call A; retarget_symbol_uses(A, B) and deletion of the whole block of `{which}` in one context ({'PIE' if pie else 'non-PIE'})"
    try:
        ctx.apply()
    except Exception as e:    # noqa
        return f"{desc}: apply raises {type(e).__name__}: {str(e)[:80]}"
    exprs = {}
    for x in m.byte_intervals:
        for off, e in x.symbolic_expressions.items():
            exprs[x.address + off] = e
    e1 = exprs.get(c.address + 1)
    if e1 is None or not isinstance(e1, gtirb.SymAddrConst) or e1.symbol is not B or e1.offset != 0:
        return f"{desc}: the call operand is {None if e1 is None else getattr(e1.symbol, 'name', e1)}, expected B"
    if {x.name for x in e1.attributes}:
        return f"{desc}: the operand of a call to code of the module carries {sorted(x.name for x in e1.attributes)}"
    want = b2 if which == "b" else b
    if B.referent is not want:
        return f"{desc}: B labels {getattr(B.referent, 'address', B.referent)}, expected the block at {want.address:#x}"
    calls = [e for e in ir.cfg.out_edges(c) if e.label.type == gtirb.Edge.Type.Call]
    if len(calls) != 1 or calls[0].target is not want:
        return f"{desc}: the call edge leads to {[getattr(e.target, 'address', 'proxy') for e in calls]}, B is at {want.address:#x}"
    return None


# ------------------------------------------------------------------------------------ control flow of patches on x86-64 and AArch64
def patch_control_flow(rnd):
    """A direct call to a function of the module, or straight-line code with an alignment directive in its middle, inserted at an
    instruction boundary of a block `nop nop nop ret`: the call ends its block with a direct Call edge to the function's entry and
    a fallthrough, the function's ret returns behind the call, and every piece of the edited block falls through to the next one up
    to the ret.  Returns a violation text or None."""
    import gtirb_functions
    import gtirb_rewriting
    from gtirb_test_helpers import add_code_block, add_edge, add_function, add_proxy_block, add_symbol, add_text_section, create_test_module
    from helpers import literal_patch
    isa = rnd.choice(["X64", "ARM64"])
    nop, ret, call = {"X64": (b"\x90", b"\xc3", "call f"), "ARM64": (b"\x1f\x20\x03\xd5", b"\xc0\x03\x5f\xd6", "bl f")}[isa]
    ir, m = create_test_module(gtirb.Module.FileFormat.ELF, getattr(gtirb.Module.ISA, isa))
    _, bi = add_text_section(m, address=0x1000)
    f0 = add_code_block(bi, nop * (3 if isa == "X64" else 1) + ret)       # x86-64: 4 bytes, so that b starts on a multiple of 4
    b = add_code_block(bi, nop * 3 + ret)
    add_edge(ir.cfg, f0, add_proxy_block(m), gtirb.Edge.Type.Return)
    add_edge(ir.cfg, b, add_proxy_block(m), gtirb.Edge.Type.Return)
    add_function(m, "f", f0, set())
    add_function(m, "g", b, set())
    step = len(nop)
    k = rnd.randint(0, 3)
    kind = rnd.choice(["call", "align"])
    if kind == "call":
        text = call
    else:
        # the aligned block lands on a multiple of 4: no padding is needed, only the block boundary and its fallthrough
        lead = (-(b.address + k * step)) % 4 if isa == "X64" else 0
        text = "\n".join(["nop"] * max(lead, 1 if isa == "ARM64" else lead)) + ("\n" if lead or isa == "ARM64" else "") + ".align 4\nnop"
        if isa == "X64" and lead == 0:
            text = "nop\nnop\nnop\nnop\n.align 4\nnop"
    ctx = gtirb_rewriting.RewritingContext(m, gtirb_functions.Function.build_functions(m))
    ctx.insert_at(b, k * step, literal_patch(text))
    desc = f"{isa}: `{text.replace(chr(10), '; ')}` inserted at offset {k * step} of a block nop nop nop ret"
    try:
        ctx.apply()
    except Exception as e:    # noqa
        return f"{desc}: apply raises {type(e).__name__}: {str(e)[:80]}"
    code = sorted((x for x in m.code_blocks if x.size and x.address >= b.address), key=lambda x: x.address)
    for x, y in zip(code, code[1:]):
        outs = {(e.label.type.name, id(e.target)) for e in x.outgoing_edges}
        if x.address + x.size != y.address:
            return f"{desc}: a gap between the blocks at {x.address:#x} and {y.address:#x}"
        if ("Fallthrough", id(y)) not in outs:
            return f"{desc}: the block at {x.address:#x}+{x.size} does not fall through to the block at {y.address:#x}"
    if kind == "call":
        callers = [x for x in code if any(e.label.type == gtirb.Edge.Type.Call for e in x.outgoing_edges)]
        if len(callers) != 1:
            return f"{desc}: {len(callers)} blocks have a Call edge"
        c = callers[0]
        ce = [e for e in c.outgoing_edges if e.label.type == gtirb.Edge.Type.Call]
        if len(ce) != 1 or ce[0].target is not f0 or not ce[0].label.direct:
            return f"{desc}: the call's edge is {[(type(e.target).__name__, e.label.direct) for e in ce]}, expected one direct Call edge to f"
        after = next((y for y in code if y.address == c.address + c.size), None)
        rets = {id(e.target) for e in f0.outgoing_edges if e.label.type == gtirb.Edge.Type.Return}
        if after is None or id(after) not in rets:
            return f"{desc}: f's ret has no Return edge to the block behind the call"
    return None


def aligned_patch_layout(rnd):
    """the bytes of a text section after a patch with an alignment directive went into a block that has an alignment entry itself (two
    aligned blocks meet in one interval when the intervals are joined again); rebuilt with fresh objects every time it is called"""
    import gtirb_rewriting
    from gtirb_test_helpers import add_code_block, add_symbol, add_text_section, create_test_module
    from helpers import literal_patch
    ir, m = create_test_module(gtirb.Module.FileFormat.ELF, gtirb.Module.ISA.X64)
    _, bi = add_text_section(m, address=0x1000)
    lead = rnd.choice([1, 3, 5])
    a1, a2 = rnd.choice([(16, 8), (8, 4), (4, 8), (16, 4)])
    f1 = add_code_block(bi, b"\x90" * (lead - 1) + b"\xc3")
    pad = add_code_block(bi, b"\x90" * ((-lead) % a1))
    f2 = add_code_block(bi, b"\x90" * 5 + b"\xc3")
    add_symbol(m, "f1", f1)
    add_symbol(m, "f2", f2)
    m.aux_data["alignment"].data[f2] = a1
    off = rnd.choice([1, 2, 3])
    n = rnd.choice([1, 2])
    ctx = gtirb_rewriting.RewritingContext(m, [])
    ctx.insert_at(f2, off, literal_patch("\n".join(["nop"] * n) + f"\n.align {a2}\nnop"))
    if rnd.random() < 0.5:
        ctx.insert_at(f1, 0, literal_patch("nop"))
    try:
        ctx.apply()
    except Exception as e:    # noqa
        return "err " + type(e).__name__
    return ";".join(f"{x.address:#x}:{bytes(x.contents).hex()}" for x in sorted(m.byte_intervals, key=lambda x: x.address or 0)) + " | " + \
        ",".join(f"{b.address:#x}+{b.size}" for b in sorted(m.byte_blocks, key=lambda b: (b.address, b.size)))
