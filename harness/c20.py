"""C20: internal containers vs their abstract models.  Histories of public operations are run on the
implementation, on the extracted Coq models (correspondence) and on naive Python abstractions (oracle)."""
import itertools
import json

from vlib import common as C
from vlib.runner import Prop


def T(b):
    return "T" if b else "F"


# ----------------------------------------------------------------------------- ReferenceCache
def run_refcache(case):
    """case = (syms: [(ref or None, at_end)], ops).  Returns (model-format output, oracle violations)."""
    import gtirb
    from gtirb_rewriting._modify.cache import ReferenceCache
    syms0, ops, nblocks = case
    m = gtirb.Module(name="m")
    sec = gtirb.Section(name=".text", module=m)
    bi = gtirb.ByteInterval(contents=b"\x90" * 8, address=0x1000, section=sec)
    blocks = [gtirb.CodeBlock(size=1, offset=i, byte_interval=bi) for i in range(nblocks)]
    bid = {id(b): i for i, b in enumerate(blocks)}
    syms = []
    for i, (r, e) in enumerate(syms0):
        s = gtirb.Symbol(f"s{i}", module=m)
        if r is not None:
            s.referent = blocks[r]
        s.at_end = e
        syms.append(s)
    sid = {id(s): i for i, s in enumerate(syms)}
    naive = {i: (r, e) for i, (r, e) in enumerate(syms0)}       # the abstract model: direct assignment
    cache = ReferenceCache()
    out, bad = [], []

    def ref_of(s):
        return None if s.referent is None else bid[id(s.referent)]
    dead = False
    for op in ops:
        if dead:
            break
        k = op[0]
        try:
            if k == "rt":
                _, b, t, e = op
                cache.retarget_references(blocks[b], None if t is None else blocks[t], e)
                out.append("ok")
                if t is not None:
                    for i, (r, _) in list(naive.items()):
                        if r == b:
                            naive[i] = (t, e)
            elif k == "gr":
                got = sorted(sid[id(s)] for s in cache.get_references(blocks[op[1]]))
                out.append("[" + ",".join(map(str, got)) + "]")
                want = sorted(i for i, (r, _) in naive.items() if r == op[1])
                if got != want:
                    bad.append(("get_references", op, got, want))
                for i in got:
                    if (ref_of(syms[i]), syms[i].at_end) != naive[i]:
                        bad.append(("get_references leaves a wrong direct reference", op, i))
            elif k == "pg":
                # a generator that its caller abandons after `op[2]` symbols (any / all stopping early)
                it = cache.get_references(blocks[op[1]])
                took, exhausted = [], False
                for _ in range(op[2]):
                    try:
                        took.append(next(it))
                    except StopIteration:
                        exhausted = True          # the generator ran to its end after all: this was a complete get_references
                        break
                it.close()
                del it
                op[3][:] = sorted(sid[id(s)] for s in took)
                out.append(f"took {len(took)}")
                if exhausted:
                    want = sorted(i for i, (r, _) in naive.items() if r == op[1])
                    if op[3] != want:
                        bad.append(("get_references", op, list(op[3]), want))
                    op[3].insert(0, "x")
                for i in op[3][1:] if exhausted else op[3]:
                    if naive[i][0] != op[1]:
                        bad.append(("get_references (abandoned) yields a symbol that does not refer to the block", op, i))
                    elif (ref_of(syms[i]), syms[i].at_end) != naive[i]:
                        bad.append(("get_references (abandoned) leaves a wrong direct reference", op, i))
            elif k == "gf":
                r = cache.get_referent(syms[op[1]])
                got = None if r is None else bid[id(r)]
                out.append(str(got))
                if got != naive[op[1]][0]:
                    bad.append(("get_referent", op, got, naive[op[1]][0]))
                elif got is not None and syms[op[1]].at_end != naive[op[1]][1]:
                    bad.append(("get_referent at_end", op, syms[op[1]].at_end, naive[op[1]][1]))
            elif k == "sr":
                _, s, r, e = op
                cache.set_referent(syms[s], None if r is None else blocks[r], e)
                naive[s] = (r, e)
                out.append("ok")
            elif k == "ap":
                cache.apply()
                out.append("ok")
                for i in naive:
                    if ref_of(syms[i]) != naive[i][0] or (naive[i][0] is not None and syms[i].at_end != naive[i][1]):
                        bad.append(("apply", i, (ref_of(syms[i]), syms[i].at_end), naive[i]))
            elif k == "pk":
                s = syms[op[1]]
                out.append(f"{ref_of(s)},{T(s.at_end)}")
        except Exception as e:  # noqa
            out.append("err " + type(e).__name__)
            dead = True
            expected = (k == "rt" and op[2] is None and isinstance(e, AssertionError)
                        and any(r == op[1] for r, _ in naive.values()))
            stale = (k == "rt" and op[2] is None and isinstance(e, AssertionError)
                     and not any(r == op[1] for r, _ in naive.values()) and blocks[op[1]] in cache._references)
            if stale:
                # known finding: an empty (symbol-less) tree pair left in _references makes the no-op refuse
                bad.append(("FINDING:C20-retarget-none-stale-entry", op))
            elif not expected:
                bad.append((f"{k} raised {type(e).__name__} where direct assignment succeeds", op))
    if not dead:
        try:
            cache.apply()
            out.append("final " + " ".join(f"{ref_of(s)},{T(s.at_end)}" for s in syms))
            for i in naive:
                if ref_of(syms[i]) != naive[i][0] or (naive[i][0] is not None and syms[i].at_end != naive[i][1]):
                    bad.append(("final", i, (ref_of(syms[i]), syms[i].at_end), naive[i]))
        except Exception as e:  # noqa
            out.append("err " + type(e).__name__)
            bad.append((f"apply raised {type(e).__name__}", None))
    return " ; ".join(out), bad, dead


def refcache_line(case):
    syms0, ops, _ = case
    parts = [f"refcache {len(syms0)}"] + [f"{-1 if r is None else r} {1 if e else 0}" for r, e in syms0] + [str(len(ops))]
    for op in ops:
        if op[0] == "rt":
            parts.append(f"rt {op[1]} {-1 if op[2] is None else op[2]} {1 if op[3] else 0}")
        elif op[0] == "sr":
            parts.append(f"sr {op[1]} {-1 if op[2] is None else op[2]} {1 if op[3] else 0}")
        elif op[0] == "ap":
            parts.append("ap")
        elif op[0] == "pg":
            if op[3] and op[3][0] == "x":
                parts.append(f"pgx {op[1]}")
            else:
                parts.append(f"pg {op[1]} {len(op[3])} " + " ".join(map(str, op[3])))
        else:
            parts.append(f"{op[0]} {op[1]}")
    return " ".join(parts)


def refcache_ops(nb, ns, with_none):
    ops = []
    for b in range(nb):
        for t in list(range(nb)) + ([None] if with_none else []):
            for e in (False, True):
                ops.append(("rt", b, t, e))
        ops.append(("gr", b))
        ops.append(("pg", b, 1, []))
        ops.append(("pg", b, 2, []))
    for s in range(ns):
        ops.append(("gf", s))
        ops.append(("pk", s))
        for r in list(range(nb)) + [None]:
            ops.append(("sr", s, r, True))
            ops.append(("sr", s, r, False))
    ops.append(("ap",))
    return ops


def fresh(hist):
    """every occurrence of an abandoned-generator operation gets its own record of what was yielded"""
    return [(o[0], o[1], o[2], []) if o[0] == "pg" else o for o in hist]


def gen_refcache(rnd, tier):
    cases = []
    # exhaustive short histories over 2 blocks / 2 symbols
    base = refcache_ops(2, 2, False)
    small = [op for op in base if not (op[0] == "sr" and op[3])]
    inits = [[(0, False), (0, True)], [(0, False), (1, True)], [(None, False), (1, False)]]
    depth = 3 if tier == "thorough" else 2
    for init in inits:
        for hist in itertools.product(small, repeat=depth):
            cases.append((init, fresh(hist), 2))
    # random longer histories over 3-4 blocks, 3-5 symbols (chains, cycles, self retargets)
    n = 12000 if tier == "thorough" else 3000
    for _ in range(n):
        nb, ns = rnd.randrange(2, 5), rnd.randrange(1, 6)
        init = [(rnd.choice(list(range(nb)) + [None]), rnd.random() < 0.4) for _ in range(ns)]
        allops = refcache_ops(nb, ns, rnd.random() < 0.15)
        rts = [o for o in allops if o[0] == "rt"]
        hist = []
        for _ in range(rnd.randrange(1, 40)):
            hist.append(rnd.choice(rts) if rnd.random() < 0.55 else rnd.choice(allops))
        cases.append((init, fresh(hist), nb))
    return cases


# ----------------------------------------------------------------------------- ReturnEdgeCache
def mk_nodes():
    import gtirb
    blocks = [gtirb.CodeBlock(size=1, offset=i) for i in range(3)]
    proxies = [gtirb.ProxyBlock() for _ in range(2)]
    return blocks, proxies


def edge_tok(e):
    s, t, l = e
    return f"{s} {t} " + ("-" if l is None else f"{l[0]},{1 if l[1] else 0},{1 if l[2] else 0}")


def real_edge(e, blocks, proxies):
    import gtirb
    s, t, l = e

    def node(n):
        return proxies[int(n[1:])] if n[0] == "p" else blocks[int(n[1:])]
    lab = None if l is None else gtirb.Edge.Label(gtirb.Edge.Type(l[0]), l[1], l[2])
    return gtirb.Edge(node(s), node(t), lab)


def show_edges(edges, names):
    out = []
    for e in edges:
        l = e.label
        out.append(f"{names[id(e.source)]}>{names[id(e.target)]}:" + ("-" if l is None else f"{l.type.value},{1 if l.conditional else 0},{1 if l.direct else 0}"))
    return "{" + " ".join(sorted(out)) + "}"


def rand_edge(rnd):
    nodes = ["b0", "b1", "b2", "p0", "p1"]
    lab = rnd.choice([None, (3, False, True), (3, False, False), (3, True, True), (0, False, True), (1, False, True), (2, False, True)])
    return (rnd.choice(nodes[:4]), rnd.choice(nodes), lab)


def run_retcache(ops):
    from gtirb_rewriting._modify.cache import ReturnEdgeCache
    from gtirb_rewriting.utils import _is_return_edge
    import gtirb
    blocks, proxies = mk_nodes()
    names = {id(b): f"b{i}" for i, b in enumerate(blocks)}
    names.update({id(p): f"p{i}" for i, p in enumerate(proxies)})
    c = ReturnEdgeCache()
    out, bad = [], []

    def node(n):
        return proxies[int(n[1:])] if n[0] == "p" else blocks[int(n[1:])]
    for op in ops:
        k = op[0]
        if k == "add":
            c.add(real_edge(op[1], blocks, proxies))
        elif k == "dis":
            c.discard(real_edge(op[1], blocks, proxies))
        elif k == "clr":
            c.clear()
        elif k == "upd":
            c.update([real_edge(e, blocks, proxies) for e in op[1]])
        else:
            b = node(op[1])
            scan = {e for e in c if _is_return_edge(e) and e.source is b}
            if k == "any":
                got = c.any_return_edges(b)
                out.append(T(got))
                if got != bool(scan):
                    bad.append(("any_return_edges", op))
            elif k == "bre":
                got = c.block_return_edges(b)
                out.append(show_edges(got, names))
                if got != scan:
                    bad.append(("block_return_edges", op))
            elif k == "bpe":
                got = c.block_proxy_return_edges(b)
                out.append(show_edges(got, names))
                if got != {e for e in scan if isinstance(e.target, gtirb.ProxyBlock)}:
                    bad.append(("block_proxy_return_edges", op))
    out.append("cfg " + show_edges(list(c), names))
    return " ; ".join(out), bad


def retcache_line(ops):
    parts = [f"retcache {len(ops)}"]
    for op in ops:
        if op[0] in ("add", "dis"):
            parts.append(f"{op[0]} {edge_tok(op[1])}")
        elif op[0] == "clr":
            parts.append("clr")
        elif op[0] == "upd":
            parts.append(f"upd {len(op[1])} " + " ".join(edge_tok(e) for e in op[1]))
        else:
            parts.append(f"{op[0]} {op[1]}")
    return " ".join(parts)


def run_retctx(case):
    import gtirb
    from gtirb_rewriting._modify.cache import CFGModifiedError, make_return_cache
    old_edges, actions = case
    blocks, proxies = mk_nodes()
    names = {id(b): f"b{i}" for i, b in enumerate(blocks)}
    names.update({id(p): f"p{i}" for i, p in enumerate(proxies)})
    ir = gtirb.IR()
    old = ir.cfg
    for e in old_edges:
        old.add(real_edge(e, blocks, proxies))

    class Boom(Exception):
        pass
    status = "ok"
    final_cache = None
    try:
        with make_return_cache(ir) as cache:
            final_cache = cache
            for a in actions:
                if a[0] == "cadd":
                    cache.add(real_edge(a[1], blocks, proxies))
                elif a[0] == "cdis":
                    cache.discard(real_edge(a[1], blocks, proxies))
                elif a[0] == "cclr":
                    cache.clear()
                elif a[0] == "oadd":
                    old.add(real_edge(a[1], blocks, proxies))
                elif a[0] == "odis":
                    old.discard(real_edge(a[1], blocks, proxies))
                elif a[0] == "repl":
                    ir.cfg = gtirb.CFG()
                elif a[0] == "raise":
                    raise Boom()
    except Boom:
        status = "body-raised"
    except CFGModifiedError:
        status = "CFGModifiedError"
    ptr = "old" if ir.cfg is old else ("cache" if ir.cfg is final_cache else "other")
    bad = []
    if ir.cfg is not old or set(old) != set(final_cache):
        bad.append(("exit does not restore the caller's CFG object with the final edges", case))
    return f"{status} ; old {show_edges(list(old), names)} ; ircfg {ptr}", bad


def retctx_line(case):
    old_edges, actions = case
    parts = [f"retctx {len(old_edges)}"] + [edge_tok(e) for e in old_edges] + [str(len(actions))]
    for a in actions:
        parts.append(a[0] + (" " + edge_tok(a[1]) if len(a) > 1 else ""))
    return " ".join(parts)


# ----------------------------------------------------------------------------- BlockOrdering
def run_border(ops):
    import gtirb
    from gtirb_rewriting._adt import BlockOrdering
    blocks = [gtirb.CodeBlock(size=0 if i % 3 == 0 else 1, offset=i) for i in range(8)]
    bid = {id(b): i for i, b in enumerate(blocks)}
    o = BlockOrdering()
    chains = []      # abstract: plain lists
    out, bad = [], []

    def find(b):
        for ch in chains:
            if b in ch:
                return ch
        return None
    for op in ops:
        try:
            if op[0] == "adj":
                p, n = o.adjacent_blocks(blocks[op[1]])
                got = (None if p is None else bid[id(p)], None if n is None else bid[id(n)])
                out.append(f"{got[0]},{got[1]}")
                ch = find(op[1])
                if ch is not None:
                    i = ch.index(op[1])
                    want = (ch[i - 1] if i > 0 else None, ch[i + 1] if i + 1 < len(ch) else None)
                    if got != want:
                        bad.append(("adjacent_blocks", op, got, want))
            elif op[0] == "rm":
                o.remove_block(blocks[op[1]])
                out.append("ok")
                ch = find(op[1])
                ch.remove(op[1])
            elif op[0] == "det":
                o.add_detached_blocks([blocks[b] for b in op[1]])
                out.append("ok")
                chains.append(list(op[1]))
            elif op[0] == "ins":
                o.insert_blocks_after(blocks[op[1]], [blocks[b] for b in op[2]])
                out.append("ok")
                ch = find(op[1])
                i = ch.index(op[1])
                ch[i + 1:i + 1] = list(op[2])
        except Exception as e:  # noqa
            out.append("err " + type(e).__name__)
    return " ; ".join(out), bad


def border_line(ops):
    parts = [f"border {len(ops)}"]
    for op in ops:
        if op[0] in ("adj", "rm"):
            parts.append(f"{op[0]} {op[1]}")
        elif op[0] == "det":
            parts.append(f"det {len(op[1])} " + " ".join(map(str, op[1])))
        else:
            parts.append(f"ins {op[1]} {len(op[2])} " + " ".join(map(str, op[2])))
    return " ".join(parts)


def gen_border(rnd):
    ops, present = [], []
    for _ in range(rnd.randrange(1, 25)):
        k = rnd.random()
        absent = [b for b in range(8) if b not in present]
        if k < 0.3:
            ops.append(("adj", rnd.choice(present) if present and rnd.random() < 0.9 else rnd.randrange(8)))
        elif k < 0.5 and present:
            b = rnd.choice(present) if rnd.random() < 0.9 else rnd.randrange(8)
            ops.append(("rm", b))
            if b in present:
                present.remove(b)
        elif k < 0.75 and absent:
            bs = rnd.sample(absent, rnd.randrange(0, min(3, len(absent)) + 1))
            if rnd.random() < 0.05 and present:
                bs = bs + [rnd.choice(present)]
                ops.append(("det", bs))
            else:
                ops.append(("det", bs))
                present += bs
        elif present and absent:
            a = rnd.choice(present) if rnd.random() < 0.95 else rnd.randrange(8)
            bs = rnd.sample(absent, rnd.randrange(0, min(3, len(absent)) + 1))
            ops.append(("ins", a, bs))
            if a in present:
                present += bs
    return ops


# ----------------------------------------------------------------------------- OffsetMapping
def run_omap(ops):
    import gtirb
    from gtirb_rewriting._adt import OffsetMapping
    elems = [gtirb.CodeBlock(size=1, offset=i) for i in range(4)]
    eid = {id(e): i for i, e in enumerate(elems)}
    m = OffsetMapping()
    naive = {}
    out, bad = [], []

    def inner_s(d):
        return "{" + ",".join(sorted(f"{k}:{v}" for k, v in d.items())) + "}"
    for op in ops:
        k = op[0]
        try:
            if k == "geto":
                v = m[gtirb.Offset(elems[op[1]], op[2])]
                out.append(str(v))
            elif k == "gete":
                out.append(inner_s(m[elems[op[1]]]))
            elif k == "seto":
                m[gtirb.Offset(elems[op[1]], op[2])] = op[3]
                naive.setdefault(op[1], {})[op[2]] = op[3]
            elif k == "sete":
                m[elems[op[1]]] = dict(op[2])
                naive[op[1]] = dict(op[2])
            elif k == "delo":
                del m[gtirb.Offset(elems[op[1]], op[2])]
                out.append("ok")
                del naive[op[1]][op[2]]
            elif k == "iseto":
                # through the dictionary the mapping hands out, as split.py / join.py do
                m[elems[op[1]]][op[2]] = op[3]
                out.append("ok")
                naive[op[1]][op[2]] = op[3]
            elif k == "idelo":
                del m[elems[op[1]]][op[2]]
                out.append("ok")
                del naive[op[1]][op[2]]
            elif k == "dele":
                del m[elems[op[1]]]
                out.append("ok")
                del naive[op[1]]
            elif k == "ino":
                got = gtirb.Offset(elems[op[1]], op[2]) in m
                out.append(T(got))
                if got != (op[1] in naive and op[2] in naive[op[1]]):
                    bad.append(("contains offset", op))
            elif k == "ine":
                got = elems[op[1]] in m
                out.append(T(got))
                if got != (op[1] in naive):
                    bad.append(("contains element", op))
            elif k == "len":
                out.append(str(len(m)))
                if len(m) != sum(len(v) for v in naive.values()):
                    bad.append(("len", op))
            elif k == "bool":
                out.append(T(bool(m)))
                if bool(m) != any(naive.values()):
                    bad.append(("bool", op))
            elif k == "iter":
                got = sorted(f"{eid[id(o.element_id)]}+{o.displacement}" for o in m)
                out.append("[" + ",".join(got) + "]")
                if got != sorted(f"{e}+{d}" for e, v in naive.items() for d in v):
                    bad.append(("iter", op))
            elif k == "keys":
                out.append("[" + ",".join(map(str, sorted(eid[id(e)] for e in m.node_keys()))) + "]")
            elif k == "popo":
                if op[3] is None:
                    v = m.pop(gtirb.Offset(elems[op[1]], op[2]))
                else:
                    v = m.pop(gtirb.Offset(elems[op[1]], op[2]), op[3])
                out.append(str(v))
                if op[1] in naive and op[2] in naive[op[1]]:
                    if v != naive[op[1]].pop(op[2]):
                        bad.append(("pop", op))
            elif k == "sdo":
                v = m.setdefault(gtirb.Offset(elems[op[1]], op[2]), op[3])
                out.append(str(v))
                want = naive.setdefault(op[1], {}).setdefault(op[2], op[3])
                if v != want:
                    bad.append(("setdefault", op))
        except KeyError:
            out.append("err KeyError")
        except Exception as e:  # noqa
            out.append("err " + type(e).__name__)
        # the whole mapping must equal the dictionary of dictionaries
        cur = {eid[id(e)]: dict(m[e]) for e in m.node_keys()}
        if cur != naive:
            bad.append(("state differs from dict-of-dicts", op, cur, dict(naive)))
            naive = {k2: dict(v2) for k2, v2 in cur.items()}
    return " ; ".join(out), bad


def omap_line(ops):
    parts = [f"omap {len(ops)}"]
    for op in ops:
        k = op[0]
        if k in ("geto", "delo", "ino", "idelo"):
            parts.append(f"{k} {op[1]} {op[2]}")
        elif k in ("gete", "dele", "ine"):
            parts.append(f"{k} {op[1]}")
        elif k in ("seto", "sdo", "iseto"):
            parts.append(f"{k} {op[1]} {op[2]} {op[3]}")
        elif k == "sete":
            parts.append(f"sete {op[1]} {len(op[2])} " + " ".join(f"{d} {v}" for d, v in op[2]))
        elif k == "popo":
            parts.append(f"popo {op[1]} {op[2]} {'-' if op[3] is None else op[3]}")
        else:
            parts.append(k)
    return " ".join(parts)


def gen_omap(rnd):
    ops = []
    for _ in range(rnd.randrange(1, 25)):
        k = rnd.choice(["geto", "gete", "seto", "seto", "seto", "sete", "delo", "dele", "ino", "ine", "len", "bool", "iter", "keys", "popo", "sdo", "iseto", "iseto", "idelo"])
        e, d = rnd.randrange(4), rnd.randrange(0, 4)
        if k in ("geto", "delo", "ino", "idelo"):
            ops.append((k, e, d))
        elif k in ("gete", "dele", "ine"):
            ops.append((k, e))
        elif k in ("seto", "sdo", "iseto"):
            ops.append((k, e, d, rnd.randrange(100)))
        elif k == "sete":
            ds = rnd.sample(range(5), rnd.randrange(0, 3))
            ops.append((k, e, [(x, rnd.randrange(100)) for x in ds]))
        elif k == "popo":
            ops.append((k, e, d, rnd.choice([None, 77])))
        else:
            ops.append((k,))
    return ops


# ----------------------------------------------------------------------------- IdentitySet
def run_idset(ops):
    from gtirb_rewriting._adt import IdentitySet

    class Obj:      # equal payloads, distinct identities
        def __init__(self, p):
            self.p = p

        def __eq__(self, o):
            return self.p == o.p

        def __hash__(self):
            return hash(self.p)
    objs = [Obj(i // 2) for i in range(6)]
    oid = {id(o): i for i, o in enumerate(objs)}
    s = IdentitySet()
    naive = set()
    out, bad = [], []
    for op in ops:
        try:
            if op[0] == "add":
                s.add(objs[op[1]])
                naive.add(op[1])
            elif op[0] == "dis":
                s.discard(objs[op[1]])
                naive.discard(op[1])
            elif op[0] == "rem":
                s.remove(objs[op[1]])
                out.append("ok")
                naive.discard(op[1])
            elif op[0] == "in":
                got = objs[op[1]] in s
                out.append(T(got))
                if got != (op[1] in naive):
                    bad.append(("contains", op))
            elif op[0] == "len":
                out.append(str(len(s)))
                if len(s) != len(naive):
                    bad.append(("len", op))
            elif op[0] == "iter":
                got = sorted(oid[id(o)] for o in s)
                out.append("[" + ",".join(map(str, got)) + "]")
                if got != sorted(naive):
                    bad.append(("iter", op))
            elif op[0] == "clr":
                s.clear()
                naive.clear()
        except Exception as e:  # noqa
            out.append("err " + type(e).__name__)
    return " ; ".join(out), bad


def idset_line(ops):
    return f"idset {len(ops)} " + " ".join(o[0] + (f" {o[1]}" if len(o) > 1 else "") for o in ops)


def gen_idset(rnd):
    return [(k, rnd.randrange(6)) if k in ("add", "dis", "rem", "in") else (k,)
            for k in (rnd.choice(["add", "add", "dis", "rem", "in", "in", "len", "iter", "clr"]) for _ in range(rnd.randrange(1, 20)))]


class C20(Prop):
    id = "C20"
    gens = []
    prop_file = "Properties/C20.v"
    extract = ("c20", "ExtractC20.v", "c20_main.ml", "C20_model")
    allowed_axioms = set()
    trusted_base = [
        "Coq 8.16.1 kernel",
        "hand models Adt/RefCache.v (RefNode forest as structural trees; parent/children are the two directions of one edge), "
        "Adt/RetCache.v, Adt/BlockOrder.v, Adt/OffsetMap.v, Adt/IdSet.v -- tied by the correspondence run on operation histories",
        "hypothesis of the return-cache context model: distinct edge sets have distinct XOR hashes",
        "extraction: ExtrOcamlBasic only; OCaml driver ocaml/zutil.ml + c20_main.ml",
    ]
    assumptions = ["clients do not assign Symbol.referent directly while a symbol is indirect (the code asserts this)",
                   "a get_references generator is either consumed to the end or closed after a number of symbols; which symbols come first is set iteration order, so the model is told", "blocks handed to one BlockOrdering insertion call are distinct"]
    level_rule = ("histories of public operations: all histories of length 2 (quick) / 3 (thorough) over 2 blocks x 2 symbols for ReferenceCache, "
                  "random histories up to length 40 (cycles, self-retargets, no-ops), random histories for the other four containers and the "
                  "return-cache context (incl. exceptions, mutation of the old CFG object, replaced ir.cfg); distinct = distinct history line; "
                  "non-trivial = at least 2 operations")

    def all_cases(self, tier, rnd):
        n = 6000 if tier == "thorough" else 1500
        cases = []
        for c in gen_refcache(rnd, tier):
            cases.append(("refcache", c))
        for _ in range(n):
            ops = []
            for _ in range(rnd.randrange(1, 30)):
                k = rnd.choice(["add", "add", "add", "dis", "any", "bre", "bpe", "clr" if rnd.random() < 0.1 else "add", "upd"])
                if k in ("add", "dis"):
                    ops.append((k, rand_edge(rnd)))
                elif k == "upd":
                    ops.append((k, [rand_edge(rnd) for _ in range(rnd.randrange(0, 4))]))
                elif k == "clr":
                    ops.append((k,))
                else:
                    ops.append((k, rnd.choice(["b0", "b1", "b2", "p0"])))
            cases.append(("retcache", ops))
            old = [rand_edge(rnd) for _ in range(rnd.randrange(0, 5))]
            acts = []
            for _ in range(rnd.randrange(0, 8)):
                k = rnd.choice(["cadd", "cadd", "cdis", "cclr" if rnd.random() < 0.2 else "cadd", "oadd" if rnd.random() < 0.3 else "cadd",
                                "odis" if rnd.random() < 0.3 else "cdis", "repl" if rnd.random() < 0.15 else "cadd", "raise" if rnd.random() < 0.2 else "cadd"])
                acts.append((k, rand_edge(rnd)) if k in ("cadd", "cdis", "oadd", "odis") else (k,))
            cases.append(("retctx", (old, acts)))
            cases.append(("border", gen_border(rnd)))
            cases.append(("omap", gen_omap(rnd)))
            cases.append(("idset", gen_idset(rnd)))
        return cases

    def run_all(self, tier, tag):
        rnd = C.rng(tag)
        cases = self.all_cases(tier, rnd)
        lines, impl, bads = [], [], []
        for kind, c in cases:
            if kind == "refcache":
                o, bad, _ = run_refcache(c)          # first: an abandoned generator tells which symbols it had yielded
                lines.append(refcache_line(c))
            elif kind == "retcache":
                lines.append(retcache_line(c))
                o, bad = run_retcache(c)
            elif kind == "retctx":
                lines.append(retctx_line(c))
                o, bad = run_retctx(c)
            elif kind == "border":
                lines.append(border_line(c))
                o, bad = run_border(c)
            elif kind == "omap":
                lines.append(omap_line(c))
                o, bad = run_omap(c)
            else:
                lines.append(idset_line(c))
                o, bad = run_idset(c)
            impl.append(o)
            for b in bad[:1]:
                fid = b[0][len("FINDING:"):] if str(b[0]).startswith("FINDING:") else None
                bads.append(dict(what=f"{kind}: {b[0]} disagrees with the abstract model", input=lines[-1], detail=repr(b)[:300], finding=fid))
        return cases, lines, impl, bads

    def correspondence(self, tier, ctx):
        cases, lines, impl, bads = self.run_all(tier, "c20")
        self._oracle = (len(lines), bads)
        got = C.run_driver("c20", lines)
        dis = [{"case": l, "implementation": e, "model": g} for l, e, g in zip(lines, impl, got) if e != g]
        kinds = {}
        for k, _ in cases:
            kinds[k] = kinds.get(k, 0) + 1
        nontriv = {l for l in lines if l.count(" ") > 4}
        samples = [{"case": l, "implementation": e, "model": g} for l, e, g in list(zip(lines, impl, got))[:: max(1, len(lines) // 6)]][:6]
        return dict(evaluations=len(lines), distinct_nontrivial=len(nontriv), samples=samples, disagreements=dis[:20],
                    dist={"histories_by_container": kinds, "histories_ending_in_exception": sum(1 for e in impl if "err " in e)})

    def oracle(self, tier, ctx, boosted):
        if getattr(self, "_oracle", None) is not None and not boosted:
            n, bads = self._oracle
        else:
            _, lines, _, bads = self.run_all("thorough" if boosted else tier, "c20-boost" if boosted else "c20")
            n = len(lines)
        bads = [b for b in bads if b['finding'] is None][:10] + [b for b in bads if b['finding'] is not None][:3]
        return dict(evaluations=n, violations=bads, samples=[{"oracle": "naive abstract models (dict / set / list / scan of the CFG) checked after every call"}])

    def replay(self, path):
        print(json.dumps(json.load(open(path)), indent=1)[:3000])
        return 0


PROP = C20()
