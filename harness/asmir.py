"""The IR an Assembler.Result turns into (Assembler.Result.create_ir(), what gtirb-as writes): C12's clauses about bytes, blocks,
symbols and symbolic operands (one expression at the operand's offset with the right size) must also hold of that IR, for programs
with several sections.  Texts are self-contained (labels of the text and undefined names only), laid out by this file's own size
table, so the expected offsets do not come from the assembler."""
import gtirb

# line template -> (size, offset of the symbolic operand or None, size of the operand)
CODE = {"nop": (1, None, 0), "ret": (1, None, 0), "call {S}": (5, 1, 4), "jmp {S}": (2, 1, 1), "jne {S}": (2, 1, 1), "xchg %ax, %ax": (2, None, 0)}
DATA = {".byte 7": (1, None, 0), ".quad {S}": (8, 0, 8), ".long {S}": (4, 0, 4), ".quad {S}+4": (8, 0, 8), ".long 9": (4, None, 0), ".zero 3": (3, None, 0)}
SECTIONS = [(".text", ".text", True), (".data", ".data", False), ('.section .rodata,"a",@progbits', ".rodata", False),
            ('.section .mytext,"ax",@progbits', ".mytext", True), ('.section .more,"aw",@progbits', ".more", False)]


def gen(rnd):
    """(text, expected: {section: (size, {offset: operand size})}, label positions {name: (section, offset)})"""
    sects = [SECTIONS[0]] + rnd.sample(SECTIONS[1:], rnd.randint(1, 3))
    rnd.shuffle(sects)
    # global names: a label in an executable section is written as a far target (a plain call/jmp to it keeps its 4-byte operand
    # because the other end is in another section or the name is global)
    labels = {}
    lines = []
    exp = {}
    nlab = 0
    plan = []
    for line, name, ex in sects:
        n = rnd.randint(1, 4)
        plan.append((line, name, ex, n))
        for k in range(n):
            if rnd.random() < 0.5 or k == 0:
                labels[f"g{nlab}"] = (name, ex)
                nlab += 1
    names = list(labels)
    code_names = [n for n in names if labels[n][1]]
    it = iter(names)
    pos = {}
    for line, name, ex, n in plan:
        lines.append(line)
        off = 0
        ops = {}
        mine = [x for x in names if labels[x][0] == name]
        for k in range(n):
            if mine and (k == 0 or rnd.random() < 0.5) and mine[0] not in pos:
                lab = mine.pop(0)
                lines.append(f".globl {lab}")
                lines.append(f"{lab}:")
                pos[lab] = (name, off)
            tmpl = rnd.choice(list(CODE if ex else DATA))
            size, oo, osz = (CODE if ex else DATA)[tmpl]
            if "{S}" in tmpl:
                # a transfer names code (the assembler does not relax: jmp / jne keep their one-byte operand); data names anything
                cands = code_names if ex else names
                if cands:
                    tmpl = tmpl.replace("{S}", rnd.choice(cands))
                    ops[off + oo] = osz
                else:
                    tmpl, (size, oo, osz) = ("nop", CODE["nop"]) if ex else (".byte 7", DATA[".byte 7"])
            lines.append(tmpl)
            off += size
        for lab in mine:
            if lab not in pos:
                lines.append(f".globl {lab}")
                lines.append(f"{lab}:")
                pos[lab] = (name, off)
        exp[name] = (off, ops)
    return "\n".join(lines) + "\n", exp, pos


LAST = {"line": None, "impl": None}      # of the latest check(): the model's command line and the implementation's table


def check(rnd):
    """None or a description of what is wrong with the IR of one generated program"""
    import gtirb_rewriting.assembler as A
    text, exp, pos = gen(rnd)
    LAST["line"] = LAST["impl"] = None
    target = A.Assembler.Target(gtirb.Module.ISA.X64, gtirb.Module.FileFormat.ELF, ["DYN"] if rnd.random() < 0.5 else ["EXEC"], False)
    try:
        asm = A.Assembler(target)
        asm.assemble(text)
        res = asm.finalize()
    except Exception as e:  # noqa
        return text, f"a self-contained text of the vocabulary is refused: {type(e).__name__}: {str(e)[:100]}"
    # the model's input: the operand-size table of every section of the RESULT (sections numbered in the result's order)
    order = list(res.sections)
    LAST["line"] = f"createir {len(order)} " + " ".join(
        f"{k} {len(res.sections[n].symbolic_expression_sizes)} " + " ".join(f"{o} {z}" for o, z in sorted(res.sections[n].symbolic_expression_sizes.items()))
        for k, n in enumerate(order))
    LAST["impl"] = None
    try:
        ir = res.create_ir()
    except Exception as e:  # noqa
        return text, f"create_ir() raises {type(e).__name__}: {str(e)[:100]}"
    got = []
    for off_, v in ir.modules[0].aux_data["symbolicExpressionSizes"].data.items():
        bi_ = off_.element_id
        k = order.index(bi_.section.name) if isinstance(bi_, gtirb.ByteInterval) and bi_.section is not None and bi_.section.name in order else 99
        got.append((k, off_.displacement, v))
    LAST["impl"] = ",".join(sorted(f"{k}:{o}:{z}" for k, o, z in got))
    m = ir.modules[0]
    by_name = {s.name: s for s in m.sections}
    sizes = {}
    for off_, v in m.aux_data["symbolicExpressionSizes"].data.items():
        bi = off_.element_id
        sec = bi.section.name if isinstance(bi, gtirb.ByteInterval) and bi.section is not None and bi.module is m else "<outside the module>"
        sizes.setdefault(sec, {})[off_.displacement] = v
    for name, (size, ops) in exp.items():
        if name not in by_name:
            return text, f"section {name} is missing from the IR"
        bis = list(by_name[name].byte_intervals)
        if len(bis) != 1 or bis[0].size != size or len(bis[0].contents) != size:
            return text, f"section {name}: {[(b.size, len(b.contents)) for b in bis]} bytes in the IR, the text asks for {size}"
        bi = bis[0]
        if sorted(bi.symbolic_expressions) != sorted(ops):
            return text, f"section {name}: symbolic expressions at {sorted(bi.symbolic_expressions)}, operands are at {sorted(ops)}"
        if sizes.get(name, {}) != ops:
            return text, f"section {name}: symbolicExpressionSizes records {sizes.get(name, {})}, the operands are {ops}"
        blocks = sorted(bi.blocks, key=lambda b: b.offset)
        p = 0
        for b in blocks:
            if b.offset != p:
                return text, f"section {name}: blocks do not tile the section at {p}"
            p += b.size
        if p != size:
            return text, f"section {name}: blocks end at {p}, the section has {size} bytes"
    for sec in sizes:
        if sec not in exp:
            return text, f"symbolicExpressionSizes has entries for {sec}: {sizes[sec]}"
    live = {id(b) for b in m.byte_blocks} | {id(p_) for p_ in m.proxies}
    for lab, (name, off) in pos.items():
        ss = [s for s in m.symbols if s.name == lab]
        if len(ss) != 1:
            return text, f"label {lab}: {len(ss)} symbols in the IR"
        r = ss[0].referent
        if not isinstance(r, gtirb.ByteBlock) or id(r) not in live or r.byte_interval.section.name != name or r.offset + (r.size if ss[0].at_end else 0) != off:
            return text, f"label {lab} is not at {name}+{off} in the IR"
    for tab in ("alignment", "encodings"):
        for k in m.aux_data[tab].data:
            if id(k) not in live:
                return text, f"aux table {tab} names a block that is not in the IR"
    for e in ir.cfg:
        if id(e.source) not in live or id(e.target) not in live:
            return text, "the IR's CFG has an endpoint that is not in the IR"
    return text, None
