"""C17: CallPatch.  Correspondence: emitted text parsed to instruction tokens vs the extracted model
(Calls/Model.v).  Oracle: a concrete machine executes the tokens and checks the calling-convention clauses."""
import json
import re

from vlib import common as C
from vlib.runner import Prop

TARGETS = None


def targets():
    global TARGETS
    if TARGETS is None:
        import gtirb
        from gtirb_rewriting.abi import ABI
        from gtirb_test_helpers import add_proxy_block, add_symbol, create_test_module
        TARGETS = []
        for isa, ff, fam in ((gtirb.Module.ISA.X64, gtirb.Module.FileFormat.ELF, "x86"), (gtirb.Module.ISA.X64, gtirb.Module.FileFormat.PE, "x86"),
                             (gtirb.Module.ISA.IA32, gtirb.Module.FileFormat.PE, "x86"), (gtirb.Module.ISA.ARM64, gtirb.Module.FileFormat.ELF, "a64")):
            _, m = create_test_module(ff, isa)
            callee = add_symbol(m, "foo", add_proxy_block(m))
            syms = [add_symbol(m, f"sym{i}", add_proxy_block(m)) for i in range(3)]
            abi = ABI.get(m)
            regs = abi.all_registers()
            idx = {}
            for i, r in enumerate(regs):
                for n in r.sizes.values():
                    idx[n.lower()] = i
            TARGETS.append(dict(m=m, callee=callee, syms=syms, abi=abi, fam=fam, idx=idx, names=[r.name for r in regs],
                                W=abi.pointer_size(), key=f"{isa.name}-{ff.name}", is_elf=ff == gtirb.Module.FileFormat.ELF))
    return TARGETS


def load_semantics(t):
    """Ask the real assembler + capstone what `mov REG, sym[rip]` / `mov REG, sym` / `push sym` are: loads or addresses."""
    if "loads" in t:
        return t["loads"]
    t["loads"] = True
    try:
        import capstone
        from gtirb_rewriting.assembler import Assembler
        from gtirb_rewriting.assembly import X86Syntax
        a = Assembler(t["m"], x86_syntax=X86Syntax.INTEL, allow_undef_symbols=True)
        reg = "RDI" if t["W"] == 8 else "EAX"
        a.assemble(f"mov {reg}, sym0[rip]" if t["is_elf"] else f"mov {reg}, sym0", X86Syntax.INTEL)
        data = a.finalize().text_section.data
        md = capstone.Cs(capstone.CS_ARCH_X86, capstone.CS_MODE_64 if t["W"] == 8 else capstone.CS_MODE_32)
        md.detail = True
        ins = next(md.disasm(bytes(data), 0))
        t["loads"] = ins.mnemonic == "mov" and any(o.type == capstone.x86.X86_OP_MEM for o in ins.operands)
    except Exception:  # noqa
        t["loads"] = True
    return t["loads"]


def parse(lines, t):
    idx, fam = t["idx"], t["fam"]
    out = []
    for ln in lines:
        ln = ln.strip()
        tok = None
        if fam == "x86":
            m = re.fullmatch(r"(sub|add) [re]sp, (-?\d+)", ln)
            if m:
                tok = f"{m.group(1)}:{m.group(2)}"
            m = re.fullmatch(r"mov (\w+), (-?\d+)", ln)
            if m and m.group(1).lower() in idx:
                tok = f"mov:{idx[m.group(1).lower()]}={m.group(2)}"
            m = re.fullmatch(r"mov (\w+), sym(\d+)(\[rip\])?", ln)
            if m and m.group(1).lower() in idx:
                tok = f"movmem:{idx[m.group(1).lower()]}=s{m.group(2)}"
            m = re.fullmatch(r"push (-?\d+)", ln)
            if m:
                tok = f"push:{m.group(1)}"
            m = re.fullmatch(r"push sym(\d+)(\[rip\])?", ln)
            if m:
                tok = f"pushmem:s{m.group(1)}"
            if ln == "call foo":
                tok = "call:s99"
        else:
            m = re.fullmatch(r"(sub|add) sp, sp, #(\d+)", ln)
            if m:
                tok = f"{m.group(1)}:{m.group(2)}"
            m = re.fullmatch(r"mov (\w+), #(-?)0x([0-9a-f]+)", ln)
            if m:
                tok = f"movsmall:{idx[m.group(1)]}={int(m.group(2) + m.group(3), 16)}"
            m = re.fullmatch(r"movz (\w+), #0x([0-9a-f]+)", ln)
            if m:
                tok = f"movz:{idx[m.group(1)]}={int(m.group(2), 16)}"
            m = re.fullmatch(r"movk (\w+), #0x([0-9a-f]+), lsl #(\d+)", ln)
            if m:
                tok = f"movk:{idx[m.group(1)]}={int(m.group(2), 16)}<<{m.group(3)}"
            m = re.fullmatch(r"adrp (\w+), sym(\d+)", ln)
            if m:
                tok = f"adrp:{idx[m.group(1)]}=s{m.group(2)}"
            m = re.fullmatch(r"add (\w+), (\w+), #:lo12:sym(\d+)", ln)
            if m and m.group(1) == m.group(2):
                tok = f"addlo12:{idx[m.group(1)]}=s{m.group(3)}"
            m = re.fullmatch(r"str (\w+), \[sp, #(\d+)\]", ln)
            if m:
                tok = f"str:{idx[m.group(1)]}@{m.group(2)}"
            if ln == "bl foo":
                tok = "bl:s99"
        out.append(tok if tok is not None else "?" + ln)
    return out


SYM_ADDR = {0: 0x401000, 1: 0x402345, 2: 0x7fff12345678}
SYM_WORD = {0: 111, 1: 222, 2: 333}


def simulate(toks, t, case):
    """Concrete execution of the tokens; returns a list of violated clauses (finding ids for the known defect)."""
    W = t["W"]
    A = case["align"]
    adj = case["adj"]
    base = 0x7000_0000
    sp0 = base - ((adj or 0) if t["fam"] == "x86" else 0)     # the ARM64 prologue keeps sp 16-byte aligned itself
    regs, mem = {}, {}
    sp = sp0
    at_call = None
    nstack = max(0, len(case["args"]) - len(case["regs"]))
    for tk in toks:
        op, _, arg = tk.partition(":")
        if op == "sub":
            sp -= int(arg)
        elif op == "add":
            sp += int(arg)
        elif op in ("mov", "movsmall", "movz"):
            r, v = arg.split("=")
            regs[int(r)] = int(v)
        elif op == "movmem":
            r, s = arg.split("=s")
            regs[int(r)] = ("word-at", int(s))
        elif op == "push":
            sp -= W
            mem[sp] = int(arg)
        elif op == "pushmem":
            sp -= W
            mem[sp] = ("word-at", int(arg[1:]))
        elif op == "movk":
            r, rest = arg.split("=")
            c, sh = rest.split("<<")
            old = regs.get(int(r), ("unset",))       # movk keeps the other bits of whatever the register held
            regs[int(r)] = ((old & ~(0xFFFF << int(sh))) | (int(c) << int(sh))) if isinstance(old, int) else ("garbage",)
        elif op == "adrp":
            r, s = arg.split("=s")
            regs[int(r)] = ("page", int(s))
        elif op == "addlo12":
            r, s = arg.split("=s")
            regs[int(r)] = ("addr", int(s)) if regs.get(int(r)) == ("page", int(s)) else ("garbage",)
        elif op == "str":
            r, o = arg.split("@")
            mem[sp + int(o)] = regs.get(int(r))
        elif op in ("call", "bl"):
            at_call = (dict(regs), sp, dict(mem))
            if not case["caller_cleanup"]:
                sp += W * nstack
        else:
            return ["unknown instruction form " + tk]
    errs = []
    if at_call is None:
        return ["no call instruction emitted"]
    cregs, csp, cmem = at_call

    def expect(a):
        return a[1] % (1 << 64) if a[0] == "i" and t["fam"] == "a64" else (a[1] if a[0] == "i" else ("addr", a[1]))

    def same(got, a):
        if a[0] == "i":
            return got == a[1] or (isinstance(got, int) and got % (1 << (8 * W)) == a[1] % (1 << (8 * W)))
        return got == ("addr", a[1])
    for i, a in enumerate(case["args"]):
        if i < len(case["regs"]):
            got = cregs.get(case["regs"][i])
            where = f"register argument {i}"
        else:
            got = cmem.get(csp + case["shadow"] + W * (i - len(case["regs"])))
            where = f"stack argument {i}"
        if not same(got, a):
            if a[0] == "s" and got == ("word-at", a[1]) and t["fam"] == "x86" and load_semantics(t):
                errs.append("FINDING:C17-x86-symbol-argument-is-a-load")
            else:
                errs.append(f"{where} does not arrive as requested (got {got!r})")
    if csp % A:
        errs.append(f"call executed with a misaligned stack pointer (sp mod {A} = {csp % A})")
    if sp != sp0:
        errs.append("stack pointer not restored after the call")
    return errs


def assembles(asm, t, ntoks):
    """the emitted text goes through the library's assembler for the target, as RewritingContext would do it, and an independent
    disassembler finds one instruction per emitted line; returns a complaint or None"""
    import capstone
    from gtirb_rewriting.assembler import Assembler
    from gtirb_rewriting.assembly import X86Syntax
    try:
        a = Assembler(t["m"], allow_undef_symbols=True)
        a.assemble(asm + "\n", X86Syntax.INTEL)
        data = bytes(a.finalize().text_section.data)
    except Exception as e:   # noqa
        return f"the emitted code does not assemble ({type(e).__name__})"
    md = capstone.Cs(*((capstone.CS_ARCH_ARM64, capstone.CS_MODE_ARM) if t["fam"] == "a64" else
                       (capstone.CS_ARCH_X86, capstone.CS_MODE_64 if t["W"] == 8 else capstone.CS_MODE_32)))
    ins = list(md.disasm(data, 0))
    if sum(i.size for i in ins) != len(data) or len(ins) != ntoks:
        return f"the assembled code decodes to {len(ins)} instructions, {ntoks} were emitted"
    return None


def run_case(case):
    from unittest import mock
    import gtirb_rewriting
    from gtirb_rewriting.abi import CallingConventionDesc
    from gtirb_rewriting.patches import CallPatch
    t = case["t"]
    conv = CallingConventionDesc(tuple(t["names"][r] for r in case["regs"]), case["align"], case["caller_cleanup"], case["shadow"])
    args = [a[1] if a[0] == "i" else t["syms"][a[1]] for a in case["args"]]
    try:
        p = CallPatch(t["callee"], args, conv)
        ctx = mock.MagicMock(spec=gtirb_rewriting.InsertionContext, module=t["m"], stack_adjustment=case["adj"])
        asm = p.get_asm(ctx)
    except Exception as e:  # noqa
        return "err " + type(e).__name__, []
    toks = parse(asm.splitlines(), t)
    if any(x.startswith("?") for x in toks):
        return " ".join(toks), ["emitted an instruction form outside the modelled vocabulary: " + str([x for x in toks if x.startswith("?")][:2])]
    errs = simulate(toks, t, case)
    w = assembles(asm, t, len(toks))
    if w:
        # known finding: x86-64 has no push of a 64-bit immediate; a stack argument outside the sign-extended 32-bit range is emitted
        # as `push <value>` all the same
        nreg = len(case["regs"])
        wide = t["fam"] == "x86" and t["W"] == 8 and "does not assemble" in w and \
            any(a[0] == "i" and not -2 ** 31 <= a[1] < 2 ** 31 for a in case["args"][nreg:])
        errs = errs + ["FINDING:C17-x86-64-stack-argument-beyond-imm32" if wide else w]
    return " ".join(toks), errs


def callpatch_frames(rnd, n):
    """the frame the ABI builds for CallPatch's own constraints (flags, argument registers, align_stack, caller-saved registers) on every
    target: executed on the concrete machine of harness/c16.py -- the patch must leave the stack pointer, the flags and every register
    it declares where it found them.  Returns violation texts."""
    import random

    from gtirb_rewriting.patches import CallPatch
    from harness import c16
    bad = []
    by_abi = {type(ab[1]).__name__: ab for ab in c16.abis()}
    for t in targets():
        ab = by_abi.get(type(t["abi"]).__name__)
        if ab is None:
            continue
        names = [r.name for r in ab[1].all_registers()]
        low = {}
        for i, r in enumerate(ab[1].all_registers()):
            for nm in r.sizes.values():
                low[nm.lower()] = i
        for _ in range(n):
            nargs = rnd.randint(0, 8)
            p = CallPatch(t["callee"], [rnd.randrange(0, 100) for _ in range(nargs)])
            c = p.constraints
            case = dict(abi=ab, flags=c.clobbers_flags, align=c.align_stack, preserve=c.preserve_caller_saved_registers, leaf=rnd.random() < 0.5,
                        scratch=c.scratch_registers, clob=sorted({low[str(r).lower()] for r in c.clobbers_registers if str(r).lower() in low}),
                        reads=sorted({low[str(r).lower()] for r in c.reads_registers if str(r).lower() in low}))
            out, errs = c16.check_case(case, random.Random(rnd.randrange(1 << 30)))
            for e in errs:
                bad.append(f"{t['key']}: the frame built for a CallPatch with {nargs} arguments ({c16.case_line(case)}): {e}")
    return bad


def callable_argument_context(rnd):
    """CallPatch argument callables receive the insertion context of the registered place: two or three CallPatches in one block (and
    a plain insertion in front of them), each with a callable argument.  Returns a violation text or None."""
    import gtirb
    import gtirb_rewriting
    from gtirb_rewriting.patches import CallPatch
    from gtirb_test_helpers import add_code_block, add_proxy_block, add_symbol, add_text_section, create_test_module
    from helpers import literal_patch
    isa, ff, nop, ret = rnd.choice([(gtirb.Module.ISA.X64, gtirb.Module.FileFormat.ELF, b"\x90", b"\xc3"), (gtirb.Module.ISA.IA32, gtirb.Module.FileFormat.PE, b"\x90", b"\xc3"),
                                    (gtirb.Module.ISA.ARM64, gtirb.Module.FileFormat.ELF, b"\x1f\x20\x03\xd5", b"\xc0\x03\x5f\xd6")])
    ir, m = create_test_module(ff, isa)
    _, bi = add_text_section(m, address=0x1000)
    blocks = [add_code_block(bi, nop * 3 + ret) for _ in range(2)]
    callee = add_symbol(m, "callee", add_proxy_block(m))
    ctx = gtirb_rewriting.RewritingContext(m, [])
    seen, want = [], []
    step = len(nop)
    b = rnd.choice(blocks)
    offs = sorted(rnd.sample([0, step, 2 * step, 3 * step], rnd.randint(2, 3)))
    if rnd.random() < 0.5:
        ctx.insert_at(b, offs[0], literal_patch("nop"))
    shared = None
    if rnd.random() < 0.4:
        # ONE CallPatch object registered at every offset: its callable is asked once per place and sees that place
        def arg_shared(ictx):
            seen.append((ictx.block is b, ictx.offset, ictx.offset if ictx.offset in offs else None))
            return 7
        shared = CallPatch(callee, [arg_shared])
    for o in offs:
        def arg(ictx, _o=o):
            seen.append((ictx.block is b, ictx.offset, _o))
            return 7
        ctx.insert_at(b, o, shared if shared is not None else CallPatch(callee, [arg]))
        want.append(o)
    try:
        ctx.apply()
    except Exception as e:    # noqa
        return f"{isa.name}: CallPatches with callable arguments at offsets {offs} of one block: apply raises {type(e).__name__}"
    for same_block, got_off, reg_off in seen:
        if not same_block or got_off != reg_off:
            return (f"{isa.name}: the argument callable of the CallPatch registered at offset {reg_off} received a context with "
                    f"{'another block' if not same_block else 'the block'} and offset {got_off} (registrations at {offs} of one block)")
    if sorted((x[2] for x in seen), key=lambda v: -1 if v is None else v) != want:
        return (f"{isa.name}: argument callables were called for offsets {[x[2] for x in seen]}, registered {want}" +
                (" (one CallPatch object registered at every offset)" if shared is not None else ""))
    return None


def case_line(case):
    t = case["t"]
    return (f"call {t['fam']} {t['W']} {'-' if case['adj'] is None else case['adj']} {case['align']} {int(case['caller_cleanup'])} {case['shadow']} "
            f"{len(case['regs'])} " + " ".join(map(str, case["regs"])) + f" {len(case['args'])} " + " ".join(f"{a[0]} {a[1]}" for a in case["args"]))


def gen_cases(rnd, tier):
    cases = []
    ints = [0, 1, -1, 31, 0xFFFF, 0x10000, -0xFFFF, -0x10000, 2 ** 31 - 1, 2 ** 31, 2 ** 32, 2 ** 63 - 1, 2 ** 64 - 1, -2 ** 63, 0x1234_5678_9ABC_DEF0]
    for t in targets():
        n = len(t["names"])
        default = t["abi"].calling_convention()
        dregs = [t["idx"][r.lower()] for r in default.registers]
        convs = [(dregs, default.stack_alignment, default.caller_cleanup, default.shadow_space)]
        for _ in range(30 if tier == "quick" else 80):
            k = rnd.randrange(0, min(6, n) + 1)
            if t["fam"] == "a64":
                convs.append((rnd.sample(range(n), k), 16, rnd.random() < 0.9, rnd.choice((0, 0, 0, 16))))
            else:
                convs.append((rnd.sample(range(n), k), rnd.choice((4, 8, 16, 32)), rnd.random() < 0.6, rnd.choice((0, 0, 8, 16, 24, 32, 40))))
        for regs, align, cc, shadow in convs:
            for nargs in list(range(0, 9)) + [12, 16]:
                for _ in range(4 if tier == "quick" else 8):
                    args = []
                    for _ in range(nargs):
                        r = rnd.random()
                        args.append(("s", rnd.randrange(3)) if r < 0.15 else ("i", rnd.choice(ints) if r < 0.7 else rnd.randrange(-2 ** 63, 2 ** 64)))
                    adjs = [None, 0, t["W"], 3 * t["W"], 128 + t["W"], rnd.randrange(0, 40) * t["W"]]
                    cases.append(dict(t=t, regs=regs, align=align, caller_cleanup=cc, shadow=shadow, args=args, adj=rnd.choice(adjs)))
    return cases


class C17(Prop):
    id = "C17"
    gens = [("gen_calls.py", "CallsGen.v")]
    prop_file = "Properties/C17.v"
    extract = ("c17", "ExtractC17.v", "c17_main.ml", "C17_model")
    allowed_axioms = set()
    trusted_base = [
        "Coq 8.16.1 kernel",
        "translator/gen_calls.py: utils.align_address regenerated from source; pins of _create_passed_args, both get_asm, _load_immediate, _load_symbol, __init__",
        "hand model Calls/Model.v (code generators + a word-granular machine for the emitted forms; `mov reg, sym` / `push sym` are loads, "
        "cross-checked on every run by assembling the form with the real assembler and decoding it with capstone)",
        "text -> token parse of harness/c17.py (the emitted text is also assembled with the library's assembler for the target and the "
        "bytes decoded with capstone: one instruction per emitted line); extraction ExtrOcamlBasic only; OCaml driver",
    ]
    assumptions = ["the stack pointer plus the reported adjustment is aligned before the patch (align_stack or an aligned call site)",
                   "alignment is a power of two; convention registers are pairwise distinct",
                   "IA32: integer arguments are compared modulo 2^32"]
    level_rule = ("cases = 4 targets x (default + random conventions) x 0..16 arguments (ints at immediate boundaries, full 64-bit range, symbols) x "
                  "reported adjustments; distinct = distinct case line; non-trivial = code was emitted (not a refusal)")

    def correspondence(self, tier, ctx):
        rnd = C.rng("c17")
        cases = gen_cases(rnd, tier)
        lines = [case_line(c) for c in cases]
        got = C.run_driver("c17", lines)
        dis, nontriv, viol, refusals, samples = [], set(), [], {}, []
        for case, line, g in zip(cases, lines, got):
            out, errs = run_case(case)
            if out != g:
                dis.append({"case": line, "implementation": out, "model": g})
            if out.startswith("err"):
                refusals[out] = refusals.get(out, 0) + 1
            else:
                nontriv.add(line)
            for e in errs:
                fid = e[len("FINDING:"):] if e.startswith("FINDING:") else None
                viol.append(dict(what=e, input=line, observed=out, finding=fid))
            if len(samples) < 5 and len(out) > 60 and len(samples) * 499 < len(nontriv):
                samples.append({"case": line, "implementation": out, "model": g})
        self._viol = (len(lines), viol)
        return dict(evaluations=len(lines), distinct_nontrivial=len(nontriv), samples=samples, disagreements=dis[:20],
                    dist={"refusals": refusals, "emitted": len(nontriv)})

    def oracle(self, tier, ctx, boosted):
        if getattr(self, "_viol", None) is None or boosted:
            rnd = C.rng("c17-boost")
            viol, n = [], 0
            for case in gen_cases(rnd, "thorough" if boosted else tier):
                n += 1
                out, errs = run_case(case)
                for e in errs:
                    fid = e[len("FINDING:"):] if e.startswith("FINDING:") else None
                    viol.append(dict(what=e, input=case_line(case), observed=out, finding=fid))
        else:
            n, viol = self._viol
        # context level: one CallPatch object inserted at several places; the convention description is not shared
        from harness import ctxlevel
        rndc = C.rng("c17-ctx" + ("-boost" if boosted else ""))
        viol = list(viol)
        for _ in range(300 if boosted else 60):
            n += 1
            w = ctxlevel.shared_patch_insertions(rndc, call_patch=True)
            if w:
                viol.append(dict(what=w, input="ctxlevel.shared_patch_insertions(call_patch=True)", observed="", finding=None))
        for w in callpatch_frames(rndc, 30 if boosted else 6):
            n += 1
            viol.append(dict(what=w, input="callpatch_frames()", observed="", finding=None))
        for _ in range(400 if boosted else 80):
            n += 1
            w = callable_argument_context(rndc)
            if w:
                viol.append(dict(what=w, input="callable_argument_context()", observed="", finding=None))
        # last: where the description is shared this check changes it for everybody (it puts the values back afterwards)
        for w in ctxlevel.convention_is_not_shared():
            viol.append(dict(what=w, input="ctxlevel.convention_is_not_shared()", observed="", finding=None))
        seen, uniq = set(), []
        for v in viol:
            k = re.sub(r"\d+", "N", v["what"])[:60]
            if k not in seen:
                seen.add(k)
                uniq.append(v)
        return dict(evaluations=n, violations=uniq[:10], samples=[{"oracle": "concrete machine: arguments at the call, alignment, stack neutrality"}])

    def replay(self, path):
        print(json.dumps(json.load(open(path)), indent=1)[:3000])
        return 0


PROP = C17()
