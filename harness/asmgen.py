"""Shared machinery for the assembler properties (C12, C13): random assembly texts, an event logger on the streamer classes,
and canonical dumps of Assembler.Result that the extracted model (ocaml/asm_main.ml) prints the same way."""
import logging

import gtirb

logging.disable(logging.CRITICAL)

LABELS = ["foo", "bar", ".Ltmp", ".Lx"]
MODULE_SYMS = {"ext": "code", "extp": "proxy", "dat": "data", "nil": "none"}
NAMES = LABELS + list(MODULE_SYMS) + ["und1", "und2"]
NID = {n: i for i, n in enumerate(NAMES)}
SECTS = {".text": (0, True), ".data": (1, False), ".rodata": (2, False), ".mytext": (3, True)}


def gen_text(rnd, allow_undef, chunks=1):
    """a list of chunks, each a list of lines"""
    defined = []
    lines = []
    n = rnd.randint(1, 9)
    will_define = [l for l in LABELS if rnd.random() < 0.5]
    pending = list(will_define)
    for _ in range(n):
        k = rnd.random()
        targets = will_define + ["ext", "extp"] + (["dat", "nil"] if rnd.random() < 0.05 else []) + \
            (["und1", "und2"] if rnd.random() < (0.4 if allow_undef else 0.04) else []) + ([rnd.choice(LABELS)] if rnd.random() < 0.03 else [])
        t = rnd.choice(targets)
        if k < 0.16:
            l = pending.pop(0) if pending else rnd.choice(LABELS)
            if rnd.random() < 0.04:
                l = rnd.choice(list(MODULE_SYMS))      # a name the module already has: MultipleDefinitionsError
            if l not in defined or rnd.random() < 0.03:
                defined.append(l)
                lines.append(f"{l}:")
        elif k < 0.22:
            lines.append("nop")
        elif k < 0.30:
            lines.append(f"jmp {t}")
        elif k < 0.37:
            lines.append(f"jne {t}")
        elif k < 0.46:
            lines.append(f"call {t}" + ("@PLT" if rnd.random() < 0.15 else ""))
        elif k < 0.52:
            lines.append("ret")
        elif k < 0.56:
            lines.append(rnd.choice(["jmp *%rax", "call *%rax", "jmp *%rax", "call *%rax", f"call *{t}(%rip)", f"jmp *{t}(%rip)", f"call *{t}@GOTPCREL(%rip)"]))
        elif k < 0.62:
            lines.append(rnd.choice([f"lea {t}(%rip), %rax", f"mov {t}@GOTPCREL(%rip), %rax", f"mov {t}+4(%rip), %eax",
                                     f"movl $1, {t}(%rip)", f"movw $3, {t}(%rip)", f"cmpb $7, {t}+4(%rip)"]))
        elif k < 0.70:
            lines.append(rnd.choice([".byte 1", ".byte 1, 2, 3", ".long 7", ".zero 3"]))
        elif k < 0.76:
            lines.append(rnd.choice([f".quad {t}", f".long {t}+8", f".quad {t}-{rnd.choice(targets)}"]))
        elif k < 0.82:
            lines.append(rnd.choice(['.ascii "ab"', '.string "hi"', '.asciz "x"']))
        elif k < 0.86:
            lines.append(rnd.choice([".uleb128 5", f".uleb128 {t}-{rnd.choice(targets)}", f".sleb128 {t}-{rnd.choice(targets)}"]))
        elif k < 0.90:
            lines.append(rnd.choice([".align 4", ".p2align 3"]))
        else:
            s = rnd.choice(list(SECTS))
            lines.append(s if s in (".text", ".data") else f'.section {s},"{ "ax" if SECTS[s][1] else "a" }",@progbits')
    for l in pending:
        lines.insert(rnd.randint(0, len(lines)), f"{l}:")
    # chunks: cut the line list
    if chunks == 1 or len(lines) < 2:
        return [lines]
    cut = rnd.randint(1, len(lines) - 1)
    return [lines[:cut], lines[cut:]]


def make_module(pie):
    import sys
    sys.path.insert(0, "/repo/tests")
    from gtirb_test_helpers import add_code_block, add_data_block, add_proxy_block, add_symbol, add_text_section, create_test_module
    ir, m = create_test_module(gtirb.Module.FileFormat.ELF, gtirb.Module.ISA.X64, binary_type=["DYN"] if pie else ["EXEC"])
    _, bi = add_text_section(m, address=0x1000)
    cb = add_code_block(bi, b"\x90")
    db = add_data_block(bi, b"\x00")
    pb = add_proxy_block(m)
    refs = {"code": cb, "proxy": pb, "data": db, "none": None}
    syms = {}
    for name, kind in MODULE_SYMS.items():
        s = add_symbol(m, name, refs[kind]) if refs[kind] is not None else add_symbol(m, name)
        syms[name] = s
    return m, syms


class Logger:
    """records the events the streamer classes receive, in the model's vocabulary"""

    def __init__(self):
        self.events = []
        self.variants = {}

    def mcx(self, e):
        import mcasm
        mc = mcasm.mc
        if isinstance(e, mc.SymbolRefExpr):
            vk = e.variant_kind
            vid = 0 if vk == mc.SymbolRefExpr.VariantKind.None_ else self.variants.setdefault(vk, len(self.variants) + 1)
            return f"S {NID.get(e.symbol.name, 99)} {vid}"
        if isinstance(e, mc.ConstantExpr):
            return f"K {e.value}"
        if isinstance(e, mc.BinaryExpr) and e.opcode == mc.BinaryExpr.Opcode.Add:
            return f"+ {self.mcx(e.lhs)} {self.mcx(e.rhs)}"
        if isinstance(e, mc.BinaryExpr) and e.opcode == mc.BinaryExpr.Opcode.Sub:
            return f"- {self.mcx(e.lhs)} {self.mcx(e.rhs)}"
        return "O"

    def install(self):
        import gtirb_rewriting.assembler.assembler as A
        from gtirb_rewriting.assembler._mc_utils import is_indirect_call
        log = self
        self.saved = []

        def patch(cls, name, fn):
            orig = getattr(cls, name)
            self.saved.append((cls, name, orig))
            setattr(cls, name, fn(orig))
        patch(A._SymbolCreator, "_precreate_label", lambda orig: lambda self, ps, label: (log.events.append(f"pre {NID.get(label.name, 99)} {1 if label.is_temporary else 0}"), orig(self, ps, label))[1])

        def sect(orig):
            def f(self, state, section, subsection):
                SHF_EXECINSTR = 0x4
                log.events.append(f"sect {SECTS.get(section.name, (9, False))[0]} {1 if section.flags & SHF_EXECINSTR else 0}")
                return orig(self, state, section, subsection)
            return f
        patch(A._Streamer, "change_section", sect)
        patch(A._Streamer, "emit_label", lambda orig: lambda self, state, symbol, loc: (log.events.append(f"label {NID.get(symbol.name, 99)}"), orig(self, state, symbol, loc))[1])

        def insn(orig):
            def f(self, state, inst, data, fixups):
                d = inst.desc
                # indirect transfers, read off the x86-64 encoding (not through the library's own instruction-name table): a
                # direct call is e8, a direct jump e9 / eb / 0f 8x / 7x; ff /2../5 are the indirect forms
                k_ = 0
                while k_ < len(data) and (0x40 <= data[k_] <= 0x4F or data[k_] in (0x66, 0x3E, 0x2E, 0xF2, 0xF3)):
                    k_ += 1
                indirect = (d.is_call or d.is_branch) and k_ < len(data) and data[k_] == 0xFF
                fx = " ".join(f"{x.offset} {x.kind_info.bit_size // 8} {1 if x.kind_info.is_pc_rel else 0} {log.mcx(x.value)}" for x in fixups)
                log.events.append(f"insn {len(data)} {int(d.is_return)} {int(d.is_call)} {int(d.is_branch)} {int(d.is_conditional_branch)} {int(bool(indirect))} {len(fixups)} {fx}")
                return orig(self, state, inst, data, fixups)
            return f
        patch(A._Streamer, "emit_instruction", insn)

        def ebytes(orig):
            def f(self, state, data):
                if self._prevent_print_as_string_count:
                    log.events.append(f"int {len(data)}")
                else:
                    log.events.append(f"str {len(data)} {1 if data == bytes(1) else 0}")
                return orig(self, state, data)
            return f
        patch(A._Streamer, "emit_bytes", ebytes)
        patch(A._Streamer, "emit_value_impl", lambda orig: lambda self, state, value, size, loc: (None if getattr(log, "nested", False) else log.events.append(f"value {size} {log.mcx(value)}"), orig(self, state, value, size, loc))[1])

        def leb(orig):
            def f(self, state, value):
                log.events.append(f"leb {log.mcx(value)}")
                log.nested = True
                try:
                    return orig(self, state, value)
                finally:
                    log.nested = False
            return f
        patch(A._Streamer, "emit_uleb128_value", leb)
        patch(A._Streamer, "emit_sleb128_value", leb)
        patch(A._Streamer, "emit_value_fill", lambda orig: lambda self, state, num_bytes, fill_value, loc: (log.events.append(f"fill {getattr(num_bytes, 'value', 0)}"), orig(self, state, num_bytes, fill_value, loc))[1])
        patch(A._Streamer, "_emit_alignment", lambda orig: lambda self, ps, alignment, value, value_size, max_bytes: (log.events.append(f"align {alignment}"), orig(self, ps, alignment, value, value_size, max_bytes))[1])

    def remove(self):
        for cls, name, orig in reversed(self.saved):
            setattr(cls, name, orig)


def dump_result(res, module_syms):
    """the same text ocaml/asm_main.ml prints"""
    pos = {}
    for name, sec in res.sections.items():
        for k, b in enumerate(sec.blocks):
            pos[id(b)] = f"{SECTS.get(name, (9, False))[0]}.{k}"
    modsym = {id(s): n for n, s in module_syms.items()}

    def rname(r):
        if r is None:
            return "none"
        if isinstance(r, gtirb.ProxyBlock):
            return "proxy"
        return pos.get(id(r), "data" if isinstance(r, gtirb.DataBlock) else "?")

    def sname(s):
        if id(s) in modsym:
            return f"m{NID[modsym[id(s)]]}"
        base = s.name
        for l in NAMES:
            if base == l or base.startswith(l + "_sfx"):
                return f"l{NID[l]}"
        return "?"
    out = []
    for name, sec in res.sections.items():
        blocks = ",".join(("D" if isinstance(b, gtirb.DataBlock) else "C") + f"{b.offset}+{b.size}" for b in sec.blocks)
        sx = []
        for p, e in sec.symbolic_expressions.items():
            if isinstance(e, gtirb.SymAddrConst):
                sx.append(f"{p}:c{sname(e.symbol)}+{e.offset}" + "{" + ",".join(sorted(str(ATTR(a)) for a in e.attributes)) + "}")
            else:
                sx.append(f"{p}:a{sname(e.symbol1)}-{sname(e.symbol2)}")
        out.append(f"sect {SECTS.get(name, (9, False))[0]} len {len(sec.data)} [{blocks}] X{{" + ";".join(sorted(sx)) + "} Z{" +
                   ";".join(sorted(f"{p}:{z}" for p, z in sec.symbolic_expression_sizes.items())) + "} A{" +
                   ";".join(sorted(f"{pos.get(id(b), '?')}:{a}" for b, a in sec.alignment.items())) + "}")
    syms = sorted(f"{NID.get(next((l for l in NAMES if s.name == l or s.name.startswith(l + '_sfx')), '?'), 99)}@{rname(s.referent)}" + ("$" if s.at_end else "") for s in res.symbols)
    out.append("syms " + ",".join(syms))
    edges = sorted(f"{pos.get(id(e.source), '?')}>{rname(e.target)}:{e.label.type.value}" + ("c" if e.label.conditional else "") + ("d" if e.label.direct else "i") for e in res.cfg)
    out.append("edges " + ",".join(edges))
    out.append(f"proxies {len(res.proxies)}")
    return " | ".join(out)


_ATTR = {}


def ATTR(a):
    """a small stable number per attribute: the ones the model names (Asm/Model.v: PLT 1, GOT 2, LO12 3, HI 4, LO 5, PCREL 6) are fixed"""
    if not _ATTR:
        A = gtirb.SymbolicExpression.Attribute
        _ATTR.update({A.PLT: 1, A.GOT: 2, A.LO12: 3, A.HI: 4, A.LO: 5, A.PCREL: 6})
    return _ATTR.setdefault(a, len(_ATTR) + 1)


def run_assembler(chunks, pie, allow_undef, unreachable=False, suffix="_sfx1"):
    """returns (model line, implementation dump or error, Result or None, module symbols)"""
    import gtirb_rewriting.assembler.assembler as A
    m, msyms = make_module(pie)
    log = Logger()
    log.install()
    res, err = None, None
    try:
        asm = A.Assembler(m, temp_symbol_suffix=suffix, allow_undef_symbols=allow_undef, trivially_unreachable=unreachable)
        for ch in chunks:
            log.events.append("chunk")
            asm.assemble("\n".join(ch) + "\n", A.X86Syntax.ATT)
        res = asm.finalize()
    except Exception as e:   # noqa
        err = type(e).__name__
    finally:
        log.remove()
    # the target description
    ref = {"code": "B 990", "proxy": "P 991", "data": "D", "none": "N"}
    parts = ["asm", str(len(MODULE_SYMS))] + [f"{NID[n]} {ref[k]}" for n, k in MODULE_SYMS.items()]
    parts += [str(int(pie)), str(int(allow_undef)), str(int(unreachable))]
    vs = []
    for vk, vid in log.variants.items():
        attrs = A._Streamer._ELF_VARIANT_KINDS.get(vk)
        vs.append(f"{vid} {0 if attrs is None else 1} {0 if attrs is None else len(attrs)} " + ("" if attrs is None else " ".join(str(ATTR(a)) for a in sorted(attrs, key=lambda a: a.value))))
    parts.append(str(len(vs)) + " " + " ".join(vs))
    parts.append(str(len(log.events)) + " " + " ".join(log.events))
    out = ("err " + err) if err else dump_result(res, msyms)
    return " ".join(parts), out, res, msyms
