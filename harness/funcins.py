"""Rewrites that add functions with register_insert_function (and a few ordinary insertions), for the oracles of C06 (function
tables) and C13 (temporary-label suffixes).  Implementation only: the function-insertion path is not part of the IR model."""
import random

import gtirb

from harness import irgen

FUNC_PATCHES = ["ret", "nop\nret", "nop\njne .Lx\nnop\n.Lx:\nret", ".Lspin:\ndec %eax\njne .Lspin\nret", "call {L}\nret",
                "jmp .Lend\n.string \"hi\"\n.Lend:\nret", "nop\n.La:\nnop\n.Lb:\njne .La\nret"]


def run(seed):
    """returns dict(error, module, built, inserted=[(name, symbol, number of code blocks the patch has at least)], originals)"""
    import gtirb_rewriting
    from helpers import literal_patch
    rnd = random.Random(seed)
    case = irgen.Case(rnd, with_aux=False, with_cfi=False, max_mods=1)
    B = irgen.build(case)
    originals = {id(b) for b in B.m.byte_blocks}
    if case.nfun == 0 and rnd.random() < 0.6:
        # a module that has no function tables at all (a stripped object, an IR built by hand): they come into being with the
        # first inserted function
        for k in ("functionBlocks", "functionEntries", "functionNames"):
            B.m.aux_data.pop(k, None)
    ctx = gtirb_rewriting.RewritingContext(B.m, B.fobjs)
    code_idx = [i for i, x in enumerate(case.blocks) if x["kind"] == "c"]
    inserted = []
    same = rnd.choice(FUNC_PATCHES)
    for k in range(rnd.randint(1, 3)):
        text = (same if rnd.random() < 0.6 else rnd.choice(FUNC_PATCHES)).replace("{L}", f"L{rnd.choice(code_idx)}")
        sym = ctx.register_insert_function(f"newfn{k}", literal_patch(text))
        inserted.append((f"newfn{k}", sym, text))
    # the same patch text also inserted at ordinary places, so that several copies of one temporary label meet in one module
    for _ in range(rnd.randint(0, 2)):
        i = rnd.choice(code_idx)
        ctx.insert_at(B.gbs[i], 0, literal_patch(same.replace("{L}", f"L{rnd.choice(code_idx)}").replace("ret", "nop")))
    # ... and through one registration whose scope matches every code block: each match is an insertion of its own
    if rnd.random() < 0.4 and not case.scope_groups and not any(t != "ins" and off == 0 for (_, t, off, _, _, _) in case.mods):
        from gtirb_rewriting import AllBlocksScope, BlockPosition
        ctx.register_insert(AllBlocksScope(BlockPosition.ENTRY), literal_patch(rnd.choice(["jne .Lsc\nnop\n.Lsc:\nnop", same.replace("{L}", "L0").replace("ret", "nop")])))
    irgen.register(case, B, ctx, literal_patch)
    err = None
    try:
        ctx.apply()
    except Exception as e:    # noqa
        err = type(e).__name__
    return dict(error=err, module=B.m, built=B, inserted=inserted, originals=originals, case=case)


def check_tables(r):
    """C06: an inserted function is in all three tables with its symbol as name and the symbol's block as the only entry; its blocks
    are new code blocks; no block is in two functions"""
    m = r["module"]
    fb, fe, fn = (m.aux_data[k].data for k in ("functionBlocks", "functionEntries", "functionNames"))
    bad = []
    live = {id(b) for b in m.byte_blocks}
    owner = {}
    for u, bs in fb.items():
        for b in bs:
            if id(b) in owner:
                bad.append(f"a block belongs to two functions ({fn.get(u).name if u in fn else u})")
            owner[id(b)] = u
            if id(b) not in live:
                bad.append("functionBlocks mentions a block that is not in the module")
            if not isinstance(b, gtirb.CodeBlock):
                bad.append("functionBlocks holds a data block")
    for name, sym, text in r["inserted"]:
        us = [u for u, s in fn.items() if s is sym]
        if len(us) != 1:
            bad.append(f"{name}: {len(us)} functionNames entries carry its symbol")
            continue
        u = us[0]
        if u not in fb or u not in fe:
            bad.append(f"{name}: missing from functionBlocks / functionEntries")
            continue
        ref = sym.referent
        if not isinstance(ref, gtirb.CodeBlock) or id(ref) not in live:
            bad.append(f"{name}: its symbol does not refer to a code block of the module")
            continue
        if [id(b) for b in fe[u]] != [id(ref)]:
            bad.append(f"{name}: entries are {sorted((b.address, b.size) for b in fe[u])}, its symbol's block is at {ref.address:#x}")
        if not any(b is ref for b in fb[u]):
            bad.append(f"{name}: its entry is not one of its blocks")
        for b in fb[u]:
            if id(b) in r["originals"]:
                bad.append(f"{name}: owns a block of the input")
    for b in m.code_blocks:
        if id(b) not in r["originals"] and id(b) not in owner and b.size:
            # new code: it was inserted into a block of a function, or is part of an inserted function
            host = [x for x in m.code_blocks if id(x) in r["originals"]]
            # code inserted into function-less blocks stays function-less: only flag new blocks inside the inserted functions' intervals
            if any(b.byte_interval is sym.referent.byte_interval for _, sym, _ in r["inserted"] if isinstance(sym.referent, gtirb.ByteBlock)):
                bad.append(f"code block at {b.address:#x} of an inserted function belongs to no function")
    return bad


def check_names(r):
    """C13: no two symbols of the module share a name; a temporary label of one copy is not used by another copy"""
    m = r["module"]
    bad = []
    names = {}
    for s in m.symbols:
        names.setdefault(s.name, []).append(s)
    for n, ss in names.items():
        if len(ss) > 1:
            bad.append(f"{len(ss)} symbols are named {n}")
    return bad
