"""Shared machinery for the rewriting-core properties (C01-C06, C08, C09, C11): random x86-64 modules,
modification sets, running RewritingContext.apply() while capturing what the modify layer is handed
(the assembled patches), and canonical dumps that the extracted Coq model (ocaml/ir_main.ml) prints the same way."""
import contextlib
import logging
import random
import sys

import gtirb

sys.path.insert(0, "/repo/tests")
logging.disable(logging.CRITICAL)

ET = gtirb.Edge.Type
ENC = {"nop": b"\x90", "jmp": b"\xe9\0\0\0\0", "jcc": b"\x0f\x85\0\0\0\0", "call": b"\xe8\0\0\0\0", "ret": b"\xc3", "nop2": b"\x66\x90",
       "sys": b"\x0f\x05"}
TERMINATORS = ("jmp", "jcc", "call", "ret", "sys")
SYMOFF = {"jmp": 1, "jcc": 2, "call": 1}
PATCHES = ["nop", "nop\nnop", "xchg %ax, %ax", "jmp {L}", "ret", "call {L}", "jne {L}\nnop", "nop\n.Lt:\nnop\njmp .Lt", "nop\ncall {L}\nnop",
           "nop\nret\nnop", "jne {L}", ".Ls:\ndec %eax\njne .Ls", "jmp .Le\n.string \"hi\"\n.Le:\nnop", ".Lq:\nnop", "call {L}\nxchg %ax, %ax",
           "nop\n.Lm:\njne .Lm\nret", "call {L}\ncall {L}", "movl $1, {L}(%rip)", "lea {L}+8(%rip), %rax",
           "jne .Lv\nnop\n.Lv:\n.Lw:\nnop"]        # a conditional branch to the first of two labels at one place
# text patches for data blocks: bytes with a label behind them
DATA_TEXT_PATCH = [".byte 0x77\n.byte 0x77\n.Ld:", ".Lh:\n.byte 0x55"]
# the symbolic operands a patch text asks for: template -> [(offset inside the patch, addend)], all naming {L}
PATCH_EXPRS = {"jmp {L}": [(1, 0)], "call {L}": [(1, 0)], "jne {L}\nnop": [(1, 0)], "nop\ncall {L}\nnop": [(2, 0)], "jne {L}": [(1, 0)],
               "call {L}\nxchg %ax, %ax": [(1, 0)], "call {L}\ncall {L}": [(1, 0), (6, 0)], "movl $1, {L}(%rip)": [(2, 0)],
               "lea {L}+8(%rip), %rax": [(3, 8)]}
CFI_PATCHES = ["pushq %rax\n.cfi_adjust_cfa_offset 8\npopq %rax\n.cfi_adjust_cfa_offset -8", ".cfi_remember_state\nnop\n.cfi_undefined 40\nnop\n.cfi_restore_state",
               # a directive in front of a label (an empty block that the assembler folds into the next one) and one behind it
               ".cfi_remember_state\n.Lc:\n.cfi_undefined 40\nnop\n.cfi_restore_state"]
DATA_PATCH = [b"\x01", b"\x02\x03", b"\x04\x05\x06\x07"]
# several labels at one place of a patch, in front of content whose block the assembler replaces while finalizing (data-only
# content in a data block, a data island that is jumped over): every one of them has to follow the replacement
MULTI_LABEL_DATA = [".Lh:\n.Lk:\n.byte 0x55", ".Lh:\n.Lk:\n.Lg:\n.byte 0x55\n.byte 0x56"]
MULTI_LABEL_CODE = ["jmp .Lo\n.Li:\n.Lj:\n.byte 7\n.Lo:\nnop", "jmp .Lo\n.Li:\n.Lj:\n.Ln:\n.byte 7\n.byte 8\n.Lo:\n.Lp:\nnop"]
# patches that ask for an alignment: in front of a label behind code (the assembler splits there and folds the empty aligned block into the
# label's block), at the very start, and in front of an instruction
ALIGN_PATCHES = ["nop\n.align 4\n.La:\nnop", ".align 8\n.Lb:\nnop\nnop", "nop\n.align 2\nnop"]


class Case:
    """A module description (pure data), independent of gtirb objects, so that it can be rebuilt identically."""

    def __init__(self, rnd, nfun_max=2, with_data=True, with_aux=True, with_cfi=True, mods="ins,del,rep", with_funcs=True, max_mods=3,
                 closed_tail=False, to_proxy=True, with_lead=False, with_scope=True, with_misc=True, with_ext=False, cfi_patches=False, data_first=0.12, whole_del=0.0, inner_data=0.0, orphan_code=0.0, with_syscall=False, late_entry=0.0, align_patches=False, uneven_returns=0.0, multi_labels=False,
                 call_history=0.0, shared_ret_proxy=0.0, same_size_data=0.0):
        self.rnd = rnd
        # bytes in front of the first block that belong to no block (the interval starts at 0x1000 - lead, the blocks at 0x1000)
        self.lead = rnd.choice((1, 2, 5)) if with_lead and rnd.random() < 0.12 else 0
        nfun = rnd.randint(0 if with_funcs else 0, nfun_max) if with_funcs else 0
        self.blocks = []          # dicts: kind 'c'/'d', insns [(kind,target)], data bytes, func index or None, labels
        nblocks_total = 0
        layout = []
        if with_data and rnd.random() < data_first:
            layout.append(dict(kind="d", data=bytes(rnd.randrange(256) for _ in range(rnd.randint(1, 4))), func=None))
        for f in range(max(nfun, 1)):
            nb = rnd.randint(1, 3)
            for b in range(nb):
                n = rnd.randint(0, 2)
                ins = [(rnd.choice(["nop", "nop", "nop2"]), None)] * n
                term = rnd.choice(["nop", "jmp", "jcc", "call", "ret", "ret"] + (["sys"] if with_syscall else []))
                ins = ins + [(term, None)]
                layout.append(dict(kind="c", ins=ins, func=f if f < nfun else None, fb=b))
                if with_data and b + 1 < nb and inner_data and rnd.random() < inner_data:
                    # data between the blocks of a function (a jump table, a literal pool)
                    layout.append(dict(kind="d", data=bytes(rnd.randrange(256) for _ in range(rnd.randint(1, 4))), func=None))
            if orphan_code and f < nfun and rnd.random() < orphan_code:
                # code that belongs to no function, behind a function
                for _ in range(rnd.randint(1, 2)):
                    layout.append(dict(kind="c", ins=[(rnd.choice(["nop", "nop2"]), None)] * rnd.randint(0, 2) + [(rnd.choice(["nop", "ret", "jmp"]), None)], func=None, fb=None))
            if with_data and rnd.random() < 0.3:
                if rnd.random() < 0.5:
                    # words with symbolic expressions (filled in below): modifications stay on word boundaries
                    nw = rnd.randint(1, 3)
                    layout.append(dict(kind="d", data=bytes(4 * nw), func=None, dsym={4 * w: None for w in range(nw) if rnd.random() < 0.6}))
                else:
                    layout.append(dict(kind="d", data=bytes(rnd.randrange(256) for _ in range(rnd.randint(1, 4))), func=None))
        # last code block of each function returns
        for f in range(nfun):
            own = [x for x in layout if x.get("func") == f]
            own[-1]["ins"][-1] = ("ret", None)
        self.blocks = layout
        if closed_tail:
            # every block that can fall through is followed by code: a code block in front of data / the end ends in ret or jmp
            for i, x in enumerate(layout):
                if x["kind"] == "c" and (i + 1 == len(layout) or layout[i + 1]["kind"] != "c") and x["ins"][-1][0] not in ("ret", "jmp"):
                    x["ins"][-1] = (rnd.choice(["ret", "jmp"]), None)
        code_idx = [i for i, x in enumerate(layout) if x["kind"] == "c"]
        for i in code_idx:
            k, _ = layout[i]["ins"][-1]
            if k in ("jmp", "jcc"):
                layout[i]["ins"][-1] = (k, rnd.choice(code_idx))
            elif k == "call":
                entries = [j for j in code_idx if layout[j].get("fb") == 0]
                layout[i]["ins"][-1] = (k, rnd.choice(entries) if not (with_ext and rnd.random() < 0.4) else rnd.choice(("EXT0", "EXT1")))
        for x in layout:
            if x.get("dsym"):
                x["dsym"] = {o: rnd.choice(code_idx) for o in x["dsym"]}
        self.nfun = nfun
        # the entry of a function is its first block, or (late_entry) any other of its blocks: a function whose cold part comes first
        self.entry_of = {}
        if late_entry:
            for f in range(nfun):
                own = [i for i, x in enumerate(layout) if x.get("func") == f]
                if len(own) > 1 and rnd.random() < late_entry:
                    self.entry_of[f] = rnd.choice(own[1:])
        # returns a disassembler could not resolve: such a block keeps a lone proxy return edge although the function has callers, so the
        # returning blocks of one function need not agree on their return sites
        self.unresolved = set()
        if uneven_returns:
            self.unresolved = {i for i, x in enumerate(layout) if x["kind"] == "c" and x["ins"][-1][0] == "ret" and rnd.random() < uneven_returns}
        # labels: every block gets a start label L<i>; some get extra start / end labels
        self.extra_start = {i for i in range(len(layout)) if rnd.random() < 0.2}
        self.end_labels = {i for i in range(len(layout)) if rnd.random() < 0.3}
        # aux annotations: (table, block index or 'bi', displacement, value)
        self.aux = []
        self.align = {}
        self.cfi = {}
        if with_aux:
            for i, x in enumerate(layout):
                size = self.size(i)
                for t in range(3):
                    if rnd.random() < 0.25:
                        self.aux.append((t, i, rnd.randrange(0, size + 1) if size else 0, rnd.randrange(1000)))
                if rnd.random() < 0.15:
                    self.align[i] = rnd.choice((2, 4, 16))
            for t in range(3):
                if rnd.random() < 0.3:
                    self.aux.append((t, "bi", rnd.randrange(0, self.total_size() + 1), rnd.randrange(1000)))
        # types / encodings (data blocks), profile / SCCs (code blocks): (table, block index); absent tables stay absent
        self.misc = []
        if with_misc:
            present = [t for t in range(4) if t in (1, 3) or rnd.random() < 0.5]
            for i, x in enumerate(layout):
                for t in present:
                    if (t < 2) == (x["kind"] == "d") and rnd.random() < 0.3:
                        self.misc.append((t, i))
        if with_cfi and nfun:
            did = 0
            for f in range(nfun):
                own = [i for i, x in enumerate(layout) if x.get("func") == f]
                if rnd.random() < 0.6:
                    first, last = own[0], own[-1]
                    self.cfi.setdefault(first, {}).setdefault(0, []).extend([("S", did), ("D", did + 1)])
                    did += 2
                    depth = 0
                    for i in own:
                        for b in self.bounds(i)[1:]:
                            if rnd.random() < 0.3:
                                kind = rnd.choice(("O", "A", "A", "M", "R"))
                                if kind == "R" and depth == 0:
                                    kind = "O"          # the directives of the input evaluate cleanly
                                depth += {"M": 1, "R": -1}.get(kind, 0)
                                self.cfi.setdefault(i, {}).setdefault(b, []).append((kind, did))
                                did += 1
                            elif depth == 0 and b < self.size(i) and rnd.random() < 0.08:
                                # the procedure ends here and the next one starts at the same place
                                self.cfi.setdefault(i, {}).setdefault(b, []).extend([("E", did), ("S", did + 1), ("D", did + 2)])
                                did += 3
                    self.cfi.setdefault(last, {}).setdefault(self.size(last), []).append(("E", did))
                    did += 1
        self.entry = rnd.choice(code_idx) if rnd.random() < 0.2 else None
        # modifications: (block index, kind, offset, length, patch text / bytes, to_proxy)
        self.mods = []
        kinds = mods.split(",")
        for i, x in enumerate(layout):
            bounds = self.bounds(i)
            used = []
            for _ in range(rnd.randint(0, max_mods) if rnd.random() < 0.6 else 0):
                t = rnd.choice(kinds)
                p = rnd.randrange(len(bounds))
                force_whole = "del" in kinds and whole_del and rnd.random() < whole_del
                if force_whole:
                    t, p = "del", 0
                if t == "ins":
                    ln = 0
                else:
                    q = len(bounds) - 1 if force_whole else rnd.randint(p, len(bounds) - 1)
                    ln = bounds[q] - bounds[p]
                    if ln == 0:
                        continue
                off = bounds[p]
                if any(not (off + ln <= o or o + l <= off) for o, l in used if l or ln) or any(o == off and (l or ln) for o, l in used):
                    continue
                used.append((off, ln))
                if x["kind"] == "c":
                    patch = rnd.choice(PATCHES + (CFI_PATCHES * 4 if cfi_patches else []) + (ALIGN_PATCHES * 2 if align_patches else []) + (MULTI_LABEL_CODE * 2 if multi_labels else [])).replace("{L}", f"L{rnd.choice(code_idx)}")
                elif same_size_data and t == "rep" and not x.get("dsym") and rnd.random() < same_size_data:
                    # a replacement by as many bytes as it removes (an in-place overwrite, if the library has such a path)
                    patch = bytes(0xa0 + k_ for k_ in range(ln))
                else:
                    patch = rnd.choice(DATA_PATCH) if rnd.random() < 0.75 or x.get("dsym") else rnd.choice(DATA_TEXT_PATCH + (MULTI_LABEL_DATA * 2 if multi_labels else []))
                whole = t == "del" and off == 0 and ln == self.size(i)
                self.mods.append((i, t, off, ln, None if t == "del" else patch, whole and to_proxy and rnd.random() < 0.4))
        # one registration through AllBlocksScope(ENTRY): an insertion at offset 0 of every code block, registered at a random
        # position among the others; scope_groups: index in mods -> group
        self.scope_groups = {}
        if with_scope and rnd.random() < 0.1 and not any(t != "ins" and off == 0 and layout[i]["kind"] == "c" for (i, t, off, ln, _, _) in self.mods):
            patch = rnd.choice(["nop", "xchg %ax, %ax", "nop\nnop"])
            pos = rnd.randint(0, len(self.mods))
            group = [(i, "ins", 0, 0, patch, False) for i in code_idx]
            self.mods[pos:pos] = group
            self.scope_groups = {pos + k: 0 for k in range(len(group))}
        # unknown return targets: one ProxyBlock per `ret`, or (as disassemblers also do) one shared by every unresolved return
        self.shared_ret_proxy = bool(shared_ret_proxy) and random.Random(len(layout) * 7919 + len(self.mods)).random() < shared_ret_proxy
        # a history around one function F: a call to F inserted in front of F's returning block, a modification that moves F's `ret`
        # into another block (a patch with a label in the middle of the returning block: the pieces cannot be joined back), and a
        # second call to F inserted behind it.  Whatever is remembered about "the returning blocks of F" at the first call is stale
        # at the second.
        if call_history and not self.scope_groups and rnd.random() < call_history:
            rnd2 = random.Random(rnd.randrange(1 << 30))
            cands = []
            for f in range(nfun):
                own = [i for i, x in enumerate(layout) if x.get("func") == f]
                entry = self.entry_of.get(f, own[0])
                rets = [i for i in own if layout[i]["ins"][-1][0] == "ret" and len(layout[i]["ins"]) >= 2 and i not in self.unresolved]
                for r_ in rets:
                    before = [i for i in code_idx if i < r_]
                    after = [i for i in code_idx if i > r_]
                    if before and after:
                        cands.append((entry, r_, before, after))
            if cands:
                entry, r_, before, after = rnd2.choice(cands)
                touched = {m[0] for m in self.mods}
                b0, b1 = rnd2.choice(before), rnd2.choice(after)
                if not ({b0, b1, r_} & touched):
                    mid = self.bounds(r_)[rnd2.randint(1, len(self.bounds(r_)) - 2)] if len(self.bounds(r_)) > 2 else None
                    if mid is not None:
                        self.mods.append((b0, "ins", 0, 0, f"call L{entry}", False))
                        self.mods.append((r_, "ins", mid, 0, rnd2.choice([".Lq:\nnop", "nop\n.Lt:\nnop\njmp .Lt", "nop\nret\nnop"]), False))
                        self.mods.append((b1, "ins", 0, 0, f"call L{entry}", False))

    # ---- explicit form (corpus entries do not depend on the generator)
    def to_json(self):
        def enc(v):
            if isinstance(v, bytes):
                return {"hex": v.hex()}
            if isinstance(v, (list, tuple)):
                return [enc(x) for x in v]
            if isinstance(v, (set, frozenset)):
                return {"set": sorted(v)}
            if isinstance(v, dict):
                return {"dict": [[enc(k), enc(x)] for k, x in v.items()]}
            return v
        return {k: enc(getattr(self, k)) for k in ("blocks", "nfun", "extra_start", "end_labels", "aux", "align", "cfi", "entry", "mods", "lead", "misc", "scope_groups", "entry_of", "unresolved", "shared_ret_proxy")}

    @classmethod
    def from_json(cls, d):
        def dec(v):
            if isinstance(v, dict) and set(v) == {"hex"}:
                return bytes.fromhex(v["hex"])
            if isinstance(v, dict) and set(v) == {"set"}:
                return set(v["set"])
            if isinstance(v, dict) and set(v) == {"dict"}:
                return {(tuple(dec(k)) if isinstance(k, list) else dec(k)): dec(x) for k, x in v["dict"]}
            if isinstance(v, list):
                return [dec(x) for x in v]
            return v
        c = cls.__new__(cls)
        c.lead = 0
        c.misc = []
        c.scope_groups = {}
        c.entry_of = {}
        c.unresolved = set()
        c.shared_ret_proxy = False
        for k, v in d.items():
            setattr(c, k, dec(v))
        c.blocks = [{kk: ([tuple(i) for i in vv] if kk == "ins" else vv) for kk, vv in b.items()} for b in c.blocks]
        c.mods = [tuple(m) for m in c.mods]
        c.aux = [tuple(a) for a in c.aux]
        c.misc = [tuple(a) for a in c.misc]
        c.cfi = {i: {d_: [tuple(x) for x in ds] for d_, ds in dm.items()} for i, dm in c.cfi.items()}
        return c

    def size(self, i):
        x = self.blocks[i]
        return len(x["data"]) if x["kind"] == "d" else sum(len(ENC[k]) for k, _ in x["ins"])

    def total_size(self):
        return sum(self.size(i) for i in range(len(self.blocks)))

    def bounds(self, i):
        x = self.blocks[i]
        if x["kind"] == "d":
            return list(range(0, self.size(i) + 1, 4 if x.get("dsym") else 1))
        out = [0]
        for k, _ in x["ins"]:
            out.append(out[-1] + len(ENC[k]))
        return out


TABLES = ("comments", "padding", "symbolicExpressionSizes")
DNAME = {"S": ".cfi_startproc", "E": ".cfi_endproc", "M": ".cfi_remember_state", "R": ".cfi_restore_state", "O": ".cfi_undefined",
         "D": ".cfi_def_cfa", "A": ".cfi_def_cfa_offset"}
DCLASS = {".cfi_startproc": "S", ".cfi_endproc": "E", ".cfi_remember_state": "M", ".cfi_restore_state": "R"}      # everything else: "O"


def doperands(c, did):
    """operands of a generated directive; the last operand is the directive's identity in the dumps"""
    return [7, did] if c == "D" else ([] if c in "SEMR" else [did])


class Built:
    pass


def build(case):
    """Creates the gtirb module for a Case.  Returns a Built with handles."""
    from gtirb_rewriting._auxdata import NULL_UUID
    from gtirb_test_helpers import add_code_block, add_data_block, add_edge, add_proxy_block, add_symbol, add_text_section, create_test_module
    from helpers import add_function_object
    B = Built()
    ir, m = create_test_module(gtirb.Module.FileFormat.ELF, gtirb.Module.ISA.X64)
    _, bi = add_text_section(m, address=0x1000 - case.lead)
    if case.lead:
        bi.contents = b"\xcc" * case.lead
        bi.size = case.lead
    layout = case.blocks
    syms = [add_symbol(m, f"L{i}") for i in range(len(layout))]
    ext = {}
    if any(x["kind"] == "c" and isinstance(x["ins"][-1][1], str) for x in layout):
        ext = {n: add_symbol(m, n, add_proxy_block(m)) for n in ("EXT0", "EXT1")}

    def symof(t):
        return ext[t] if isinstance(t, str) else syms[t]
    gbs = []
    exprs = []
    for i, x in enumerate(layout):
        if x["kind"] == "d":
            se = {}
            for o, t in (x.get("dsym") or {}).items():
                e = gtirb.SymAddrConst(0, syms[t])
                se[(o, 4)] = e
                exprs.append(e)
            gb = add_data_block(bi, x["data"], se)
        else:
            data = b"".join(ENC[k] for k, _ in x["ins"])
            se = {}
            k, t = x["ins"][-1]
            if t is not None:
                e = gtirb.SymAddrConst(0, symof(t))
                se[(len(data) - len(ENC[k]) + SYMOFF[k], 4)] = e
                exprs.append(e)
            gb = add_code_block(bi, data, se)
        gbs.append(gb)
        syms[i].referent = gb
    extra = []
    for i in sorted(case.extra_start):
        extra.append(add_symbol(m, f"X{i}", gbs[i]))
    for i in sorted(case.end_labels):
        s = add_symbol(m, f"E{i}", gbs[i])
        s.at_end = True
        extra.append(s)
    fobjs = []
    for f in range(case.nfun):
        own = [i for i, x in enumerate(layout) if x.get("func") == f]
        e = getattr(case, "entry_of", {}).get(f, own[0])
        fobjs.append(add_function_object(m, syms[e], gbs[e], {gbs[i] for i in own if i != e}))
    # a consistent CFG
    code = [i for i, x in enumerate(layout) if x["kind"] == "c"]
    callers = {f: [] for f in range(case.nfun)}

    def nxt(i):
        return gbs[i + 1] if i + 1 < len(layout) and layout[i + 1]["kind"] == "c" else None
    for i in code:
        k, t = layout[i]["ins"][-1]
        n = nxt(i)
        if k in ("nop", "nop2") and n is not None:
            add_edge(ir.cfg, gbs[i], n, ET.Fallthrough)
        if k == "jmp":
            add_edge(ir.cfg, gbs[i], gbs[t], ET.Branch)
        if k == "jcc":
            add_edge(ir.cfg, gbs[i], gbs[t], ET.Branch, conditional=True)
            if n is not None:
                add_edge(ir.cfg, gbs[i], n, ET.Fallthrough)
        if k == "sys":
            add_edge(ir.cfg, gbs[i], add_proxy_block(m), ET.Syscall)
            if n is not None:
                add_edge(ir.cfg, gbs[i], n, ET.Fallthrough)
        if k == "call":
            add_edge(ir.cfg, gbs[i], ext[t].referent if isinstance(t, str) else gbs[t], ET.Call)
            if n is not None:
                add_edge(ir.cfg, gbs[i], n, ET.Fallthrough)
                f = None if isinstance(t, str) else layout[t].get("func")
                if f is not None:
                    callers[f].append(n)
    for i in code:
        if layout[i]["ins"][-1][0] == "ret":
            f = layout[i].get("func")
            if f is not None and callers[f] and i not in getattr(case, "unresolved", ()):
                for r in callers[f]:
                    add_edge(ir.cfg, gbs[i], r, ET.Return)
            else:
                if getattr(case, "shared_ret_proxy", False):
                    if getattr(B, "ret_proxy", None) is None:
                        B.ret_proxy = add_proxy_block(m)
                    add_edge(ir.cfg, gbs[i], B.ret_proxy, ET.Return)
                else:
                    add_edge(ir.cfg, gbs[i], add_proxy_block(m), ET.Return)
    for (t, key, d, v) in case.aux:
        elem = bi if key == "bi" else gbs[key]
        base = case.lead if key == "bi" else 0
        val = f"c{v}" if t == 0 else v
        m.aux_data[TABLES[t]].data[gtirb.Offset(elem, d + base)] = val
    for i, a in case.align.items():
        m.aux_data["alignment"].data[gbs[i]] = a
    from gtirb_rewriting import _auxdata
    for (t, i) in case.misc:
        tab = (_auxdata.types, _auxdata.encodings, _auxdata.profile, _auxdata.sccs)[t].get_or_insert(m)
        tab[gbs[i]] = ("t", "string", 7, 3)[t]
    for i, dm in case.cfi.items():
        items = list(dm.items())
        if len(items) > 1 and (i + len(layout)) % 3 == 0:
            items.reverse()            # the order of the entries of an aux table carries no meaning
        for d, ds in items:
            m.aux_data["cfiDirectives"].data[gtirb.Offset(gbs[i], d)] = [(DNAME[c], doperands(c, did) if c not in 'SEMR' else [did], NULL_UUID) for c, did in ds]
    if case.entry is not None:
        m.entry_point = gbs[case.entry]
    B.ir, B.m, B.bi, B.gbs, B.syms, B.extra, B.fobjs, B.exprs = ir, m, bi, gbs, syms, extra + list(ext.values()), fobjs, exprs
    return B


# ------------------------------------------------------------------------------------------- identities and dumps
class Ids:
    """Assigns the small integer identities the Coq model uses."""

    def __init__(self):
        self.map = {}
        self.obj = {}
        self.counters = {"node": 0, "ival": 100, "sym": 0, "func": 0, "expr": 0, "patchnode": 200, "patchsym": 500}

    def get(self, o, space):
        k = id(o)
        if k not in self.map:
            self.map[k] = self.counters[space]
            self.obj[k] = o          # keep the object alive so that id() stays unique
            self.counters[space] += 1
        return self.map[k]

    def has(self, o):
        return id(o) in self.map


def edge_label(e):
    l = e.label
    return "-" if l is None else f"{l.type.value},{1 if l.conditional else 0},{1 if l.direct else 0}"


def block_name(b, ids):
    if isinstance(b, gtirb.ProxyBlock):
        return "P"
    if b.byte_interval is None:
        return "DEAD"
    return f"b({ids.get(b.byte_interval, 'ival')},{b.offset},{b.size},{'c' if isinstance(b, gtirb.CodeBlock) else 'd'})"


def tabval(t, v):
    return int(v[1:]) if t == 0 else int(v)


def canonical_dump(m, ids, fids):
    """The same lines ocaml/ir_main.ml prints for the model's final state."""
    lines = []
    for bi in m.byte_intervals:
        iid = ids.get(bi, "ival")
        lines.append(f"I{iid} {bi.contents.hex() or '-'}")
        for o, e in bi.symbolic_expressions.items():
            lines.append(f"X {iid} {o} {ids.get(e, 'expr')}")
    for b in m.byte_blocks:
        lines.append("B " + block_name(b, ids))
    for s in m.symbols:
        if ids.has(s):
            r = s.referent
            lines.append(f"S{ids.get(s, 'sym')} {'none' if r is None else block_name(r, ids)},{'T' if s.at_end else 'F'}")
    for e in m.ir.cfg:
        lines.append(f"E {block_name(e.source, ids)}>{block_name(e.target, ids)}:{edge_label(e)}")
    for u, bs in m.aux_data["functionBlocks"].data.items():
        lines.append(f"FB{fids[u]} " + " ".join(sorted(block_name(b, ids) for b in bs)))
    for u, bs in m.aux_data["functionEntries"].data.items():
        lines.append(f"FE{fids[u]} " + " ".join(sorted(block_name(b, ids) for b in bs)))
    for u, s in m.aux_data["functionNames"].data.items():
        lines.append(f"FN{fids[u]} {ids.get(s, 'sym')}")
    for b, a in m.aux_data["alignment"].data.items():
        lines.append(f"A {block_name(b, ids)} {a}")
    for t, name in enumerate(TABLES):
        for off, v in m.aux_data[name].data.items():
            el = off.element_id
            key = f"i{ids.get(el, 'ival')}" if isinstance(el, gtirb.ByteInterval) else block_name(el, ids)
            lines.append(f"T{t} {key} {off.displacement} {tabval(t, v)}")
    for off, ds in m.aux_data["cfiDirectives"].data.items():
        if ds:
            lines.append(f"C {block_name(off.element_id, ids)} {off.displacement} " + ",".join(f"{DCLASS.get(d[0], 'O')}{d[1][-1] if d[1] else 0}" for d in ds))
    for i, name in enumerate(("types", "encodings", "profile", "SCCs")):
        if name in m.aux_data:
            for b in m.aux_data[name].data:
                lines.append(f"M{i} {block_name(b, ids)}")
    lines.append("ENTRY " + ("none" if m.entry_point is None else block_name(m.entry_point, ids)))
    return " | ".join(sorted(lines))


def node_tok(n, ids):
    if isinstance(n, gtirb.ProxyBlock):
        return f"p{ids.get(n, 'node')}"
    return f"b{ids.get(n, 'node')}"


def dump_cfi(items, ids, space="node"):
    """items: iterable of (block, {disp: [directive]})."""
    parts = [str(len(items))]
    for b, dm in items:
        parts.append(f"{ids.get(b, space)} {len(dm)}")
        for d, ds in dm.items():
            parts.append(f"{d} {len(ds)} " + " ".join(f"{DCLASS.get(x[0], 'O')} {x[1][-1] if x[1] else 0}" for x in ds))
    return " ".join(parts)


def dump_state(m, ids, fids, order):
    """The model's input: the module as the modify layer sees it when make_modify_cache is entered."""
    parts = ["ir"]
    blocks = list(m.byte_blocks)
    parts.append(str(len(blocks)))
    for b in blocks:
        parts.append(f"{ids.get(b, 'node')} {'c' if isinstance(b, gtirb.CodeBlock) else 'd'} {ids.get(b.byte_interval, 'ival')} {b.offset} {b.size}")
    bis = sorted(m.byte_intervals, key=lambda x: x.address or 0)
    sect_ids = {}
    parts.append(str(len(bis)))
    for bi in bis:
        sec = sect_ids.setdefault(bi.section.name, len(sect_ids))
        parts.append(f"{ids.get(bi, 'ival')} {sec} {bi.contents.hex() or '-'} {len(bi.symbolic_expressions)} "
                     + " ".join(f"{o} {ids.get(e, 'expr')}" for o, e in bi.symbolic_expressions.items()))
    parts.append(str(len(order)))
    for secname, bl in order.items():
        parts.append(f"{sect_ids[secname]} {len(bl)} " + " ".join(str(ids.get(b, 'node')) for b in bl))
    syms = [s for s in m.symbols]
    syms.sort(key=lambda s: s.name)
    parts.append(str(len(syms)))
    for s in syms:
        r = s.referent
        parts.append(f"{ids.get(s, 'sym')} {-1 if r is None else ids.get(r, 'node')} {1 if s.at_end else 0}")
    edges = list(m.ir.cfg)
    parts.append(str(len(edges)))
    for e in edges:
        parts.append(f"{node_tok(e.source, ids)} {node_tok(e.target, ids)} {edge_label(e)}")
    prox = list(m.proxies)
    parts.append(str(len(prox)) + " " + " ".join(str(ids.get(p, 'node')) for p in prox))
    fb = m.aux_data["functionBlocks"].data
    fe = m.aux_data["functionEntries"].data
    fn = m.aux_data["functionNames"].data
    parts.append(str(len(fb)))
    for u in fb:
        parts.append(f"{fids[u]} {len(fb[u])} " + " ".join(str(ids.get(b, 'node')) for b in fb[u]) + f" {len(fe[u])} "
                     + " ".join(str(ids.get(b, 'node')) for b in fe[u]) + f" {ids.get(fn[u], 'sym')}")
    al = m.aux_data["alignment"].data
    parts.append(str(len(al)) + " " + " ".join(f"{ids.get(b, 'node')} {a}" for b, a in al.items()))
    for t, name in enumerate(TABLES):
        data = m.aux_data[name].data
        keys = list(data.node_keys()) if hasattr(data, "node_keys") else sorted({o.element_id for o in data}, key=id)
        parts.append(str(len(keys)))
        for el in keys:
            dm = data[el] if hasattr(data, "node_keys") else {o.displacement: v for o, v in data.items() if o.element_id is el}
            space = "ival" if isinstance(el, gtirb.ByteInterval) else "node"
            parts.append(f"{ids.get(el, space)} {len(dm)} " + " ".join(f"{d} {tabval(t, v)}" for d, v in dm.items()))
    cfi = m.aux_data["cfiDirectives"].data
    if hasattr(cfi, "node_keys"):
        items = [(el, cfi[el]) for el in cfi.node_keys()]
    else:
        by = {}
        for o, v in cfi.items():
            by.setdefault(id(o.element_id), (o.element_id, {}))[1][o.displacement] = v
        items = list(by.values())
    parts.append(dump_cfi(items, ids))
    for name in ("types", "encodings", "profile", "SCCs"):
        data = m.aux_data[name].data if name in m.aux_data else {}
        parts.append(str(len(data)) + " " + " ".join(str(ids.get(b, 'node')) for b in data))
    parts.append(str(-1 if m.entry_point is None else ids.get(m.entry_point, 'node')))
    return " ".join(parts)


def dump_patch(code, ids):
    """An Assembler.Result as handed to insert()."""
    ts = code.text_section
    parts = [bytes(ts.data).hex() or "-"]
    parts.append(str(len(ts.blocks)))
    for b in ts.blocks:
        parts.append(f"{ids.get(b, 'patchnode')} {'c' if isinstance(b, gtirb.CodeBlock) else 'd'} {b.offset} {b.size}")
    edges = list(code.cfg)
    parts.append(str(len(edges)))
    for e in edges:
        def tok(n):
            space = "node" if ids.has(n) else "patchnode"
            return ("p" if isinstance(n, gtirb.ProxyBlock) else "b") + str(ids.get(n, space))
        parts.append(f"{tok(e.source)} {tok(e.target)} {edge_label(e)}")
    syms = sorted(code.symbols, key=lambda s: s.name)
    parts.append(str(len(syms)))
    for s in syms:
        r = s.referent
        rid = -1 if r is None else ids.get(r, "node" if ids.has(r) else "patchnode")
        parts.append(f"{ids.get(s, 'patchsym')} {rid} {1 if s.at_end else 0}")
    prox = list(code.proxies)
    parts.append(str(len(prox)) + " " + " ".join(str(ids.get(p, 'patchnode')) for p in prox))
    sx = ts.symbolic_expressions
    parts.append(str(len(sx)) + " " + " ".join(f"{o} {ids.get(e, 'expr')}" for o, e in sx.items()))
    ss = ts.symbolic_expression_sizes
    parts.append(str(len(ss)) + " " + " ".join(f"{o} {v}" for o, v in ss.items()))
    al = ts.alignment
    parts.append(str(len(al)) + " " + " ".join(f"{ids.get(b, 'patchnode')} {a}" for b, a in al.items()))
    by = {}
    for off, ds in code.create_cfi_directives().items():
        by.setdefault(id(off.element_id), (off.element_id, {}))[1][off.displacement] = ds
    parts.append(dump_cfi(list(by.values()), ids, "patchnode"))
    bt = ts.block_types
    parts.append(str(len(bt)) + " " + " ".join(str(ids.get(b, 'patchnode')) for b in bt))
    if len(code.sections) > 1:
        raise NotImplementedError("patch with several sections: outside the modelled vocabulary")
    return " ".join(parts)


# ------------------------------------------------------------------------------------------- running the implementation
def register(case, B, ctx, mk_patch, only=None):
    """Registers the modifications of a case (all of them, or the ones whose index is in `only`) with a RewritingContext."""
    import inspect
    from gtirb_rewriting import AllBlocksScope, BlockPosition
    done = set()
    two = len(inspect.signature(mk_patch).parameters) == 2
    for n, (i, t, off, ln, patch, to_proxy) in enumerate(case.mods):
        if only is not None and n not in only:
            continue
        g = case.scope_groups.get(n)
        if g is not None and only is None and g in done:
            continue
        if isinstance(patch, bytes) or patch is None:
            p = patch
        elif two:
            p = mk_patch(patch, [k for k, g2 in case.scope_groups.items() if g2 == g] if g is not None and only is None else [n])
        else:
            p = mk_patch(patch)
        if g is not None and only is None:
            if g not in done:
                done.add(g)
                ctx.register_insert(AllBlocksScope(BlockPosition.ENTRY), p)
            continue
        blk = B.gbs[i]
        if t == "ins":
            ctx.insert_at(blk, off, p)
        elif t == "del":
            ctx.delete_at(blk, off, ln, retarget_to_proxy=to_proxy)
        else:
            ctx.replace_at(blk, off, ln, p)


def run_impl(case, want_model_line=True, observe=None):
    """Runs ctx.apply() for the case.  Returns dict(line=model input line or None, dump=canonical dump or None,
    error=exception class or None, built=Built)."""
    import gtirb_rewriting
    import gtirb_rewriting.rewriting as R
    from helpers import literal_patch
    B = build(case)
    m = B.m
    ids = Ids()
    # stable identities for everything that exists before rewriting
    for b in B.gbs:
        ids.get(b, "node")
    for s in B.syms + B.extra:
        ids.get(s, "sym")
    for e in B.exprs:
        ids.get(e, "expr")
    fids = {f.uuid: i for i, f in enumerate(B.fobjs)}
    ctx = gtirb_rewriting.RewritingContext(m, B.fobjs)
    rec = {"state": None, "patches": [], "final": None, "codes": [], "pending": None, "by_mod": {}}

    def tracking_patch(text, ns):
        # which registered modification is being assembled: the patch object knows the modifications it serves, the insertion
        # context names the original block
        @gtirb_rewriting.patch_constraints()
        def patch(c):
            rec["pending"] = next((n for n in ns if B.gbs[case.mods[n][0]] is c.block), ns[0])
            return text
        return gtirb_rewriting.Patch.from_function(patch)
    register(case, B, ctx, tracking_patch)
    orig_cache, orig_insert = R.make_modify_cache, R.insert

    @contextlib.contextmanager
    def cache_wrapper(module, functions):
        with orig_cache(module, functions) as cache:
            order = {}
            for sect in module.sections:
                order[sect.name] = sorted(sect.byte_blocks, key=lambda b: (b.address, b.size != 0))
            for p in module.proxies:
                ids.get(p, "node")
            if want_model_line:
                rec["state"] = dump_state(module, ids, fids, order)
            rec["blocks_in_order"] = sorted(module.byte_blocks, key=lambda b: b.address or 0)
            rec["ival_of_block"] = [g.byte_interval for g in B.gbs]
            yield cache
        rec["final"] = canonical_dump(module, ids, fids)
        if observe is not None:
            rec["obs"] = observe(module, B, rec)

    def insert_wrapper(cache, block, offset, replacement_length, code):
        labels = {}
        for sy in code.symbols:
            r_ = sy.referent
            if any(r_ is pb for pb in code.text_section.blocks):
                labels[sy.name] = r_.offset + (r_.size if sy.at_end else 0)
        rec["codes"].append((bytes(code.text_section.data), code, labels))
        n = rec["pending"]
        rec["pending"] = None
        if n is None:
            # a bytes patch (no callback): the not yet served bytes modification with this content, in the order apply() uses
            cands = sorted((case.mods[k][0], case.mods[k][2], k) for k in range(len(case.mods)) if k not in rec["by_mod"]
                           and isinstance(case.mods[k][4], bytes) and case.mods[k][4] == bytes(code.text_section.data))
            n = cands[0][2] if cands else None
        if n is not None:
            rec["by_mod"][n] = (len(rec["codes"]) - 1, dump_patch(code, ids) if want_model_line else None)
        if want_model_line:
            rec["patches"].append(dump_patch(code, ids))
        return orig_insert(cache, block, offset, replacement_length, code)
    R.make_modify_cache, R.insert = cache_wrapper, insert_wrapper
    err = None
    try:
        ctx.apply()
    except Exception as e:  # noqa
        err = type(e).__name__
    finally:
        R.make_modify_cache, R.insert = orig_cache, orig_insert
    # which captured patch belongs to which registered modification
    mod_code = {n: rec["codes"][k] for n, (k, _) in rec["by_mod"].items()}
    line = None
    if want_model_line and rec["state"] is not None:
        # the work list: blocks in address order, modifications by (offset, registration order)
        work = []
        k = 0
        ok = True
        for blk in rec["blocks_in_order"]:
            if not any(blk is g for g in B.gbs):
                continue
            i = next(j for j, g in enumerate(B.gbs) if g is blk)
            mods = [(off, n, t, ln, to_proxy) for n, (bi_, t, off, ln, patch, to_proxy) in enumerate(case.mods) if bi_ == i]
            if not mods:
                continue
            mods.sort(key=lambda x: (x[0], x[1]))
            toks = [f"{ids.get(blk, 'node')} {len(mods)}"]
            for off, n, t, ln, to_proxy in mods:
                if t == "del":
                    toks.append(f"{off} D {ln} {1 if to_proxy else 0}")
                else:
                    if n not in rec["by_mod"]:
                        ok = False          # the implementation stopped before this patch was handed over
                        toks.append(f"{off} D 0 0")
                    else:
                        toks.append(f"{off} I {ln} {rec['by_mod'][n][1]}")
                    k += 1
            work.append(" ".join(toks))
        line = rec["state"] + f" {len(work)} " + " ".join(work) if ok else None
    return dict(line=line, dump=rec["final"] if err is None else None, error=err, built=B, ids=ids, fids=fids, mod_code=mod_code,
                mid_dump=rec["final"], obs=rec.get("obs"), rec=rec)
