"""C11: rewriting is deterministic; registration order matters only among modifications at the same offset."""
import json
import os
import subprocess
import sys

from harness import irgen
from harness.ir import IRProp
from vlib import common as C


def full_dump(m):
    """Everything observable of the output, keyed by addresses and names (no UUIDs, no object identities)."""
    import gtirb

    def where(n):
        if isinstance(n, gtirb.ProxyBlock):
            return "proxy"
        if n.address is None:
            return f"{type(n).__name__[0]}@outside-the-module+{n.size}"        # a block that is in no interval of the module
        return f"{type(n).__name__[0]}@{n.address:#x}+{n.size}"
    out = {}
    out["sections"] = [(s.name, [(bi.address, bytes(bi.contents).hex(), sorted((o, type(e).__name__, [x.name for x in e.symbols], getattr(e, 'offset', 0)) for o, e in bi.symbolic_expressions.items()))
                                 for bi in sorted(s.byte_intervals, key=lambda b: b.address or 0)]) for s in sorted(m.sections, key=lambda s: s.name)]
    out["blocks"] = sorted(where(b) for b in m.byte_blocks)
    out["symbols"] = sorted((s.name, "none" if s.referent is None else where(s.referent), bool(s.at_end)) for s in m.symbols)
    out["edges"] = sorted((where(e.source), where(e.target), e.label.type.name if e.label else "-", bool(e.label and e.label.conditional), bool(e.label and e.label.direct)) for e in m.ir.cfg)
    fn = m.aux_data["functionNames"].data
    out["functions"] = sorted((fn[u].name if u in fn else "?", sorted(where(b) for b in bs), sorted(where(b) for b in m.aux_data["functionEntries"].data.get(u, ()))) for u, bs in m.aux_data["functionBlocks"].data.items())
    for name in irgen.TABLES + ("cfiDirectives",):
        out[name] = sorted((where(o.element_id) if not isinstance(o.element_id, gtirb.ByteInterval) else f"I@{o.element_id.address:#x}", o.displacement, repr(v)) for o, v in m.aux_data[name].data.items())
    out["alignment"] = sorted((where(b), a) for b, a in m.aux_data["alignment"].data.items())
    out["entry"] = None if m.entry_point is None else where(m.entry_point)
    return json.dumps(out, sort_keys=True, default=str)


VARIANTS = (dict(), dict(preserve_caller_saved_registers=True), dict(clobbers_flags=True, clobbers_registers={"rax", "rcx"}),
            dict(align_stack=True), dict(scratch_registers=2))


def run_variant(case, perm_seed=None):
    """apply() with patches that carry constraints (chosen by the patch text), the modifications registered in the given order or in
    a permutation that keeps the relative order of modifications at the same offset of the same block.  Returns (error, dump)."""
    import random

    import gtirb_rewriting
    B = irgen.build(case)
    ctx = gtirb_rewriting.RewritingContext(B.m, B.fobjs)

    def mk(text):
        kw = VARIANTS[sum(map(ord, text)) % len(VARIANTS)]

        @gtirb_rewriting.patch_constraints(**kw)
        def patch(c, *scratch):
            return text
        return gtirb_rewriting.Patch.from_function(patch)
    order = list(range(len(case.mods)))
    if perm_seed is not None:
        rnd = random.Random(perm_seed)
        keys = [(m[0], m[2]) for m in case.mods]
        shuffled = order[:]
        rnd.shuffle(shuffled)
        # the k-th modification of a location keeps its rank among the modifications of that location
        slots = {}
        for n in order:
            slots.setdefault(keys[n], []).append(n)
        taken = {k: 0 for k in slots}
        order = []
        for n in shuffled:
            k = keys[n]
            order.append(slots[k][taken[k]])
            taken[k] += 1
    for n in order:
        irgen.register(case, B, ctx, mk, only={n})
    try:
        ctx.apply()
    except Exception as e:   # noqa
        return type(e).__name__, None
    return None, full_dump(B.m)


def split_shape(shape, size):
    """split_byte_interval on a fresh interval with blocks (offset, size, is_code); the grouping as a hashable value"""
    import gtirb
    from gtirb_rewriting.intervalutils import split_byte_interval
    ir = gtirb.IR()
    m = gtirb.Module(name="m", isa=gtirb.Module.ISA.X64, file_format=gtirb.Module.FileFormat.ELF)
    m.ir = ir
    sec = gtirb.Section(name=".text")
    sec.module = m
    bi = gtirb.ByteInterval(address=0x1000, size=size, contents=bytes(size))
    bi.section = sec
    for off, sz, code in shape:
        b = (gtirb.CodeBlock if code else gtirb.DataBlock)(offset=off, size=sz)
        b.byte_interval = bi
    parts = split_byte_interval(bi)
    return tuple(sorted((p.address, p.size, tuple(sorted((b.offset, b.size, isinstance(b, gtirb.CodeBlock)) for b in p.blocks))) for p in parts))


def abi_cases(n, tag):
    import random

    from harness import c16
    rnd = random.Random(tag)
    cases = c16.gen_cases(random.Random(5), "quick")
    return rnd.sample(cases, min(n, len(cases)))


def abi_outputs(n, tag, backwards=False):
    """what every ABI hands out (register allocation, prologue, epilogue, stack adjustment) for a list of constraint sets, computed
    one after the other in this interpreter"""
    import random

    from harness import c16
    cases = abi_cases(n, tag)
    order = list(range(len(cases)))
    if backwards:
        order.reverse()
    out = {}
    for k in order:
        out[k] = c16.check_case(cases[k], random.Random(0))[0]
    return [out[k] for k in range(len(cases))]


def abi_worker(n, tag):
    for o in abi_outputs(n, tag):
        print(json.dumps(["abi", o]))


def worker(prop_name, seeds, perm=None):
    """Run in a subprocess with its own PYTHONHASHSEED: one line per seed."""
    import importlib
    prop = importlib.import_module("harness." + prop_name).PROP
    for sd in seeds:
        case = prop.make_case(sd)
        err, dump = run_variant(case, None if perm is None else perm + sd)
        print(json.dumps([sd, err, dump]))


class C11(IRProp):
    id = "C11"
    prop_file = "Properties/C11.v"
    tag = "c11"
    genopts = dict(uneven_returns=0.3)
    hashseeds = ("0", "1", "7", "12345")
    trusted_base = IRProp.base_trusted + ["CPython's hash randomisation is exercised, not modelled: the seed sweep is the only check of iteration-order independence"]
    assumptions = []
    level_rule = ("the IR correspondence cases, plus the order resolve_offsets returns for every block compared with the model's stable sort; "
                  "every case (its patches carrying constraints: register preservation, scratch registers, stack alignment) re-run in fresh interpreters under "
                  "PYTHONHASHSEED 0, 1, 7, 12345, twice under one seed, and twice with the modifications registered in a permuted order that keeps "
                  "the order of modifications at one location; every ABI asked for registers, prologue and epilogue of 400 / 3000 constraint sets twice "
                  "in one process (forwards, backwards) and once in a fresh interpreter under another hash seed")
    oracle_text = ("full output dump (bytes, blocks, symbols incl. temporary label names, edges, function tables, aux tables) identical across hash seeds, "
                   "repeated runs and permutations of the registration order of modifications that target different locations")

    # ---- correspondence: full-state tie + the order of application
    def correspondence(self, tier, ctx):
        import gtirb_rewriting.rewriting as R
        seen = []
        orig = R._ModificationStore.resolve_offsets

        def spy(store, block, decoder, modifications):
            mods = list(modifications)
            out = orig(store, block, decoder, mods)
            first = min((m.id for m in mods), default=0)
            regs = sorted(mods, key=lambda m: m.id)
            offs = {id(m): o for m, o in out}
            seen.append(([(offs[id(m)], m.scope._replacement_length()) for m in regs], [regs.index(m) for m, _ in out]))
            return out
        R._ModificationStore.resolve_offsets = spy
        try:
            res = super().correspondence(tier, ctx)
        finally:
            R._ModificationStore.resolve_offsets = orig
        lines = [f"resolve {len(regs)} " + " ".join(f"{o} {l}" for o, l in regs) for regs, _ in seen]
        got = C.run_driver("ir", lines) if lines else []
        bad = 0
        for (regs, order), g in zip(seen, got):
            want = "ok " + " ".join(map(str, order))
            if g.strip() != want.strip():
                bad += 1
                res["disagreements"].append({"resolve_offsets": regs, "implementation_order": order, "model": g})
        res["evaluations"] += len(lines)
        res["dist"]["resolve_offsets_calls"] = len(lines)
        res["dist"]["resolve_offsets_with_equal_offsets"] = sum(1 for regs, _ in seen if len({o for o, _ in regs}) < len(regs))
        return res

    def oracle(self, tier, ctx, boosted):
        n = {"quick": 250, "thorough": 2500}["thorough" if boosted else tier]
        seeds = self.seeds("thorough" if boosted else tier, self.tag + "-det")[:n]
        dumps = {}
        runs_ = [(hs, None) for hs in self.hashseeds + (self.hashseeds[0],)] + [(self.hashseeds[0], 1000), (self.hashseeds[1], 2000)]
        procs = []
        for hs, perm in runs_:
            env = dict(os.environ, PYTHONHASHSEED=hs, PYTHONPATH="/repo/src:" + C.VERIF)
            procs.append((hs, perm, subprocess.Popen([sys.executable, "-c", f"import sys; sys.path.insert(0, '/repo/tests'); from harness.c11 import worker; worker('c11', {seeds!r}, {perm!r})"],
                                                     stdout=subprocess.PIPE, stderr=subprocess.PIPE, text=True, env=env, cwd=C.VERIF)))
        for hs, perm, p in procs:
            so, se = p.communicate(timeout=3000)
            if p.returncode != 0:
                raise RuntimeError("determinism worker failed: " + se[-400:])
            dumps.setdefault((hs, perm), []).append({json.loads(l)[0]: json.loads(l)[1:] for l in so.splitlines() if l.startswith("[")})
        bads = []
        ref = dumps[(self.hashseeds[0], None)][0]
        for (hs, perm), runs in dumps.items():
            for run in runs:
                for sd in seeds:
                    if run.get(sd) != ref.get(sd):
                        if perm is None:
                            bads.append(dict(what=f"seed {sd}: output under PYTHONHASHSEED={hs} differs from PYTHONHASHSEED={self.hashseeds[0]}",
                                             input={"seed": sd, "hashseeds": [self.hashseeds[0], hs]}, finding=None))
                        else:
                            bads.append(dict(what=f"seed {sd}: registering the modifications in another order (same order per location) changes the output: "
                                                  f"{str(run.get(sd))[:200]} vs {str(ref.get(sd))[:200]}",
                                             input={"seed": sd, "permutation_seed": perm + sd}, finding=None))
        # fresh UUIDs: the grouping of blocks at one offset must not follow the iteration order of the interval's block set
        tie_cases = 0
        rnd = C.rng(self.tag + "-ties")
        for _ in range({"quick": 60, "thorough": 600}["thorough" if boosted else tier]):
            shape = [(0, rnd.randint(1, 3), True)]
            o = shape[0][1]
            for _k in range(rnd.randint(1, 3)):
                if rnd.random() < 0.6:
                    shape.append((o, 0, rnd.random() < 0.5))
                sz = rnd.randint(1, 3)
                shape.append((o, sz, rnd.random() < 0.5))
                o += sz
            seen = {split_shape(shape, o) for _r in range(12)}
            tie_cases += 1
            if len(seen) != 1:
                bads.append(dict(what=f"split_byte_interval groups the blocks {shape} in {len(seen)} different ways over 12 runs with fresh UUIDs: {sorted(seen)[:2]}",
                                 input={"blocks": shape}, finding=None))
        # two aligned blocks in one interval: the layout must not follow the iteration order of the interval's block set (fresh UUIDs)
        import random

        from harness import ctxlevel
        rndl = C.rng(self.tag + "-layout")
        for _ in range({"quick": 40, "thorough": 300}["thorough" if boosted else tier]):
            sd = rndl.randrange(1 << 30)
            seen = {ctxlevel.aligned_patch_layout(random.Random(sd)) for _r in range(10)}
            tie_cases += 1
            if len(seen) != 1:
                bads.append(dict(what=f"a patch with an alignment directive inserted into an aligned block gives {len(seen)} different layouts over 10 rebuilds of the same module: {sorted(seen)[:2]}",
                                 input={"aligned_patch_layout_seed": sd}, finding=None))
        # the ABI objects are shared by every context of a process: what they hand out for a constraint set must not depend on what
        # was asked before (second pass, backwards) nor on the interpreter (fresh process, another hash seed)
        from harness import c16
        nabi = {"quick": 400, "thorough": 3000}["thorough" if boosted else tier]
        tagabi = self.tag + "-abi" + str(C.seed())
        env = dict(os.environ, PYTHONHASHSEED=self.hashseeds[2], PYTHONPATH="/repo/src:" + C.VERIF)
        pw = subprocess.Popen([sys.executable, "-c", f"import sys; sys.path.insert(0, '/repo/tests'); from harness.c11 import abi_worker; abi_worker({nabi}, {tagabi!r})"],
                              stdout=subprocess.PIPE, stderr=subprocess.PIPE, text=True, env=env, cwd=C.VERIF)
        first = abi_outputs(nabi, tagabi)
        second = abi_outputs(nabi, tagabi, backwards=True)
        so, se = pw.communicate(timeout=3000)
        if pw.returncode != 0:
            raise RuntimeError("ABI determinism worker failed: " + se[-400:])
        fresh = [json.loads(l)[1] for l in so.splitlines() if l.startswith('["abi"')]
        lines = [c16.case_line(c) for c in abi_cases(nabi, tagabi)]
        for k, line in enumerate(lines):
            if first[k] != second[k]:
                bads.append(dict(what=f"the ABI answers the same constraints differently the second time in one process ({line}): {first[k][:200]} then {second[k][:200]}",
                                 input={"constraints": line}, finding=None))
            elif k < len(fresh) and fresh[k] != first[k]:
                bads.append(dict(what=f"the ABI answers the same constraints differently in a fresh interpreter under PYTHONHASHSEED={self.hashseeds[2]} ({line}): {first[k][:200]} vs {fresh[k][:200]}",
                                 input={"constraints": line}, finding=None))
        tie_cases += 3 * len(lines)
        return dict(evaluations=len(seeds) * (len(self.hashseeds) + 3) + tie_cases, violations=bads[:10],
                    samples=[{"oracle": self.oracle_text, "hashseeds": list(self.hashseeds), "cases": len(seeds)}])


PROP = C11()
