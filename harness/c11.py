"""C11: rewriting is deterministic; registration order matters only among modifications at the same offset."""
import json
import os
import subprocess
import sys

from harness import irgen
from harness.ir import IRProp
from vlib import common as C


def full_dump(m):
    """Everything observable of the output, keyed by addresses and names (no UUIDs, no object identities)."""
    import gtirb

    def where(n):
        if isinstance(n, gtirb.ProxyBlock):
            return "proxy"
        return f"{type(n).__name__[0]}@{n.address:#x}+{n.size}"
    out = {}
    out["sections"] = [(s.name, [(bi.address, bytes(bi.contents).hex(), sorted((o, type(e).__name__, [x.name for x in e.symbols], getattr(e, 'offset', 0)) for o, e in bi.symbolic_expressions.items()))
                                 for bi in sorted(s.byte_intervals, key=lambda b: b.address or 0)]) for s in sorted(m.sections, key=lambda s: s.name)]
    out["blocks"] = sorted(where(b) for b in m.byte_blocks)
    out["symbols"] = sorted((s.name, "none" if s.referent is None else where(s.referent), bool(s.at_end)) for s in m.symbols)
    out["edges"] = sorted((where(e.source), where(e.target), e.label.type.name if e.label else "-", bool(e.label and e.label.conditional), bool(e.label and e.label.direct)) for e in m.ir.cfg)
    fn = m.aux_data["functionNames"].data
    out["functions"] = sorted((fn[u].name if u in fn else "?", sorted(where(b) for b in bs), sorted(where(b) for b in m.aux_data["functionEntries"].data.get(u, ()))) for u, bs in m.aux_data["functionBlocks"].data.items())
    for name in irgen.TABLES + ("cfiDirectives",):
        out[name] = sorted((where(o.element_id) if not isinstance(o.element_id, gtirb.ByteInterval) else f"I@{o.element_id.address:#x}", o.displacement, repr(v)) for o, v in m.aux_data[name].data.items())
    out["alignment"] = sorted((where(b), a) for b, a in m.aux_data["alignment"].data.items())
    out["entry"] = None if m.entry_point is None else where(m.entry_point)
    return json.dumps(out, sort_keys=True, default=str)


def worker(prop_name, seeds):
    """Run in a subprocess with its own PYTHONHASHSEED: one line per seed."""
    import importlib
    prop = importlib.import_module("harness." + prop_name).PROP
    for sd in seeds:
        case = prop.make_case(sd)
        r = irgen.run_impl(case, want_model_line=False)
        print(json.dumps([sd, r["error"], None if r["error"] else full_dump(r["built"].m)]))


class C11(IRProp):
    id = "C11"
    prop_file = "Properties/C11.v"
    tag = "c11"
    genopts = dict()
    hashseeds = ("0", "1", "7", "12345")
    trusted_base = IRProp.base_trusted + ["CPython's hash randomisation is exercised, not modelled: the seed sweep is the only check of iteration-order independence"]
    assumptions = []
    level_rule = ("the IR correspondence cases, plus the order resolve_offsets returns for every block compared with the model's stable sort; "
                  "every case re-run in fresh interpreters under PYTHONHASHSEED 0, 1, 7, 12345 and twice in one interpreter")
    oracle_text = "full output dump (bytes, blocks, symbols incl. temporary label names, edges, function tables, aux tables) identical across hash seeds and repeated runs"

    # ---- correspondence: full-state tie + the order of application
    def correspondence(self, tier, ctx):
        import gtirb_rewriting.rewriting as R
        seen = []
        orig = R._ModificationStore.resolve_offsets

        def spy(store, block, decoder, modifications):
            mods = list(modifications)
            out = orig(store, block, decoder, mods)
            first = min((m.id for m in mods), default=0)
            regs = sorted(mods, key=lambda m: m.id)
            offs = {id(m): o for m, o in out}
            seen.append(([(offs[id(m)], m.scope._replacement_length()) for m in regs], [regs.index(m) for m, _ in out]))
            return out
        R._ModificationStore.resolve_offsets = spy
        try:
            res = super().correspondence(tier, ctx)
        finally:
            R._ModificationStore.resolve_offsets = orig
        lines = [f"resolve {len(regs)} " + " ".join(f"{o} {l}" for o, l in regs) for regs, _ in seen]
        got = C.run_driver("ir", lines) if lines else []
        bad = 0
        for (regs, order), g in zip(seen, got):
            want = "ok " + " ".join(map(str, order))
            if g.strip() != want.strip():
                bad += 1
                res["disagreements"].append({"resolve_offsets": regs, "implementation_order": order, "model": g})
        res["evaluations"] += len(lines)
        res["dist"]["resolve_offsets_calls"] = len(lines)
        res["dist"]["resolve_offsets_with_equal_offsets"] = sum(1 for regs, _ in seen if len({o for o, _ in regs}) < len(regs))
        return res

    def oracle(self, tier, ctx, boosted):
        n = {"quick": 60, "thorough": 600}["thorough" if boosted else tier]
        seeds = self.seeds("thorough" if boosted else tier, self.tag + "-det")[:n]
        dumps = {}
        for hs in self.hashseeds + (self.hashseeds[0],):
            env = dict(os.environ, PYTHONHASHSEED=hs, PYTHONPATH="/repo/src:" + C.VERIF)
            p = subprocess.run([sys.executable, "-c", f"import sys; sys.path.insert(0, '/repo/tests'); from harness.c11 import worker; worker('c11', {seeds!r})"],
                               capture_output=True, text=True, env=env, cwd=C.VERIF, timeout=3000)
            if p.returncode != 0:
                raise RuntimeError("determinism worker failed: " + p.stderr[-400:])
            dumps.setdefault(hs, []).append({json.loads(l)[0]: json.loads(l)[1:] for l in p.stdout.splitlines() if l.startswith("[")})
        bads = []
        ref = dumps[self.hashseeds[0]][0]
        for hs, runs in dumps.items():
            for run in runs:
                for sd in seeds:
                    if run.get(sd) != ref.get(sd):
                        bads.append(dict(what=f"seed {sd}: output under PYTHONHASHSEED={hs} differs from PYTHONHASHSEED={self.hashseeds[0]}",
                                         input={"seed": sd, "hashseeds": [self.hashseeds[0], hs]}, finding=None))
        return dict(evaluations=len(seeds) * (len(self.hashseeds) + 1), violations=bads[:10],
                    samples=[{"oracle": self.oracle_text, "hashseeds": list(self.hashseeds), "cases": len(seeds)}])


PROP = C11()
