"""C03: the CFG, flattened to instructions, is the control flow of the edited listing."""
import re
import gtirb

from harness.c01 import expected_chunks
from harness.ir import IRProp

SYMK = {"jmp": "jmp", "jne": "jcc", "call": "call", "ret": "ret"}


def analyse(m):
    """Independent reading of the output: capstone disassembly of every code block + the symbolic operands -> expected edges.
    Returns (errors, per-block info)."""
    import capstone
    cs = capstone.Cs(capstone.CS_ARCH_X86, capstone.CS_MODE_64)
    errs = []
    fb = m.aux_data["functionBlocks"].data
    func_of = {}
    for u, bs in fb.items():
        for b in bs:
            func_of[id(b)] = u
    code = sorted(m.code_blocks, key=lambda b: (b.address, b.size))
    starts = {}
    for b in code:
        if b.size:
            starts.setdefault(b.address, b)
    zero_at = {b.address: b for b in code if not b.size}
    info, calls_into = {}, {}
    for b in code:
        if not b.size:
            info[id(b)] = (b, "zero", None, None)
            continue
        ins = list(cs.disasm(bytes(b.contents), b.address))
        if sum(i.size for i in ins) != b.size:
            errs.append(("undecodable", b, f"block at {b.address:#x} does not disassemble completely"))
            continue
        for i in ins[:-1]:
            if i.mnemonic in SYMK:
                errs.append(("buried", b, f"control transfer {i.mnemonic} buried inside the block at {b.address:#x}"))
        last = ins[-1]
        k = SYMK.get(last.mnemonic, "nop")
        tgt = None
        if k in ("jmp", "jcc", "call"):
            se = None
            for o in range(b.offset + b.size - last.size, b.offset + b.size):
                se = se or b.byte_interval.symbolic_expressions.get(o)
            if se is None:
                errs.append(("nosym", b, f"{last.mnemonic} at the end of {b.address:#x} has no symbolic operand"))
                continue
            tgt = se.symbol.referent
        nxt = starts.get(b.address + b.size) or zero_at.get(b.address + b.size)
        info[id(b)] = (b, k, tgt, nxt)
        if k == "call" and isinstance(tgt, gtirb.CodeBlock) and id(tgt) in func_of and nxt is not None:
            calls_into.setdefault(func_of[id(tgt)], []).append(nxt)
    live = {id(x) for x in m.code_blocks} | {id(x) for x in m.proxies}

    def tname(t):
        return t.address if isinstance(t, gtirb.CodeBlock) else "proxy"
    for bid, (b, k, tgt, nxt) in info.items():
        got = {(e.label.type.name, tname(e.target), bool(e.label.conditional)) for e in b.outgoing_edges}
        for e in list(b.outgoing_edges) + list(b.incoming_edges):
            for n in (e.source, e.target):
                if id(n) not in live:
                    errs.append(("dangling", b, f"edge endpoint outside the module at {b.address:#x}"))
        if k == "zero":
            continue        # documented zero-sized block: a fallthrough to a proxy marks "unknown"
        exp = set()
        if k in ("nop", "jcc", "call") and nxt is not None:
            exp.add(("Fallthrough", nxt.address, False))
        if k == "jmp":
            exp.add(("Branch", tname(tgt), False))
        if k == "jcc":
            exp.add(("Branch", tname(tgt), True))
        if k == "call":
            exp.add(("Call", tname(tgt), False))
        if k == "ret":
            sites = calls_into.get(func_of.get(bid), [])
            if sites:
                exp |= {("Return", s.address, False) for s in sites}
            else:
                exp.add(("Return", "proxy", False))
        if nxt is None and k in ("nop", "jcc", "call"):
            got.discard(("Fallthrough", "proxy", False))      # nothing follows: a fallthrough to a proxy ("unknown") is acceptable
        if got != exp:
            errs.append(("edges", b, f"block {b.address:#x} ending in {k}: edges {sorted(got, key=str)}, expected {sorted(exp, key=str)}", k, got, exp))
    return errs, info


class C03(IRProp):
    id = "C03"
    prop_file = "Properties/C03.v"
    tag = "c03"
    genopts = dict(with_aux=False, with_cfi=False, with_data=False, nfun_max=2, closed_tail=True, to_proxy=False, shared_ret_proxy=0.3)
    trusted_base = IRProp.base_trusted + ["capstone as the independent disassembler of the oracle"]
    assumptions = []
    level_rule = ("random x86-64 modules whose input CFG is the control flow of their listing (checked by the same oracle before rewriting); "
                  "insertions of patches with jumps, calls, returns and local labels, replacements and deletions at instruction boundaries")
    oracle_text = ("output module: capstone disassembly + symbolic operands of every code block give the expected edge set of the block "
                   "(fallthrough iff the last instruction can fall through and code follows, branch / call to the referent of the operand symbol "
                   "with the right flags, returns to the return sites of the calls into the function or to a proxy); no buried control transfer; "
                   "no endpoint outside the module")

    def spec(self, seed, case, r):
        if r["error"] is not None:
            return []
        m = r["built"].m
        errs, info = analyse(m)
        chunks = expected_chunks(case, r)
        return [dict(what=e[2], finding=self.classify(case, r, chunks, e)) for e in errs]

    # ---- known findings, each tied to the input shape that triggers it
    def classify(self, case, r, chunks, e):
        if e[0] == "buried":
            return None
        if e[0] != "edges" or chunks is None:
            return None
        _, b, msg, k, got, exp = e
        missing, extra = exp - got, got - exp
        kinds = {t for t, _, _ in missing | extra}
        starts, acc = [], 0
        for c, _ in chunks:
            starts.append(acc)
            acc += len(c)
        end = b.address + b.size - 0x1000
        if kinds == {"Fallthrough"} and not extra and k in ("nop", "jcc", "call"):
            # F1: the block now ends where an original block ended in ret / jmp (or was the last of the section): whether the new last
            # instruction falls through is not derivable from the CFG the implementation works on
            for i, x in enumerate(case.blocks):
                patched_term = any(bi == i and isinstance(patch, str) and ("jmp" in patch or "ret" in patch) for (bi, t, off, ln, patch, _) in case.mods)
                if x["kind"] != "c" or (x["ins"][-1][0] not in ("ret", "jmp") and not patched_term):
                    continue
                size = case.size(i)
                before = size
                for (bi, t, off, ln, patch, _) in case.mods:
                    pass
                delta_before, delta_all = 0, 0
                for n, (bi, t, off, ln, patch, _) in sorted(enumerate(case.mods), key=lambda z: (z[1][2], z[0])):
                    if bi != i:
                        continue
                    plen = len(r["mod_code"][n][0]) if t != "del" else 0
                    delta_all += plen - ln
                    if off + ln <= size and off < size:
                        delta_before += plen - ln
                if starts[i] + size + delta_before <= end <= starts[i] + len(chunks[i][0]):
                    touched = any(bi == i and (off + ln == size) for (bi, t, off, ln, patch, _) in case.mods)
                    if touched:
                        return "C03-fallthrough-at-a-former-terminator"
            return None
        if kinds == {"Return"}:
            # F2: return edges copied / kept for a call that the same rewrite deletes, or for a callee whose entry block is deleted
            calls = {i for i, x in enumerate(case.blocks) if x["kind"] == "c" and x["ins"][-1][0] == "call"}
            entries = {i for i, x in enumerate(case.blocks) if x.get("fb") == 0 and x.get("func") is not None}
            # ... or any other block that a call (of the input or of a patch) targets: deleting it whole makes the call enter what follows
            entries |= {x["ins"][-1][1] for x in case.blocks if x["kind"] == "c" and x["ins"][-1][0] == "call" and isinstance(x["ins"][-1][1], int)}
            for (_, _, _, _, patch, _) in case.mods:
                if isinstance(patch, str):
                    entries |= {int(k) for k in re.findall(r"call L(\d+)", patch)}
            for (bi, t, off, ln, patch, _) in case.mods:
                if t in ("del", "rep") and off + ln == case.size(bi) and (bi in calls or ln == case.size(bi) and bi in entries):
                    return "C03-return-edges-of-deleted-call-or-entry"
            # F3: a patch containing ret placed directly behind a call into the function it is inserted in: the patch's return
            # edges are copied from the function before the call's return site moves onto the patch
            for (bi, t, off, ln, patch, _) in case.mods:
                if t != "del" and isinstance(patch, str) and "ret" in patch and bi in calls and off + ln == case.size(bi):
                    tgt = case.blocks[bi]["ins"][-1][1]
                    if isinstance(tgt, int) and case.blocks[tgt].get("func") is not None and case.blocks[tgt].get("func") == case.blocks[bi].get("func"):
                        return "C03-patch-ret-behind-call-into-own-function"
            # ... the same with the call itself coming from another patch of the same block
            for (bi, t, off, ln, patch, _) in case.mods:
                if t != "del" and isinstance(patch, str) and "ret" in patch and case.blocks[bi].get("func") is not None:
                    for (bj, t2, off2, ln2, patch2, _) in case.mods:
                        if bj == bi and t2 != "del" and isinstance(patch2, str) and off2 + ln2 <= off:
                            for k_ in re.findall(r"call L(\d+)", patch2):
                                if case.blocks[int(k_)].get("func") == case.blocks[bi].get("func"):
                                    return "C03-patch-ret-behind-call-into-own-function"
            # F4: every ret of a function is deleted / replaced while a patch puts a new ret into the same function: the call sites are
            # only recorded as the Return edges of the function's ret blocks, so they are forgotten in between
            if not extra - {x for x in extra if x[1] == "proxy"} and all(x[0] == "Return" for x in missing):
                for f in {x.get("func") for x in case.blocks if x.get("func") is not None}:
                    rets = [i for i, x in enumerate(case.blocks) if x.get("func") == f and x["kind"] == "c" and x["ins"][-1][0] == "ret"]
                    gone = [i for i in rets if any(bi == i and t in ("del", "rep") and off + ln == case.size(i) for (bi, t, off, ln, patch, _) in case.mods)]
                    new = any(case.blocks[bi].get("func") == f and t != "del" and isinstance(patch, str) and "ret" in patch for (bi, t, off, ln, patch, _) in case.mods)
                    if rets and gone == rets and new:
                        return "C03-call-sites-forgotten-when-every-ret-is-replaced"
            return None
        return None


    def oracle(self, tier, ctx, boosted):
        import random

        from harness import ctxlevel
        from vlib import common as C
        res = super().oracle(tier, ctx, boosted)
        # patches with a direct call or an alignment directive on x86-64 and AArch64
        rnd = C.rng("c03-ctx" + ("-boost" if boosted else ""))
        for _ in range({"quick": 300, "thorough": 3000}["thorough" if boosted else tier]):
            sd = rnd.randrange(1 << 30)
            w = ctxlevel.patch_control_flow(random.Random(sd))
            res["evaluations"] += 1
            if w:
                res["violations"].append(dict(what=w, input={"patch_control_flow_seed": sd}, finding=None))
        res["violations"] = [b for b in res["violations"] if b["finding"] is None][:10] + [b for b in res["violations"] if b["finding"] is not None][:5]
        return res


PROP = C03()
