"""DWARF v4 opcode numbers and operand forms, typed in from the standard (sections 7.7.1, 7.23,
figures 24 and 40) -- NOT derived from the code.  Forms: u1/u2/u4/u8, s1/s2/s4/s8, addr, uleb,
sleb, block (ULEB length + expression), lowN (operand in the low N.. bits / added to the opcode)."""
DW_OP = {
    "addr": (0x03, ["addr"]), "deref": (0x06, []),
    "const1u": (0x08, ["u1"]), "const1s": (0x09, ["s1"]), "const2u": (0x0A, ["u2"]), "const2s": (0x0B, ["s2"]),
    "const4u": (0x0C, ["u4"]), "const4s": (0x0D, ["s4"]), "const8u": (0x0E, ["u8"]), "const8s": (0x0F, ["s8"]),
    "constu": (0x10, ["uleb"]), "consts": (0x11, ["sleb"]),
    "dup": (0x12, []), "drop": (0x13, []), "over": (0x14, []), "pick": (0x15, ["u1"]), "swap": (0x16, []),
    "rot": (0x17, []), "xderef": (0x18, []), "abs": (0x19, []), "and": (0x1A, []), "div": (0x1B, []),
    "minus": (0x1C, []), "mod": (0x1D, []), "mul": (0x1E, []), "neg": (0x1F, []), "not": (0x20, []),
    "or": (0x21, []), "plus": (0x22, []), "plus_uconst": (0x23, ["uleb"]), "shl": (0x24, []), "shr": (0x25, []),
    "shra": (0x26, []), "xor": (0x27, []), "bra": (0x28, ["s2"]), "eq": (0x29, []), "ge": (0x2A, []),
    "gt": (0x2B, []), "le": (0x2C, []), "lt": (0x2D, []), "ne": (0x2E, []), "skip": (0x2F, ["s2"]),
    "lit": (0x30, ["add32"]), "reg": (0x50, ["add32"]), "breg": (0x70, ["add32", "sleb"]),
    "regx": (0x90, ["uleb"]), "bregx": (0x92, ["uleb", "sleb"]), "deref_size": (0x94, ["u1"]),
}
DW_CFA = {
    "nop": (0x00, []), "offset_extended": (0x05, ["uleb", "uleb"]), "restore_extended": (0x06, ["uleb"]),
    "undefined": (0x07, ["uleb"]), "same_value": (0x08, ["uleb"]), "register": (0x09, ["uleb", "uleb"]),
    "remember_state": (0x0A, []), "restore_state": (0x0B, []), "def_cfa": (0x0C, ["uleb", "uleb"]),
    "def_cfa_register": (0x0D, ["uleb"]), "def_cfa_offset": (0x0E, ["uleb"]), "def_cfa_expression": (0x0F, ["block"]),
    "expression": (0x10, ["uleb", "block"]), "offset_extended_sf": (0x11, ["uleb", "sleb"]),
    "def_cfa_sf": (0x12, ["uleb", "sleb"]), "def_cfa_offset_sf": (0x13, ["sleb"]),
    "val_offset": (0x14, ["uleb", "uleb"]), "val_offset_sf": (0x15, ["uleb", "sleb"]),
    "val_expression": (0x16, ["uleb", "block"]),
    "offset": (0x80, ["add64", "uleb"]), "restore": (0xC0, ["add64"]),
}
# library class name -> standard name
OP_CLASS = {
    "OpAddr": "addr", "OpDeref": "deref", "OpConst1U": "const1u", "OpConst1S": "const1s", "OpConst2U": "const2u",
    "OpConst2S": "const2s", "OpConst4U": "const4u", "OpConst4S": "const4s", "OpConst8U": "const8u", "OpConst8S": "const8s",
    "OpConstU": "constu", "OpConstS": "consts", "OpDup": "dup", "OpDrop": "drop", "OpOver": "over", "OpPick": "pick",
    "OpSwap": "swap", "OpRot": "rot", "OpXDeref": "xderef", "OpAbs": "abs", "OpAnd": "and", "OpDiv": "div",
    "OpMinus": "minus", "OpMod": "mod", "OpMul": "mul", "OpNeg": "neg", "OpNot": "not", "OpOr": "or", "OpPlus": "plus",
    "OpPlusUConst": "plus_uconst", "OpShl": "shl", "OpShr": "shr", "OpShrA": "shra", "OpXor": "xor", "OpBra": "bra",
    "OpEq": "eq", "OpGe": "ge", "OpGt": "gt", "OpLe": "le", "OpLt": "lt", "OpNe": "ne", "OpSkip": "skip",
    "OpLit": "lit", "OpReg": "reg", "OpBReg": "breg", "OpRegX": "regx", "OpBRegX": "bregx", "OpDerefSize": "deref_size",
}
INST_CLASS = {
    "InstNop": "nop", "InstOffsetExtended": "offset_extended", "InstRestoreExtended": "restore_extended",
    "InstUndefined": "undefined", "InstSameValue": "same_value", "InstRegister": "register",
    "InstRememberState": "remember_state", "InstRestoreState": "restore_state", "InstDefCFA": "def_cfa",
    "InstDefCFARegister": "def_cfa_register", "InstDefCFAOffset": "def_cfa_offset",
    "InstDefCFAExpression": "def_cfa_expression", "InstExpression": "expression",
    "InstOffsetExtendedSF": "offset_extended_sf", "InstDefCFASF": "def_cfa_sf", "InstDefCFAOffsetSF": "def_cfa_offset_sf",
    "InstValOffset": "val_offset", "InstValOffsetSF": "val_offset_sf", "InstValExpression": "val_expression",
    "InstOffset": "offset", "InstRestore": "restore",
}


def uleb(v):
    out = []
    while True:
        b = v % 128
        v //= 128
        if v:
            out.append(b + 128)
        else:
            out.append(b)
            return bytes(out)


def sleb(v):
    out = []
    while True:
        b = v % 128
        v = (v - b) // 128
        if (v == 0 and b < 64) or (v == -1 and b >= 64):
            out.append(b)
            return bytes(out)
        out.append(b + 128)


def fixed(v, n, signed, big):
    lo, hi = (-(1 << (8 * n - 1)), 1 << (8 * n - 1)) if signed else (0, 1 << (8 * n))
    if not lo <= v < hi:
        return None
    v %= 1 << (8 * n)
    le = [(v >> (8 * i)) & 255 for i in range(n)]
    return bytes(reversed(le) if big else le)


def std_encode(table, name, args, big, ps, nested=None):
    """Reference encoding per the standard; None when an operand is not representable in its form."""
    opc, forms = table[name]
    if len(forms) != len(args):
        return None
    out = b""
    first = opc
    for f, a in zip(forms, args):
        if f in ("add32", "add64"):
            if not 0 <= a < int(f[3:]):
                return None
            first = opc + a
        elif f == "uleb":
            if a < 0:
                return None
            out += uleb(a)
        elif f == "sleb":
            out += sleb(a)
        elif f == "addr":
            b = fixed(a, ps, False, big)
            if b is None:
                return None
            out += b
        elif f == "block":
            body = b""
            for (n2, a2) in a:
                e = std_encode(DW_OP, n2, a2, big, ps)
                if e is None:
                    return None
                body += e
            out += uleb(len(body)) + body
        else:
            b = fixed(a, int(f[1]), f[0] == "s", big)
            if b is None:
                return None
            out += b
    return bytes([first]) + out


# ---- what an assembler (GNU as / LLVM MC) emits for the CFI directives that take raw, unfactored operands.  Directives whose
# operands the assembler factors by the CIE's alignment (.cfi_offset, .cfi_val_offset, .cfi_def_cfa_offset, .cfi_rel_offset,
# .cfi_adjust_cfa_offset ...) are deliberately absent: a DWARF instruction object can only be handed over through them when the
# hand-over undoes the factoring, which the library does not do -- it uses .cfi_escape for those.
def asm_directive(name, operands):
    """bytes for (directive, operands), or None when the directive is not one whose operands go into the encoding unchanged"""
    ops = list(operands)
    if name == ".cfi_def_cfa" and len(ops) == 2:
        return b"\x0c" + uleb(ops[0]) + uleb(ops[1])
    if name == ".cfi_def_cfa_register" and len(ops) == 1:
        return b"\x0d" + uleb(ops[0])
    if name == ".cfi_undefined" and len(ops) == 1:
        return b"\x07" + uleb(ops[0])
    if name == ".cfi_same_value" and len(ops) == 1:
        return b"\x08" + uleb(ops[0])
    if name == ".cfi_register" and len(ops) == 2:
        return b"\x09" + uleb(ops[0]) + uleb(ops[1])
    if name == ".cfi_restore" and len(ops) == 1:
        return bytes([0xC0 | ops[0]]) if 0 <= ops[0] < 64 else b"\x06" + uleb(ops[0])
    if name == ".cfi_remember_state" and not ops:
        return b"\x0a"
    if name == ".cfi_restore_state" and not ops:
        return b"\x0b"
    return None
