"""C14: DWARF expression / CFI encodings.  Correspondence (extracted Coq model vs implementation)
and the property oracle (DWARF v4 reference of std4.py vs implementation)."""
import dataclasses
import io
import itertools
import json

from vlib import common as C
from vlib.runner import Prop
from harness import std4


def impl():
    from gtirb_rewriting.dwarf import cfi, expr
    from gtirb_rewriting.dwarf._encodable import _ENCODER_KEY
    return expr, cfi, _ENCODER_KEY


def classes(base):
    out = []
    for c in base.__subclasses__():
        if c._opcode is not None:
            out.append(c)
        out += classes(c)
    return out


def bvals(ks):
    s = set()
    for k in ks:
        for d in (-1, 0, 1):
            s.add(2 ** k + d)
            s.add(-(2 ** k) + d)
    s |= {0, 1, -1, 31, 32, 63, 64, 127, 128}
    return sorted(s)


def show_op(o):
    return type(o).__name__ + "(" + ",".join(str(getattr(o, f.name)) for f in dataclasses.fields(o)) + ")"


def show_inst(o):
    parts = []
    for f in dataclasses.fields(o):
        v = getattr(o, f.name)
        parts.append("[" + ";".join(show_op(x) for x in v) + "]" if isinstance(v, list) else str(v))
    return type(o).__name__ + "(" + ",".join(parts) + ")"


def attempt(fn):
    try:
        return "ok " + fn()
    except Exception as e:  # noqa
        return "err " + type(e).__name__


def op_line(cls, args):
    return f"{cls.__name__} {len(args)} " + " ".join(str(a) for a in args)


def inst_line(cls, args):
    parts = []
    for a in args:
        if isinstance(a, list):
            parts.append(f"e {len(a)} " + " ".join(op_line(c, x) for c, x in a))
        else:
            parts.append(f"i {a}")
    return f"{cls.__name__} {len(args)} " + " ".join(parts)


def build_inst(cls, args):
    real = [[c(*x) for c, x in a] if isinstance(a, list) else a for a in args]
    return cls(*real)


def field_kinds(cls, KEY):
    return [(f.name, type(f.metadata[KEY]).__name__) for f in dataclasses.fields(cls)]


class C14(Prop):
    id = "C14"
    gens = [("gen_dwarf.py", "DwarfGen.v")]
    prop_file = "Properties/C14.v"
    extract = ("c14", "ExtractC14.v", "c14_main.ml", "C14_model")
    allowed_axioms = set()
    trusted_base = [
        "Coq 8.16.1 kernel (coqc; coqchk in the thorough tier); vm_compute used for finite table sweeps; no native_compute",
        "translator/gen_dwarf.py + pyexpr.py (Python int -> Z, range(a,b) -> pair, if/raise chains -> booleans, class statements -> tables)",
        "hand models: leb128 module (Dwarf/Leb128.v), int.to_bytes/from_bytes/BytesIO.read (Dwarf/IntCodec.v), "
        "_OpcodeEncodable.encode/decode/_validate, _ExprEncoder, parse_cfi_instructions, _operands (Dwarf/Codec.v) -- tied by the correspondence run",
        "extraction: ExtrOcamlBasic only (Extract Inductive bool, option, unit, prod, list, sumbool ...), no Extract Constant; OCaml 4.13 driver ocaml/zutil.ml + c14_main.ml (zarith only for decimal text)",
        "Dwarf/Std4.v: opcode numbers / operand forms typed in from DWARF v4 7.7.1 and 7.23",
    ]
    assumptions = ["objects are built through the public constructors (integer fields hold Python ints, expression fields lists of Operation)"]
    level_rule = ("cases = every class x boundary operands (2^k-1,2^k,2^k+1,-2^k-1,-2^k,-2^k+1, k<=65) x byte order x pointer size, "
                  "all 256 first bytes with random tails, random byte strings, nested expressions, make_const_op boundary values; "
                  "distinct = distinct command line; non-trivial = the implementation returned a value (not an exception)")

    # ------------------------------------------------------------------ case generation
    def cases(self, tier, rnd):
        expr, cfi, KEY = impl()
        thorough = tier == "thorough"
        ops = classes(expr.Operation)
        insts = classes(cfi.Instruction)
        lines, expect = [], []

        def add(line, exp):
            lines.append(line)
            expect.append(exp)
        big_ks = tuple(range(0, 67)) if thorough else (0, 1, 5, 6, 7, 8, 13, 14, 15, 16, 31, 32, 63, 64, 65)
        small_ks = (0, 5, 6, 7, 8, 31, 32, 63, 64) if thorough else (0, 6, 7, 32, 64)
        pss = (4, 8)
        # 1. encode every op class
        for cls in ops:
            fs = field_kinds(cls, KEY)
            vals = bvals(big_ks) if len(fs) <= 1 else bvals(small_ks)
            for combo in itertools.product(vals, repeat=len(fs)):
                for big in (0, 1):
                    for ps in pss:
                        bo = "big" if big else "little"
                        add(f"encop {big} {ps} " + op_line(cls, combo),
                            attempt(lambda: bytes(cls(*combo).encode(bo, ps)).hex() or "-"))
                        if big == 0 and ps == 8:
                            add("mkop " + op_line(cls, combo), attempt(lambda: show_op(cls(*combo))))
        # 2. encode every instruction class (expression fields: a few nested expressions)
        exprs = [[], [(expr.OpDup, ())], [(expr.OpBReg, (7, -8)), (expr.OpDeref, ())],
                 [(expr.OpConst4U, (70000,)), (expr.OpAddr, (2 ** 32 - 1,)), (expr.OpPlus, ())],
                 [(expr.OpAddr, (2 ** 32,))], [(expr.OpLit, (31,))] * 130,
                 [(expr.OpConstS, (-(2 ** 63),)), (expr.OpSkip, (-3,)), (expr.OpRegX, (300,))]]
        for cls in insts:
            fs = field_kinds(cls, KEY)
            doms = []
            for _, k in fs:
                doms.append(exprs if k == "_ExprEncoder" else (bvals(big_ks) if len(fs) <= 1 else bvals(small_ks)))
            for combo in itertools.product(*doms):
                for big in (0, 1):
                    for ps in pss:
                        bo = "big" if big else "little"
                        add(f"encinst {big} {ps} " + inst_line(cls, combo),
                            attempt(lambda: bytes(build_inst(cls, combo).encode(bo, ps)).hex() or "-"))
                        if ps == 8:
                            def ops_of():
                                d, o, _ = build_inst(cls, combo).gtirb_encoding(bo, ps)
                                return d + " " + ",".join("[" + ";".join(show_op(x) for x in v) + "]" if isinstance(v, list) else str(v) for v in o)
                            add(f"operands {big} {ps} " + inst_line(cls, combo), attempt(ops_of))
        # 3. decode: valid encodings with tails, all first bytes, random strings
        def dec(kind, base, shower, big, ps, b):
            bo = "big" if big else "little"

            def go():
                r = io.BytesIO(b)
                o, n = base.decode(r, bo, ps)
                return f"{shower(o)} {n} {len(b) - r.tell()}"
            add(f"{kind} {big} {ps} {b.hex() or '-'}", attempt(go))
        nrand = 6000 if thorough else 1500
        for first in range(256):
            for _ in range(6 if thorough else 2):
                tail = bytes(rnd.randrange(256) for _ in range(rnd.choice((0, 1, 2, 4, 9, 12))))
                for big in (0, 1):
                    ps = rnd.choice(pss)
                    dec("decop", expr.Operation, show_op, big, ps, bytes([first]) + tail)
                    dec("decinst", cfi.Instruction, show_inst, big, ps, bytes([first]) + tail)
        for _ in range(nrand):
            b = bytes(rnd.randrange(256) for _ in range(rnd.randrange(0, 14)))
            big, ps = rnd.randrange(2), rnd.choice(pss)
            dec("decop", expr.Operation, show_op, big, ps, b)
            dec("decinst", cfi.Instruction, show_inst, big, ps, b)
        # expression-bearing instructions: byte strings that start like them
        for _ in range(nrand // 3):
            n = rnd.randrange(0, 6)
            body = bytes(rnd.choice((0x12, 0x06, 0x22, 0x30, 0x77, 0x08, 0x94)) for _ in range(n))
            pre = rnd.choice((b"\x0f", b"\x10\x05", b"\x16\x81\x01"))
            ln = rnd.choice((len(body), len(body), len(body) + 1, max(0, len(body) - 1), 200))
            b = pre + std4.uleb(ln) + body + bytes(rnd.randrange(256) for _ in range(rnd.randrange(3)))
            big, ps = rnd.randrange(2), rnd.choice(pss)
            dec("decinst", cfi.Instruction, show_inst, big, ps, b)
        # 4. parse_cfi_instructions on concatenations and on random strings
        simple = [c for c in insts]
        for _ in range(nrand // 2):
            seq = []
            for _ in range(rnd.randrange(0, 6)):
                cls = rnd.choice(simple)
                args = []
                for _, k in field_kinds(cls, KEY):
                    if k == "_ExprEncoder":
                        args.append(rnd.choice(exprs[:4]))
                    elif k == "_AddToOpcodeEncoder":
                        args.append(rnd.randrange(64))
                    elif k == "_SLEB128Encoder":
                        args.append(rnd.choice(bvals(small_ks)))
                    else:
                        args.append(abs(rnd.choice(bvals(small_ks))))
                seq.append((cls, args))
            big, ps = rnd.randrange(2), rnd.choice(pss)
            bo = "big" if big else "little"
            b = b"".join(bytes(build_inst(c, a).encode(bo, ps)) for c, a in seq)
            if rnd.random() < 0.2:
                b += bytes(rnd.randrange(256) for _ in range(rnd.randrange(1, 4)))
            add(f"parse {big} {ps} {b.hex() or '-'}",
                attempt(lambda: " ".join(show_inst(i) for i in cfi.parse_cfi_instructions(b, bo, ps))))
        # 5. make_const_op
        for v in bvals(tuple(range(0, 67))) + [rnd.randrange(-2 ** 64, 2 ** 65) for _ in range(300)]:
            add(f"constop {v}", attempt(lambda: show_op(expr.make_const_op(v))))
        # 6. leb128 itself
        import leb128
        for v in bvals(tuple(range(0, 70))):
            add(f"uleb {v}", attempt(lambda: bytes(leb128.u.encode(v)).hex()))
            add(f"sleb {v}", bytes(leb128.i.encode(v)).hex())
        for _ in range(nrand):
            b = bytes(rnd.randrange(256) for _ in range(rnd.randrange(0, 12)))

            def lebdec(m):
                r = io.BytesIO(b)
                v, n = m.decode_reader(r)
                return f"{v} {n} {len(b) - r.tell()}"
            add(f"uleb_dec {b.hex() or '-'}", attempt(lambda: lebdec(leb128.u)))
            add(f"sleb_dec {b.hex() or '-'}", attempt(lambda: lebdec(leb128.i)))
        return lines, expect

    def correspondence(self, tier, ctx):
        rnd = C.rng("c14-corr")
        lines, expect = self.cases(tier, rnd)
        got = C.run_driver("c14", lines)
        dis = []
        kinds, oks = {}, set()
        for l, e, g in zip(lines, expect, got):
            k = l.split(" ", 1)[0]
            kinds[k] = kinds.get(k, 0) + 1
            if e.startswith("ok"):
                oks.add(l)
            if e != g:
                dis.append({"case": l, "implementation": e, "model": g})
        errs = {}
        for e in expect:
            if e.startswith("err"):
                errs[e[4:]] = errs.get(e[4:], 0) + 1
        samples = [{"case": l, "implementation": e, "model": g} for l, e, g in list(zip(lines, expect, got))[:: max(1, len(lines) // 8)]][:8]
        return dict(evaluations=len(lines), distinct_nontrivial=len(oks), samples=samples, disagreements=dis[:20],
                    dist={"by_command": kinds, "implementation_errors": errs, "ok_results": sum(1 for e in expect if e.startswith("ok"))})

    # ------------------------------------------------------------------ property oracle (no model)
    def oracle(self, tier, ctx, boosted):
        expr, cfi, KEY = impl()
        rnd = C.rng("c14-oracle")
        viol, n, samples = [], 0, []

        def bad(what, inp, **kw):
            if len(viol) < 20:
                viol.append(dict(what=what, input=inp, finding=None, **kw))
        deep = boosted or tier == "thorough"
        ks = tuple(range(0, 67)) if deep else (0, 6, 7, 8, 15, 16, 31, 32, 63, 64, 65)
        sks = (0, 5, 6, 7, 8, 31, 32, 63, 64) if deep else (0, 6, 7, 32, 64)
        for base, table, names in ((expr.Operation, std4.DW_OP, std4.OP_CLASS), (cfi.Instruction, std4.DW_CFA, std4.INST_CLASS)):
            for cls in classes(base):
                fs = field_kinds(cls, KEY)
                if cls.__name__ not in names:
                    bad("class not in the DWARF v4 reference table", cls.__name__)
                    continue
                std = names[cls.__name__]
                doms = []
                for _, k in fs:
                    if k == "_ExprEncoder":
                        doms.append([[], [("breg", (7, -8)), ("deref", ())], [("const4u", (70000,)), ("plus", ())], [("addr", (2 ** 32,))], [("lit", (3,))] * 130])
                    else:
                        doms.append(bvals(ks) if len(fs) <= 1 else bvals(sks))
                rev = {v: k for k, v in std4.OP_CLASS.items()}
                for combo in itertools.product(*doms):
                    # one object per operand combination, asked for every byte order and pointer size in turn: what it answers must not
                    # depend on what it was asked before
                    try:
                        real = [[getattr(expr, rev[nm])(*a) for nm, a in x] if isinstance(x, list) else x for x in combo]
                        obj = cls(*real)
                    except ValueError:
                        obj = None
                    except Exception as e:  # noqa
                        bad("construction raises something other than ValueError", [cls.__name__, repr(combo)], observed=type(e).__name__)
                        continue
                    for big in (False, True):
                        for ps in (4, 8):
                            n += 1
                            bo = "big" if big else "little"
                            exp = std4.std_encode(table, std, list(combo), big, ps)
                            try:
                                if obj is None:
                                    raise ValueError("refused at construction")
                                got = bytes(obj.encode(bo, ps))
                            except ValueError:
                                got = None
                            except Exception as e:  # noqa
                                bad("encode raises something other than ValueError", [cls.__name__, repr(combo), bo, ps], observed=type(e).__name__)
                                continue
                            if got != exp:
                                bad("encoding differs from the DWARF v4 encoding (or accept/reject differs)", [cls.__name__, repr(combo), bo, ps],
                                    expected=None if exp is None else exp.hex(), observed=None if got is None else got.hex())
                                continue
                            if exp is None:
                                continue
                            tail = b"\xaa\x3b"
                            r = io.BytesIO(exp + tail)
                            try:
                                d, cnt = base.decode(r, bo, ps)
                            except Exception as e:  # noqa
                                bad("decoding an encoding raises", [cls.__name__, repr(combo), bo, ps], observed=type(e).__name__)
                                continue
                            if d != obj or type(d) is not cls or cnt != len(exp) or r.tell() != len(exp):
                                bad("decode(encode(x)) is not (x, len)", [cls.__name__, repr(combo), bo, ps], observed=[repr(d), cnt, r.tell()])
                            if base is cfi.Instruction:
                                try:
                                    dname, operands, _ = obj.gtirb_encoding(bo, ps)
                                    redo = None if dname == ".cfi_escape" else [c for c in classes(cfi.Instruction) if c._directive == dname]
                                    redo = None if redo is None or len(redo) != 1 else bytes(redo[0](*operands).encode(bo, ps))
                                except Exception as e:  # noqa
                                    bad("the directive form of an instruction that encodes cannot be built / re-encoded", [cls.__name__, repr(combo), bo, ps],
                                        observed=type(e).__name__ + ": " + str(e)[:120])
                                    continue
                                if dname == ".cfi_escape":
                                    if bytes(operands) != exp:
                                        bad(".cfi_escape operands are not the encoding", [cls.__name__, repr(combo), bo, ps])
                                else:
                                    same = [c for c in classes(cfi.Instruction) if c._directive == dname]
                                    if len(same) != 1 or bytes(same[0](*operands).encode(bo, ps)) != exp:
                                        bad("directive form does not re-encode to the same bytes", [cls.__name__, repr(combo), bo, ps])
                                    # ... and an assembler that is given the directive emits these bytes
                                    asm = std4.asm_directive(dname, operands)
                                    if asm != exp:
                                        bad("the directive handed to GTIRB does not assemble to the instruction's bytes", [cls.__name__, repr(combo), bo, ps],
                                            expected=exp.hex(), observed=None if asm is None else asm.hex())
                            if len(samples) < 4 and n % 997 == 0:
                                samples.append({"oracle": "std4 encode/decode", "class": cls.__name__, "operands": repr(combo), "bytes": exp.hex()})
        # parse inverts concatenation
        insts = classes(cfi.Instruction)
        for _ in range(4000 if deep else 800):
            n += 1
            big, ps = rnd.random() < 0.5, rnd.choice((4, 8))
            bo = "big" if big else "little"
            seq = []
            for _ in range(rnd.randrange(0, 7)):
                cls = rnd.choice(insts)
                args = []
                for _, k in field_kinds(cls, KEY):
                    if k == "_ExprEncoder":
                        args.append([expr.OpBReg(rnd.randrange(32), rnd.choice(bvals(sks))) for _ in range(rnd.randrange(3))])
                    elif k == "_AddToOpcodeEncoder":
                        args.append(rnd.randrange(64))
                    elif k == "_SLEB128Encoder":
                        args.append(rnd.choice(bvals(sks)))
                    else:
                        args.append(abs(rnd.choice(bvals(sks))))
                seq.append(cls(*args))
            b = b"".join(bytes(i.encode(bo, ps)) for i in seq)
            try:
                back = list(cfi.parse_cfi_instructions(b, bo, ps))
            except Exception as e:  # noqa
                back = type(e).__name__
            if back != seq:
                bad("parse_cfi_instructions does not invert concatenation", [[show_inst(i) for i in seq], bo, ps], observed=repr(back)[:200])
        # make_const_op: value, range, minimality over every const class
        consts = classes(expr.OpConst)
        vals = bvals(tuple(range(0, 67))) + [rnd.randrange(-2 ** 63, 2 ** 64) for _ in range(3000 if deep else 300)]
        for v in vals:
            n += 1
            inr = -2 ** 63 <= v < 2 ** 64
            try:
                op = expr.make_const_op(v)
            except ValueError:
                if inr:
                    bad("make_const_op refuses a value in [-2^63, 2^64)", v)
                continue
            except Exception as e:  # noqa
                bad("make_const_op raises something other than ValueError", v, observed=type(e).__name__)
                continue
            if op.value != v or not isinstance(op, expr.OpConst):
                bad("make_const_op pushes a different value", v, observed=show_op(op))
                continue
            ln = len(op.encode("little", 8))
            best = ln
            for c in consts:
                try:
                    best = min(best, len(c(v).encode("little", 8)))
                except ValueError:
                    pass
            if best < ln:
                bad("make_const_op is not a shortest encoding", v, observed=[show_op(op), ln, best])
        samples.append({"oracle": "make_const_op", "values": len(vals)})
        return dict(evaluations=n, violations=viol, samples=samples)

    def replay(self, path):
        data = json.load(open(path))
        print(json.dumps(data, indent=1)[:3000])
        if data.get("kind") == "failing-input":
            r = self.oracle("quick", {}, True)
            hit = [v for v in r["violations"] if v["input"] == data["violation"]["input"]]
            print("REPRODUCED" if hit else "not reproduced on the current tree")
            return 1 if hit else 0
        return 0


PROP = C14()
