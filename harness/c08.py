"""C08: rewriting preserves call-frame information."""
import gtirb

from harness import irgen
from harness.c01 import expected_chunks
from harness.ir import IRProp


def canon(state):
    if state is None:
        return None
    cur = state.current
    return (repr(cur.cfa), tuple(sorted((k, repr(v)) for k, v in cur.registers.items())), state.return_column, len(state.save_stack))


def unwind(m):
    """(events, marks): events = [(address, canonical state after the directives at that address)] in address order;
    marks = ids of startproc/endproc/remember/restore directives in address order.  Raises what the evaluator raises."""
    from gtirb_rewriting.dwarf.cfi_eval import evaluate_cfi_directives
    blocks = sorted(m.code_blocks, key=lambda b: (b.address, b.size))
    events = [(b.address + off, canon(st)) for b, off, st in evaluate_cfi_directives(m, blocks)]
    marks = []
    tab = m.aux_data["cfiDirectives"].data
    by_block = {}
    for o, ds in tab.items():
        by_block.setdefault(id(o.element_id), []).append((o.displacement, ds))
    for b in blocks:                       # the evaluator's order: blocks by address, displacements ascending
        for _, ds in sorted(by_block.get(id(b), []), key=lambda x: x[0]):
            for d in ds:
                c = irgen.DCLASS.get(d[0])
                if c:
                    marks.append((c, d[1][-1] if d[1] else 0))
    return events, marks


def state_at(events, addr):
    cur = ("outside",)
    for a, st in events:
        if a <= addr:
            cur = ("outside",) if st is None else st
        else:
            break
    return cur


class C08(IRProp):
    id = "C08"
    prop_file = "Properties/C08.v"
    tag = "c08"
    genopts = dict(with_aux=False, with_data=False, nfun_max=2, to_proxy=False)
    trusted_base = IRProp.base_trusted + ["gtirb_rewriting.dwarf.cfi_eval (verified separately as C15) is the evaluator the oracle runs before and after"]
    assumptions = ["patches of the generator carry no CFI directives", "inputs whose directives do not evaluate cleanly are outside the quantifier and skipped"]
    level_rule = ("random x86-64 modules whose functions carry startproc/def_cfa ... endproc with def_cfa_offset, undefined, balanced "
                  "remember/restore directives on instruction boundaries; insertions, replacements, deletions")
    oracle_text = ("evaluate_cfi_directives before and after: still evaluates cleanly; startproc/endproc/remember/restore all present, in order; "
                   "every surviving original instruction is inside a procedure iff it was; with insertions only, the state at every original "
                   "instruction is unchanged and every inserted instruction has the state of the insertion point")

    def spec(self, seed, case, r):
        if r["error"] is not None:
            return []
        chunks = expected_chunks(case, r)
        if chunks is None:
            return []
        # the original
        B0 = irgen.build(case)
        try:
            ev0, marks0 = unwind(B0.m)
        except Exception:
            return []                      # outside the quantifier
        m = r["built"].m
        bad = []
        try:
            ev1, marks1 = unwind(m)
        except Exception as e:     # noqa
            return [dict(what=f"directives no longer evaluate: {type(e).__name__}: {e}", finding=self.classify_eval(case))]
        if marks0 != marks1 and self.without_deleted_procedures(case, marks0) != marks1:
            bad.append(dict(what=f"procedure structure changed: {marks0} -> {marks1}"))
        # instruction by instruction
        starts, acc = [], 0
        for c, _ in chunks:
            starts.append(acc)
            acc += len(c)
        begins, a = [], 0
        for i in range(len(case.blocks)):
            begins.append(a)
            a += case.size(i)
        only_insertions = all(t == "ins" for (_, t, _, _, _, _) in case.mods)
        for i, x in enumerate(case.blocks):
            if x["kind"] != "c":
                continue
            mods = sorted((off, n, ln, (len(r["mod_code"][n][0]) if t != "del" else 0)) for n, (bi, t, off, ln, patch, _) in enumerate(case.mods) if bi == i)
            o = 0
            for k, _ in x["ins"]:
                delta, gone = 0, False
                for off, n, ln, plen in mods:
                    if o >= off + ln:
                        delta += plen - ln
                    elif o >= off:
                        gone = True
                if not gone:
                    before = state_at(ev0, 0x1000 + begins[i] + o)
                    after = state_at(ev1, 0x1000 + starts[i] + o + delta)
                    if (before == ("outside",)) != (after == ("outside",)):
                        bad.append(dict(what=f"instruction {i}+{o}: inside a procedure before={before != ('outside',)} after={after != ('outside',)}"))
                    elif only_insertions and before != after:
                        bad.append(dict(what=f"instruction {i}+{o}: unwind state {before} -> {after}"))
                o += len(irgen.ENC[k])
            if only_insertions:
                # inserted code: the state in effect at the insertion point (just before the original instruction at that offset)
                delta = 0
                for off, n, ln, plen in mods:
                    on_point = off in case.cfi.get(i, {}) or (off == 0 and i > 0 and case.size(i - 1) in case.cfi.get(i - 1, {})) or \
                        (off == case.size(i) and 0 in case.cfi.get(i + 1, {}))
                    if on_point:
                        delta += plen
                        continue            # directives sit exactly on the insertion point (this block's, the end of the previous
                                            # block or the start of the next one: the same place in the listing): either side is a legitimate reading
                    want_in = state_at(ev0, 0x1000 + begins[i] + off - 1) if off > 0 else state_at(ev0, 0x1000 + begins[i])
                    nxt = state_at(ev0, 0x1000 + begins[i] + off) if off < case.size(i) else want_in
                    for j in range(plen):
                        got = state_at(ev1, 0x1000 + starts[i] + off + delta + j)
                        if got not in (want_in, nxt):
                            bad.append(dict(what=f"inserted byte {i}+{off}+{j}: unwind state {got}, insertion point has {want_in} / {nxt}"))
                            break
                    delta += plen
        return bad

    @staticmethod
    def without_deleted_procedures(case, marks0):
        """marks0 minus the procedures all of whose bytes are deleted (their start / end directives go with the code they
        describe, and so does everything between them)"""
        begins, a = [], 0
        for i in range(len(case.blocks)):
            begins.append(a)
            a += case.size(i)
        deleted = set()
        for (bi, t, off, ln, patch, _) in case.mods:
            if t != "ins":
                deleted |= set(range(begins[bi] + off, begins[bi] + off + ln))
        seq = []
        for i in sorted(case.cfi):
            for d in sorted(case.cfi[i]):
                for (c, did) in case.cfi[i][d]:
                    if c in "SEMR":
                        seq.append((begins[i] + d, c, did))
        drop, open_ = set(), None
        for k, (pos, c, did) in enumerate(seq):
            if c == "S":
                open_ = k
            elif c == "E" and open_ is not None:
                lo, hi = seq[open_][0], pos
                if hi > lo and all(x in deleted for x in range(lo, hi)):
                    drop |= {(c2, d2) for (_, c2, d2) in seq[open_:k + 1]}
                open_ = None
        return [x for x in marks0 if x not in drop]

    def classify_eval(self, case):
        # known finding: the bytes carrying .cfi_def_cfa (at the start of a procedure) are deleted, a later .cfi_def_cfa_offset has no CFA
        for (bi, t, off, ln, patch, _) in case.mods:
            if t != "ins" and off == 0 and any(c == "D" for (c, _) in case.cfi.get(bi, {}).get(0, [])):
                return "C08-def-cfa-dropped-with-the-entry-instruction"
        return None


PROP = C08()
