"""C08: rewriting preserves call-frame information."""
import gtirb

from harness import irgen
from harness.c01 import expected_chunks
from harness.ir import IRProp


def canon(state):
    if state is None:
        return None
    cur = state.current
    return (repr(cur.cfa), tuple(sorted((k, repr(v)) for k, v in cur.registers.items())), state.return_column, len(state.save_stack))


def unwind(m):
    """(events, marks): events = [(address, canonical state after the directives at that address)] in address order;
    marks = ids of startproc/endproc/remember/restore directives in address order.  Raises what the evaluator raises."""
    from gtirb_rewriting.dwarf.cfi_eval import evaluate_cfi_directives
    blocks = sorted(m.code_blocks, key=lambda b: (b.address, b.size))
    events = [(b.address + off, canon(st)) for b, off, st in evaluate_cfi_directives(m, blocks)]
    marks = []
    tab = m.aux_data["cfiDirectives"].data
    by_block = {}
    for o, ds in tab.items():
        by_block.setdefault(id(o.element_id), []).append((o.displacement, ds))
    for b in blocks:                       # the evaluator's order: blocks by address, displacements ascending
        for _, ds in sorted(by_block.get(id(b), []), key=lambda x: x[0]):
            for d in ds:
                c = irgen.DCLASS.get(d[0])
                if c:
                    marks.append((c, d[1][-1] if d[1] else 0))
    return events, marks


def state_at(events, addr):
    cur = ("outside",)
    for a, st in events:
        if a <= addr:
            cur = ("outside",) if st is None else st
        else:
            break
    return cur


# register rules that a CFI patch of irgen.CFI_PATCHES sets in front of its first instruction
LEAD_RULES = {irgen.CFI_PATCHES[2]: ((40, "RegisterUndefined()"),)}


class C08(IRProp):
    id = "C08"
    prop_file = "Properties/C08.v"
    tag = "c08"
    genopts = dict(with_aux=False, nfun_max=2, cfi_patches=True, data_first=0.4, whole_del=0.1, inner_data=0.3)
    trusted_base = IRProp.base_trusted + ["gtirb_rewriting.dwarf.cfi_eval (verified separately as C15) is the evaluator the oracle runs before and after"]
    assumptions = ["patches of the generator carry no CFI directives", "inputs whose directives do not evaluate cleanly are outside the quantifier and skipped"]
    level_rule = ("random x86-64 modules whose functions carry startproc/def_cfa ... endproc with def_cfa_offset, undefined, balanced "
                  "remember/restore directives on instruction boundaries; insertions, replacements, deletions")
    oracle_text = ("evaluate_cfi_directives before and after: still evaluates cleanly; startproc/endproc/remember/restore all present, in order; "
                   "every surviving original instruction is inside a procedure iff it was; with insertions only, the state at every original "
                   "instruction is unchanged and every inserted instruction has the state of the insertion point")

    def tracker_cases(self, n, tag):
        """random directive tables over 1-5 blocks (code and data, four bytes each): (model line, what _CFIProcedureTracker answers)"""
        import gtirb
        from gtirb_rewriting._auxdata import NULL_UUID
        from gtirb_rewriting.rewriting import _CFIProcedureTracker
        from gtirb_test_helpers import add_code_block, add_data_block, add_text_section, create_test_module
        from vlib import common as C
        rnd = C.rng(tag)
        name = {"S": ".cfi_startproc", "E": ".cfi_endproc", "O": ".cfi_undefined"}
        out = []
        for _ in range(n):
            ir, m = create_test_module(gtirb.Module.FileFormat.ELF, gtirb.Module.ISA.X64)
            _, bi = add_text_section(m, address=0x1000)
            blocks, marks = [], []
            wellformed = rnd.random() < 0.5
            open_ = False
            for idx in range(rnd.randint(1, 5)):
                code = rnd.random() < 0.8
                b = (add_code_block if code else add_data_block)(bi, b"\x90" * 4)
                blocks.append(b)
                tab = {}
                for off in sorted(rnd.sample(range(5), rnd.randint(0, 3))):
                    if wellformed:
                        ds = []
                        for _k in range(rnd.randint(1, 2)):
                            k_ = rnd.choice("SO") if not open_ else rnd.choice("EOO")
                            open_ = {"S": True, "E": False}.get(k_, open_)
                            ds.append(k_)
                    else:
                        ds = [rnd.choice("SEOO") for _k in range(rnd.randint(1, 3))]
                    tab[off] = ds
                items = list(tab.items())
                rnd.shuffle(items)              # the order of the entries of a table carries no meaning
                for off, ds in items:
                    m.aux_data["cfiDirectives"].data[gtirb.Offset(b, off)] = [(name[k_], [3] if k_ == "O" else [], NULL_UUID) for k_ in ds]
                if code:
                    for off in sorted(tab):
                        marks += [(idx, off, k_) for k_ in tab[off]]
            try:
                tr = _CFIProcedureTracker(m, blocks)
                impl = "".join("1" if tr.in_procedure(i, o) else "0" for i in range(len(blocks)) for o in range(5))
            except Exception as e:   # noqa
                impl = "err " + type(e).__name__
            line = f"tracker {len(marks)} " + " ".join(f"{i} {o} {k_}" for i, o, k_ in marks) + f" {len(blocks) * 5} " + \
                " ".join(f"{i} {o}" for i in range(len(blocks)) for o in range(5))
            out.append((line, impl))
        return out

    def correspondence(self, tier, ctx):
        from vlib import common as C
        res = super().correspondence(tier, ctx)
        cases = self.tracker_cases(1000 if tier == "quick" else 8000, "c08-tracker")
        got = C.run_driver("ir", [l for l, _ in cases])
        for (line, impl), g in zip(cases, got):
            if impl != g:
                res["disagreements"].append({"tracker": line, "implementation": impl, "model": g})
        res["evaluations"] += len(cases)
        res["dist"]["procedure_tracker_tables"] = len(cases)
        res["disagreements"] = res["disagreements"][:20]
        return res

    def spec(self, seed, case, r):
        if r["error"] is not None:
            return []
        chunks = expected_chunks(case, r)
        if chunks is None:
            return []
        # the original
        B0 = irgen.build(case)
        try:
            ev0, marks0 = unwind(B0.m)
        except Exception:
            return []                      # outside the quantifier
        m = r["built"].m
        bad = []
        try:
            ev1, marks1 = unwind(m)
        except Exception as e:     # noqa
            return [dict(what=f"directives no longer evaluate: {type(e).__name__}: {e}", finding=self.classify_eval(case))]
        # .cfi_remember_state / .cfi_restore_state of a patch carry no operand (identity 0; the input's have identities >= 2)
        marks1 = [x for x in marks1 if x not in (("M", 0), ("R", 0))]
        if marks0 != marks1 and marks1 not in self.without_deleted_procedures(case, marks0):
            bad.append(dict(what=f"procedure structure changed: {marks0} -> {marks1}"))
        # instruction by instruction
        starts, acc = [], 0
        for c, _ in chunks:
            starts.append(acc)
            acc += len(c)
        begins, a = [], 0
        for i in range(len(case.blocks)):
            begins.append(a)
            a += case.size(i)
        only_insertions = all(t == "ins" for (_, t, _, _, _, _) in case.mods)
        for i, x in enumerate(case.blocks):
            if x["kind"] != "c":
                continue
            mods = sorted((off, n, ln, (len(r["mod_code"][n][0]) if t != "del" else 0)) for n, (bi, t, off, ln, patch, _) in enumerate(case.mods) if bi == i)
            o = 0
            for k, _ in x["ins"]:
                delta, gone = 0, False
                for off, n, ln, plen in mods:
                    if o >= off + ln:
                        delta += plen - ln
                    elif o >= off:
                        gone = True
                if not gone:
                    before = state_at(ev0, 0x1000 + begins[i] + o)
                    after = state_at(ev1, 0x1000 + starts[i] + o + delta)
                    if (before == ("outside",)) != (after == ("outside",)):
                        bad.append(dict(what=f"instruction {i}+{o}: inside a procedure before={before != ('outside',)} after={after != ('outside',)}"))
                    elif only_insertions and before != after:
                        bad.append(dict(what=f"instruction {i}+{o}: unwind state {before} -> {after}"))
                o += len(irgen.ENC[k])
            if only_insertions:
                # inserted code: the state in effect at the insertion point (just before the original instruction at that offset)
                delta = 0
                for off, n, ln, plen in mods:
                    on_point = off in case.cfi.get(i, {}) or (off == 0 and i > 0 and case.size(i - 1) in case.cfi.get(i - 1, {})) or \
                        (off == case.size(i) and 0 in case.cfi.get(i + 1, {}))
                    if on_point:
                        # directives sit exactly on the insertion point (this block's, the end of the previous block or the start of
                        # the next one: the same place in the listing): either side is a legitimate reading of WHERE the patch lands.
                        # Whichever it is, a patch that ends up inside a procedure (".. including at its very end") has its own
                        # directives in effect behind its first instruction
                        if isinstance(case.mods[n][4], str) and ".cfi_" in case.mods[n][4] and plen > 1:
                            first = state_at(ev1, 0x1000 + starts[i] + off + delta)
                            if first != ("outside",) and all(state_at(ev1, 0x1000 + starts[i] + off + delta + j) == first for j in range(1, plen)):
                                bad.append(dict(what=f"patch inserted at {i}+{off} (where directives sit) is inside a procedure, yet its own CFI directives are "
                                                     f"not in effect anywhere inside it (state {first} throughout)"))
                        delta += plen
                        continue
                    want_in = state_at(ev0, 0x1000 + begins[i] + off - 1) if off > 0 else state_at(ev0, 0x1000 + begins[i])
                    nxt = state_at(ev0, 0x1000 + begins[i] + off) if off < case.size(i) else want_in
                    own_cfi = isinstance(case.mods[n][4], str) and ".cfi_" in case.mods[n][4]
                    for j in range(plen):
                        got = state_at(ev1, 0x1000 + starts[i] + off + delta + j)
                        if own_cfi and j > 0:
                            # the patch's own directives take effect behind its first instruction when it is inside a procedure
                            first = state_at(ev1, 0x1000 + starts[i] + off + delta)
                            if (first != ("outside",)) and got == first:
                                bad.append(dict(what=f"inserted byte {i}+{off}+{j}: the patch's own CFI directives are not in effect (state {got})"))
                                break
                            if first == ("outside",) and got != first:
                                bad.append(dict(what=f"inserted byte {i}+{off}+{j}: inside a procedure although the patch was inserted outside"))
                                break
                            continue
                        if own_cfi and got != ("outside",):
                            # the patch may open with .cfi_remember_state: the depth of the state stack is not compared; directives in
                            # front of the patch's first instruction (LEAD_RULES) are in effect from its first byte on
                            lead = LEAD_RULES.get(case.mods[n][4], ())
                            ok_ = any(w != ("outside",) and got[0] == w[0] and got[2] == w[2] and
                                      dict(got[1]) == {**dict(w[1]), **dict(lead)} for w in (want_in, nxt))
                        else:
                            ok_ = got in (want_in, nxt)
                        if not ok_:
                            bad.append(dict(what=f"inserted byte {i}+{off}+{j}: unwind state {got}, insertion point has {want_in} / {nxt}"))
                            break
                    delta += plen
        return bad

    @staticmethod
    def without_deleted_procedures(case, marks0):
        """the mark sequences that are marks0 minus some of the procedures all of whose bytes are deleted: such a procedure may go
        with the code it describes (start, end and everything between them) or stay behind as an empty procedure"""
        import itertools
        begins, a = [], 0
        for i in range(len(case.blocks)):
            begins.append(a)
            a += case.size(i)
        deleted = set()
        for (bi, t, off, ln, patch, _) in case.mods:
            if t != "ins":
                deleted |= set(range(begins[bi] + off, begins[bi] + off + ln))
        seq = []
        for i in sorted(case.cfi):
            for d in sorted(case.cfi[i]):
                for (c, did) in case.cfi[i][d]:
                    if c in "SEMR":
                        seq.append((begins[i] + d, c, did))
        groups, open_ = [], None
        for k, (pos, c, did) in enumerate(seq):
            if c == "S":
                open_ = k
            elif c == "E" and open_ is not None:
                lo, hi = seq[open_][0], pos
                if hi > lo and all(x in deleted for x in range(lo, hi)):
                    groups.append({(c2, d2) for (_, c2, d2) in seq[open_:k + 1]})
                open_ = None
        out = []
        for r_ in range(len(groups) + 1):
            for sub in itertools.combinations(groups, r_):
                drop = set().union(*sub) if sub else set()
                out.append([x for x in marks0 if x not in drop])
        return out

    def classify_eval(self, case):
        # known finding: the bytes carrying .cfi_def_cfa (at the start of a procedure) are deleted, a later .cfi_def_cfa_offset has no CFA
        for (bi, t, off, ln, patch, _) in case.mods:
            if t != "ins" and any(off <= d < off + ln and any(c == "D" for (c, _) in ds) for d, ds in case.cfi.get(bi, {}).items()):
                return "C08-def-cfa-dropped-with-the-entry-instruction"
        return None


PROP = C08()
