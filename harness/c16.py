"""C16: prologue/epilogue transparency.  Correspondence: emitted assembly text parsed to instruction tokens vs
the extracted Coq model (Abi/Frames.v).  Oracle: a concrete stack machine executes the emitted text around a
havoc body and checks every clause of the property."""
import itertools
import json
import re

from vlib import common as C
from vlib.runner import Prop

ABIS = None


def abis():
    global ABIS
    if ABIS is None:
        from gtirb_rewriting import abi as A
        ABIS = [("x64_elf", A._X86_64_ELF(), "rsp", 8, 16, "x86"), ("x64_pe", A._X86_64_PE(), "rsp", 8, 16, "x86"),
                ("ia32_pe", A._IA32_PE(), "esp", 4, 4, "x86"), ("arm64_elf", A._ARM64_ELF(), "sp", 8, 16, "a64"),
                ("mips32_elf", A._MIPS32_ELF(), "sp", 4, 8, "mips")]
    return ABIS


def lines_of(snips):
    return [l.strip() for s in snips for l in s.code.splitlines() if l.strip()]


def tokens(lines, idx, fam):
    """Parse emitted assembly into the model's instruction tokens (None if a line is not a known form)."""
    out = []
    for ln in lines:
        t = None
        if fam == "x86":
            m = re.fullmatch(r"push[ql]?\s+%(\w+)", ln)
            if m and m.group(1) in idx:
                t = f"push:{idx[m.group(1)]}"
            m = re.fullmatch(r"pop[ql]?\s+%(\w+)", ln)
            if m and m.group(1) in idx:
                t = f"pop:{idx[m.group(1)]}"
            if ln in ("pushfq", "pushfd"):
                t = "pushf"
            if ln in ("popfq", "popfd"):
                t = "popf"
            m = re.fullmatch(r"leaq?\s+([+-]?(?:0x)?[0-9a-fA-F]+)\(%[re]sp\),\s*%[re]sp", ln)
            if m:
                t = f"lea:{int(m.group(1), 0)}"
            m = re.fullmatch(r"movq?\s+%[re]sp,\s*%(\w+)", ln)
            if m and m.group(1) in idx:
                t = f"movsp>{idx[m.group(1)]}"
            m = re.fullmatch(r"movq?\s+%(\w+),\s*%[re]sp", ln)
            if m and m.group(1) in idx:
                t = f"mov>sp:{idx[m.group(1)]}"
            m = re.fullmatch(r"andq?\s+\$([+-]?(?:0x)?[0-9a-fA-F]+),\s*%[re]sp", ln)
            if m:
                t = f"and:{int(m.group(1), 0)}"
        elif fam == "a64":
            m = re.fullmatch(r"stp (\w+), (\w+), \[sp, #-16\]!", ln)
            if m:
                t = f"stp:{idx[m.group(1)]},{idx[m.group(2)]}"
            m = re.fullmatch(r"ldp (\w+), (\w+), \[sp\], #16", ln)
            if m:
                t = f"ldp:{idx[m.group(1)]},{idx[m.group(2)]}"
            m = re.fullmatch(r"str (\w+), \[sp, #-16\]!", ln)
            if m:
                t = f"str:{idx[m.group(1)]}"
            m = re.fullmatch(r"ldr (\w+), \[sp\], #16", ln)
            if m:
                t = f"ldr:{idx[m.group(1)]}"
            m = re.fullmatch(r"mrs (\w+), nzcv", ln)
            if m:
                t = f"mrs:{idx[m.group(1)]}"
            m = re.fullmatch(r"msr nzcv, (\w+)", ln)
            if m:
                t = f"msr:{idx[m.group(1)]}"
        else:
            m = re.fullmatch(r"addiu \$sp, \$sp, (-?\d+)", ln)
            if m:
                t = f"addiu:{int(m.group(1))}"
            m = re.fullmatch(r"sw \$(\w+), (\d+)\(\$sp\)", ln)
            if m:
                t = f"sw:{idx[m.group(1)]}@{m.group(2)}"
            m = re.fullmatch(r"lw \$(\w+), (\d+)\(\$sp\)", ln)
            if m:
                t = f"lw:{idx[m.group(1)]}@{m.group(2)}"
        out.append(t if t is not None else "?" + ln)
    return out


# --------------------------------------------------------------------------- concrete machine (oracle)
class Mach:
    def __init__(self, regs, ws, rnd):
        self.r = dict(regs)
        self.mem = {}
        self.flags = ("F0",)
        self.W, self.R = set(), set()
        self.ws = ws

    def st(self, a, v, n=None):
        for i in range(n or self.ws):
            self.mem[a + i] = (v, i)
            self.W.add(a + i)

    def ld(self, a, n=None):
        vs = []
        for i in range(n or self.ws):
            self.R.add(a + i)
            vs.append(self.mem.get(a + i, ("junk", a + i)))
        v0 = vs[0][0]
        return v0 if all(v == (v0, i) for i, v in enumerate(vs)) else ("garbage", tuple(vs))


def run_tokens(m, toks, names, spn):
    for t in toks:
        op, _, arg = t.partition(":")
        if t.startswith("movsp>"):
            m.r[names[int(t[6:])]] = m.r[spn]
        elif t.startswith("mov>sp:"):
            m.r[spn] = m.r[names[int(t[7:])]]
        elif op == "push":
            m.r[spn] -= m.ws
            m.st(m.r[spn], m.r[names[int(arg)]])
        elif op == "pop":
            m.r[names[int(arg)]] = m.ld(m.r[spn])
            m.r[spn] += m.ws
        elif t == "pushf":
            m.r[spn] -= m.ws
            m.st(m.r[spn], m.flags)
        elif t == "popf":
            m.flags = m.ld(m.r[spn])
            m.r[spn] += m.ws
        elif op in ("lea", "addiu"):
            m.r[spn] += int(arg)
        elif op == "and":
            m.r[spn] &= int(arg)
        elif op == "stp":
            a, b = arg.split(",")
            m.r[spn] -= 16
            m.st(m.r[spn], m.r[names[int(a)]], 8)
            m.st(m.r[spn] + 8, m.r[names[int(b)]], 8)
        elif op == "ldp":
            a, b = arg.split(",")
            m.r[names[int(a)]] = m.ld(m.r[spn], 8)
            m.r[names[int(b)]] = m.ld(m.r[spn] + 8, 8)
            m.r[spn] += 16
        elif op == "str":
            m.r[spn] -= 16
            m.st(m.r[spn], m.r[names[int(arg)]], 8)
        elif op == "ldr":
            m.r[names[int(arg)]] = m.ld(m.r[spn], 8)
            m.r[spn] += 16
        elif op == "mrs":
            m.r[names[int(arg)]] = m.flags
        elif op == "msr":
            m.flags = m.r[names[int(arg)]]
        elif op == "sw":
            r, o = arg.split("@")
            m.st(m.r[spn] + int(o), m.r[names[int(r)]], 4)
        elif op == "lw":
            r, o = arg.split("@")
            m.r[names[int(r)]] = m.ld(m.r[spn] + int(o), 4)
        else:
            raise ValueError("unknown instruction form: " + t)


def check_case(case, rnd):
    """Runs the implementation for one case.  Returns (model-format output, list of property violations)."""
    from gtirb_rewriting.assembly import Constraints
    name, abi, spn, ws, align, fam = case["abi"]
    regs = abi.all_registers()
    names = [r.name for r in regs]
    idx = {}
    for i, r in enumerate(regs):
        for n in r.sizes.values():
            idx[n] = i
    c = Constraints(clobbers_flags=case["flags"], clobbers_registers={names[i] for i in case["clob"]}, scratch_registers=case["scratch"],
                    reads_registers={names[i] for i in case["reads"]}, align_stack=case["align"],
                    preserve_caller_saved_registers=case["preserve"])
    leaf = case["leaf"]
    try:
        ru = abi._allocate_patch_registers(c)
    except Exception as e:  # noqa
        return "alloc-err " + type(e).__name__, []
    head = ("clob=" + ",".join(str(idx[r.name]) for r in ru.clobbered_registers) + " scratch=" + ",".join(str(idx[r.name]) for r in ru.scratch_registers)
            + " avail=" + ",".join(str(idx[r.name]) for r in ru.available_registers))
    saved_alloc = [r.name for r in ru.clobbered_registers]
    scratch_names = [r.name for r in ru.scratch_registers]
    try:
        pro, epi, adj = abi._create_prologue_and_epilogue(c, ru, leaf)
        pro, epi = list(pro), list(epi)
    except Exception as e:  # noqa
        return head + " ; frames-err " + type(e).__name__, []
    tp, te = tokens(lines_of(pro), idx, fam), tokens(lines_of(epi), idx, fam)
    out = head + " ; pro " + " ".join(tp) + " ; epi " + " ".join(te) + " ; adj " + str(adj)
    errs = []
    if any(t.startswith("?") for t in tp + te):
        errs.append("emitted an instruction form outside the modelled vocabulary: " + str([t for t in tp + te if t.startswith("?")][:2]))
        return out, errs
    # ---- property oracle on a concrete machine
    for sp_res in (0, ws, 2 * ws, 3 * ws) if fam != "a64" else (0,):
        sp0 = rnd.randrange(0x10000, 0x20000) * 16 + sp_res
        init = {n: ("init", n) for n in names}
        init[spn] = sp0
        m = Mach(init, ws, rnd)
        try:
            run_tokens(m, tp, names, spn)
        except (TypeError, KeyError):
            errs.append("the prologue computes the stack pointer or an address from a value it never produced")
            break
        sp1, wp = m.r[spn], set(m.W)
        if not isinstance(sp1, int):
            errs.append("the prologue leaves a stack pointer that is not derived from the entry stack pointer")
            break
        if adj is not None and sp0 - sp1 != adj:
            errs.append("stack_adjustment does not equal the real displacement")
        if case["align"] and fam == "x86" and sp1 % align:
            errs.append(f"body does not run with an ABI-aligned stack (sp mod {align} = {sp1 % align})")
        rz = abi.red_zone_size()
        if any(a >= sp0 for a in m.W):
            errs.append("prologue writes at or above the original stack pointer")
        if leaf and rz and any(sp0 - rz <= a < sp0 for a in m.W):
            errs.append("prologue writes inside the red zone of a possible leaf function")
        if leaf and rz and tp and sp1 > sp0 - rz:
            errs.append("patch body runs with its stack pointer inside the red zone")
        saved = set(saved_alloc) | {names[int(t.split(':')[1].split(',')[0])] for t in tp if t.split(':')[0] in ("str",)}  # incl. borrowed flags reg
        for r in names:
            if r in saved_alloc or r in scratch_names:
                m.r[r] = ("havoc", r)
        if case["flags"]:
            m.flags = ("havocflags",)
        for a in range(sp1 - 64, sp1):
            m.mem[a] = ("bodyjunk", a)
        m.R, m.W = set(), set()
        try:
            run_tokens(m, te, names, spn)
        except (TypeError, KeyError):
            errs.append("the epilogue computes the stack pointer or an address from a slot the prologue did not write")
            break
        if m.r[spn] != sp0:
            errs.append("stack pointer not restored")
        for r in saved_alloc:
            if m.r[r] != ("init", r):
                errs.append("an allocated register is not restored")
                break
        if case["flags"] and fam != "mips" and m.flags != ("F0",):   # MIPS32 has no flags register
            errs.append("flags not restored")
        if not m.R <= wp:
            errs.append("epilogue reads a slot the prologue did not write")
        if any(a >= sp0 for a in m.W):
            errs.append("epilogue writes at or above the original stack pointer")
        if errs:
            break
    want = {names[i] for i in case["clob"]} | set(scratch_names) | ({r.name for r in abi.caller_saved_registers()} if case["preserve"] else set())
    if not want <= set(saved_alloc):
        errs.append("a declared register is not preserved")
    if (len(scratch_names) != case["scratch"] or len(set(scratch_names)) != len(scratch_names) or set(scratch_names) & {names[i] for i in case["reads"]}
            or not set(scratch_names) <= {r.name for r in abi._scratch_registers()} or spn in scratch_names):
        errs.append("scratch allocation violates its contract")
    return out, sorted(set(errs))


# registers that a callee may overwrite according to the platform ABI documents (System V x86-64 psABI, Microsoft x64, cdecl,
# AAPCS64 without the IP/platform registers, MIPS o32): lower bounds for ABI.caller_saved_registers(), written down independently
CALL_CLOBBERED = {
    ("ELF", "X64"): {"rax", "rcx", "rdx", "rsi", "rdi", "r8", "r9", "r10", "r11"},
    ("PE", "X64"): {"rax", "rcx", "rdx", "r8", "r9", "r10", "r11"},
    ("PE", "IA32"): {"eax", "ecx", "edx"},
    ("ELF", "ARM64"): {f"x{i}" for i in range(16)},
    ("ELF", "MIPS32"): {"v0", "v1", "a0", "a1", "a2", "a3"} | {f"t{i}" for i in range(10)},
}


def abi_facts():
    import gtirb
    from gtirb_rewriting.abi import ABI
    bad = []
    for (ff, isa), want in CALL_CLOBBERED.items():
        m = gtirb.Module(name="m", isa=getattr(gtirb.Module.ISA, isa), file_format=getattr(gtirb.Module.FileFormat, ff))
        got = {r.name for r in ABI.get(m).caller_saved_registers()}
        if not want <= got:
            bad.append(dict(what=f"{ff}/{isa}: caller_saved_registers() lacks {sorted(want - got)}, which the platform ABI lets a callee overwrite: "
                                 "preserve_caller_saved_registers does not preserve them", input=f"{ff}/{isa}", observed=str(sorted(got)), finding=None))
    return bad


def re_digits(w):
    import re
    return re.sub(r"[0-9a-f]{6,}", "..", w)[:200]


def leaf_decisions(rnd, n):
    """RewritingContext decides for every patch whether the enclosing function may be a leaf (no call edge in it before the
    rewrite; unknown function: may be).  The flag it hands to the prologue builder is compared with that reading."""
    import sys
    sys.path.insert(0, "/repo/tests")
    import gtirb
    import gtirb_rewriting
    from gtirb_rewriting.abi import ABI
    from gtirb_test_helpers import add_code_block, add_edge, add_proxy_block, add_symbol, add_text_section, create_test_module
    from helpers import add_function_object
    bad, done = [], 0
    for _ in range(n):
        ir, m = create_test_module(gtirb.Module.FileFormat.ELF, gtirb.Module.ISA.X64)
        _, bi = add_text_section(m, address=0x1000)
        blocks, funcs, want = [], [], {}
        ext = add_proxy_block(m)
        add_symbol(m, "ext", ext)
        for k in range(rnd.randint(2, 4)):
            calls = rnd.random() < 0.5
            b = add_code_block(bi, b"\x90\x90" + (b"\xe8\0\0\0\0" if calls else b"") + b"\xc3")
            s_ = add_symbol(m, f"f{k}", b)
            if calls:
                add_edge(ir.cfg, b, ext, gtirb.Edge.Type.Call)
            kind = rnd.choice(("known", "known", "nofunc", "notpassed"))
            if kind != "nofunc":
                f = add_function_object(m, s_, b)
                if kind == "known":
                    funcs.append(f)
            blocks.append(b)
            want[id(b)] = (not calls) if kind == "known" else True
        seen = {}
        abi_cls = type(ABI.get(m))
        orig = abi_cls._create_prologue_and_epilogue

        def spy(self, constraints, registers, is_leaf, _orig=orig):
            seen["leaf"] = is_leaf
            return _orig(self, constraints, registers, is_leaf)
        abi_cls._create_prologue_and_epilogue = spy
        try:
            ctx = gtirb_rewriting.RewritingContext(m, funcs)
            order = []

            def mk(b):
                @gtirb_rewriting.patch_constraints(clobbers_flags=True)
                def patch(c):
                    order.append(b)
                    return "nop"
                return gtirb_rewriting.Patch.from_function(patch)
            got = {}
            for b in blocks:
                ctx.insert_at(b, 0, mk(b))
            # the flag is read right after the patch callback: record it per block through a second spy on get_asm order
            orig2 = abi_cls._create_prologue_and_epilogue

            def spy2(self, constraints, registers, is_leaf, _o=orig):
                got[len(got)] = is_leaf
                return _o(self, constraints, registers, is_leaf)
            abi_cls._create_prologue_and_epilogue = spy2
            ctx.apply()
        finally:
            abi_cls._create_prologue_and_epilogue = orig
        done += 1
        # _invoke_patch builds the prologue before it calls the patch: the k-th flag belongs to the k-th block in address order
        for k, b in enumerate(sorted(blocks, key=lambda x: x.address)):
            if k in got and got[k] != want[id(b)]:
                bad.append(dict(what=f"a patch in a block whose function {'may' if want[id(b)] else 'cannot'} be a leaf is assembled with is_leaf={got[k]}: "
                                     "the red zone is " + ("not skipped" if want[id(b)] else "skipped needlessly"),
                                input=f"block {k} of {len(blocks)}", observed=str(got), finding=None))
                break
    return done, [b for b in bad if "cannot" not in b["what"]]


def case_line(case):
    return (f"frames {case['abi'][0]} {int(case['flags'])} {int(case['align'])} {int(case['preserve'])} {int(case['leaf'])} {case['scratch']} "
            f"{len(case['clob'])} " + " ".join(map(str, case["clob"])) + f" {len(case['reads'])} " + " ".join(map(str, case["reads"])))


def gen_cases(rnd, tier):
    cases = []
    for ab in abis():
        n = len(ab[1].all_registers())
        forbidden = {i for i, r in enumerate(ab[1].all_registers()) if r.name == ab[2]}   # MIPS lists `sp` among all_registers()
        scr = [i for i, r in enumerate(ab[1].all_registers()) if r in ab[1]._scratch_registers()]
        small = sorted(set([0, 1, 2, n - 1] + scr[:2] + scr[-1:]))
        subsets = [list(s) for k in range(0, 3 if tier == "quick" else 4) for s in itertools.combinations(small, k)]
        for flags, align, preserve, leaf in itertools.product((False, True), repeat=4):
            for scratch in (0, 1, 3):
                for cl in subsets:
                    for rd in ([], [scr[0]], [scr[1], scr[-1]]):
                        if tier == "quick" and rnd.random() < 0.6:
                            continue
                        cases.append(dict(abi=ab, flags=flags, align=align, preserve=preserve, leaf=leaf, scratch=scratch, clob=[x for x in cl if x not in forbidden], reads=rd))
        for _ in range(1500 if tier == "quick" else 8000):
            cl = rnd.sample(range(n), rnd.randint(0, n)) if rnd.random() < 0.3 else rnd.sample(range(n), rnd.randint(0, min(5, n)))
            rd = rnd.sample(scr, rnd.randint(0, 3))
            cases.append(dict(abi=ab, flags=rnd.random() < 0.5, align=rnd.random() < 0.4, preserve=rnd.random() < 0.3, leaf=rnd.random() < 0.5,
                              scratch=rnd.choice((0, 0, 1, 2, 4, len(scr), len(scr) + 1)), clob=sorted(x for x in cl if x not in forbidden), reads=sorted(rd)))
    return cases


class C16(Prop):
    id = "C16"
    gens = [("gen_abi.py", "AbiGen.v")]
    prop_file = "Properties/C16.v"
    extract = ("c16", "ExtractC16.v", "c16_main.ml", "C16_model")
    allowed_axioms = set()
    trusted_base = [
        "Coq 8.16.1 kernel; vm_compute for the finite table facts",
        "translator/gen_abi.py: ABI tables obtained by executing the current abi.py (register lists, scratch candidates, caller-saved sets, "
        "red zone, word size) + pins of _allocate_patch_registers and the four _create_prologue_and_epilogue bodies",
        "hand model Abi/Frames.v and the stack machine Machine/Stack.v (byte-addressed little-endian memory, exactly the emitted instruction forms)",
        "text -> instruction-form parse of harness/c16.py (regular expressions over the emitted AT&T / ARM64 / MIPS text)",
        "extraction: ExtrOcamlBasic only; OCaml driver ocaml/zutil.ml + c16_main.ml",
    ]
    assumptions = ["the patch body keeps the stack pointer and writes only below its entry stack pointer; register values are machine words",
                   "enough stack below the entry sp (bound stated in each theorem) and sp < 2^(8W): no wrap-around",
                   "MIPS32: the `sp` entry of all_registers() is not listed as clobbered",
                   "'only reads slots it wrote itself' is checked by the concrete-machine oracle, not by a theorem"]
    level_rule = ("cases = every ABI x flags x align x preserve x leaf x scratch count x register subsets (sizes 0-2 quick / 0-3 thorough) x read sets, "
                  "plus random large subsets; distinct = distinct case line; non-trivial = a prologue was generated (not a refusal)")

    def correspondence(self, tier, ctx):
        rnd = C.rng("c16")
        cases = gen_cases(rnd, tier)
        lines = [case_line(c) for c in cases]
        got = C.run_driver("c16", lines)
        dis, nontriv, viol, refusals = [], set(), [], {}
        samples = []
        for case, line, g in zip(cases, lines, got):
            out, errs = check_case(case, rnd)
            if out != g:
                dis.append({"case": line, "implementation": out, "model": g})
            if " ; pro " in out:
                nontriv.add(line)
            else:
                k = out.split(" ; ")[-1]
                refusals[k] = refusals.get(k, 0) + 1
            for e in errs:
                viol.append(dict(what=e, input=line, observed=out, finding=None))
            if len(samples) < 5 and " ; pro " in out and len(out) > 80 and len(samples) * 997 < len(nontriv):
                samples.append({"case": line, "implementation": out, "model": g})
        self._viol = (len(lines), viol)
        return dict(evaluations=len(lines), distinct_nontrivial=len(nontriv), samples=samples, disagreements=dis[:20],
                    dist={"refusals": refusals, "generated": len(nontriv)})

    def oracle(self, tier, ctx, boosted):
        if getattr(self, "_viol", None) is None or boosted:
            rnd = C.rng("c16-boost")
            cases = gen_cases(rnd, "thorough" if boosted else tier)
            viol = []
            for case in cases:
                out, errs = check_case(case, rnd)
                for e in errs:
                    viol.append(dict(what=e, input=case_line(case), observed=out, finding=None))
            n = len(cases)
        else:
            n, viol = self._viol
        dn, lv = leaf_decisions(C.rng("c16-leaf" + ("-boost" if boosted else "")), 60 if not boosted else 300)
        n += dn
        viol = list(viol) + lv
        viol = list(viol) + abi_facts()
        # context level: one Patch object with constraints inserted at several places, with and without a DEBUG logger
        from harness import ctxlevel
        rndc = C.rng("c16-ctx" + ("-boost" if boosted else ""))
        for _ in range(400 if boosted else 80):
            n += 1
            w = ctxlevel.shared_patch_insertions(rndc)
            if w:
                viol.append(dict(what=re_digits(w), input="ctxlevel.shared_patch_insertions()", observed=w, finding=None))
        seen, uniq = set(), []
        for v in viol:
            if v["what"] not in seen:
                seen.add(v["what"])
                uniq.append(v)
        return dict(evaluations=n, violations=uniq[:10], samples=[{"oracle": "concrete stack machine around a havoc body, 4 initial sp residues"}])

    def replay(self, path):
        print(json.dumps(json.load(open(path)), indent=1)[:3000])
        return 0


PROP = C16()
