"""C15: evaluate_cfi_directives.  Correspondence (extracted CfiEval/Model.v vs implementation) and the
property oracle (a reference evaluator written from the DWARF v4 call-frame rules, section 6.4.2)."""
import json
import uuid
from copy import copy

from vlib import common as C
from vlib.runner import Prop

SUPPORTED = [".cfi_startproc", ".cfi_endproc", ".cfi_personality", ".cfi_lsda", ".cfi_return_column", ".cfi_def_cfa",
             ".cfi_def_cfa_register", ".cfi_def_cfa_offset", ".cfi_adjust_cfa_offset", ".cfi_undefined", ".cfi_same_value",
             ".cfi_register", ".cfi_restore", ".cfi_val_offset", ".cfi_offset", ".cfi_rel_offset", ".cfi_remember_state",
             ".cfi_restore_state", ".cfi_escape"]
ARITY = {".cfi_startproc": 0, ".cfi_endproc": 0, ".cfi_personality": 1, ".cfi_lsda": 1, ".cfi_return_column": 1, ".cfi_def_cfa": 2,
         ".cfi_def_cfa_register": 1, ".cfi_def_cfa_offset": 1, ".cfi_adjust_cfa_offset": 1, ".cfi_undefined": 1, ".cfi_same_value": 1,
         ".cfi_register": 2, ".cfi_restore": 1, ".cfi_val_offset": 2, ".cfi_offset": 2, ".cfi_rel_offset": 2, ".cfi_remember_state": 0,
         ".cfi_restore_state": 0}


# ------------------------------------------------------------------------- canonical text of states
def show_op(o):
    import dataclasses
    return type(o).__name__ + "(" + ",".join(str(getattr(o, f.name)) for f in dataclasses.fields(o)) + ")"


def show_ops(l):
    return "[" + ";".join(show_op(x) for x in l) + "]"


def show_rule(r):
    n = type(r).__name__
    if n == "RegisterUndefined":
        return "U"
    if n == "RegisterSameValue":
        return "S"
    if n == "RegisterOffset":
        return f"O{r.offset}"
    if n == "RegValOffset":
        return f"V{r.offset}"
    if n == "RegisterInRegister":
        return f"R{r.register}"
    if n == "RegisterAtExpression":
        return "A" + show_ops(r.expression)
    if n == "RegisterIsExpression":
        return "I" + show_ops(r.expression)
    return "?" + n


def show_cfa(c):
    if c is None:
        return "-"
    if type(c).__name__ == "CFARegisterOffset":
        return f"reg{c.register}+{c.offset}"
    return "expr" + show_ops(c.expression)


def show_row(r):
    return "{" + ",".join(f"{k}:{show_rule(v)}" for k, v in sorted(r.registers.items())) + "|" + show_cfa(r.cfa) + "}"


def show_state(s, symid):
    if s is None:
        return "None"

    def ptr(p):
        return "-" if p is None else f"{int(p.encoding)}@{symid[id(p.symbol)]}"
    return (f"P({s.return_column} {ptr(s.personality)} {ptr(s.lsda)} {show_row(s.current)} {show_row(s.initial)} "
            "[" + ";".join(show_row(x) for x in s.save_stack) + "])")


# ------------------------------------------------------------------------- reference evaluator (DWARF v4 6.4.2)
class RefError(Exception):
    pass


def ref_eval(case):
    """Pure reference: returns (list of yielded strings, error class or None).  Error class is 'state' (ill-formed
    sequence) or 'value' (missing symbol / bad operands)."""
    from gtirb_rewriting.dwarf import cfi
    retcol, big, ps, blocks = case["retcol"], case["big"], case["ps"], case["blocks"]
    out = []
    st = None
    groups = []
    for b in sorted(blocks, key=lambda b: b["addr"]):
        for off, ds in sorted(b["entries"], key=lambda e: e[0]):
            groups.append((b["id"], off, ds))

    def row_s(r):
        regs, cfa = r
        return "{" + ",".join(f"{k}:{v}" for k, v in sorted(regs.items())) + "|" + cfa + "}"
    try:
        for bid, off, ds in groups:
            started = False
            for name, args, sym in ds:
                if name == ".cfi_startproc":
                    if st is not None:
                        raise RefError("state")
                    st = {"rc": retcol, "pers": "-", "lsda": "-", "cur": ({}, "-"), "init": ({}, "-"), "stack": []}
                    started = True
                    continue
                if st is None:
                    raise RefError("state")
                if name != ".cfi_escape" and name in ARITY and len(args) != ARITY[name]:
                    raise RefError("value")
                regs, cfa = st["cur"]
                regs = dict(regs)
                if name == ".cfi_endproc":
                    st = None
                    continue
                elif name in (".cfi_personality", ".cfi_lsda"):
                    key = "pers" if name == ".cfi_personality" else "lsda"
                    if args[0] == 255:
                        st[key] = "-"
                    else:
                        if not (isinstance(sym, str) and sym.startswith("S")):
                            raise RefError("value")
                        st[key] = f"{args[0]}@{sym[1:]}"
                elif name == ".cfi_return_column":
                    st["rc"] = args[0]
                elif name == ".cfi_def_cfa":
                    cfa = f"reg{args[0]}+{args[1]}"
                elif name in (".cfi_def_cfa_register", ".cfi_def_cfa_offset", ".cfi_adjust_cfa_offset"):
                    if not cfa.startswith("reg"):
                        raise RefError("state")
                    r, o = cfa[3:].split("+", 1)
                    if name == ".cfi_def_cfa_register":
                        r = args[0]
                    elif name == ".cfi_def_cfa_offset":
                        o = args[0]
                    else:
                        o = int(o) + args[0]
                    cfa = f"reg{r}+{o}"
                elif name == ".cfi_undefined":
                    regs[args[0]] = "U"
                elif name == ".cfi_same_value":
                    regs[args[0]] = "S"
                elif name == ".cfi_register":
                    regs[args[0]] = f"R{args[1]}"
                elif name == ".cfi_restore":
                    init = st["init"][0]
                    if args[0] in init:
                        regs[args[0]] = init[args[0]]
                    else:
                        regs.pop(args[0], None)
                elif name == ".cfi_val_offset":
                    regs[args[0]] = f"V{args[1]}"
                elif name == ".cfi_offset":
                    regs[args[0]] = f"O{args[1]}"
                elif name == ".cfi_rel_offset":
                    cur = regs.get(args[0])
                    if cur is None or not cur.startswith("O"):
                        raise RefError("state")
                    regs[args[0]] = f"O{int(cur[1:]) + args[1]}"
                elif name == ".cfi_remember_state":
                    st["stack"].append((dict(regs), cfa))
                elif name == ".cfi_restore_state":
                    if not st["stack"]:
                        raise RefError("state")
                    regs, cfa = st["stack"].pop()
                    regs = dict(regs)
                elif name == ".cfi_escape":
                    for inst in case["_escapes"][tuple(args)]:
                        k = type(inst).__name__
                        if k == "InstDefCFAExpression":
                            cfa = "expr" + show_ops(inst.expression)
                        elif k == "InstExpression":
                            regs[inst.register] = "A" + show_ops(inst.expression)
                        elif k == "InstValExpression":
                            regs[inst.register] = "I" + show_ops(inst.expression)
                        elif k == "InstNop":
                            pass
                        else:
                            raise RefError("unsupported")
                else:
                    raise RefError("unsupported")
                st["cur"] = (regs, cfa)
            if st is not None and started:
                st["init"] = (dict(st["cur"][0]), st["cur"][1])
            if st is None:
                out.append(f"y {bid} {off} None")
            else:
                out.append(f"y {bid} {off} P({st['rc']} {st['pers']} {st['lsda']} {row_s(st['cur'])} {row_s(st['init'])} "
                           "[" + ";".join(row_s(x) for x in st["stack"]) + "])")
    except RefError as e:
        return out, str(e)
    return out, None


# ------------------------------------------------------------------------- running the implementation
ABIS = None


def abis():
    global ABIS
    if ABIS is None:
        import gtirb
        from gtirb_rewriting.abi import ABI
        from gtirb_test_helpers import create_test_module
        ABIS = []
        for ff, isa in ((gtirb.Module.FileFormat.ELF, gtirb.Module.ISA.X64), (gtirb.Module.FileFormat.ELF, gtirb.Module.ISA.ARM64),
                        (gtirb.Module.FileFormat.ELF, gtirb.Module.ISA.MIPS32)):
            _, m = create_test_module(ff, isa)
            a = ABI.get(m)
            ABIS.append(dict(ff=ff, isa=isa, retcol=a.default_dwarf_eh_return_column(), big=a.byteorder() == "big", ps=a.pointer_size()))
    return ABIS


def run_impl(case):
    """Returns (yields as strings, exception class name or None, alias_ok)."""
    import gtirb
    from gtirb_test_helpers import add_code_block, add_text_section, create_test_module
    from gtirb_rewriting._auxdata import NULL_UUID
    from gtirb_rewriting.dwarf.cfi_eval import evaluate_cfi_directives
    abi = case["abi"]
    _, m = create_test_module(abi["ff"], abi["isa"])
    _, bi = add_text_section(m, address=0x1000)
    syms, symid = {}, {}
    blocks, by_id = [], {}
    # byte interval offsets must follow the block addresses
    maxaddr = max([b["addr"] for b in case["blocks"]] + [0])
    bi.contents = b"\x90" * (maxaddr + 4)
    bi.size = maxaddr + 4
    for b in case["blocks"]:
        blk = gtirb.CodeBlock(offset=b["addr"], size=1 if not b.get("zero") else 0)
        bi.blocks.add(blk)
        by_id[id(blk)] = b["id"]
        blocks.append(blk)
        for off, ds in b["entries"]:
            real = []
            for name, args, sym in ds:
                if sym == "N":
                    s = NULL_UUID
                elif sym == "M":
                    s = uuid.UUID(int=12345)
                else:
                    if sym not in syms:
                        syms[sym] = gtirb.Symbol("sym" + sym[1:], module=m)
                        symid[id(syms[sym])] = sym[1:]
                    s = syms[sym]
                real.append((name, list(args), s))
            m.aux_data["cfiDirectives"].data[gtirb.Offset(blk, off)] = real
    out, copies = [], []
    exc = None
    try:
        for blk, off, st in evaluate_cfi_directives(m, list(reversed(blocks)) if case.get("rev") else blocks):
            c = copy(st) if st is not None else None
            s = show_state(c, symid)
            copies.append((c, s))
            out.append(f"y {by_id[id(blk)]} {off} {s}")
    except Exception as e:  # noqa
        exc = type(e).__name__
    alias_ok = all(show_state(c, symid) == s for c, s in copies)
    return out, exc, alias_ok


def case_line(case):
    parts = [f"eval {case['retcol']} {1 if case['big'] else 0} {case['ps']} {len(case['blocks'])}"]
    for b in case["blocks"]:
        parts.append(f"{b['id']} {b['addr']} {len(b['entries'])}")
        for off, ds in b["entries"]:
            parts.append(f"{off} {len(ds)}")
            for name, args, sym in ds:
                parts.append(f"{name} {len(args)} " + " ".join(str(a) for a in args) + f" {sym}")
    return " ".join(parts)


# ------------------------------------------------------------------------- generators
def gen_escape(rnd, valid):
    from gtirb_rewriting.dwarf import cfi, expr
    if not valid and rnd.random() < 0.5:
        return [rnd.randrange(256) for _ in range(rnd.randrange(1, 6))]
    insts = []
    for _ in range(rnd.randrange(1, 3)):
        e = [rnd.choice((expr.OpBReg(rnd.randrange(32), rnd.randrange(-200, 200)), expr.OpDeref(), expr.OpLit(rnd.randrange(32)),
                         expr.OpPlusUConst(rnd.randrange(300)), expr.OpConst2S(rnd.randrange(-300, 300)),
                         expr.OpAddr(rnd.choice((0, 0x1000, 0x401000, 2 ** 32 - 1))))) for _ in range(rnd.randrange(0, 3))]   # DW_OP_addr: pointer-sized
        k = rnd.randrange(5 if valid else 7)
        if k == 0:
            insts.append(cfi.InstDefCFAExpression(e))
        elif k == 1:
            insts.append(cfi.InstExpression(rnd.randrange(20), e))
        elif k == 2:
            insts.append(cfi.InstValExpression(rnd.randrange(20), e))
        elif k in (3, 4):
            insts.append(cfi.InstNop())
        elif k == 5:
            insts.append(cfi.InstDefCFAOffsetSF(rnd.randrange(-5, 5)))   # not supported by the evaluator
        else:
            insts.append(cfi.InstRestoreExtended(rnd.randrange(20)))
    return insts


def gen_case(rnd, abi, valid):
    """valid: grammar-respecting (mostly clean) sequences; otherwise an arbitrary stream."""
    regs = (0, 1, 3, 6, 7, 16, 300)

    def reg():
        return rnd.choice(regs)
    nblocks = rnd.randrange(1, 4)
    addr = 0
    blocks = []
    inside = False
    depth = 0
    cfa_reg = False
    for i in range(nblocks):
        nent = rnd.randrange(1, 4)
        offs = sorted(rnd.sample(range(0, 6), nent))
        entries = []
        for off in offs:
            ds = []
            for _ in range(rnd.randrange(1, 5)):
                if valid:
                    if not inside:
                        ds.append((".cfi_startproc", [], "N"))
                        inside, depth, cfa_reg = True, 0, False
                        if rnd.random() < 0.8:
                            ds.append((".cfi_def_cfa", [reg(), rnd.randrange(0, 64)], "N"))
                            cfa_reg = True
                        if rnd.random() < 0.5:
                            ds.append((".cfi_offset", [reg(), rnd.randrange(-64, 0)], "N"))
                        if rnd.random() < 0.3:
                            ds.append((".cfi_personality", [rnd.choice((0, 0x1b, 0x9b, 255))], rnd.choice(("S1", "S2"))))
                        continue
                    k = rnd.randrange(20)
                    if k == 0:
                        ds.append((".cfi_endproc", [], "N"))
                        inside = False
                    elif k == 1:
                        ds.append((".cfi_remember_state", [], "N"))
                        depth += 1
                    elif k == 2 and depth > 0:
                        ds.append((".cfi_restore_state", [], "N"))
                        depth -= 1
                        cfa_reg = None   # unknown
                    elif k == 3:
                        ds.append((".cfi_def_cfa", [reg(), rnd.randrange(0, 64)], "N"))
                        cfa_reg = True
                    elif k == 4 and (cfa_reg or rnd.random() < 0.3):   # sometimes ill-formed on purpose (CFA is an expression / undefined)
                        ds.append((rnd.choice((".cfi_def_cfa_offset", ".cfi_def_cfa_register", ".cfi_adjust_cfa_offset")), [rnd.randrange(0, 40)], "N"))
                    elif k == 5:
                        ds.append((".cfi_restore", [reg()], "N"))
                    elif k == 6:
                        ds.append((".cfi_lsda", [rnd.choice((0, 0x1b, 255))], rnd.choice(("S1", "S3"))))
                    elif k == 7:
                        ds.append((".cfi_return_column", [reg()], "N"))
                    elif k == 8:
                        ds.append((".cfi_escape", gen_escape(rnd, True), "N"))
                        cfa_reg = None
                    elif k == 9:
                        r = reg()
                        ds.append((".cfi_offset", [r, rnd.randrange(-64, 0)], "N"))
                        ds.append((".cfi_rel_offset", [r, rnd.randrange(-8, 8)], "N"))
                    else:
                        nm = rnd.choice((".cfi_undefined", ".cfi_same_value", ".cfi_register", ".cfi_val_offset", ".cfi_offset"))
                        ds.append((nm, [reg()] if ARITY[nm] == 1 else [reg(), rnd.randrange(-64, 64)], "N"))
                else:
                    nm = rnd.choice(SUPPORTED + [".cfi_startproc", ".cfi_endproc", ".cfi_restore_state", ".cfi_window_save"] if rnd.random() < 0.9 else [".cfi_bogus"])
                    if nm == ".cfi_escape":
                        args = gen_escape(rnd, rnd.random() < 0.6)
                    else:
                        n = ARITY.get(nm, 0)
                        if rnd.random() < 0.05:
                            n = rnd.randrange(3)
                        args = [rnd.choice(regs + (255, 0x1b)) if j == 0 else rnd.randrange(-64, 64) for j in range(n)]
                    sym = rnd.choice(("N", "N", "S1", "S2", "M")) if nm in (".cfi_personality", ".cfi_lsda") else "N"
                    ds.append((nm, args, sym))
            entries.append((off, ds))
        if valid and inside and i == nblocks - 1 and rnd.random() < 0.8:
            entries[-1][1].append((".cfi_endproc", [], "N"))
            inside = False
        blocks.append(dict(id=i, addr=addr, entries=entries))
        addr += rnd.choice((1, 1, 8, 0 if not valid else 3))
    if rnd.random() < 0.3:
        rnd.shuffle(blocks)   # the evaluator sorts by address itself
    return dict(abi=abi, retcol=abi["retcol"], big=abi["big"], ps=abi["ps"], blocks=blocks)


def encode_escapes(case):
    """Replace instruction lists in .cfi_escape operands by their bytes; remember the decoded form for the reference."""
    bo = "big" if case["big"] else "little"
    esc = {}
    for b in case["blocks"]:
        for _, ds in b["entries"]:
            for i, (name, args, sym) in enumerate(ds):
                if name == ".cfi_escape":
                    if args and not isinstance(args[0], int):
                        by = []
                        for inst in args:
                            by += list(inst.encode(bo, case["ps"]))
                        esc[tuple(by)] = list(args)
                        ds[i] = (name, by, sym)
                    else:
                        from gtirb_rewriting.dwarf import cfi
                        try:
                            esc[tuple(args)] = list(cfi.parse_cfi_instructions(bytes(args), bo, case["ps"]))
                        except Exception:  # noqa
                            esc[tuple(args)] = None
    case["_escapes"] = esc


def in_scope(case):
    """Inside the property's quantifier: supported directives, right operand counts, decodable escapes of supported instructions."""
    for b in case["blocks"]:
        for _, ds in b["entries"]:
            for name, args, sym in ds:
                if name not in SUPPORTED:
                    return False
                if name == ".cfi_escape":
                    insts = case["_escapes"].get(tuple(args))
                    if insts is None or any(type(i).__name__ not in ("InstDefCFAExpression", "InstExpression", "InstValExpression", "InstNop") for i in insts):
                        return False
                elif len(args) != ARITY[name]:
                    return False
    return True


class C15(Prop):
    id = "C15"
    gens = [("gen_dwarf.py", "DwarfGen.v"), ("gen_cfieval.py", "CfiEvalGen.v")]
    prop_file = "Properties/C15.v"
    extract = ("c15", "ExtractC15.v", "c15_main.ml", "C15_model")
    allowed_axioms = set()
    trusted_base = [
        "Coq 8.16.1 kernel; vm_compute for closed examples only",
        "translator/gen_cfieval.py: pins (normalised source text of every branch of evaluate_cfi_directives, of RowState/ProcedureState "
        "__init__/__copy__, of _resolve_cfi_symbol, dataclass decorators) + regenerated dispatch order; gen_dwarf.py for the instruction tables",
        "hand model CfiEval/Model.v (dicts as key-sorted association lists; generator as a list of yields plus optional error) -- tied by the correspondence run",
        "extraction: ExtrOcamlBasic only; OCaml driver ocaml/zutil.ml + c15_main.ml",
        "the reference evaluator in harness/c15.py (oracle) is typed from DWARF v4 section 6.4.2 and the documented CIE rule",
    ]
    assumptions = ["pointer-encoding operands are non-negative", "ABIs with DWARF call-frame support: x86-64 ELF, ARM64 ELF, MIPS32 ELF (PE ABIs refuse .cfi_startproc with NotImplementedError)",
                   "ill-formedness is judged over the supported directive set with the declared operand counts and decodable escapes; other inputs are compared model-vs-code only"]
    level_rule = ("cases = grammar-generated (mostly clean) and arbitrary directive streams over 1-3 blocks x 1-3 offsets, three ABIs, escapes with nested "
                  "expressions; distinct = distinct case line; non-trivial = at least one state was yielded")

    def gen(self, tier, rnd, n):
        import copy as _copy
        out = []
        for i in range(n):
            abi = abis()[i % len(abis())]
            if out and rnd.random() < 0.12:
                # the directives of the previous case -- its escapes as the bytes they were encoded to -- under an ABI with another
                # pointer size: the same bytes then mean something else (or nothing)
                prev = out[-1]
                other = [a for a in abis() if a["ps"] != prev["ps"]]
                abi = rnd.choice(other)
                case = dict(abi=abi, retcol=abi["retcol"], big=abi["big"], ps=abi["ps"],
                            blocks=[dict(b, entries=[(off, [(nm, list(args), sy) for nm, args, sy in ds]) for off, ds in b["entries"]]) for b in prev["blocks"]])
                if "rev" in prev:
                    case["rev"] = prev["rev"]
            else:
                case = gen_case(rnd, abi, valid=(i % 5 != 0))
            encode_escapes(case)
            out.append(case)
        return out

    def correspondence(self, tier, ctx):
        rnd = C.rng("c15-corr")
        cases = self.gen(tier, rnd, 40000 if tier == "thorough" else 10000)
        lines = [case_line(c) for c in cases]
        got = C.run_driver("c15", lines)
        dis, nontriv, errs = [], set(), {}
        samples = []
        for case, line, g in zip(cases, lines, got):
            ys, exc, _ = run_impl(case)
            exp = " ; ".join(ys) + (" ; end" if exc is None else " ; err " + exc)
            if ys:
                nontriv.add(line)
            if exc:
                errs[exc] = errs.get(exc, 0) + 1
            if exp != g:
                dis.append({"case": line, "implementation": exp, "model": g})
            if len(samples) < 6 and len(ys) > 2:
                samples.append({"case": line, "implementation": exp, "model": g})
        return dict(evaluations=len(lines), distinct_nontrivial=len(nontriv), samples=samples, disagreements=dis[:20],
                    dist={"implementation_exceptions": errs, "clean": len(lines) - sum(errs.values())})

    def oracle(self, tier, ctx, boosted):
        import os
        import subprocess
        import sys
        rnd = C.rng("c15-oracle")
        n = 30000 if (boosted or tier == "thorough") else 6000
        viol, samples, inscope = [], [], 0
        # the same cases evaluated backwards in a fresh interpreter: what an evaluation yields must not depend on what was evaluated before
        tag = "c15-oracle" + str(C.seed())
        env = dict(os.environ, PYTHONPATH="/repo/src:" + C.VERIF)
        pw = subprocess.Popen([sys.executable, "-c", f"import sys; sys.path.insert(0, '/repo/tests'); from harness.c15 import backwards; backwards({tier!r}, {n})"],
                              stdout=subprocess.PIPE, stderr=subprocess.PIPE, text=True, env=env, cwd=C.VERIF)
        mine = {}
        for k, case in enumerate(self.gen(tier, rnd, n)):
            ys, exc, alias_ok = run_impl(case)
            mine[k] = (case, json.dumps([ys, exc]))
            if not alias_ok:
                viol.append(dict(what="a copy of a yielded state changed during later evaluation", input=case_line(case), finding=None))
            if not in_scope(case):
                continue
            inscope += 1
            rys, rerr = ref_eval(case)
            want_exc = {None: (None,), "state": ("CFIStateError",), "value": ("ValueError", "CFIStateError")}[rerr]
            if ys != rys or exc not in want_exc:
                viol.append(dict(what="yielded states or error class differ from the DWARF call-frame rules", input=case_line(case),
                                 expected=[rys, rerr], observed=[ys, exc], finding=None))
            if len(samples) < 3 and len(ys) > 3:
                samples.append({"oracle": "reference evaluator", "case": case_line(case), "yields": ys[:2]})
            if len(viol) >= 10:
                break
        so, se = pw.communicate(timeout=3000)
        if pw.returncode != 0:
            raise RuntimeError("backwards worker failed: " + se[-400:])
        for ln in so.splitlines():
            if not ln.startswith("["):
                continue
            k, res = json.loads(ln)
            if k in mine and mine[k][1] != json.dumps(res) and len(viol) < 12:
                viol.append(dict(what="evaluate_cfi_directives yields something else for the same module when other modules were evaluated before it "
                                      "(forwards in this process vs backwards in a fresh interpreter)", input=case_line(mine[k][0]),
                                 expected=res, observed=json.loads(mine[k][1]), finding=None))
        return dict(evaluations=2 * n, violations=viol, samples=samples + [{"in_scope_cases": inscope}])

    def replay(self, path):
        data = json.load(open(path))
        print(json.dumps(data, indent=1)[:3000])
        return 0


PROP = C15()


def backwards(tier, n):
    """worker: the oracle's cases, evaluated in reverse order; one JSON line [index, [yields, error]] per case"""
    rnd = C.rng("c15-oracle")
    cases = PROP.gen(tier, rnd, n)
    for k in range(len(cases) - 1, -1, -1):
        ys, exc, _ = run_impl(cases[k])
        print(json.dumps([k, [ys, exc]]))
