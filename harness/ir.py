"""Base class of the rewriting-core property checks.  One correspondence run ties the hand model IR/*.v (extracted to
ocaml/build/ir) to RewritingContext.apply(): random modules and modification sets are rewritten by the implementation, the
state handed to the modify layer, every assembled patch handed to insert() and the state left behind are captured, the
model replays the same work list, and the two canonical state dumps must be equal (bytes, blocks, symbols, CFG, function
tables, alignment, offset tables, CFI, entry point).  Each property adds its own specification oracle on top."""
import json
import random

from harness import irgen
from vlib import common as C
from vlib.runner import Prop


class IRProp(Prop):
    extract = ("ir", "ExtractIR.v", "ir_main.ml", "Ir_model")
    allowed_axioms = set()
    genopts = {}
    sizes = {"quick": 1500, "thorough": 10000, "boost": 3000}
    tag = "ir"
    base_trusted = [
        "Coq 8.16.1 kernel",
        "hand model IR/State.v, IR/Modify.v, IR/Edit.v of _modify/{edges,functions,split,join,remove,edit}.py and of "
        "RewritingContext._apply_modifications, tied by the full-state correspondence run (no text pins: a behaviour-preserving "
        "rewrite of the code does not disturb it)",
        "Adt/RefCache.v, Adt/RetCache.v (shared with C20)",
        "extraction: ExtrOcamlBasic only; OCaml driver ocaml/zutil.ml + ir_main.ml",
        "modelled, not verified: the assembler (its Result objects are inputs of the model), prepare_for_rewriting's interval "
        "split / re-join (covered by C10), gtirb's own containers",
    ]

    def seeds(self, tier, tag):
        rnd = C.rng(tag)
        n = self.sizes[tier]
        return [rnd.randrange(1 << 30) for _ in range(n)]

    def make_case(self, seed):
        return irgen.Case(random.Random(seed), **self.genopts)

    def corpus(self):
        """Explicit cases kept under corpus/<id>/*.json: witnesses of known findings and earlier failures; they run first."""
        import glob
        import os
        out = []
        for f in sorted(glob.glob(os.path.join(C.VERIF, "corpus", self.id, "*.json"))):
            out.append(("corpus:" + os.path.basename(f), irgen.Case.from_json(json.load(open(f)))))
        return out

    def run_cases(self, tier, tag):
        out = []
        if not tag.endswith("-boost"):
            for name, case in self.corpus():
                out.append((name, case, irgen.run_impl(case, observe=self.observe)))
        for sd in self.seeds(tier, tag):
            case = self.make_case(sd)
            r = irgen.run_impl(case, observe=self.observe)
            out.append((sd, case, r))
        return out

    def correspondence(self, tier, ctx):
        runs = self.run_cases(tier, self.tag)
        self._runs = runs
        lines = [r["line"] for _, _, r in runs if r["line"]]
        got = C.run_driver("ir", lines)
        dis, samples = [], []
        k = 0
        dist = {"cases": len(runs), "compared": len(lines), "impl_errors": {}, "mods": {"ins": 0, "del": 0, "rep": 0}, "no_model_line": 0,
                "modifications_per_case": {}, "blocks_per_case": {}}
        nontriv = set()
        for sd, case, r in runs:
            for m in case.mods:
                dist["mods"][m[1]] += 1
            dist["modifications_per_case"][len(case.mods)] = dist["modifications_per_case"].get(len(case.mods), 0) + 1
            dist["blocks_per_case"][len(case.blocks)] = dist["blocks_per_case"].get(len(case.blocks), 0) + 1
            if r["error"]:
                dist["impl_errors"][r["error"]] = dist["impl_errors"].get(r["error"], 0) + 1
            if not r["line"]:
                dist["no_model_line"] += 1
                if r["error"] is None:
                    # apply() returned, yet a registered patch never passed through insert(): the model replays the work list through
                    # insert(), so whatever path the bytes took instead is outside it
                    dis.append({"seed": sd, "mods": repr(case.mods), "model_only": ["every patch of a finished rewrite passes through _modify.insert()"],
                                "implementation_only": ["apply() returned without handing a registered patch to insert()"]})
                continue
            model = got[k]
            k += 1
            impl = r["dump"] if r["error"] is None else "err " + r["error"]
            if case.mods:
                nontriv.add(r["line"])
            if model != impl:
                a, b = set(model.split(" | ")), set((impl or "").split(" | "))
                dis.append({"seed": sd, "mods": repr(case.mods), "model_only": sorted(a - b)[:8], "implementation_only": sorted(b - a)[:8]})
            elif len(samples) < 4 and case.mods:
                samples.append({"seed": sd, "mods": repr(case.mods)[:200], "agreed_state": impl[:300]})
        # the comparison lives on rewrites that finish: on the unchanged tree between 2 and 11 percent of the generated cases are refused
        # (overlapping requests, a label the same rewrite removed); a tree on which a quarter or more are refused has lost the inputs
        nerr = sum(dist["impl_errors"].values())
        if runs and nerr * 4 >= len(runs):
            dis.insert(0, {"seed": "-", "mods": "-", "model_only": [f"at most 11% of the generated rewrites are refused (unchanged tree)"],
                           "implementation_only": [f"{nerr} of {len(runs)} generated rewrites raise: {dist['impl_errors']}"]})
        return dict(evaluations=len(lines), distinct_nontrivial=len(nontriv), samples=samples, disagreements=dis[:20], dist=dist)

    observe = None      # optional callback(module, built, rec) evaluated when the modify cache is left (before intervals are re-joined)

    def spec(self, seed, case, r):
        """Violations of the property's text on one implementation run: list of dict(what, finding=None|id)."""
        return []

    def oracle(self, tier, ctx, boosted):
        runs = getattr(self, "_runs", None)
        if runs is None or boosted:
            runs = (runs or []) + self.run_cases("boost" if boosted else tier, self.tag + "-boost")
        bads, n = [], 0
        for sd, case, r in runs:
            n += 1
            for v in self.spec(sd, case, r)[:1]:
                bads.append(dict(what=v["what"], input={"seed": sd, "genopts": self.genopts, "mods": repr(case.mods), "blocks": repr(case.blocks)[:600]},
                                 finding=v.get("finding")))
        bads = [b for b in bads if b["finding"] is None][:10] + [b for b in bads if b["finding"] is not None][:5]
        return dict(evaluations=n, violations=bads, samples=[{"oracle": self.oracle_text}])

    oracle_text = ""

    def replay(self, path):
        d = json.load(open(path))
        print(json.dumps(d, indent=1)[:3000])
        v = d.get("violation")
        if v and "seed" in v.get("input", {}):
            sd = v["input"]["seed"]
            case = dict(self.corpus())[sd] if isinstance(sd, str) else self.make_case(sd)
            r = irgen.run_impl(case, observe=self.observe)
            vs = self.spec(sd, case, r)
            print("replayed:", vs[:1] or "no violation on the current tree")
            return 1 if vs and not vs[0].get("finding") else 0
        return 0
