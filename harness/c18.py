"""C18: retarget_symbol_uses is complete and precise."""
from vlib import common as C
from vlib.runner import Prop

INS = {"jmp": (b"\xe9\0\0\0\0", 1, 0), "call": (b"\xe8\0\0\0\0", 1, 0), "jcc": (b"\x0f\x85\0\0\0\0", 2, 0),
       "lea": (b"\x48\x8d\x05\0\0\0\0", 3, 1), "nop": (b"\x90", None, None), "ret": (b"\xc3", None, None),
       # call *sym@GOTPCREL(%rip) / jmp *sym@GOTPCREL(%rip): control transfers through the symbol whose edge is not direct
       "icall": (b"\xff\x15\0\0\0\0", 2, 0), "ijmp": (b"\xff\x25\0\0\0\0", 2, 0)}
# AArch64: b / bl / b.ne / adrp x0 / add x0,x0,#:lo12: ; the expression sits at the first byte of the (fixed-width) instruction
INS_A64 = {"jmp": (b"\x00\x00\x00\x14", 0, 0), "call": (b"\x00\x00\x00\x94", 0, 0), "jcc": (b"\x01\x00\x00\x54", 0, 0),
           "lea": (b"\x00\x00\x00\x90", 0, 1), "lo12": (b"\x00\x00\x00\x91", 0, 1), "nop": (b"\x1f\x20\x03\xd5", None, None),
           "ret": (b"\xc0\x03\x5f\xd6", None, None)}
# MIPS32 (big-endian): j / jal / bne with their delay-slot nop, lui %hi / addiu %lo; jr $ra
INS_MIPS = {"jmp": (bytes.fromhex("0800000000000000"), 0, 0), "call": (bytes.fromhex("0c00000000000000"), 0, 0), "jcc": (bytes.fromhex("1509000000000000"), 0, 0),
            "lea": (bytes.fromhex("3c080000"), 0, 1), "lo12": (bytes.fromhex("25080000"), 0, 1), "nop": (bytes.fromhex("00000000"), None, None),
            "ret": (bytes.fromhex("03e0000800000000"), None, None)}
TABLES = {"x64": INS, "arm64": INS_A64, "mips32": INS_MIPS}
ISA_NUM = {"x64": 0, "arm64": 2, "mips32": 3}
CALLS = ("call", "icall")
FALLS = ("call", "jcc", "lea", "lo12", "nop", "icall")       # kinds after which execution continues with the next block


def ins(c, kind):
    return TABLES[c.get("isa", "x64")][kind]


def last(blk):
    return blk[-1]


def spec_rules(isa, pie):
    """the ABI's internal/external table as abi.py documents it: (internal attrs, external attrs, access types)"""
    if isa == "x64":
        return [(set(), {"GOT", "PCREL"}, {1}), (set(), {"PLT"}, {0})] if pie else [(set(), {"PLT"}, {0, 1})]
    if isa == "arm64":
        return [({"LO12"}, {"LO12", "GOT"}, {1}), (set(), {"GOT"}, {1})] if pie else []
    return []
ET = {"Branch": 0, "Call": 1, "Fallthrough": 2, "Return": 3}


def gen(rnd):
    """a module description: symbols, code blocks (one instruction each), data words, CFI, forwarding, the retarget map"""
    nsym = rnd.randint(3, 6)
    nblk = rnd.randint(3, 6)
    c = dict(pie=rnd.random() < 0.5)
    # symbol referents: code block k, data word k, proxy k, none
    c["syms"] = []
    for s in range(nsym):
        k = rnd.random()
        c["syms"].append(("code", rnd.randrange(nblk)) if k < 0.5 else ("data", rnd.randrange(2)) if k < 0.7 else ("proxy", rnd.randrange(2)) if k < 0.92 else ("none", 0))
    c["isa"] = rnd.choice(["x64"] * 5 + ["arm64"] * 3 + ["mips32"] * 2)
    tab = TABLES[c["isa"]]

    def instr(kinds):
        kind = rnd.choice(kinds)
        sym = rnd.randrange(nsym) if tab[kind][1] is not None else None
        attrs = []
        if sym is not None and c["syms"][sym][0] in ("proxy", "none") and rnd.random() < 0.7:
            if c["isa"] == "x64":
                attrs = ["PLT"] if tab[kind][2] == 0 else (["GOT", "PCREL"] if c["pie"] else ["PLT"])
            elif c["pie"] and tab[kind][2] == 1:
                attrs = ["GOT"] if kind == "lea" else ["LO12", "GOT"]
        elif sym is not None and kind == "lo12" and rnd.random() < 0.8:
            attrs = ["LO12"] if c["isa"] == "arm64" else ["LO"]
        elif sym is not None and kind == "lea" and c["isa"] == "mips32" and rnd.random() < 0.8:
            attrs = ["HI"]
        elif sym is not None and rnd.random() < 0.1:
            attrs = [rnd.choice(["PLT", "GOT"])]
        return (kind, sym, rnd.choice([0, 0, 4]), attrs)
    finals = ["jmp", "call", "jcc", "lea", "nop", "ret", "jmp", "call"] + (["icall", "ijmp"] if c["isa"] == "x64" else ["lo12"])
    inner = ["nop", "lea"] + (["lo12"] if c["isa"] != "x64" else [])
    c["blocks"] = []
    for b in range(nblk):
        c["blocks"].append([instr(inner) for _ in range(rnd.choice([0, 0, 1, 2]))] + [instr(finals)])
    c["data"] = []
    for w in range(2):
        k = rnd.random()
        c["data"].append(None if k < 0.3 else ("const", rnd.randrange(nsym), rnd.choice([0, 8])) if k < 0.9 else ("addr", rnd.randrange(nsym), rnd.randrange(nsym)))
    c["overlap"] = rnd.randrange(nblk) if rnd.random() < 0.06 else None
    c["cfi"] = [[(t, rnd.choice(list(range(nsym)) + [None])) for t in range(rnd.randint(1, 2))] for _ in range(rnd.randint(0, 2))]
    fwd = {}
    for _ in range(rnd.randint(0, 2)):
        fwd[rnd.randrange(nsym)] = rnd.randrange(nsym)
    c["fwd"] = sorted(fwd.items())
    m = {}
    with_ref = [s for s in range(nsym) if c["syms"][s][0] != "none"]
    for _ in range(rnd.randint(1, 2)):
        a = rnd.randrange(nsym)
        if with_ref:
            m[a] = rnd.choice(with_ref)
    c["map"] = sorted(m.items())
    return c


def functions(c):
    """consecutive runs of blocks up to and including a ret"""
    out, cur = [], []
    for b, blk in enumerate(c["blocks"]):
        kind = last(blk)[0]
        cur.append(b)
        if kind == "ret":
            out.append(cur)
            cur = []
    if cur:
        out.append(cur)
    return out


def return_edges(c, rmap):
    """the return edges the listing asks for when the operands of the calls are read through rmap: every ret of a function
    returns to the block behind each call that targets the function; with no such call, to a proxy (100)"""
    funcs = functions(c)
    func_of = {b: k for k, f in enumerate(funcs) for b in f}
    sites = {}
    for b, blk in enumerate(c["blocks"]):
        kind, sym = last(blk)[0], last(blk)[1]
        if kind in CALLS and b + 1 < len(c["blocks"]):
            ref = c["syms"][rmap.get(sym, sym)]
            if ref[0] == "code":
                sites.setdefault(func_of[ref[1]], set()).add(b + 1)
    out = set()
    for k, f in enumerate(funcs):
        for b in f:
            if last(c["blocks"][b])[0] == "ret":
                for s in sites.get(k, {100}):
                    out.add((b, s))
    return out


def layout(c):
    """per block: offset in the text interval, size; per instruction with an operand: (block, kind, sym, addend, attrs, offset of the
    expression in the interval, is the block's last instruction)"""
    offs, sizes, sites = [], [], []
    pos = 0
    for b, blk in enumerate(c["blocks"]):
        offs.append(pos)
        for j, (kind, sym, addend, attrs) in enumerate(blk):
            enc, eo, _ = ins(c, kind)
            if sym is not None:
                sites.append((b, kind, sym, addend, attrs, pos + eo, j == len(blk) - 1))
            pos += len(enc)
        sizes.append(pos - offs[-1])
    return offs, sizes, sites


def build(c):
    import gtirb
    from gtirb_rewriting import _auxdata
    A = gtirb.SymbolicExpression.Attribute
    ir = gtirb.IR()
    m = gtirb.Module(name="m", isa={"arm64": gtirb.Module.ISA.ARM64, "mips32": gtirb.Module.ISA.MIPS32}.get(c.get("isa"), gtirb.Module.ISA.X64), file_format=gtirb.Module.FileFormat.ELF, byte_order=gtirb.Module.ByteOrder.Big if c.get("isa") == "mips32" else gtirb.Module.ByteOrder.Little, ir=ir)
    m.aux_data["binaryType"] = gtirb.AuxData(["DYN"] if c["pie"] else ["EXEC"], "sequence<string>")
    text = gtirb.Section(name=".text", module=m)
    data = gtirb.Section(name=".data", module=m)
    tbi = gtirb.ByteInterval(contents=b"", address=0x1000, section=text)
    dbi = gtirb.ByteInterval(contents=bytes(16), address=0x4000, section=data)
    dblocks = [gtirb.DataBlock(offset=8 * k, size=8, byte_interval=dbi) for k in range(2)]
    proxies = [gtirb.ProxyBlock(module=m) for _ in range(2)]
    offs, sizes, sites = layout(c)
    cblocks = [gtirb.CodeBlock(offset=o, size=z) for o, z in zip(offs, sizes)]
    content = b"".join(ins(c, k[0])[0] for blk in c["blocks"] for k in blk)
    tbi.contents = content
    tbi.size = len(content)
    for b in cblocks:
        b.byte_interval = tbi
    if c["overlap"] is not None:
        k = c["overlap"]
        gtirb.CodeBlock(offset=offs[k], size=cblocks[k].size, byte_interval=tbi)
    syms = []
    for i, (kind, k) in enumerate(c["syms"]):
        ref = cblocks[k] if kind == "code" else dblocks[k] if kind == "data" else proxies[k] if kind == "proxy" else None
        s = gtirb.Symbol(f"s{i}", module=m)
        if ref is not None:
            s.referent = ref
        syms.append(s)
    for b, kind, sym, addend, attrs, eoff, is_last in sites:
        tbi.symbolic_expressions[eoff] = gtirb.SymAddrConst(addend, syms[sym], {getattr(A, a) for a in attrs})
        ref = syms[sym].referent
        if is_last and ins(c, kind)[2] == 0 and ref is not None and isinstance(ref, (gtirb.CodeBlock, gtirb.ProxyBlock)):
            ir.cfg.add(gtirb.Edge(cblocks[b], ref, gtirb.Edge.Label(gtirb.Edge.Type.Call if kind in CALLS else gtirb.Edge.Type.Branch, conditional=(kind == "jcc"), direct=kind not in ("icall", "ijmp"))))
    for b, blk in enumerate(c["blocks"]):
        if last(blk)[0] in FALLS and b + 1 < len(cblocks):
            ir.cfg.add(gtirb.Edge(cblocks[b], cblocks[b + 1], gtirb.Edge.Label(gtirb.Edge.Type.Fallthrough)))
    for (src, dst) in return_edges(c, {}):
        ir.cfg.add(gtirb.Edge(cblocks[src], cblocks[dst] if dst < 100 else proxies[dst - 100], gtirb.Edge.Label(gtirb.Edge.Type.Return)))
    for w, d in enumerate(c["data"]):
        if d is None:
            continue
        dbi.symbolic_expressions[8 * w] = gtirb.SymAddrConst(d[2], syms[d[1]]) if d[0] == "const" else gtirb.SymAddrAddr(1, 0, syms[d[1]], syms[d[2]])
    if c["cfi"]:
        tab = _auxdata.cfi_directives.get_or_insert(m)
        for k, ds in enumerate(c["cfi"]):
            tab[gtirb.Offset(cblocks[0], k)] = [(f".cfi_tag{t}", [], _auxdata.NULL_UUID if sy is None else syms[sy]) for t, sy in ds]
    if c["fwd"]:
        t = _auxdata.symbol_forwarding.get_or_insert(m)
        for a, b in c["fwd"]:
            t[syms[a]] = syms[b]
    return ir, m, tbi, dbi, cblocks, dblocks, proxies, syms, offs


def node_id(n, cblocks, dblocks, proxies):
    for k, b in enumerate(cblocks):
        if n is b:
            return k
    for k, b in enumerate(dblocks):
        if n is b:
            return 50 + k
    for k, p in enumerate(proxies):
        if n is p:
            return 100 + k
    return 999


def dump(c, objs):
    import gtirb
    from gtirb_rewriting import _auxdata
    ir, m, tbi, dbi, cblocks, dblocks, proxies, syms, offs = objs
    sid = {id(s): i for i, s in enumerate(syms)}
    rows = []
    for k, iv in enumerate((tbi, dbi)):
        for off, e in iv.symbolic_expressions.items():
            add = e.offset
            rows.append(f"{k}+{off}:" + ("C" if isinstance(e, gtirb.SymAddrConst) else "A") + ",".join(str(sid[id(s)]) for s in e.symbols) + f"+{add}" +
                        "{" + ",".join(sorted(str(a.value) for a in e.attributes)) + "}")
    out = ["sites " + ";".join(sorted(rows))]
    rows = []
    for o, ds in (_auxdata.cfi_directives.get(m) or {}).items():
        rows.append(f"{o.displacement}=" + "/".join(d[0][len(".cfi_tag"):] + ("null" if not hasattr(d[2], "name") else f"s{sid[id(d[2])]}") for d in ds))
    out.append("cfi " + ";".join(sorted(rows)))
    out.append("fwd " + ",".join(sorted(f"{sid[id(a)]}>{sid[id(b)]}" for a, b in (_auxdata.symbol_forwarding.get(m) or {}).items())))
    out.append("edges " + ",".join(sorted(f"{node_id(e.source, cblocks, dblocks, proxies)}>{node_id(e.target, cblocks, dblocks, proxies)}:{ET[e.label.type.name]}" for e in ir.cfg)))
    return " | ".join(out)


def model_line(c, objs):
    import gtirb
    from gtirb_rewriting.abi import ABI, _SymExprAttributeRule
    ir, m, tbi, dbi, cblocks, dblocks, proxies, syms, offs = objs
    AT = _SymExprAttributeRule.AccessType
    acc = {AT.CONTROL_FLOW: 0, AT.CODE_REF: 1, AT.DATA: 2}
    p = ["retarget", str(len(syms))]
    for i, s in enumerate(syms):
        r = s.referent
        p.append(f"{i} {-1 if r is None else node_id(r, cblocks, dblocks, proxies)} {1 if isinstance(r, gtirb.ByteBlock) else 0} {1 if isinstance(r, gtirb.CfgNode) else 0}")
    p.append(f"{ISA_NUM[c.get('isa', 'x64')]} 0 {1 if c['pie'] else 0}")      # the model has the ABI's table itself (Sym/AbiRules.v)
    p.append(str(len(c["map"])) + " " + " ".join(f"{a} {b}" for a, b in c["map"]))
    sites = []
    for b, kind, sym, addend, attrs, eoff, is_last in layout(c)[2]:
        A = gtirb.SymbolicExpression.Attribute
        at = sorted(getattr(A, a).value for a in attrs)
        nb = 2 if c["overlap"] == b else 1
        sites.append(f"0 {eoff} 1 1 {sym} {addend} {len(at)} " + " ".join(map(str, at)) + f" {nb} {b if nb == 1 else -1} 1 {ins(c, kind)[2]}")
    for w, d in enumerate(c["data"]):
        if d is None:
            continue
        if d[0] == "const":
            sites.append(f"1 {8 * w} 1 1 {d[1]} {d[2]} 0  1 {50 + w} 0 2")
        else:
            sites.append(f"1 {8 * w} 0 2 {d[1]} {d[2]} 0 0  1 {50 + w} 0 2")
    p.append(str(len(sites)) + " " + " ".join(sites))
    p.append(str(len(c["cfi"])))
    for k, ds in enumerate(c["cfi"]):
        p.append(f"{k} {len(ds)} " + " ".join(f"{t} {-1 if sy is None else sy}" for t, sy in ds))
    p.append(str(len(c["fwd"])) + " " + " ".join(f"{a} {b}" for a, b in c["fwd"]))
    edges = [(node_id(e.source, cblocks, dblocks, proxies), node_id(e.target, cblocks, dblocks, proxies), ET[e.label.type.name]) for e in ir.cfg]
    p.append(str(len(edges)) + " " + " ".join(f"{a} {b} {y}" for a, b, y in sorted(edges)))
    return " ".join(p)


def run_impl(c):
    import gtirb_rewriting
    from gtirb_capstone.instructions import GtirbInstructionDecoder
    from gtirb_rewriting._modify.retarget import retarget_symbol_uses
    objs = build(c)
    line = model_line(c, objs)
    ir, m, tbi, dbi, cblocks, dblocks, proxies, syms, offs = objs
    pre = "rules " + impl_rules(m) + " | "
    try:
        retarget_symbol_uses(m, {syms[a]: syms[b] for a, b in c["map"]}, GtirbInstructionDecoder(m.isa))
    except Exception as e:   # noqa
        return line, pre + "err " + type(e).__name__, objs
    return line, pre + dump(c, objs), objs


def impl_rules(m):
    """the table the ABI object hands out for this module, canonical"""
    from gtirb_rewriting.abi import ABI, _SymExprAttributeRule
    AT = _SymExprAttributeRule.AccessType
    acc = {AT.CONTROL_FLOW: 0, AT.CODE_REF: 1, AT.DATA: 2}

    def l(xs):
        return ",".join(map(str, sorted(xs)))
    return ";".join(sorted(l(a.value for a in r.internal_attrs) + "/" + l(a.value for a in r.external_attrs) + "/" + l(acc[a] for a in r.access_types)
                           for r in ABI.get(m)._sym_expr_rules(m)))


def spec_check(c, out, objs):
    """the property's clauses on the implementation's output (successful calls)"""
    import gtirb
    ir, m, tbi, dbi, cblocks, dblocks, proxies, syms, offs = objs
    rmap = dict(c["map"])
    if " | err" in out or out.startswith("err"):
        return None
    A = gtirb.SymbolicExpression.Attribute
    rules = spec_rules(c.get("isa", "x64"), c["pie"])
    sites = layout(c)[2]
    for b, kind, sym, addend, attrs, eoff, is_last in sites:
        e = tbi.symbolic_expressions[eoff]
        want_sym = rmap.get(sym, sym)
        if e.symbol is not syms[want_sym]:
            return f"operand of block {b} names {e.symbol.name}, expected s{want_sym}"
        if e.offset != addend:
            return f"addend of the operand of block {b} changed"
        got_attrs = {a.name for a in e.attributes}
        if sym not in rmap and got_attrs != set(attrs):
            return f"attributes of an operand that was not retargeted changed"
        if sym in rmap:
            # converted per the ABI's internal/external rule: the rule whose side for the old symbol equals the operand's attributes
            old_def, new_def = c["syms"][sym][0] in ("code", "data"), c["syms"][rmap[sym]][0] in ("code", "data")
            match = [r for r in rules if ins(c, kind)[2] in r[2] and set(attrs) == r[0 if old_def else 1]]
            want_attrs = set(attrs) if len(match) != 1 else match[0][0 if new_def else 1]
            if got_attrs != want_attrs:
                return (f"operand of block {b} ({kind}, {'PIE' if c['pie'] else 'non-PIE'} {c.get('isa', 'x64')}) retargeted from a "
                        f"{'defined' if old_def else 'external'} to a {'defined' if new_def else 'external'} symbol has attributes {sorted(got_attrs)}, the ABI's rule gives {sorted(want_attrs)}")
    for w, d in enumerate(c["data"]):
        if d is not None and d[0] == "const":
            e = dbi.symbolic_expressions[8 * w]
            if e.symbol is not syms[rmap.get(d[1], d[1])] or e.offset != d[2]:
                return f"data word {w} names {e.symbol.name}+{e.offset}"
    # CFI directives and symbolForwarding: every mention of an old symbol now names the new one, nothing else changed
    from gtirb_rewriting import _auxdata
    sid = {id(x): i for i, x in enumerate(syms)}
    tab = _auxdata.cfi_directives.get(m) or {}
    if len(tab) != len(c["cfi"]):
        return f"the CFI table has {len(tab)} entries, had {len(c['cfi'])}"
    for k, ds in enumerate(c["cfi"]):
        gotl = [(d[0], sid.get(id(d[2])) if isinstance(d[2], gtirb.Symbol) else None) for d in tab.get(gtirb.Offset(cblocks[0], k), [])]
        wantl = [(f".cfi_tag{t}", None if sy is None else rmap.get(sy, sy)) for t, sy in ds]
        if gotl != wantl:
            return f"CFI directives at displacement {k} are {gotl}, expected {wantl}"
    gotf = {(sid.get(id(a)), sid.get(id(b))) for a, b in (_auxdata.symbol_forwarding.get(m) or {}).items()}
    wantf = {(a, rmap.get(b, b)) for a, b in c["fwd"]}
    if gotf != wantf:
        return f"symbolForwarding is {sorted(gotf)}, expected {sorted(wantf)}"
    # edges: exactly the branch / call edges of instructions whose operand was retargeted lead to the new referent
    want = set()
    for b, kind, sym, addend, attrs, eoff, is_last in sites:
        if not is_last:
            continue
        tgt = rmap.get(sym, sym) if ins(c, kind)[2] == 0 else sym
        old_ref = c["syms"][sym]
        if ins(c, kind)[2] == 0 and old_ref[0] in ("code", "proxy"):
            new_ref = c["syms"][tgt]
            nid = new_ref[1] if new_ref[0] == "code" else 100 + new_ref[1]
            want.add((b, nid, 1 if kind in CALLS else 0))
    for b, blk in enumerate(c["blocks"]):
        if last(blk)[0] in FALLS and b + 1 < len(cblocks):
            want.add((b, b + 1, 2))
    got = {(node_id(e.source, cblocks, dblocks, proxies), node_id(e.target, cblocks, dblocks, proxies), ET[e.label.type.name]) for e in ir.cfg}
    if {x for x in got if x[2] != 3} != want:
        return f"edges {sorted(x for x in got if x[2] != 3)}, expected {sorted(want)}"
    want_ret = {(a, b, 3) for a, b in return_edges(c, rmap)}
    if {x for x in got if x[2] == 3} != want_ret:
        return "FINDING:C18-return-edges-do-not-follow-retargeted-calls" if return_edges(c, rmap) != return_edges(c, {}) else \
            f"return edges {sorted(x for x in got if x[2] == 3)}, expected {sorted(want_ret)}"
    return None


def gen_requests(rnd):
    """a module and a sequence of RewritingContext.retarget_symbol_uses requests: symbols of the module (with and without referent),
    symbols of another module, the same old symbol twice, chains"""
    while True:
        c = gen(rnd)
        if c["overlap"] is None:
            break
    n = len(c["syms"])
    ids = list(range(n)) + [n, n + 1]               # n: foreign symbol with a referent, n+1: foreign symbol without
    reqs = []
    for _ in range(rnd.randint(2, 6)):
        if reqs and rnd.random() < 0.25:
            reqs.append((rnd.choice(reqs)[0], rnd.choice(ids)))
        else:
            reqs.append((rnd.choice(ids if rnd.random() < 0.25 else ids[:n]), rnd.choice(ids if rnd.random() < 0.3 else ids[:n])))
    return c, reqs


def module_dump(m, syms, nodes):
    """the symbol mentions and the CFG of a module, keyed by address (block objects survive apply(), byte intervals need not)"""
    import gtirb
    from gtirb_rewriting import _auxdata
    sid = {id(x): i for i, x in enumerate(syms)}
    rows = []
    for bi in m.byte_intervals:
        for off, e in bi.symbolic_expressions.items():
            rows.append(f"{bi.address + off:x}:" + ",".join(str(sid.get(id(x))) for x in e.symbols) + "{" + ",".join(sorted(a.name for a in e.attributes)) + "}")
    out = ["sites " + ";".join(sorted(rows))]
    out.append("cfi " + ";".join(sorted(f"{nodes.get(id(o.element_id))}+{o.displacement}=" + "/".join(d[0] + ":" + str(sid.get(id(d[2]))) for d in ds)
                                        for o, ds in (_auxdata.cfi_directives.get(m) or {}).items())))
    out.append("fwd " + ",".join(sorted(f"{sid.get(id(a))}>{sid.get(id(b))}" for a, b in (_auxdata.symbol_forwarding.get(m) or {}).items())))
    out.append("edges " + ",".join(sorted(f"{nodes.get(id(e.source))}>{nodes.get(id(e.target))}:{e.label.type.name}" for e in m.ir.cfg)))
    return " | ".join(out)


def run_requests(c, reqs):
    """returns (model line, implementation's answers, violation text or None)"""
    import gtirb
    import gtirb_rewriting
    from gtirb_capstone.instructions import GtirbInstructionDecoder
    from gtirb_rewriting._modify.retarget import retarget_symbol_uses

    def world():
        objs = build(c)
        ir, m, tbi, dbi, cblocks, dblocks, proxies, syms, offs = objs
        other = gtirb.Module(name="other", isa=m.isa, file_format=m.file_format, ir=ir)
        fsec = gtirb.Section(name=".text", module=other)
        fbi = gtirb.ByteInterval(contents=b"\xc3", address=0x9000, section=fsec)
        fb = gtirb.CodeBlock(offset=0, size=1, byte_interval=fbi)
        allsyms = list(syms) + [gtirb.Symbol("foreign", payload=fb, module=other), gtirb.Symbol("foreign_undef", module=other)]
        nodes = {id(b): f"c{k}" for k, b in enumerate(cblocks)}
        nodes.update({id(b): f"d{k}" for k, b in enumerate(dblocks)})
        nodes.update({id(b): f"p{k}" for k, b in enumerate(proxies)})
        return ir, m, allsyms, nodes
    ir, m, allsyms, nodes = world()
    n = len(c["syms"])
    line = "requests " + str(n + 2) + " " + " ".join(f"{1 if i < n else 0} {1 if allsyms[i].referent is not None else 0}" for i in range(n + 2)) + \
        f" {len(reqs)} " + " ".join(f"{a} {b}" for a, b in reqs)
    ctx = gtirb_rewriting.RewritingContext(m, [])
    outs, accepted = [], []
    for a, b in reqs:
        before = dict(ctx._symbol_retargets)
        try:
            ctx.retarget_symbol_uses(allsyms[a], allsyms[b])
            outs.append("1")
            accepted.append((a, b))
        except ValueError:
            outs.append("0")
            if dict(ctx._symbol_retargets) != before:
                return line, "", "a refused retarget request changed what the context has recorded"
        except Exception as e:   # noqa
            outs.append("E" + type(e).__name__)
    # the property's list of invalid requests, read off the request sequence itself
    seen, want = set(), []
    for a, b in reqs:
        ok = a < n and b < n and allsyms[b].referent is not None and a not in seen
        want.append("1" if ok else "0")
        if ok:
            seen.add(a)
    if outs != want:
        k = next(i for i, (x, y) in enumerate(zip(outs, want)) if x != y)
        a, b = reqs[k]
        return line, "", (f"request {k} of {reqs} (old: {'foreign' if a >= n else 'own'} symbol{' already retargeted' if a in [x for x, _ in accepted[:k]] else ''}, new: "
                          f"{'foreign' if b >= n else 'own'} symbol {'with' if allsyms[b].referent is not None else 'without'} referent) was "
                          f"{'accepted' if outs[k] == '1' else 'answered with ' + outs[k]}, the property wants it {'accepted' if want[k] == '1' else 'refused'}")
    sid = {id(x): i for i, x in enumerate(allsyms)}
    got = "outs " + ",".join(outs) + " | recorded " + ",".join(f"{sid[id(a)]}>{sid[id(b)]}" for a, b in ctx._symbol_retargets.items())
    # applying the context does what retarget_symbol_uses does with the accepted requests on a twin of the module
    viol = None
    try:
        ctx.apply()
        res = module_dump(m, allsyms, nodes)
    except Exception as e:   # noqa
        res = "err"            # which of several offending expressions is met first depends on iteration order
    ir2, m2, allsyms2, nodes2 = world()
    try:
        gtirb_rewriting.RewritingContext(m2, []).apply()      # the same preparation, nothing to retarget
        retarget_symbol_uses(m2, {allsyms2[a]: allsyms2[b] for a, b in accepted}, GtirbInstructionDecoder(m2.isa))
        res2 = module_dump(m2, allsyms2, nodes2)
    except Exception as e:   # noqa
        res2 = "err"
    if res != res2:
        viol = f"a context with the requests {reqs} (accepted: {accepted}) leaves {res[:300]} ; retargeting exactly the accepted pairs gives {res2[:300]}"
    return line, got, viol


class C18(Prop):
    id = "C18"
    gens = []
    prop_file = "Properties/C18.v"
    extract = ("sym", "ExtractSym.v", "sym_main.ml", "Sym_model")
    allowed_axioms = set()
    trusted_base = ["Coq 8.16.1 kernel", "hand model Sym/Retarget.v of _modify/retarget.py, tied by running the extracted model against "
                    "retarget_symbol_uses() on random modules", "hand model Sym/AbiRules.v of the ABI tables (ABI._sym_expr_rules, compared with the table the ABI object hands out for "
                    "every generated module) and of RewritingContext.retarget_symbol_uses (request sequences run against a context)",
                    "the access type of each operand is an input of the model (from the generator's own knowledge of the instruction, "
                    "not from the decoder under test)",
                    "extraction: ExtrOcamlBasic only; OCaml driver ocaml/zutil.ml + sym_main.ml"]
    assumptions = ["at most one expression of a case triggers an error, so that the error class does not depend on set iteration order"]
    level_rule = ("random x86-64 and AArch64 ELF modules (PIE and non-PIE, mixed in one process): code blocks of 1-3 instructions "
                  "(jmp/call/jcc/lea/adrp/add :lo12:, indirect call/jmp) with symbolic operands (internal and external symbols, PLT / GOT+PCREL / "
                  "GOT / LO12 attributes), data words (SymAddrConst, SymAddrAddr), overlapping blocks, CFI directives and symbolForwarding naming "
                  "symbols; 1-2 retarget pairs; sequences of 2-6 requests to a RewritingContext (foreign symbols, symbols without referent, "
                  "repeated old symbols) followed by apply()")

    @staticmethod
    def error_sources(c):
        rmap = dict(c["map"])
        n = 0
        for d in c["data"]:
            if d is not None and d[0] == "addr" and (d[1] in rmap or d[2] in rmap):
                n += 1
        for b, kind, sym, addend, attrs, eoff, is_last in layout(c)[2]:
            if sym not in rmap:
                continue
            if c["overlap"] == b:
                n += 1
            elif is_last and ins(c, kind)[2] == 0 and c["syms"][sym][0] in ("code", "proxy") and c["syms"][rmap[sym]][0] == "data":
                n += 1
        return n

    def cases(self, tier, tag):
        rnd = C.rng(tag)
        n = {"quick": 2500, "thorough": 15000}[tier]
        out = []
        while len(out) < n:
            c = gen(rnd)
            if self.error_sources(c) <= 1:          # the error class must not depend on the iteration order of sets
                out.append(c)
        return out

    def correspondence(self, tier, ctx):
        cases = self.cases(tier, "c18")
        runs = [run_impl(c) for c in cases]
        self._runs = list(zip(cases, runs))
        lines = [l for l, _, _ in runs]
        got = C.run_driver("sym", lines)
        dis = [{"case": l[:300], "implementation": o, "model": g} for (l, o, _), g in zip(runs, got) if o != g]
        # the request layer of RewritingContext against Sym/AbiRules.v: request_retarget
        rnd = C.rng("c18-requests")
        rq = [gen_requests(rnd) for _ in range({"quick": 600, "thorough": 4000}[tier])]
        rruns = [run_requests(c, reqs) for c, reqs in rq]
        rgot = C.run_driver("sym", [l for l, _, _ in rruns])
        dis += [{"case": l[:300], "implementation": o, "model": g} for (l, o, v), g in zip(rruns, rgot) if o != g and not v]
        self._req_viol = [dict(what=v, input={"module": c, "requests": reqs}, finding=None) for (c, reqs), (_, _, v) in zip(rq, rruns) if v]
        lines = lines + [l for l, _, _ in rruns]
        refused = sum(o.count("0") for _, o, _ in rruns)
        errs = {}
        for _, o, _ in runs:
            if " | err " in o:
                o = o[o.index(" | err ") + 3:]
                errs[o] = errs.get(o, 0) + 1
        return dict(evaluations=len(lines), distinct_nontrivial=len(set(lines)), samples=[{"case": l[:160], "result": o[:200]} for l, o, _ in runs[:4]],
                    disagreements=dis[:20], dist={"cases": len(cases), "errors": errs, "request_sequences": len(rq), "requests_refused": refused,
                                                         "arm64_modules": sum(1 for c in cases if c.get("isa") == "arm64"), "mips32_modules": sum(1 for c in cases if c.get("isa") == "mips32")})

    def oracle(self, tier, ctx, boosted):
        runs = getattr(self, "_runs", None)
        if runs is None or boosted:
            cases = self.cases("thorough" if boosted else tier, "c18-boost")
            runs = (runs or []) + [(c, run_impl(c)) for c in cases]
        bads = []
        corpus = {'pie': False, 'syms': [('code', 0), ('code', 2)], 'blocks': [[('ret', None, 0, [])], [('call', 0, 0, [])], [('ret', None, 0, [])]],
                  'data': [None, None], 'overlap': None, 'cfi': [], 'fwd': [], 'map': [(0, 1)]}
        runs = [(corpus, run_impl(corpus))] + list(runs)
        for c, (line, out, objs) in runs:
            v = spec_check(c, out, objs)
            if v and v.startswith("FINDING:"):
                bads.append(dict(what="a call retargeted into another function: the old function still returns to the call site, the new one does not",
                                 input=c, finding=v[len("FINDING:"):]))
            elif v:
                bads.append(dict(what=v, input=c, finding=None))
        bads += getattr(self, "_req_viol", [])
        # retargeting combined with the deletion of the old symbol in one context
        from harness import ctxlevel
        rndc = C.rng("c18-ctx" + ("-boost" if boosted else ""))
        for _ in range(1500 if boosted else 300):
            w = ctxlevel.retarget_and_delete(rndc)
            if w:
                bads.append(dict(what=w, input="ctxlevel.retarget_and_delete()", finding=None))
            w = ctxlevel.retarget_and_delete_block(rndc)
            if w:
                bads.append(dict(what=w, input="ctxlevel.retarget_and_delete_block()", finding=None))
        bads = [b for b in bads if b["finding"] is None][:10] + [b for b in bads if b["finding"]][:2]
        return dict(evaluations=len(runs), violations=bads, samples=[{"oracle": "operands, addends, untouched attributes and the exact edge set after the call"}])

    def replay(self, path):
        import json
        print(json.dumps(json.load(open(path)), indent=1)[:3000])
        return 0


PROP = C18()
